package rules

import (
	"fmt"
	"go/token"
	"go/types"
	"strings"

	"golang.org/x/tools/go/ssa"

	"verif/internal/core"
)

// C02 — hash-based and sticky selection is deterministic and weight-partitioned.
func init() {
	Register(&Rule{
		ID: "C02", Section: "3 C02",
		Technique: "dominance / must-pass path rules on the sort-before-walk discipline (field pair backends/sorted, published sub-cluster list), value-flow of the hash key, sibling-predicate agreement between weight summing and weight walking, comparator census",
		Meta: core.Meta{
			Level: "other",
			Explanation: "Decides order independence and key flow, not the residue arithmetic: (a) stickyBalance calls ensureSortedUnlocked before it walks brr.backends, inside the same brr.Mutex section; ensureSortedUnlocked sorts brr.backends (strict `<` on the immutable AddrInfo) before it sets sorted=true; every store to BalanceRR.backends is followed on every path to return by sorted=false; every store that publishes BalanceGslb.subClusters stores a list on which sort.Sort (strict `<` on Name) was executed after its last append, or is followed by such a sort of the field before a success return; the single-sub-cluster index is taken from that sorted list; (b) the hash key computed once by getHashKey is the value passed unmodified to subClusterBalance, SubCluster.balance, BalanceRR.Balance, stickyBalance and GetHash; getHashKey uses randomness only under len(hashKey)==0 and GetHash only for a nil key; (c) weight partition: stickyBalance's modulus is the sum of exactly the weights of the candidates it then walks (same loop, same guard), its walk subtracts each candidate's weight and selects on value < 0; BalanceGslb's totalWeight sums weights only under weight > 0 in Init and Reload, the same predicate under which subClusterBalance walks. Not covered: murmur3 itself, that `w out of every W` residues land on a given target (arithmetic), uniformity.",
			RuleText:    "obligations = each store to BalanceRR.backends / BalanceGslb.subClusters, each sort call and comparator, each hop of the hash key, each weight accumulation and walk site",
		},
		Run: runC02,
		Mutants: []Mutant{
			{Name: "sorted-reset-conditional", File: "bfe_balance/bal_slb/bal_rr.go", Old: "	brr.backends = backendsNew\n	brr.sorted = false\n	brr.next = 0\n}", New: "	if len(brr.backends) != len(backendsNew) {\n		brr.sorted = false\n	}\n	brr.backends = backendsNew\n	brr.next = 0\n}", Expect: "sorted-flag"},
			{Name: "sticky-skips-sort", File: "bfe_balance/bal_slb/bal_rr.go", Old: "	// select available candidates\n	brr.ensureSortedUnlocked()\n	for _, backendRR := range brr.backends {\n		if backendRR.backend.Avail()", New: "	// select available candidates\n	for _, backendRR := range brr.backends {\n		if backendRR.backend.Avail()", Expect: "sort-before-walk"},
			{Name: "reload-sorts-only-new", File: "bfe_balance/bal_gslb/bal_gslb.go", Old: "	// sort list\n	sort.Sort(SubClusterListSorter{subListNew})\n", New: "	// sort list\n	if len(subListNew) > 1 {\n		sort.Sort(SubClusterListSorter{subListNew[1:]})\n	}\n", Expect: "published-sorted"},
			{Name: "comparator-nonstrict", File: "bfe_balance/bal_gslb/sub_cluster.go", Old: "	return s.l[i].Name < s.l[j].Name", New: "	return s.l[i].Name <= s.l[j].Name", Expect: "comparator"},
			{Name: "key-rehashed-second-level", File: "bfe_balance/bal_gslb/sub_cluster.go", Old: "	return sub.backends.Balance(algor, key)", New: "	return sub.backends.Balance(algor, append([]byte(sub.Name), key...))", Expect: "key-flow"},
			{Name: "random-key-always", File: "bfe_balance/bal_gslb/bal_gslb.go", Old: "	if len(hashKey) == 0 {\n		hashKey = make([]byte, 8)", New: "	if len(hashKey) < 4 {\n		hashKey = make([]byte, 8)", Expect: "key-random"},
			{Name: "slowstart-from-setter", File: "bfe_balance/bal_slb/bal_rr.go", Old: "	brr.Lock()\n	brr.slowStartTime = ssTime\n	brr.Unlock()", New: "	brr.Lock()\n	brr.slowStartTime = ssTime\n	for _, b := range brr.backends {\n		if b.backend.GetRestart() {\n			b.initSlowStart(ssTime)\n		}\n	}\n	brr.Unlock()", Expect: "sticky-weights"},
			{Name: "hash-header-raw-lookup", File: "bfe_balance/bal_gslb/bal_gslb.go", Old: "	if val := req.HttpRequest.Header.Get(header); len(val) > 0 {", New: "	if val := req.HttpRequest.Header.GetDirect(header); len(val) > 0 {", Expect: "key-header"},
			{Name: "modulus-counts-unavailable", File: "bfe_balance/bal_slb/bal_rr.go", Old: "		if backendRR.backend.Avail() && backendRR.weight > 0 {\n			candidates = append(candidates, backendRR)\n			totalWeight += backendRR.weight\n		}", New: "		if backendRR.backend.Avail() && backendRR.weight > 0 {\n			candidates = append(candidates, backendRR)\n		}\n		totalWeight += backendRR.weight", Expect: "sticky-partition"},
			{Name: "gslb-total-includes-negative", File: "bfe_balance/bal_gslb/bal_gslb.go", Old: "		if sub.weight > 0 {\n			totalWeight += sub.weight\n			availableNum += 1", New: "		totalWeight += sub.weight\n		if sub.weight > 0 {\n			availableNum += 1", Expect: "gslb-partition"},
		},
	})
}

// sortedList returns the list value handed to sort.Sort(XxxSorter{list}).
func sortedList(call ssa.CallInstruction) ssa.Value {
	args := call.Common().Args
	if len(args) != 1 {
		return nil
	}
	v := core.StripConv(args[0])
	// struct literal: load of an Alloc whose field 0 was stored
	if u, ok := v.(*ssa.UnOp); ok && u.Op == token.MUL {
		if al, ok := u.X.(*ssa.Alloc); ok {
			for _, r := range *al.Referrers() {
				fa, ok := r.(*ssa.FieldAddr)
				if !ok {
					continue
				}
				for _, rr := range *fa.Referrers() {
					if st, ok := rr.(*ssa.Store); ok && st.Addr == fa {
						return st.Val
					}
				}
			}
		}
	}
	return nil
}

func runC02(c *core.Ctx) {
	const slb, gslb = "bfe_balance/bal_slb", "bfe_balance/bal_gslb"
	if c.P.Pkg(slb) == nil || c.P.Pkg(gslb) == nil {
		c.Missing(slb + " / " + gslb)
		return
	}
	checkComparators(c, "comparator")
	// ---- BalanceRR.backends / sorted field pair -------------------------------------------------
	bf, ok1 := c.P.Obj(slb, "BalanceRR.backends").(*types.Var)
	sf, ok2 := c.P.Obj(slb, "BalanceRR.sorted").(*types.Var)
	if !ok1 || !ok2 {
		c.Missing(slb + ".BalanceRR.backends/sorted")
		return
	}
	for i, st := range core.FieldStores(c.P.SrcFuncs(""), bf) {
		fn := st.Fn
		c.Analysed(core.FuncKey(fn))
		bad := core.MustPass(fn, st.Store, func(x ssa.Instruction) bool {
			s, ok := x.(*ssa.Store)
			if !ok {
				return false
			}
			fa, ok := s.Addr.(*ssa.FieldAddr)
			return ok && core.FieldObj(fa.X, fa.Field) == sf && core.Render(s.Val) == "false"
		})
		// a store inside a loop followed by one after the loop is fine: MustPass covers it
		c.Check("sorted-flag", fmt.Sprintf("%s:store#%d", core.FuncKey(fn), i), st.Store.Pos(), bad == nil, "BalanceRR.backends is replaced/extended and a path reaches return without sorted=false: the next sticky selection walks the list in history order")
	}
	c.Min("sorted-flag", 2)
	for _, st := range core.FieldStores(c.P.SrcFuncs(""), sf) {
		if core.Render(st.Store.Val) != "true" {
			continue
		}
		fn := st.Fn
		okS := false
		for _, s := range core.Calls(fn, "sort.Sort") {
			if l := sortedList(s); l != nil && strings.HasSuffix(core.Render(l), ".backends") && core.Dominates(s.(ssa.Instruction), st.Store) {
				okS = true
			}
		}
		c.Check("sorted-flag", core.FuncKey(fn)+":set-true", st.Store.Pos(), okS && core.FuncKey(fn) == slb+".BalanceRR.ensureSortedUnlocked", "sorted=true must be set only by ensureSortedUnlocked, after sort.Sort(BackendListSorter{brr.backends})")
	}
	// ---- stickyBalance: sort before walk, under the lock ---------------------------------------------
	if fn := c.P.Func(slb, "BalanceRR.stickyBalance"); fn == nil {
		c.Missing(slb + ".BalanceRR.stickyBalance")
	} else {
		c.Analysed(core.FuncKey(fn))
		ls := core.ComputeLockSets(fn)
		es := core.Calls(fn, slb+".BalanceRR.ensureSortedUnlocked")
		nWalk := 0
		for _, in := range allInstrs(fn) {
			ia, ok := in.(*ssa.IndexAddr)
			if !ok || core.Render(ia.X) != "brr.backends" {
				continue
			}
			nWalk++
			okW := false
			for _, e := range es {
				ei := e.(ssa.Instruction)
				if core.Dominates(ei, in) && ls.Holds(ei, "brr.Mutex", "W") && ls.Holds(in, "brr.Mutex", "W") {
					// no unlock between
					rel := core.ReachAvoiding(fn, ei, func(x ssa.Instruction) bool { return x == in }, func(x ssa.Instruction) bool {
						call, ok := x.(*ssa.Call)
						if !ok {
							return false
						}
						k, _, ok := core.LockEvent(&call.Call)
						return ok && k == "Unlock"
					})
					okW = rel == nil
				}
			}
			c.Check("sort-before-walk", fmt.Sprintf("stickyBalance:walk#%d", nWalk), in.Pos(), okW, "stickyBalance reads brr.backends without ensureSortedUnlocked having run earlier in the same brr.Mutex section")
		}
		c.Min("sort-before-walk", 1)
		// partition: modulus = sum over candidates; walk subtracts candidate weights
		var hashCall ssa.CallInstruction
		for _, h := range core.Calls(fn, slb+".GetHash") {
			hashCall = h
		}
		if hashCall == nil {
			c.Check("sticky-partition", "stickyBalance:GetHash", fn.Pos(), false, "stickyBalance does not call GetHash")
		} else {
			mod := core.StripConv(hashCall.Common().Args[1])
			okSum := false
			if phi, isPhi := mod.(*ssa.Phi); isPhi {
				okSum = true
				nAdd := 0
				seen := map[ssa.Value]bool{}
				var walk func(v ssa.Value)
				walk = func(v ssa.Value) {
					if seen[v] {
						return
					}
					seen[v] = true
					switch x := v.(type) {
					case *ssa.Phi:
						for _, e := range x.Edges {
							walk(e)
						}
					case *ssa.Const:
						if !isZero(x) {
							okSum = false
						}
					case *ssa.BinOp:
						e := fieldLoadOf(x.Y, "weight")
						if x.Op != token.ADD || e == nil {
							okSum = false
							return
						}
						nAdd++
						// the same block appends the same element to candidates
						a, p := eligibleByGuards(e, core.GuardsAt(x.Block()))
						appended := false
						for _, in := range x.Block().Instrs {
							if call, ok := in.(*ssa.Call); ok {
								if b, isB := call.Call.Value.(*ssa.Builtin); isB && b.Name() == "append" {
									appended = true
								}
							}
						}
						if !a || !p || !appended {
							okSum = false
						}
						walk(x.X)
					default:
						okSum = false
					}
				}
				walk(phi)
				if nAdd == 0 {
					okSum = false
				}
			}
			c.Check("sticky-partition", "stickyBalance:modulus", hashCall.Pos(), okSum, "the hash modulus must be the sum of the weights of exactly the candidates appended under Avail() && weight > 0 (same block as the append)")
			// walk: value -= e.weight ; select under value < 0 ; e from candidates
			okWalk := false
			for _, in := range allInstrs(fn) {
				b, ok := in.(*ssa.BinOp)
				if !ok || b.Op != token.SUB || fieldLoadOf(b.Y, "weight") == nil {
					continue
				}
				e := fieldLoadOf(b.Y, "weight")
				fromCand := strings.Contains(core.Render(e), "candidates") || strings.Contains(core.Render(e), "builtin:append")
				sel := false
				for _, r := range core.Returns(fn) {
					rv := core.RetVals(r)
					if isNilConst(rv[1]) && fieldLoadOf(rv[0], "backend") != nil && sameElem(fieldLoadOf(rv[0], "backend"), e) {
						sel = core.HasGuard(r.Block(), func(g core.Guard) bool {
							c2, ok := g.Cond.(*ssa.BinOp)
							return ok && g.Pol && c2.Op == token.LSS && c2.X == ssa.Value(b) && isZero(c2.Y)
						})
					}
				}
				if fromCand && sel {
					okWalk = true
				}
			}
			c.Check("sticky-partition", "stickyBalance:walk", fn.Pos(), okWalk, "the cumulative walk must subtract each candidate's weight from the hash value and select that candidate exactly when the value drops below 0")
		}
	}
	publishedSorted(c, "published-sorted")
	// avail index from sorted list (shared with C03's avail-index rule)
	if fld, ok := c.P.Obj(gslb, "BalanceGslb.avail").(*types.Var); ok {
		for _, st := range core.FieldStores(c.P.SrcFuncs(gslb), fld) {
			dom := false
			for _, s := range core.Calls(st.Fn, "sort.Sort") {
				if core.Dominates(s.(ssa.Instruction), st.Store) {
					dom = true
				}
			}
			// the index must come from a loop entered after the sort
			idxAfter := true
			if phi, isPhi := st.Store.Val.(*ssa.Phi); isPhi {
				for _, s := range core.Calls(st.Fn, "sort.Sort") {
					if !core.Dominates(s.(ssa.Instruction), phi) {
						idxAfter = false
					}
				}
			}
			c.Check("single-index", core.FuncKey(st.Fn), st.Store.Pos(), dom && idxAfter, "the single-sub-cluster index must be computed over the list after it was sorted")
		}
		c.Min("single-index", 2)
	}
	// ---- key flow ---------------------------------------------------------------------------------------------
	if fn := c.P.Func(gslb, "BalanceGslb.Balance"); fn == nil {
		c.Missing(gslb + ".BalanceGslb.Balance")
	} else {
		c.Analysed(core.FuncKey(fn))
		hk := core.Calls(fn, gslb+".BalanceGslb.getHashKey")
		if len(hk) != 1 {
			c.Check("key-flow", "BalanceGslb.Balance:getHashKey", fn.Pos(), false, fmt.Sprintf("expected exactly one getHashKey call, found %d", len(hk)))
		} else {
			key := hk[0].(*ssa.Call)
			n := 0
			for _, ci := range append(core.Calls(fn, gslb+".BalanceGslb.subClusterBalance"), core.Calls(fn, gslb+".SubCluster.balance")...) {
				n++
				a := ci.Common().Args[len(ci.Common().Args)-1]
				c.Check("key-flow", fmt.Sprintf("BalanceGslb.Balance:use#%d", n), ci.Pos(), core.StripConv(a) == ssa.Value(key), "the hash key passed here is "+core.Render(a)+", not the unmodified result of getHashKey(req): the two levels / retries would hash different keys")
			}
			c.Min("key-flow", 5)
		}
	}
	passthrough := func(pkg, fname, callee string, argIdx int, param string) {
		fn := c.P.Func(pkg, fname)
		if fn == nil {
			c.Missing(pkg + "." + fname)
			return
		}
		c.Analysed(core.FuncKey(fn))
		cs := core.Calls(fn, callee)
		if len(cs) == 0 {
			c.Check("key-flow", fname+"->"+callee, fn.Pos(), false, fname+" no longer calls "+callee)
			return
		}
		for i, ci := range cs {
			a := core.StripConv(ci.Common().Args[argIdx])
			p, isP := a.(*ssa.Parameter)
			c.Check("key-flow", fmt.Sprintf("%s->%s#%d", fname, callee, i), ci.Pos(), isP && p.Name() == param, fname+" passes "+core.Render(a)+" instead of its own key parameter")
		}
	}
	passthrough(gslb, "SubCluster.balance", slb+".BalanceRR.Balance", 2, "key")
	passthrough(slb, "BalanceRR.Balance", slb+".BalanceRR.stickyBalance", 1, "key")
	passthrough(slb, "BalanceRR.stickyBalance", slb+".GetHash", 0, "key")
	passthrough(gslb, "BalanceGslb.subClusterBalance", slb+".GetHash", 0, "value")
	// randomness only for empty keys
	for _, spec := range []struct{ pkg, fn, guard string }{{gslb, "BalanceGslb.getHashKey", "(builtin:len("}, {slb, "GetHash", "(value == nil"}} {
		fn := c.P.Func(spec.pkg, spec.fn)
		if fn == nil {
			c.Missing(spec.pkg + "." + spec.fn)
			continue
		}
		c.Analysed(core.FuncKey(fn))
		n := 0
		for _, ci := range core.AllCalls(fn) {
			k := core.CalleeKey(ci.Common())
			if !strings.HasPrefix(k, "math/rand.") && k != "time.Now" {
				continue
			}
			n++
			ok := core.HasGuard(ci.(ssa.Instruction).Block(), func(g core.Guard) bool {
				if !g.Pol || !strings.HasPrefix(g.Str, spec.guard) {
					return false
				}
				return strings.HasSuffix(g.Str, " == 0)") || strings.HasSuffix(g.Str, " == nil)")
			})
			c.Check("key-random", fmt.Sprintf("%s:%s#%d", spec.fn, k, n), ci.Pos(), ok, spec.fn+" uses "+k+" outside the empty-key case; equal keys would no longer select equal targets")
		}
	}
	c.Min("key-random", 2)
	// ---- sticky selection walks the configured weights ------------------------------------------
	// stickyBalance skips the slow-start bookkeeping (checkSlowStart), so nothing on its path undoes
	// a provisional slow-start weight: the slow-start writers of BackendRR.weight may only run from
	// checkSlowStart, and checkSlowStart only from BalanceRR.Balance under algor != WrrSticky.
	for callee, allowed := range map[string][]string{
		slb + ".BackendRR.initSlowStart":   {slb + ".BalanceRR.checkSlowStart"},
		slb + ".BackendRR.updateSlowStart": {slb + ".BalanceRR.checkSlowStart"},
		slb + ".BalanceRR.checkSlowStart":  {slb + ".BalanceRR.Balance"},
	} {
		okSet := map[string]bool{}
		for _, a := range allowed {
			okSet[a] = true
		}
		n := 0
		for _, f := range c.P.SrcFuncs("") {
			for _, ci := range core.Calls(f, callee) {
				n++
				k := core.FuncKey(f)
				ok := okSet[k]
				if ok && callee == slb+".BalanceRR.checkSlowStart" {
					ok = core.HasGuard(ci.(ssa.Instruction).Block(), func(g core.Guard) bool {
						b, isB := g.Cond.(*ssa.BinOp)
						return isB && core.Render(b.X) == "algor" && core.Render(b.Y) == "2" && ((b.Op == token.NEQ && g.Pol) || (b.Op == token.EQL && !g.Pol))
					})
				}
				c.Check("sticky-weights", callee+"<-"+k, ci.Pos(), ok, k+" calls "+callee+": slow-start weights (weight=1 at restart, ramping afterwards) may only be installed/advanced by checkSlowStart, which Balance skips for sticky selection; otherwise a sticky sub-cluster partitions the hash space by a provisional weight forever")
			}
		}
		if n == 0 {
			c.Check("sticky-weights", callee+"<-none", token.NoPos, false, callee+" has no caller")
		}
	}
	if k, ok := c.P.Obj(slb, "WrrSticky").(*types.Const); !ok || k.Val().ExactString() != "2" {
		c.Check("sticky-weights", "WrrSticky-const", token.NoPos, false, "bal_slb.WrrSticky is not the constant 2 the rule was reviewed with")
	}
	// ---- header-derived keys are read through the canonicalising accessor ----------------------------
	// A configured header name (HashHeader) is not canonical in general; Header.GetDirect is a raw
	// map access. Every header read in the balancer packages with a non-constant key must use
	// Header.Get / a canonicalised key; constant keys must be in canonical form.
	nHdr := 0
	for _, f := range c.P.SrcFuncs("bfe_balance") {
		for _, ci := range core.AllCalls(f) {
			k := core.CalleeKey(ci.Common())
			if k != "bfe_http.Header.GetDirect" && k != "bfe_http.Header.Get" {
				if lk, isLk := ssa.Instruction(ci).(*ssa.Call); isLk {
					_ = lk
				}
				continue
			}
			nHdr++
			key := ci.Common().Args[1]
			ok := true
			why := ""
			if s, isConst := core.ConstString(key); isConst {
				if k == "bfe_http.Header.GetDirect" && s != textprotoCanonical(s) {
					ok, why = false, "constant key "+s+" is not in canonical form"
				}
			} else if k == "bfe_http.Header.GetDirect" {
				ok, why = false, "non-constant key "+core.Render(key)+" is looked up with the raw accessor GetDirect"
			}
			c.Check("key-header", fmt.Sprintf("%s:%s#%d", core.FuncKey(f), k[strings.LastIndex(k, ".")+1:], nHdr), ci.Pos(), ok, "the hash key is read from a request header without canonicalising the header name ("+why+"): a configured name such as x-client-id is never found and selection silently falls back to the client address or a random key")
		}
		// raw indexing of a Header map with a non-constant key
		core.Instrs(f, func(in ssa.Instruction) {
			if lk, ok := in.(*ssa.Lookup); ok && core.TypeStr(lk.X.Type()) == "bfe_http.Header" {
				if _, isConst := core.ConstString(lk.Index); !isConst {
					nHdr++
					c.Check("key-header", fmt.Sprintf("%s:index#%d", core.FuncKey(f), nHdr), in.Pos(), false, "request header map indexed with the non-constant key "+core.Render(lk.Index)+" (no canonicalisation)")
				}
			}
		})
	}
	c.Min("key-header", 1)
	// ---- gslb partition: totalWeight sums weight only under weight > 0 ----------------------------------------------------
	for _, fname := range []string{"BalanceGslb.Init", "BalanceGslb.Reload"} {
		fn := c.P.Func(gslb, fname)
		if fn == nil {
			c.Missing(gslb + "." + fname)
			continue
		}
		n := 0
		for _, in := range allInstrs(fn) {
			b, ok := in.(*ssa.BinOp)
			if !ok || b.Op != token.ADD {
				continue
			}
			if phi, isPhi := b.X.(*ssa.Phi); !isPhi || phi.Comment != "totalWeight" {
				continue
			}
			n++
			pos := core.HasGuard(in.Block(), func(g core.Guard) bool {
				c2, ok := g.Cond.(*ssa.BinOp)
				return ok && g.Pol && c2.Op == token.GTR && isZero(c2.Y) && core.StripConv(c2.X) == core.StripConv(b.Y)
			}) || func() bool {
				e := fieldLoadOf(b.Y, "weight")
				if e == nil {
					return false
				}
				_, p := eligibleByGuards(e, core.GuardsAt(in.Block()))
				return p
			}()
			c.Check("gslb-partition", fmt.Sprintf("%s:sum#%d", fname, n), in.Pos(), pos, "totalWeight accumulates a weight that was not tested > 0, while subClusterBalance walks only sub-clusters with weight > 0: the modulus and the walked weights would disagree")
		}
		if n == 0 {
			c.Check("gslb-partition", fname+":sum", fn.Pos(), false, "no accumulation into totalWeight found")
		}
		// stored into bal.totalWeight
		okStore := false
		for _, in := range allInstrs(fn) {
			if st, ok := in.(*ssa.Store); ok && core.Render(st.Addr) == "bal.totalWeight" {
				if phi, isPhi := st.Val.(*ssa.Phi); isPhi && phi.Comment == "totalWeight" {
					okStore = true
				}
			}
		}
		c.Check("gslb-partition", fname+":store", fn.Pos(), okStore, "bal.totalWeight must be assigned the accumulated sum")
	}
}

// publishedSorted checks, for every store to BalanceGslb.subClusters, that the
// stored list is the value sort.Sort was applied to (whole list, after its
// last append) or that the field is sorted in place before every success
// return. Shared by C02 (order independence of hashing) and C14 (the list is
// a function of the configuration only, not of reload history).
func publishedSorted(c *core.Ctx, rule string) {
	const gslb = "bfe_balance/bal_gslb"
	// ---- published sub-cluster list is sorted ---------------------------------------------------------------
	scf, ok := c.P.Obj(gslb, "BalanceGslb.subClusters").(*types.Var)
	if !ok {
		c.Missing(gslb + ".BalanceGslb.subClusters")
		return
	}
	byFn := map[*ssa.Function][]core.StoreTo{}
	for _, st := range core.FieldStores(c.P.SrcFuncs(""), scf) {
		byFn[st.Fn] = append(byFn[st.Fn], st)
	}
	nPub := 0
	for fn, sts := range byFn {
		c.Analysed(core.FuncKey(fn))
		sorts := core.Calls(fn, "sort.Sort")
		for i, st := range sts {
			nPub++
			ok := false
			why := ""
			for _, s := range sorts {
				l := sortedList(s)
				if l == nil {
					continue
				}
				si := s.(ssa.Instruction)
				// (A) the stored value itself was sorted before the store, with no append in between
				if core.StripConv(l) == core.StripConv(st.Store.Val) && core.Dominates(si, st.Store) {
					ok = true
				}
				// (B) the field is sorted in place after the store on every path to a success return
				if core.Render(l) == core.Render(st.Store.Addr) {
					bad := core.ReachAvoiding(fn, st.Store, func(x ssa.Instruction) bool { return x == si }, func(x ssa.Instruction) bool {
						r, isR := x.(*ssa.Return)
						if !isR {
							return false
						}
						rv := core.RetVals(r)
						return len(rv) == 0 || isNilConst(rv[len(rv)-1])
					})
					if bad == nil {
						ok = true
					} else {
						why = "a success return is reachable without the in-place sort"
					}
				}
			}
			c.Check(rule, fmt.Sprintf("%s:store#%d", core.FuncKey(fn), i), st.Store.Pos(), ok,
				"the list stored into BalanceGslb.subClusters is not the value sort.Sort was applied to (whole list, after the last append), nor is the field sorted afterwards on every success path; hash selection would depend on map iteration / reload history. "+why)
		}
	}
	if nPub < 2 {
		c.Check(rule, "stores", token.NoPos, false, fmt.Sprintf("expected stores to BalanceGslb.subClusters in Init and Reload, found %d", nPub))
	}
}

// textprotoCanonical is net/textproto.CanonicalMIMEHeaderKey for ASCII tokens.
func textprotoCanonical(s string) string {
	b := []byte(s)
	upper := true
	for i, c := range b {
		if upper && 'a' <= c && c <= 'z' {
			b[i] = c - 32
		} else if !upper && 'A' <= c && c <= 'Z' {
			b[i] = c + 32
		}
		upper = c == '-'
	}
	return string(b)
}

// checkComparators: the two list comparators are strict orders on the unique
// immutable keys (AddrInfo, Name). Shared by C02 and C14.
func checkComparators(c *core.Ctx, rule string) {
	const slb, gslb = "bfe_balance/bal_slb", "bfe_balance/bal_gslb"
	// ---- comparators ------------------------------------------------------------------------
	for _, cmp := range []struct{ pkg, typ, field string }{{slb, "BackendListSorter", "AddrInfo"}, {gslb, "SubClusterListSorter", "Name"}} {
		fn := c.P.Func(cmp.pkg, cmp.typ+".Less")
		if fn == nil {
			c.Missing(cmp.pkg + "." + cmp.typ + ".Less")
			continue
		}
		c.Analysed(core.FuncKey(fn))
		ok := false
		for _, r := range core.Returns(fn) {
			if b, isB := r.Results[0].(*ssa.BinOp); isB && b.Op == token.LSS && strings.HasSuffix(core.Render(b.X), "."+cmp.field) && strings.HasSuffix(core.Render(b.Y), "."+cmp.field) &&
				strings.Contains(core.Render(b.X), "[i]") && strings.Contains(core.Render(b.Y), "[j]") {
				ok = true
			}
		}
		c.Check(rule, cmp.typ+".Less", fn.Pos(), ok, cmp.typ+".Less must be the strict order `l[i]."+cmp.field+" < l[j]."+cmp.field+"` on the unique immutable key (a non-strict or different key makes the walked order depend on history)")
	}
}
