package rules

import (
	"fmt"
	"go/token"
	"go/types"
	"strings"

	"golang.org/x/tools/go/ssa"

	"verif/internal/core"
)

// C02 — hash-based and sticky selection is deterministic and weight-partitioned.
func init() {
	Register(&Rule{
		ID: "C02", Section: "3 C02",
		Technique: "dominance / must-pass path rules on the sort-before-walk discipline (field pair backends/sorted, published sub-cluster list), value-flow of the hash key, sibling-predicate agreement between weight summing and weight walking, comparator census",
		Meta: core.Meta{
			Level:       "other",
			Explanation: "Decides order independence and key flow, not the residue arithmetic: (a) stickyBalance calls ensureSortedUnlocked before it walks brr.backends, inside the same brr.Mutex section; ensureSortedUnlocked sorts brr.backends (strict `<` on the immutable AddrInfo) before it sets sorted=true; every store to BalanceRR.backends is followed on every path to return by sorted=false; every store that publishes BalanceGslb.subClusters stores a list on which sort.Sort (strict `<` on Name) was executed after its last append, or is followed by such a sort of the field before a success return; the single-sub-cluster index is taken from that sorted list; (b) the hash key computed once by getHashKey is the value passed unmodified to subClusterBalance, SubCluster.balance, BalanceRR.Balance, stickyBalance and GetHash; getHashKey uses randomness only under len(hashKey)==0 and GetHash only for a nil key; (c) weight partition: stickyBalance's modulus is the sum of exactly the weights of the candidates it then walks (same loop, same guard), its walk subtracts each candidate's weight and selects on value < 0; BalanceGslb's totalWeight sums weights only under weight > 0 in Init and Reload, the same predicate under which subClusterBalance walks. Not covered: murmur3 itself, that `w out of every W` residues land on a given target (arithmetic), uniformity. Robustness: rules are decided on regions (anchor + private helpers + closures) and by role: the list read that must follow ensureSortedUnlocked is any load of BalanceRR.backends in stickyBalance's region (walked in place or handed to a helper), the lock is identified by type (BalanceRR.Mutex), the modulus / walked list / stored totalWeight / single index are followed backwards through phis, helper results and helper parameters, key parameters are identified by position, guards are accepted in either spelling/polarity and through predicate helpers, a helper that sorts its parameter on every path counts as the sort, comparators may return the strict comparison or true/false under it. Not decided: a candidate list or modulus that travels through a struct field or a closure-captured variable (reported as not followable).",
			RuleText:    "obligations = each store to BalanceRR.backends / BalanceGslb.subClusters, each sort call and comparator, each hop of the hash key, each weight accumulation and walk site",
		},
		Run: runC02,
		Mutants: []Mutant{
			{Name: "sorted-reset-conditional", File: "bfe_balance/bal_slb/bal_rr.go", Old: "	brr.backends = backendsNew\n	brr.sorted = false\n	brr.next = 0\n}", New: "	if len(brr.backends) != len(backendsNew) {\n		brr.sorted = false\n	}\n	brr.backends = backendsNew\n	brr.next = 0\n}", Expect: "sorted-flag"},
			{Name: "sticky-skips-sort", File: "bfe_balance/bal_slb/bal_rr.go", Old: "	// select available candidates\n	brr.ensureSortedUnlocked()\n	for _, backendRR := range brr.backends {\n		if backendRR.backend.Avail()", New: "	// select available candidates\n	for _, backendRR := range brr.backends {\n		if backendRR.backend.Avail()", Expect: "sort-before-walk"},
			{Name: "reload-sorts-only-new", File: "bfe_balance/bal_gslb/bal_gslb.go", Old: "	// sort list\n	sort.Sort(SubClusterListSorter{subListNew})\n", New: "	// sort list\n	if len(subListNew) > 1 {\n		sort.Sort(SubClusterListSorter{subListNew[1:]})\n	}\n", Expect: "published-sorted"},
			{Name: "comparator-nonstrict", File: "bfe_balance/bal_gslb/sub_cluster.go", Old: "	return s.l[i].Name < s.l[j].Name", New: "	return s.l[i].Name <= s.l[j].Name", Expect: "comparator"},
			{Name: "key-rehashed-second-level", File: "bfe_balance/bal_gslb/sub_cluster.go", Old: "	return sub.backends.Balance(algor, key)", New: "	return sub.backends.Balance(algor, append([]byte(sub.Name), key...))", Expect: "key-flow"},
			{Name: "random-key-always", File: "bfe_balance/bal_gslb/bal_gslb.go", Old: "	if len(hashKey) == 0 {\n		hashKey = make([]byte, 8)", New: "	if len(hashKey) < 4 {\n		hashKey = make([]byte, 8)", Expect: "key-random"},
			{Name: "slowstart-from-setter", File: "bfe_balance/bal_slb/bal_rr.go", Old: "	brr.Lock()\n	brr.slowStartTime = ssTime\n	brr.Unlock()", New: "	brr.Lock()\n	brr.slowStartTime = ssTime\n	for _, b := range brr.backends {\n		if b.backend.GetRestart() {\n			b.initSlowStart(ssTime)\n		}\n	}\n	brr.Unlock()", Expect: "sticky-weights"},
			{Name: "hash-header-raw-lookup", File: "bfe_balance/bal_gslb/bal_gslb.go", Old: "	if val := req.HttpRequest.Header.Get(header); len(val) > 0 {", New: "	if val := req.HttpRequest.Header.GetDirect(header); len(val) > 0 {", Expect: "key-header"},
			{Name: "modulus-counts-unavailable", File: "bfe_balance/bal_slb/bal_rr.go", Old: "		if backendRR.backend.Avail() && backendRR.weight > 0 {\n			candidates = append(candidates, backendRR)\n			totalWeight += backendRR.weight\n		}", New: "		if backendRR.backend.Avail() && backendRR.weight > 0 {\n			candidates = append(candidates, backendRR)\n		}\n		totalWeight += backendRR.weight", Expect: "sticky-partition"},
			{Name: "gslb-total-includes-negative", File: "bfe_balance/bal_gslb/bal_gslb.go", Old: "		if sub.weight > 0 {\n			totalWeight += sub.weight\n			availableNum += 1", New: "		totalWeight += sub.weight\n		if sub.weight > 0 {\n			availableNum += 1", Expect: "gslb-partition"},
			// behaviour-preserving refactorings: the verdict must not change
			{Name: "silent-cross-pick-helper", File: "bfe_balance/bal_gslb/bal_gslb.go", Old: "\tbackend, err = current.balance(balAlgor, hashKey)\n\tif err == nil {\n\t\treturn backend, nil\n\t}\n\n\t// fail to get backend from current sub-cluster\n\tstate.ErrBkNoBackend.Inc(1)\n\treq.ErrCode = bfe_basic.ErrBkNoBackend\n\treq.ErrMsg = fmt.Sprintf(\"cluster[%s], sub[%s], err[%s]\", bal.name, current.Name, err.Error())\n\tlog.Logger.Info(\"gslb.Balance():no backend(cross cluster):cluster[%s], sub[%s], err[%s]\",\n\t\tbal.name, current.Name, err.Error())\n\n\treturn backend, bfe_basic.ErrBkCrossRetryBalance\n}\n", New: "\tbackend, err = crossPick(current, balAlgor, hashKey)\n\tif err == nil {\n\t\treturn backend, nil\n\t}\n\n\t// fail to get backend from current sub-cluster\n\tstate.ErrBkNoBackend.Inc(1)\n\treq.ErrCode = bfe_basic.ErrBkNoBackend\n\treq.ErrMsg = fmt.Sprintf(\"cluster[%s], sub[%s], err[%s]\", bal.name, current.Name, err.Error())\n\tlog.Logger.Info(\"gslb.Balance():no backend(cross cluster):cluster[%s], sub[%s], err[%s]\",\n\t\tbal.name, current.Name, err.Error())\n\n\treturn backend, bfe_basic.ErrBkCrossRetryBalance\n}\n\n// crossPick balances inside the sub cluster chosen for the cross retry.\nfunc crossPick(target *SubCluster, algor int, key []byte) (*bal_backend.BfeBackend, error) {\n\treturn target.balance(algor, key)\n}\n", Silent: true},
			{Name: "silent-sort-helper", File: "bfe_balance/bal_slb/bal_rr.go", Old: "\tif !brr.sorted {\n\t\tsort.Sort(BackendListSorter{brr.backends})\n\t\tbrr.sorted = true\n\t}\n}\n", New: "\tif !brr.sorted {\n\t\tsortByAddr(brr.backends)\n\t\tbrr.sorted = true\n\t}\n}\n\nfunc sortByAddr(list BackendList) {\n\tsort.Sort(BackendListSorter{list})\n}\n", Silent: true},
			{Name: "silent-reload-weights-helper", File: "bfe_balance/bal_gslb/bal_gslb.go", Old: "\t// calc total_weight\n\ttotalWeight := 0\n\tavailableNum := 0\n\tlastAvailIndex := 0\n\n\tfor index, sub := range subListNew {\n\t\tif sub.weight > 0 {\n\t\t\ttotalWeight += sub.weight\n\t\t\tavailableNum += 1\n\t\t\tlastAvailIndex = index\n\t\t}\n\t}\n\n\tif totalWeight == 0 {\n\t\t// should never be here, as ClusterCheck return true\n\t\tlog.Logger.Critical(\"gslb total weight = 0 [%s]\", bal.name)\n\t\treturn fmt.Errorf(\"gslb total weight = 0 [%s]\", bal.name)\n\t}\n\n\tbal.totalWeight = totalWeight\n\n\tif availableNum == 1 {\n\t\tbal.single = true\n\t\tbal.avail = lastAvailIndex\n\t} else {\n\t\tbal.single = false\n\t}\n\n\t// update gslb.subClusters\n\tbal.subClusters = subListNew\n\n\treturn nil\n}\n", New: "\t// calc total_weight\n\ttotalWeight, availableNum, lastAvailIndex := sumPositive(subListNew)\n\n\tif totalWeight == 0 {\n\t\t// should never be here, as ClusterCheck return true\n\t\tlog.Logger.Critical(\"gslb total weight = 0 [%s]\", bal.name)\n\t\treturn fmt.Errorf(\"gslb total weight = 0 [%s]\", bal.name)\n\t}\n\n\tbal.totalWeight = totalWeight\n\n\tif availableNum == 1 {\n\t\tbal.single = true\n\t\tbal.avail = lastAvailIndex\n\t} else {\n\t\tbal.single = false\n\t}\n\n\t// update gslb.subClusters\n\tbal.subClusters = subListNew\n\n\treturn nil\n}\n\n// sumPositive returns the weight sum and the number of sub clusters with\n// positive weight, and the index of the last of them.\nfunc sumPositive(list SubClusterList) (total int, num int, last int) {\n\tfor index, item := range list {\n\t\tif item.weight > 0 {\n\t\t\ttotal += item.weight\n\t\t\tnum++\n\t\t\tlast = index\n\t\t}\n\t}\n\treturn total, num, last\n}\n", Silent: true},
			{Name: "silent-inverted-sticky-guard", File: "bfe_balance/bal_slb/bal_rr.go", Old: "\tif algor != WrrSticky {\n\t\tbrr.checkSlowStart()\n\t}\n", New: "\tif WrrSticky == algor {\n\t\t// no slow start bookkeeping for sticky sessions\n\t} else {\n\t\tbrr.checkSlowStart()\n\t}\n", Silent: true},
			{Name: "silent-mirrored-empty-key-test", File: "bfe_balance/bal_gslb/bal_gslb.go", Old: "\tif len(hashKey) == 0 {\n\t\thashKey = make([]byte, 8)", New: "\tif 0 == len(hashKey) {\n\t\thashKey = make([]byte, 8)", Silent: true},
			{Name: "silent-comparator-if-form", File: "bfe_balance/bal_gslb/sub_cluster.go", Old: "\treturn s.l[i].Name < s.l[j].Name", New: "\tif s.l[i].Name < s.l[j].Name {\n\t\treturn true\n\t}\n\treturn false", Silent: true},
			{Name: "silent-gethash-renamed-param", File: "bfe_balance/bal_slb/bal_rr.go", Old: "func GetHash(value []byte, base uint) int {\n\tvar hash uint64\n\n\tif value == nil {\n\t\thash = uint64(rand.Uint32())\n\t} else {\n\t\thash = murmur3.Sum64(value)\n\t}\n", New: "func GetHash(data []byte, base uint) int {\n\tvar hash uint64\n\n\tif nil == data {\n\t\thash = uint64(rand.Uint32())\n\t} else {\n\t\thash = murmur3.Sum64(data)\n\t}\n", Silent: true},
			{Name: "silent-sticky-debug-logging", File: "bfe_balance/bal_slb/bal_rr.go", Old: "\tvalue := GetHash(key, uint(totalWeight))\n", New: "\tvalue := GetHash(key, uint(totalWeight))\n\tif bfe_debug.DebugBal {\n\t\tlog.Logger.Debug(\"rr_bal:sticky residue[%d] of [%d]\", value, totalWeight)\n\t}\n", Silent: true},
			{Name: "silent-sticky-walk-index-loop", File: "bfe_balance/bal_slb/bal_rr.go", Old: "\tfor _, backendRR := range candidates {\n\t\tvalue -= backendRR.weight\n\t\tif value < 0 {\n\t\t\treturn backendRR.backend, nil\n\t\t}\n\t}\n", New: "\tfor i := 0; i < len(candidates); i++ {\n\t\tvalue -= candidates[i].weight\n\t\tif value >= 0 {\n\t\t\tcontinue\n\t\t}\n\t\treturn candidates[i].backend, nil\n\t}\n", Silent: true},
			{Name: "silent-sticky-predicate-helper-renamed-key", File: "bfe_balance/bal_slb/bal_rr.go", Old: "func (brr *BalanceRR) stickyBalance(key []byte) (*backend.BfeBackend, error) {\n\tcandidates := make(BackendList, 0, brr.Len())\n\ttotalWeight := 0\n\n\tbrr.Lock()\n\tdefer brr.Unlock()\n\n\t// select available candidates\n\tbrr.ensureSortedUnlocked()\n\tfor _, backendRR := range brr.backends {\n\t\tif backendRR.backend.Avail() && backendRR.weight > 0 {\n", New: "func stickyUsable(item *BackendRR) bool {\n\tif !item.backend.Avail() {\n\t\treturn false\n\t}\n\treturn item.weight > 0\n}\n\nfunc (brr *BalanceRR) stickyBalance(hashKey []byte) (*backend.BfeBackend, error) {\n\tkey := hashKey\n\tcandidates := make(BackendList, 0, brr.Len())\n\ttotalWeight := 0\n\n\tbrr.Lock()\n\tdefer brr.Unlock()\n\n\t// select available candidates\n\tbrr.ensureSortedUnlocked()\n\tfor _, backendRR := range brr.backends {\n\t\tif stickyUsable(backendRR) {\n", Silent: true},
			{Name: "silent-subcluster-walk-nested-positive", File: "bfe_balance/bal_gslb/bal_gslb.go", Old: "\t\tif subCluster.weight <= 0 {\n\t\t\tcontinue\n\t\t}\n\t\tw -= subCluster.weight\n\t\t// got it\n\t\tif w < 0 {\n\t\t\tbreak\n\t\t}\n", New: "\t\tif 0 < subCluster.weight {\n\t\t\tw -= subCluster.weight\n\t\t\t// got it\n\t\t\tif w < 0 {\n\t\t\t\tbreak\n\t\t\t}\n\t\t}\n", Silent: true},
		},
	})
}

// sortedList returns the list value handed to sort.Sort(XxxSorter{list}).
func sortedList(call ssa.CallInstruction) ssa.Value {
	args := call.Common().Args
	if len(args) != 1 {
		return nil
	}
	v := core.StripConv(args[0])
	// struct literal: load of an Alloc whose field 0 was stored
	if u, ok := v.(*ssa.UnOp); ok && u.Op == token.MUL {
		if al, ok := u.X.(*ssa.Alloc); ok {
			for _, r := range *al.Referrers() {
				fa, ok := r.(*ssa.FieldAddr)
				if !ok {
					continue
				}
				for _, rr := range *fa.Referrers() {
					if st, ok := rr.(*ssa.Store); ok && st.Addr == fa {
						return st.Val
					}
				}
			}
		}
	}
	return nil
}

// balMustPassOut: every path from `from` to a return of its function passes an
// instruction satisfying pred (a call of a helper that always does counts);
// when the function is a private helper with one call site and a path escapes,
// the obligation continues after that call site.
func balMustPassOut(p *core.Prog, from ssa.Instruction, pred func(ssa.Instruction) bool) bool {
	lifted := core.LiftMust(pred, 2)
	for depth := 0; depth < 4; depth++ {
		fn := from.Parent()
		if core.MustPass(fn, from, lifted) == nil {
			return true
		}
		s := balSingleSite(p, fn)
		if s == nil {
			return false
		}
		from = s.(ssa.Instruction)
	}
	return false
}

func runC02(c *core.Ctx) {
	defer balAcquire(c.P)()
	const slb, gslb = "bfe_balance/bal_slb", "bfe_balance/bal_gslb"
	if c.P.Pkg(slb) == nil || c.P.Pkg(gslb) == nil {
		c.Missing(slb + " / " + gslb)
		return
	}
	checkComparators(c, "comparator")
	// ---- BalanceRR.backends / sorted field pair -------------------------------------------------
	bf, ok1 := c.P.Obj(slb, "BalanceRR.backends").(*types.Var)
	sf, ok2 := c.P.Obj(slb, "BalanceRR.sorted").(*types.Var)
	if !ok1 || !ok2 {
		c.Missing(slb + ".BalanceRR.backends/sorted")
		return
	}
	for i, st := range core.FieldStores(c.P.SrcFuncs(""), bf) {
		fn := st.Fn
		c.Analysed(core.FuncKey(fn))
		okF := balMustPassOut(c.P, st.Store, func(x ssa.Instruction) bool {
			s, ok := x.(*ssa.Store)
			if !ok {
				return false
			}
			fa, ok := s.Addr.(*ssa.FieldAddr)
			if !ok || core.FieldObj(fa.X, fa.Field) != sf {
				return false
			}
			kv, isK := balConstBool(s.Val)
			return isK && !kv
		})
		// a store inside a loop followed by one after the loop is fine: MustPass covers it
		c.Check("sorted-flag", fmt.Sprintf("%s:store#%d", core.FuncKey(fn), i), st.Store.Pos(), okF, "BalanceRR.backends is replaced/extended and a path reaches return without sorted=false: the next sticky selection walks the list in history order")
	}
	c.Min("sorted-flag", 2)
	ensure := c.P.Func(slb, "BalanceRR.ensureSortedUnlocked")
	for _, st := range core.FieldStores(c.P.SrcFuncs(""), sf) {
		if kv, isK := balConstBool(st.Store.Val); !isK || !kv {
			continue
		}
		fn := st.Fn
		okS := false
		for _, ev := range balSortEvents(fn) {
			if balLoadOfField(ev.List, bf) != nil && core.Dominates(ev.At, st.Store) {
				okS = true
			}
		}
		c.Check("sorted-flag", core.FuncKey(fn)+":set-true", st.Store.Pos(), okS && ensure != nil && balInRegion(c.P, ensure, fn), "sorted=true must be set only by ensureSortedUnlocked, after sort.Sort(BackendListSorter{brr.backends})")
	}
	// ---- stickyBalance: sort before walk, under the lock ---------------------------------------------
	if fn := c.P.Func(slb, "BalanceRR.stickyBalance"); fn == nil {
		c.Missing(slb + ".BalanceRR.stickyBalance")
	} else {
		c.Analysed(core.FuncKey(fn))
		const lockKey = slb + ".BalanceRR.Mutex"
		ls := core.ComputeLockSetsT(fn)
		// calls of ensureSortedUnlocked, as instructions of stickyBalance itself
		isEnsure := map[ssa.Instruction]bool{}
		for _, cc := range balCtxCalls(c.P, fn, balCallMatcher(slb+".BalanceRR.ensureSortedUnlocked")) {
			isEnsure[cc.RootInstr()] = true
		}
		// every read of the list field in stickyBalance's region (walked in place or handed to a helper)
		nWalk := 0
		for _, in := range balRegionInstrs(c.P, fn) {
			u, ok := in.(*ssa.UnOp)
			if !ok || u.Op != token.MUL {
				continue
			}
			fa, ok := u.X.(*ssa.FieldAddr)
			if !ok || core.FieldObj(fa.X, fa.Field) != bf {
				continue
			}
			ri := balRootInstr(c.P, fn, in)
			if ri != nil && isEnsure[ri] {
				continue // the sort itself
			}
			nWalk++
			okW := false
			if ri != nil {
				for ei := range isEnsure {
					if core.Dominates(ei, ri) && ls.Holds(ei, lockKey, "W") && ls.Holds(ri, lockKey, "W") {
						// no unlock between
						rel := core.ReachAvoiding(fn, ei, func(x ssa.Instruction) bool { return x == ri }, func(x ssa.Instruction) bool {
							call, ok := x.(*ssa.Call)
							if !ok {
								return false
							}
							k, _, ok := core.LockEvent(&call.Call)
							return ok && k == "Unlock"
						})
						if rel == nil {
							okW = true
						}
					}
				}
			}
			c.Check("sort-before-walk", fmt.Sprintf("stickyBalance:walk#%d", nWalk), in.Pos(), okW, "stickyBalance reads brr.backends without ensureSortedUnlocked having run earlier in the same brr.Mutex section")
		}
		c.Min("sort-before-walk", 1)
		// partition: modulus = sum over candidates; walk subtracts candidate weights
		hashCalls := balCtxCalls(c.P, fn, balCallMatcher(slb+".GetHash"))
		if len(hashCalls) == 0 {
			c.Check("sticky-partition", "stickyBalance:GetHash", fn.Pos(), false, "stickyBalance does not call GetHash")
		} else {
			hashCall := hashCalls[len(hashCalls)-1]
			// the modulus, followed backwards through phis, helper results and helper parameters, is 0 plus
			// weights of elements that are eligible, and appended to the candidate list, where they are added
			okSum := true
			nAdd := 0
			appends := map[*ssa.Call]bool{}
			seen := map[ssa.Value]bool{}
			var walk func(v ssa.Value, d int)
			walk = func(v ssa.Value, d int) {
				v = core.StripConv(v)
				if seen[v] {
					return
				}
				seen[v] = true
				if d > 12 {
					okSum = false
					return
				}
				switch x := v.(type) {
				case *ssa.Phi:
					for _, e := range x.Edges {
						walk(e, d+1)
					}
				case *ssa.Const:
					if !isZero(x) {
						okSum = false
					}
				case *ssa.BinOp:
					if x.Op != token.ADD {
						okSum = false
						return
					}
					acc, term := x.X, x.Y
					e := fieldLoadOf(term, "weight")
					if e == nil {
						acc, term = x.Y, x.X
						e = fieldLoadOf(term, "weight")
					}
					if e == nil {
						okSum = false
						return
					}
					nAdd++
					a, p := balEligibleAt(c.P, e, x.Block())
					// the same element is appended to the candidates under the same conditions: in the
					// same block, or in a block that this one dominates / is dominated by without a
					// branch in between (same guards)
					appended := false
					for _, in := range allInstrs(x.Parent()) {
						call, ok := in.(*ssa.Call)
						if !ok {
							continue
						}
						for _, ae := range appendedElems(call) {
							if (ae == e || balSameList(ae, e)) && sameGuards(call.Block(), x.Block()) {
								appended = true
								appends[call] = true
							}
						}
					}
					if !a || !p || !appended {
						okSum = false
					}
					walk(acc, d+1)
				case *ssa.Call, *ssa.Extract:
					_, h, idx := balCallee(x)
					if h == nil || !balInRegion(c.P, fn, h) {
						okSum = false
						return
					}
					for _, r := range balResults(h, idx) {
						walk(r, d+1)
					}
				case *ssa.Parameter:
					if u := balUp(c.P, x); u != ssa.Value(x) {
						walk(u, d+1)
					} else {
						okSum = false
					}
				default:
					okSum = false
				}
			}
			walk(hashCall.Arg(1), 0)
			if nAdd == 0 {
				okSum = false
			}
			c.Check("sticky-partition", "stickyBalance:modulus", hashCall.Call.Pos(), okSum, "the hash modulus must be the sum of the weights of exactly the candidates appended under Avail() && weight > 0 (same block as the append)")
			// walk: value -= e.weight ; select under value < 0 ; e from candidates
			// fromCandidates: the list walked is, on every way it is produced, built by those appends
			var fromAppends func(v ssa.Value, d int, seen map[ssa.Value]bool) bool
			fromAppends = func(v ssa.Value, d int, seen map[ssa.Value]bool) bool {
				v = balUp(c.P, v)
				if d > 10 {
					return false
				}
				if seen[v] {
					return true
				}
				seen[v] = true
				switch x := v.(type) {
				case *ssa.MakeSlice:
					return true
				case *ssa.Const:
					return x.Value == nil
				case *ssa.Phi:
					for _, e := range x.Edges {
						if !fromAppends(e, d+1, seen) {
							return false
						}
					}
					return true
				case *ssa.Call:
					if appends[x] {
						return fromAppends(x.Call.Args[0], d+1, seen)
					}
					if _, h, idx := balCallee(x); h != nil && balInRegion(c.P, fn, h) {
						for _, r := range balResults(h, idx) {
							if !fromAppends(r, d+1, seen) {
								return false
							}
						}
						return true
					}
				case *ssa.Extract:
					if _, h, idx := balCallee(x); h != nil && balInRegion(c.P, fn, h) {
						for _, r := range balResults(h, idx) {
							if !fromAppends(r, d+1, seen) {
								return false
							}
						}
						return true
					}
				}
				return false
			}
			okWalk := false
			for _, in := range balRegionInstrs(c.P, fn) {
				b, ok := in.(*ssa.BinOp)
				if !ok || b.Op != token.SUB || fieldLoadOf(b.Y, "weight") == nil {
					continue
				}
				e := fieldLoadOf(b.Y, "weight")
				list, _ := balElemOfList(e)
				fromCand := list != nil && len(appends) > 0 && fromAppends(list, 0, map[ssa.Value]bool{})
				sel := false
				g := b.Parent()
				for _, r := range core.Returns(g) {
					rv := core.RetVals(r)
					var hit bool
					if g == fn {
						hit = len(rv) == 2 && isNilConst(rv[1]) && fieldLoadOf(rv[0], "backend") != nil && sameElem(fieldLoadOf(rv[0], "backend"), e)
					} else {
						// a helper that returns the chosen element (or its backend) to stickyBalance
						hit = len(rv) >= 1 && (core.StripConv(rv[0]) == core.StripConv(e) || (fieldLoadOf(rv[0], "backend") != nil && sameElem(fieldLoadOf(rv[0], "backend"), e)))
					}
					if !hit {
						continue
					}
					for _, f := range balFactsAt(r.Block()) {
						if f.G().CmpIs(token.LSS, func(v ssa.Value) bool { return v == ssa.Value(b) }, isZero) {
							sel = true
						}
					}
				}
				if fromCand && sel {
					okWalk = true
				}
			}
			c.Check("sticky-partition", "stickyBalance:walk", fn.Pos(), okWalk, "the cumulative walk must subtract each candidate's weight from the hash value and select that candidate exactly when the value drops below 0")
		}
	}
	publishedSorted(c, "published-sorted")
	// avail index from sorted list (shared with C03's avail-index rule)
	if fld, ok := c.P.Obj(gslb, "BalanceGslb.avail").(*types.Var); ok {
		for _, st := range core.FieldStores(c.P.SrcFuncs(gslb), fld) {
			// the index must come from a loop over the list, entered after the list was sorted
			sorted, _, why := balIndexOfSorted(c.P, st.Store.Val, balFactsAt(st.Store.Block()))
			c.Check("single-index", availKey(c.P, st.Fn), st.Store.Pos(), sorted, "the single-sub-cluster index must be computed over the list after it was sorted. "+why)
		}
		c.Min("single-index", 2)
	}
	// ---- key flow ---------------------------------------------------------------------------------------------
	if fn := c.P.Func(gslb, "BalanceGslb.Balance"); fn == nil {
		c.Missing(gslb + ".BalanceGslb.Balance")
	} else {
		c.Analysed(core.FuncKey(fn))
		hk := balCtxCalls(c.P, fn, balCallMatcher(gslb+".BalanceGslb.getHashKey"))
		if len(hk) != 1 {
			c.Check("key-flow", "BalanceGslb.Balance:getHashKey", fn.Pos(), false, fmt.Sprintf("expected exactly one getHashKey call, found %d", len(hk)))
		} else {
			key, _ := hk[0].Call.(*ssa.Call)
			n := 0
			for _, cc := range balCtxCalls(c.P, fn, balCallMatcher(gslb+".BalanceGslb.subClusterBalance", gslb+".SubCluster.balance")) {
				n++
				a := cc.Arg(len(cc.Call.Common().Args) - 1)
				// the key may reach the call through a helper's result when the getHashKey call itself sits in that helper
				okKey := key != nil && core.StripConv(a) == ssa.Value(key)
				if !okKey && key != nil {
					os := balOrigins(c.P, a)
					okKey = len(os) == 1 && os[0] == ssa.Value(key)
				}
				c.Check("key-flow", fmt.Sprintf("BalanceGslb.Balance:use#%d", n), cc.Call.Pos(), okKey, "the hash key passed here is "+core.Render(a)+", not the unmodified result of getHashKey(req): the two levels / retries would hash different keys")
			}
			c.Min("key-flow", 5)
		}
	}
	// the key parameter (identified by position) is handed on unmodified
	passthrough := func(pkg, fname, callee string, argIdx int, paramIdx int) {
		fn := c.P.Func(pkg, fname)
		if fn == nil {
			c.Missing(pkg + "." + fname)
			return
		}
		c.Analysed(core.FuncKey(fn))
		cs := balCtxCalls(c.P, fn, balCallMatcher(callee))
		if len(cs) == 0 {
			c.Check("key-flow", fname+"->"+callee, fn.Pos(), false, fname+" no longer calls "+callee)
			return
		}
		for i, cc := range cs {
			a := cc.Arg(argIdx)
			pa := balAsParam(a)
			c.Check("key-flow", fmt.Sprintf("%s->%s#%d", fname, callee, i), cc.Call.Pos(), pa != nil && pa.Parent() == fn && balParamIndex(pa) == paramIdx, fname+" passes "+core.Render(a)+" instead of its own key parameter")
		}
	}
	passthrough(gslb, "SubCluster.balance", slb+".BalanceRR.Balance", 2, 2)
	passthrough(slb, "BalanceRR.Balance", slb+".BalanceRR.stickyBalance", 1, 2)
	passthrough(slb, "BalanceRR.stickyBalance", slb+".GetHash", 0, 1)
	passthrough(gslb, "BalanceGslb.subClusterBalance", slb+".GetHash", 0, 1)
	// randomness only for empty keys
	for _, spec := range []struct {
		pkg, fn string
		empty   func(fn *ssa.Function, f balFact) bool
	}{
		{gslb, "BalanceGslb.getHashKey", func(fn *ssa.Function, f balFact) bool {
			// len(k) == 0 for a byte slice k
			return f.G().CmpIs(token.EQL, func(v ssa.Value) bool {
				call, ok := core.StripConv(v).(*ssa.Call)
				if !ok {
					return false
				}
				b, isB := call.Call.Value.(*ssa.Builtin)
				return isB && b.Name() == "len" && len(call.Call.Args) == 1
			}, isZero)
		}},
		{slb, "GetHash", func(fn *ssa.Function, f balFact) bool {
			// the key parameter (#0) is nil
			v, isNil, ok := balNilTest(f)
			return ok && isNil && balIsParam(c.P, v, fn, 0)
		}},
	} {
		fn := c.P.Func(spec.pkg, spec.fn)
		if fn == nil {
			c.Missing(spec.pkg + "." + spec.fn)
			continue
		}
		c.Analysed(core.FuncKey(fn))
		n := 0
		for _, in := range balRegionInstrs(c.P, fn) {
			ci, isCall := in.(ssa.CallInstruction)
			if !isCall {
				continue
			}
			k := core.CalleeKey(ci.Common())
			if !strings.HasPrefix(k, "math/rand.") && k != "time.Now" {
				continue
			}
			n++
			ok := false
			for _, f := range balFactsCtx(c.P, in.Block()) {
				if spec.empty(fn, f) {
					ok = true
				}
			}
			c.Check("key-random", fmt.Sprintf("%s:%s#%d", spec.fn, k, n), ci.Pos(), ok, spec.fn+" uses "+k+" outside the empty-key case; equal keys would no longer select equal targets")
		}
	}
	c.Min("key-random", 2)
	// ---- sticky selection walks the configured weights ------------------------------------------
	// stickyBalance skips the slow-start bookkeeping (checkSlowStart), so nothing on its path undoes
	// a provisional slow-start weight: the slow-start writers of BackendRR.weight may only run from
	// checkSlowStart, and checkSlowStart only from BalanceRR.Balance under algor != WrrSticky.
	sticky := balConstOf(c.P, slb, "WrrSticky")
	balFn := c.P.Func(slb, "BalanceRR.Balance")
	for _, callee := range []string{slb + ".BackendRR.initSlowStart", slb + ".BackendRR.updateSlowStart", slb + ".BalanceRR.checkSlowStart"} {
		allowedKey := slb + ".BalanceRR.checkSlowStart"
		if callee == slb+".BalanceRR.checkSlowStart" {
			allowedKey = slb + ".BalanceRR.Balance"
		}
		allowedFn := c.P.Func(slb, strings.TrimPrefix(allowedKey, slb+"."))
		n := 0
		for _, f := range c.P.SrcFuncs("") {
			for _, ci := range core.Calls(f, callee) {
				n++
				k := core.FuncKey(f)
				ok := allowedFn != nil && balInRegion(c.P, allowedFn, f)
				if ok && callee == slb+".BalanceRR.checkSlowStart" {
					ok = false
					for _, ft := range balFactsCtx(c.P, ci.(ssa.Instruction).Block()) {
						if sticky != "" && ft.G().CmpIs(token.NEQ, func(v ssa.Value) bool { return balIsParam(c.P, ft.res(v), balFn, 1) }, func(v ssa.Value) bool { return balConstIs(v, sticky) }) {
							ok = true
						}
					}
				}
				c.Check("sticky-weights", callee+"<-"+k, ci.Pos(), ok, k+" calls "+callee+": slow-start weights (weight=1 at restart, ramping afterwards) may only be installed/advanced by checkSlowStart, which Balance skips for sticky selection; otherwise a sticky sub-cluster partitions the hash space by a provisional weight forever")
			}
		}
		if n == 0 {
			c.Check("sticky-weights", callee+"<-none", token.NoPos, false, callee+" has no caller")
		}
	}
	if sticky != "2" {
		c.Check("sticky-weights", "WrrSticky-const", token.NoPos, false, "bal_slb.WrrSticky is not the constant 2 the rule was reviewed with")
	}
	// ---- header-derived keys are read through the canonicalising accessor ----------------------------
	// A configured header name (HashHeader) is not canonical in general; Header.GetDirect is a raw
	// map access. Every header read in the balancer packages with a non-constant key must use
	// Header.Get / a canonicalised key; constant keys must be in canonical form.
	nHdr := 0
	for _, f := range c.P.SrcFuncs("bfe_balance") {
		for _, ci := range core.AllCalls(f) {
			k := core.CalleeKey(ci.Common())
			if k != "bfe_http.Header.GetDirect" && k != "bfe_http.Header.Get" {
				continue
			}
			nHdr++
			key := ci.Common().Args[1]
			ok := true
			why := ""
			if s, isConst := core.ConstString(key); isConst {
				if k == "bfe_http.Header.GetDirect" && s != textprotoCanonical(s) {
					ok, why = false, "constant key "+s+" is not in canonical form"
				}
			} else if k == "bfe_http.Header.GetDirect" {
				ok, why = false, "non-constant key "+core.Render(key)+" is looked up with the raw accessor GetDirect"
			}
			c.Check("key-header", fmt.Sprintf("%s:%s#%d", core.FuncKey(f), k[strings.LastIndex(k, ".")+1:], nHdr), ci.Pos(), ok, "the hash key is read from a request header without canonicalising the header name ("+why+"): a configured name such as x-client-id is never found and selection silently falls back to the client address or a random key")
		}
		// raw indexing of a Header map with a non-constant key
		core.Instrs(f, func(in ssa.Instruction) {
			if lk, ok := in.(*ssa.Lookup); ok && core.TypeStr(lk.X.Type()) == "bfe_http.Header" {
				if _, isConst := core.ConstString(lk.Index); !isConst {
					nHdr++
					c.Check("key-header", fmt.Sprintf("%s:index#%d", core.FuncKey(f), nHdr), in.Pos(), false, "request header map indexed with the non-constant key "+core.Render(lk.Index)+" (no canonicalisation)")
				}
			}
		})
	}
	c.Min("key-header", 1)
	// ---- gslb partition: totalWeight sums weight only under weight > 0 ----------------------------------------------------
	twF, _ := c.P.Obj(gslb, "BalanceGslb.totalWeight").(*types.Var)
	for _, fname := range []string{"BalanceGslb.Init", "BalanceGslb.Reload"} {
		fn := c.P.Func(gslb, fname)
		if fn == nil {
			c.Missing(gslb + "." + fname)
			continue
		}
		// the value stored into bal.totalWeight, followed backwards through phis, helper results and
		// helper parameters, is 0 plus weights that were tested > 0 where they are added
		n := 0
		okStore := false
		for _, st := range core.FieldStores(balRegion(c.P, fn), twF) {
			okStore = true
			seen := map[ssa.Value]bool{}
			var walk func(v ssa.Value, d int)
			walk = func(v ssa.Value, d int) {
				v = core.StripConv(v)
				if seen[v] || d > 12 {
					return
				}
				seen[v] = true
				switch x := v.(type) {
				case *ssa.Phi:
					for _, e := range x.Edges {
						walk(e, d+1)
					}
				case *ssa.Const:
					if !isZero(x) {
						okStore = false
					}
				case *ssa.BinOp:
					if x.Op != token.ADD {
						okStore = false
						return
					}
					// accumulator + term: the accumulator is the operand that leads back to this sum
					acc, term := x.X, x.Y
					if _, isPhi := core.StripConv(acc).(*ssa.Phi); !isPhi {
						if _, isPhi2 := core.StripConv(term).(*ssa.Phi); isPhi2 {
							acc, term = term, acc
						}
					}
					n++
					pos := false
					for _, f := range balFactsCtx(c.P, x.Block()) {
						if f.G().CmpIs(token.GTR, func(v ssa.Value) bool { return core.StripConv(f.res(v)) == core.StripConv(term) }, isZero) {
							pos = true
						}
					}
					if e := fieldLoadOf(term, "weight"); e != nil && !pos {
						_, pos = balEligibleAt(c.P, e, x.Block())
					}
					c.Check("gslb-partition", fmt.Sprintf("%s:sum#%d", fname, n), x.Pos(), pos, "totalWeight accumulates a weight that was not tested > 0, while subClusterBalance walks only sub-clusters with weight > 0: the modulus and the walked weights would disagree")
					walk(acc, d+1)
				case *ssa.Call, *ssa.Extract:
					_, h, idx := balCallee(x)
					if h == nil || !balInRegion(c.P, fn, h) {
						okStore = false
						return
					}
					for _, r := range balResults(h, idx) {
						walk(r, d+1)
					}
				case *ssa.Parameter:
					if u := balUp(c.P, x); u != ssa.Value(x) {
						walk(u, d+1)
					} else {
						okStore = false
					}
				default:
					okStore = false
				}
			}
			walk(st.Store.Val, 0)
		}
		if n == 0 {
			c.Check("gslb-partition", fname+":sum", fn.Pos(), false, "no accumulation into totalWeight found")
		}
		c.Check("gslb-partition", fname+":store", fn.Pos(), okStore, "bal.totalWeight must be assigned the accumulated sum")
	}
}

// sameGuards: blocks a and b are executed under the same branch conditions
// (one dominates the other and no conditional branch separates them, or they
// are the same block).
func sameGuards(a, b *ssa.BasicBlock) bool {
	if a == b {
		return true
	}
	ga, gb := core.GuardsAt(a), core.GuardsAt(b)
	if len(ga) != len(gb) {
		return false
	}
	for i := range ga {
		if ga[i].Cond != gb[i].Cond || ga[i].Pol != gb[i].Pol {
			return false
		}
	}
	return a.Dominates(b) || b.Dominates(a)
}

// publishedSorted checks, for every store to BalanceGslb.subClusters, that the
// stored list is the value sort.Sort was applied to (whole list, after its
// last append) or that the field is sorted in place before every success
// return. Shared by C02 (order independence of hashing) and C14 (the list is
// a function of the configuration only, not of reload history). A helper that
// sorts its parameter on every path counts as the sort.
func publishedSorted(c *core.Ctx, rule string) {
	defer balAcquire(c.P)()
	const gslb = "bfe_balance/bal_gslb"
	// ---- published sub-cluster list is sorted ---------------------------------------------------------------
	scf, ok := c.P.Obj(gslb, "BalanceGslb.subClusters").(*types.Var)
	if !ok {
		c.Missing(gslb + ".BalanceGslb.subClusters")
		return
	}
	byFn := map[*ssa.Function][]core.StoreTo{}
	var order []*ssa.Function
	for _, st := range core.FieldStores(c.P.SrcFuncs(""), scf) {
		if _, seen := byFn[st.Fn]; !seen {
			order = append(order, st.Fn)
		}
		byFn[st.Fn] = append(byFn[st.Fn], st)
	}
	nPub := 0
	for _, fn := range order {
		sts := byFn[fn]
		c.Analysed(core.FuncKey(fn))
		sorts := balSortEvents(fn)
		for i, st := range sts {
			nPub++
			ok := false
			why := ""
			for _, s := range sorts {
				l := s.List
				si := s.At
				// (A) the stored value itself was sorted before the store, with no append in between
				if core.StripConv(l) == core.StripConv(st.Store.Val) && core.Dominates(si, st.Store) {
					ok = true
				}
				// (B) the field is sorted in place after the store on every path to a success return
				if core.Render(l) == core.Render(st.Store.Addr) {
					bad := core.ReachAvoiding(fn, st.Store, func(x ssa.Instruction) bool { return x == si }, func(x ssa.Instruction) bool {
						r, isR := x.(*ssa.Return)
						if !isR {
							return false
						}
						rv := core.RetVals(r)
						return len(rv) == 0 || isNilConst(rv[len(rv)-1])
					})
					if bad == nil {
						ok = true
					} else {
						why = "a success return is reachable without the in-place sort"
					}
				}
			}
			c.Check(rule, fmt.Sprintf("%s:store#%d", core.FuncKey(fn), i), st.Store.Pos(), ok,
				"the list stored into BalanceGslb.subClusters is not the value sort.Sort was applied to (whole list, after the last append), nor is the field sorted afterwards on every success path; hash selection would depend on map iteration / reload history. "+why)
		}
	}
	if nPub < 2 {
		c.Check(rule, "stores", token.NoPos, false, fmt.Sprintf("expected stores to BalanceGslb.subClusters in Init and Reload, found %d", nPub))
	}
}

// textprotoCanonical is net/textproto.CanonicalMIMEHeaderKey for ASCII tokens.
func textprotoCanonical(s string) string {
	b := []byte(s)
	upper := true
	for i, c := range b {
		if upper && 'a' <= c && c <= 'z' {
			b[i] = c - 32
		} else if !upper && 'A' <= c && c <= 'Z' {
			b[i] = c + 32
		}
		upper = c == '-'
	}
	return string(b)
}

// indexParamOf descends from a value through loads and field selections to the
// first slice element access and returns the parameter used as its index.
func indexParamOf(v ssa.Value) *ssa.Parameter {
	for d := 0; d < 8 && v != nil; d++ {
		switch x := core.StripConv(v).(type) {
		case *ssa.UnOp:
			v = x.X
		case *ssa.FieldAddr:
			v = x.X
		case *ssa.Field:
			v = x.X
		case *ssa.IndexAddr:
			return balAsParam(x.Index)
		case *ssa.Index:
			return balAsParam(x.Index)
		default:
			return nil
		}
	}
	return nil
}

// checkComparators: the two list comparators are strict orders on the unique
// immutable keys (AddrInfo, Name). Shared by C02 and C14. The operands are
// identified by structure (field key of the element indexed by Less's first /
// second parameter), either spelling of the strict comparison is accepted.
func checkComparators(c *core.Ctx, rule string) {
	defer balAcquire(c.P)()
	const slb, gslb = "bfe_balance/bal_slb", "bfe_balance/bal_gslb"
	// ---- comparators ------------------------------------------------------------------------
	for _, cmp := range []struct{ pkg, typ, field string }{{slb, "BackendListSorter", "AddrInfo"}, {gslb, "SubClusterListSorter", "Name"}} {
		fn := c.P.Func(cmp.pkg, cmp.typ+".Less")
		if fn == nil {
			c.Missing(cmp.pkg + "." + cmp.typ + ".Less")
			continue
		}
		c.Analysed(core.FuncKey(fn))
		// every return conforms: the strict comparison itself, `true` under it, or `false` under its negation
		isKeyOf := func(idx int) func(ssa.Value) bool {
			return func(v ssa.Value) bool {
				if fieldLoadOf(v, cmp.field) == nil {
					return false
				}
				pa := indexParamOf(v)
				return pa != nil && pa.Parent() == fn && balParamIndex(pa) == idx
			}
		}
		ok := true
		nRet := 0
		for _, r := range core.Returns(fn) {
			nRet++
			rv := core.RetVals(r)
			if len(rv) != 1 {
				ok = false
				continue
			}
			// receiver is parameter #0, i is #1, j is #2
			if kv, isK := balConstBool(rv[0]); isK {
				want := token.GEQ
				if kv {
					want = token.LSS
				}
				hit := false
				for _, f := range balFactsAt(r.Block()) {
					if f.Env == nil && f.G().CmpIs(want, isKeyOf(1), isKeyOf(2)) {
						hit = true
					}
				}
				if !hit {
					ok = false
				}
				continue
			}
			if !(core.Guard{Cond: rv[0], Pol: true}).CmpIs(token.LSS, isKeyOf(1), isKeyOf(2)) {
				ok = false
			}
		}
		c.Check(rule, cmp.typ+".Less", fn.Pos(), ok && nRet > 0, cmp.typ+".Less must be the strict order `l[i]."+cmp.field+" < l[j]."+cmp.field+"` on the unique immutable key (a non-strict or different key makes the walked order depend on history)")
	}
}
