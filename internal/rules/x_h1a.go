package rules

// Shared helpers of the HTTP/1 rules (C23, C24, C25):
//   - path facts: the atomic branch conditions that hold on every way into a
//     block, with `a && b` / `a || b` value-phis expanded and loads resolved to
//     the value last stored (so that a test of `cr.err` is known to be a test
//     of the result of the call that produced it);
//   - a small conditional-constant-propagation evaluator: a code fragment is
//     folded with one SSA value bound to a constant (e.g. the loop's current
//     byte bound to '\r'); every branch must then be decidable from constants,
//     otherwise the result is "unknown". Nothing of bfe is executed: this is
//     constant folding over go/ssa, the classic SCCP lattice with a single
//     seeded value;
//   - table extraction of constant [N]bool array literals from syntax.

import (
	"fmt"
	"go/ast"
	"go/constant"
	"go/token"
	"go/types"
	"os"
	"sort"
	"strings"

	"golang.org/x/tools/go/ssa"

	"verif/internal/core"
)

// h1aDebugDump prints the SSA of the functions named in $H1A_DUMP
// ("pkg:Func,pkg:Type.Method"); development aid, no effect on verdicts.
func h1aDebugDump(c *core.Ctx) {
	spec := os.Getenv("H1A_DUMP")
	if spec == "" {
		return
	}
	for _, s := range strings.Split(spec, ",") {
		parts := strings.SplitN(s, ":", 2)
		if len(parts) != 2 {
			continue
		}
		fn := c.P.Func(parts[0], parts[1])
		if fn == nil {
			os.Stdout.WriteString("H1A_DUMP: not found " + s + "\n")
			continue
		}
		for _, f := range core.WithClosures(fn) {
			f.WriteTo(os.Stdout)
		}
	}
}

// ---------------------------------------------------------------- basics

func h1aIsNil(v ssa.Value) bool {
	k, ok := v.(*ssa.Const)
	return ok && k.Value == nil
}

func h1aConstInt(v ssa.Value) (int64, bool) {
	k, ok := core.StripConv(v).(*ssa.Const)
	if !ok || k.Value == nil || k.Value.Kind() != constant.Int {
		return 0, false
	}
	if i, ok := constant.Int64Val(k.Value); ok {
		return i, true
	}
	return 0, false
}

func h1aConstBool(v ssa.Value) (bool, bool) {
	k, ok := v.(*ssa.Const)
	if !ok || k.Value == nil || k.Value.Kind() != constant.Bool {
		return false, false
	}
	return constant.BoolVal(k.Value), true
}

// h1aRoot walks an address / selector chain down to its root value.
func h1aRoot(v ssa.Value) ssa.Value {
	for i := 0; i < 32; i++ {
		switch x := v.(type) {
		case *ssa.FieldAddr:
			v = x.X
		case *ssa.Field:
			v = x.X
		case *ssa.IndexAddr:
			v = x.X
		case *ssa.Index:
			v = x.X
		case *ssa.UnOp:
			if x.Op != token.MUL {
				return v
			}
			v = x.X
		case *ssa.Slice:
			v = x.X
		case *ssa.ChangeType:
			v = x.X
		case *ssa.Convert:
			v = x.X
		default:
			return v
		}
	}
	return v
}

func h1aIdx(in ssa.Instruction) int {
	for i, x := range in.Block().Instrs {
		if x == in {
			return i
		}
	}
	return -1
}

// h1aCallMayWrite: the call receives the root object (so it may store through it).
func h1aCallMayWrite(cc *ssa.CallCommon, root ssa.Value) bool {
	if root == nil {
		return true
	}
	if _, isGlobal := root.(*ssa.Global); isGlobal {
		return true
	}
	vals := append([]ssa.Value{}, cc.Args...)
	if cc.IsInvoke() {
		vals = append(vals, cc.Value)
	}
	for _, a := range vals {
		// a value that is not a reference (an integer, a string, a struct copy)
		// gives the callee no way to store into the object it was loaded from
		if !sh1IsRef(a.Type()) {
			continue
		}
		if h1aRoot(core.StripConv(a)) == root {
			return true
		}
	}
	return false
}

// h1aStoredVal returns the value most recently stored to the address read by
// the load, searching backwards through the load's block and its chain of
// single predecessors; nil when a merge point or a call that may write the
// object is met first.
func h1aStoredVal(ld *ssa.UnOp) ssa.Value {
	if ld.Op != token.MUL {
		return nil
	}
	if _, isGlobal := ld.X.(*ssa.Global); isGlobal {
		return nil
	}
	path := core.Render(ld.X)
	root := h1aRoot(ld.X)
	b := ld.Block()
	i := h1aIdx(ld)
	for steps := 0; steps < 64 && b != nil; steps++ {
		for j := i - 1; j >= 0; j-- {
			switch in := b.Instrs[j].(type) {
			case *ssa.Store:
				if in.Addr == ld.X || (h1aRoot(in.Addr) == root && core.Render(in.Addr) == path) {
					return in.Val
				}
			case *ssa.Defer:
			case *ssa.Go:
			case *ssa.Call:
				if h1aCallMayWrite(&in.Call, root) {
					return nil
				}
			}
		}
		if len(b.Preds) != 1 {
			return nil
		}
		b = b.Preds[0]
		i = len(b.Instrs)
	}
	return nil
}

// h1aResolve looks through loads whose stored value is known and through
// interface conversions.
func h1aResolve(v ssa.Value) ssa.Value {
	for i := 0; i < 16; i++ {
		switch x := v.(type) {
		case *ssa.ChangeType:
			v = x.X
			continue
		case *ssa.ChangeInterface:
			v = x.X
			continue
		case *ssa.UnOp:
			if x.Op == token.MUL {
				if sv := h1aStoredVal(x); sv != nil {
					v = sv
					continue
				}
			}
		}
		return v
	}
	return v
}

// h1aExtractOf: v (resolved) is result #i of a call matching one of names;
// returns the call.
func h1aExtractOf(v ssa.Value, i int, names ...string) *ssa.Call {
	v = h1aRes(v)
	if ex, ok := v.(*ssa.Extract); ok && ex.Index == i {
		if call, ok := ex.Tuple.(*ssa.Call); ok && core.CallIs(&call.Call, names...) {
			return call
		}
	}
	if i == 0 {
		if call, ok := v.(*ssa.Call); ok && core.CallIs(&call.Call, names...) && call.Call.Signature().Results().Len() == 1 {
			return call
		}
	}
	return nil
}

// h1aReachFromBlock is core.ReachAvoiding starting at the first instruction of b.
func h1aReachFromBlock(b *ssa.BasicBlock, avoid, target func(ssa.Instruction) bool) ssa.Instruction {
	if len(b.Instrs) == 0 {
		return nil
	}
	first := b.Instrs[0]
	if target(first) {
		return first
	}
	if avoid != nil && avoid(first) {
		return nil
	}
	return core.ReachAvoiding(b.Parent(), first, avoid, target)
}

// ---------------------------------------------------------------- facts

// h1aFact is an atomic branch condition with the polarity it is known to have.
type h1aFact struct {
	Cond ssa.Value
	Pol  bool
}

type h1aFacts struct {
	memo map[*ssa.BasicBlock][]h1aFact
	busy map[*ssa.BasicBlock]bool
	syn  map[ssa.Value]*ssa.BinOp // synthesised `v == nil` conditions (facts implied by a helper's returns)
}

func h1aNewFacts() *h1aFacts {
	return &h1aFacts{memo: map[*ssa.BasicBlock][]h1aFact{}, busy: map[*ssa.BasicBlock]bool{}}
}

// At returns the facts that hold whenever control is in b: along a chain of
// single predecessors every branch condition is collected; at a merge point
// the facts of the immediate dominator plus those common to all forward
// incoming edges are kept.
func (fx *h1aFacts) At(b *ssa.BasicBlock) []h1aFact {
	if b == nil {
		return nil
	}
	if m, ok := fx.memo[b]; ok {
		return m
	}
	if fx.busy[b] {
		return nil
	}
	fx.busy[b] = true
	var out []h1aFact
	switch {
	case len(b.Preds) == 0:
		// the entry block of a private helper (one static call site): whatever
		// holds at the call site holds inside the helper
		if fn := b.Parent(); fn != nil && len(fn.Blocks) > 0 && b == fn.Blocks[0] {
			if site := h1rPrivateSite(fn); site != nil && site.Block() != nil {
				out = append(out, fx.At(site.Block())...)
			}
		}
	case len(b.Preds) == 1:
		out = fx.Edge(b.Preds[0], b)
	default:
		out = append(out, fx.At(b.Idom())...)
		var common []h1aFact
		first := true
		for _, p := range b.Preds {
			if b.Dominates(p) {
				continue // back edge
			}
			fs := fx.Edge(p, b)
			if first {
				common = append(common, fs...)
				first = false
				continue
			}
			var keep []h1aFact
			for _, f := range common {
				for _, g := range fs {
					if f == g {
						keep = append(keep, f)
						break
					}
				}
			}
			common = keep
		}
		out = append(out, common...)
	}
	delete(fx.busy, b)
	// dedupe
	var ded []h1aFact
	seen := map[h1aFact]bool{}
	for _, f := range out {
		if !seen[f] {
			seen[f] = true
			ded = append(ded, f)
		}
	}
	fx.memo[b] = ded
	return ded
}

// Edge returns the facts established when control moves from p to b.
func (fx *h1aFacts) Edge(p, b *ssa.BasicBlock) []h1aFact {
	out := append([]h1aFact{}, fx.At(p)...)
	if len(p.Instrs) == 0 {
		return out
	}
	if ifi, ok := p.Instrs[len(p.Instrs)-1].(*ssa.If); ok && len(p.Succs) == 2 && p.Succs[0] != p.Succs[1] {
		out = append(out, fx.expand(ifi.Cond, p.Succs[0] == b, 0)...)
	}
	return out
}

// expand splits a condition into atoms: !x, and the boolean phis that go/ssa
// builds for materialised `a && b` / `a || b` when only one incoming edge can
// produce the observed polarity.
func (fx *h1aFacts) expand(cond ssa.Value, pol bool, depth int) []h1aFact {
	if depth > 8 {
		return []h1aFact{{cond, pol}}
	}
	switch x := cond.(type) {
	case *ssa.UnOp:
		if x.Op == token.NOT {
			return fx.expand(x.X, !pol, depth+1)
		}
	case *ssa.Call:
		// a boolean helper of the package: what its returns with this verdict have in common
		if h := h1rFactHelper(x); h != nil && depth < 3 && x.Call.Signature().Results().Len() == 1 {
			out := []h1aFact{{cond, pol}}
			return append(out, fx.viaReturns(h, 0, func(rv ssa.Value, at []h1aFact) (bool, []h1aFact) {
				if bv, isK := h1aConstBool(rv); isK {
					return bv == pol, nil
				}
				return true, fx.expand(rv, pol, depth+1)
			})...)
		}
	case *ssa.BinOp:
		// `err ==/!= nil` where err is the error result of a helper of the package
		if (x.Op == token.EQL || x.Op == token.NEQ) && depth < 3 {
			var subj ssa.Value
			switch {
			case h1aIsNil(x.Y):
				subj = x.X
			case h1aIsNil(x.X):
				subj = x.Y
			}
			if subj != nil && h1rIsErrorType(subj.Type()) {
				if call, idx := h1rCallResult(h1aResolve(subj)); call != nil {
					if h := h1rFactHelper(call); h != nil {
						isNil := (x.Op == token.EQL) == pol
						out := []h1aFact{{cond, pol}}
						return append(out, fx.viaReturns(h, idx, func(rv ssa.Value, at []h1aFact) (bool, []h1aFact) {
							rv = h1aResolve(rv)
							if h1aIsNil(rv) {
								return isNil, nil
							}
							if h1aNonNilErr(rv, at, nil) {
								return !isNil, nil
							}
							return true, fx.expand(fx.nilCmp(rv), isNil, depth+1)
						})...)
					}
				}
			}
		}
	case *ssa.Phi:
		cand := -1
		n := 0
		for i, e := range x.Edges {
			if bv, isConst := h1aConstBool(e); isConst && bv != pol {
				continue
			}
			cand = i
			n++
		}
		if n == 1 {
			out := fx.Edge(x.Block().Preds[cand], x.Block())
			if _, isConst := h1aConstBool(x.Edges[cand]); !isConst {
				out = append(out, fx.expand(x.Edges[cand], pol, depth+1)...)
			}
			return out
		}
	}
	return []h1aFact{{cond, pol}}
}

// nilCmp returns the (synthesised, cached) condition `v == nil`.
func (fx *h1aFacts) nilCmp(v ssa.Value) *ssa.BinOp {
	if fx.syn == nil {
		fx.syn = map[ssa.Value]*ssa.BinOp{}
	}
	if b := fx.syn[v]; b != nil {
		return b
	}
	b := &ssa.BinOp{Op: token.EQL, X: v, Y: ssa.NewConst(nil, v.Type())}
	fx.syn[v] = b
	return b
}

// viaReturns returns the facts common to all returns of h whose result #idx is
// compatible with the observed outcome (poss decides and may add facts about
// the returned value): the facts a caller may rely on after seeing that outcome.
func (fx *h1aFacts) viaReturns(h *ssa.Function, idx int, poss func(rv ssa.Value, at []h1aFact) (bool, []h1aFact)) []h1aFact {
	var common []h1aFact
	first := true
	for _, r := range core.Returns(h) {
		rv := core.RetVals(r)
		if idx >= len(rv) {
			return nil
		}
		at := fx.At(r.Block())
		ok, more := poss(rv[idx], at)
		if !ok {
			continue
		}
		fs := append(append([]h1aFact{}, at...), more...)
		if first {
			common, first = fs, false
			continue
		}
		var keep []h1aFact
		for _, f := range common {
			for _, g := range fs {
				if f == g {
					keep = append(keep, f)
					break
				}
			}
		}
		common = keep
	}
	return common
}

// h1rCallResult: v is result #idx of a call (the call itself for one result).
func h1rCallResult(v ssa.Value) (*ssa.Call, int) {
	switch x := v.(type) {
	case *ssa.Call:
		if x.Call.Signature().Results().Len() == 1 {
			return x, 0
		}
	case *ssa.Extract:
		if call, ok := x.Tuple.(*ssa.Call); ok {
			return call, x.Index
		}
	}
	return nil, 0
}

// h1rFactHelper: the callee is an unexported named function of the caller's
// package with a body (facts about its returns may be imported).
func h1rFactHelper(call *ssa.Call) *ssa.Function {
	sc := call.Call.StaticCallee()
	if sc == nil || sc.Blocks == nil || sc.Parent() != nil || h1rInfoOf(sc) == nil {
		return nil
	}
	if o := sc.Object(); o == nil || o.Exported() {
		return nil
	}
	if call.Parent() == nil || sc == call.Parent() || core.FuncPkgRel(call.Parent()) != core.FuncPkgRel(sc) {
		return nil
	}
	return sc
}

func h1aNegate(op token.Token) token.Token {
	switch op {
	case token.EQL:
		return token.NEQ
	case token.NEQ:
		return token.EQL
	case token.LSS:
		return token.GEQ
	case token.GEQ:
		return token.LSS
	case token.GTR:
		return token.LEQ
	case token.LEQ:
		return token.GTR
	}
	return token.ILLEGAL
}

func h1aFlip(op token.Token) token.Token {
	switch op {
	case token.LSS:
		return token.GTR
	case token.GTR:
		return token.LSS
	case token.LEQ:
		return token.GEQ
	case token.GEQ:
		return token.LEQ
	}
	return op
}

// Cmp returns the comparison the fact establishes: polarity applied (the
// operator is negated for a false condition), loads resolved, a constant
// operand moved to the right.
func (f h1aFact) Cmp() (x ssa.Value, op token.Token, y ssa.Value, ok bool) {
	bo, isBin := f.Cond.(*ssa.BinOp)
	if !isBin {
		return nil, token.ILLEGAL, nil, false
	}
	op = bo.Op
	switch op {
	case token.EQL, token.NEQ, token.LSS, token.LEQ, token.GTR, token.GEQ:
	default:
		return nil, token.ILLEGAL, nil, false
	}
	if !f.Pol {
		op = h1aNegate(op)
	}
	x, y = h1aRes(bo.X), h1aRes(bo.Y)
	if _, xc := x.(*ssa.Const); xc {
		if _, yc := y.(*ssa.Const); !yc {
			x, y = y, x
			op = h1aFlip(op)
		}
	}
	return x, op, y, true
}

// String renders the fact canonically ("cr.n == 0", "!pkg.f(x)").
func (f h1aFact) String() string {
	if x, op, y, ok := f.Cmp(); ok {
		return core.Render(x) + " " + op.String() + " " + core.Render(y)
	}
	if f.Pol {
		return core.Render(h1aRes(f.Cond))
	}
	return "!" + core.Render(h1aRes(f.Cond))
}

func h1aFactStrs(fs []h1aFact) []string {
	var s []string
	for _, f := range fs {
		s = append(s, f.String())
	}
	return s
}

// h1aHasCmp: some fact compares a value accepted by isX with a value accepted
// by isY under an operator accepted by opOK.
func h1aHasCmp(fs []h1aFact, isX func(ssa.Value) bool, opOK func(token.Token) bool, isY func(ssa.Value) bool) bool {
	for _, f := range fs {
		x, op, y, ok := f.Cmp()
		if !ok {
			continue
		}
		if isX(x) && opOK(op) && isY(y) {
			return true
		}
		if isX(y) && opOK(h1aFlip(op)) && isY(x) {
			return true
		}
	}
	return false
}

func h1aOpIs(ops ...token.Token) func(token.Token) bool {
	return func(o token.Token) bool {
		for _, x := range ops {
			if x == o {
				return true
			}
		}
		return false
	}
}

// h1aErrNil / h1aErrNonNil: the facts establish that the error produced as
// result #idx of call is nil / non-nil.
func h1aErrIs(fs []h1aFact, call *ssa.Call, idx int, wantNil bool) bool {
	op := token.NEQ
	if wantNil {
		op = token.EQL
	}
	return h1aHasCmp(fs, func(v ssa.Value) bool { return h1aIsResultOf(v, call, idx) }, h1aOpIs(op), h1aIsNil)
}

func h1aIsResultOf(v ssa.Value, call *ssa.Call, idx int) bool {
	v = h1aRes(v)
	if ex, ok := v.(*ssa.Extract); ok {
		return ex.Tuple == ssa.Value(call) && ex.Index == idx
	}
	return idx == 0 && v == ssa.Value(call)
}

// h1aBoolCallFact: the facts establish that a call to one of names returned pol;
// returns the call.
func h1aBoolCallFact(fs []h1aFact, pol bool, names ...string) *ssa.Call {
	for _, f := range fs {
		if f.Pol != pol {
			continue
		}
		if call, ok := h1aRes(f.Cond).(*ssa.Call); ok && core.CallIs(&call.Call, names...) {
			return call
		}
	}
	return nil
}

// h1aNonNilErr: v is certainly a non-nil error given the facts.
func h1aNonNilErr(v ssa.Value, fs []h1aFact, seen map[ssa.Value]bool) bool {
	v = h1aRes(v)
	if seen == nil {
		seen = map[ssa.Value]bool{}
	}
	if seen[v] {
		return true
	}
	seen[v] = true
	switch x := v.(type) {
	case *ssa.Const:
		return false
	case *ssa.MakeInterface:
		return true
	case *ssa.Call:
		if sc := x.Call.StaticCallee(); sc != nil {
			k := core.FuncKey(sc)
			if k == "errors.New" || k == "fmt.Errorf" {
				return true
			}
		}
		if h1aHelperNonNil(x, 0, seen) {
			return true
		}
	case *ssa.Extract:
		if call, ok := x.Tuple.(*ssa.Call); ok && h1aHelperNonNil(call, x.Index, seen) {
			return true
		}
	case *ssa.UnOp:
		if g, ok := x.X.(*ssa.Global); ok && x.Op == token.MUL {
			// package-level error variables (io.EOF, ErrLineTooLong …)
			return strings.HasPrefix(g.Name(), "Err") || strings.HasPrefix(g.Name(), "err") || g.Name() == "EOF"
		}
	case *ssa.Phi:
		for _, e := range x.Edges {
			if !h1aNonNilErr(e, fs, seen) {
				return false
			}
		}
		return true
	}
	return h1aHasCmp(fs, func(y ssa.Value) bool { return h1aRes(y) == v }, h1aOpIs(token.NEQ), h1aIsNil)
}

// h1aHelperNonNil: result #idx of a call of a helper of the package is an error
// that is non-nil on every return of the helper (given the facts that hold
// there, which include those of the call site for a private helper).
func h1aHelperNonNil(call *ssa.Call, idx int, seen map[ssa.Value]bool) bool {
	h := h1rFactHelper(call)
	if h == nil {
		return false
	}
	res := h.Signature.Results()
	if idx >= res.Len() || !h1rIsErrorType(res.At(idx).Type()) {
		return false
	}
	inf := h1rInfoOf(h)
	if inf == nil {
		return false
	}
	if inf.fx == nil {
		inf.fx = h1aNewFacts()
	}
	rets := core.Returns(h)
	for _, r := range rets {
		rv := core.RetVals(r)
		if idx >= len(rv) || !h1aNonNilErr(rv[idx], inf.fx.At(r.Block()), seen) {
			return false
		}
	}
	return len(rets) > 0
}

// h1aRetErr returns the error result (last result) of a return.
func h1aRetErr(r *ssa.Return) ssa.Value {
	rv := core.RetVals(r)
	if len(rv) == 0 {
		return nil
	}
	return rv[len(rv)-1]
}

// ---------------------------------------------------------------- evaluator

// h1aV is an element of the constant lattice: unknown (k == 0), integer
// (two's complement in u, truncated to the operand type), bool, string, nil.
type h1aV struct {
	k byte // 0 unknown, 'i', 'b', 's', 'n'
	u uint64
	b bool
	s string
}

func (v h1aV) known() bool { return v.k != 0 }

func (v h1aV) String() string {
	switch v.k {
	case 'i':
		return fmt.Sprint(v.u)
	case 'b':
		return fmt.Sprint(v.b)
	case 's':
		return fmt.Sprintf("%q", v.s)
	case 'n':
		return "nil"
	}
	return "?"
}

func h1aIntInfo(t types.Type) (bits uint, signed bool, ok bool) {
	b, isBasic := t.Underlying().(*types.Basic)
	if !isBasic {
		return 0, false, false
	}
	switch b.Kind() {
	case types.Int8:
		return 8, true, true
	case types.Int16:
		return 16, true, true
	case types.Int32:
		return 32, true, true
	case types.Int64, types.Int, types.UntypedInt, types.UntypedRune:
		return 64, true, true
	case types.Uint8:
		return 8, false, true
	case types.Uint16:
		return 16, false, true
	case types.Uint32:
		return 32, false, true
	case types.Uint64, types.Uint, types.Uintptr:
		return 64, false, true
	}
	return 0, false, false
}

func h1aWrap(u uint64, t types.Type) uint64 {
	bits, signed, ok := h1aIntInfo(t)
	if !ok || bits == 64 {
		return u
	}
	u &= (uint64(1) << bits) - 1
	if signed && u&(uint64(1)<<(bits-1)) != 0 {
		u |= ^((uint64(1) << bits) - 1) // sign-extend so that int64(u) is the value
	}
	return u
}

func h1aFromConst(c *ssa.Const) h1aV {
	if c.Value == nil {
		return h1aV{k: 'n'}
	}
	switch c.Value.Kind() {
	case constant.Bool:
		return h1aV{k: 'b', b: constant.BoolVal(c.Value)}
	case constant.String:
		return h1aV{k: 's', s: constant.StringVal(c.Value)}
	case constant.Int:
		if i, ok := constant.Int64Val(c.Value); ok {
			return h1aV{k: 'i', u: h1aWrap(uint64(i), c.Type())}
		}
		if u, ok := constant.Uint64Val(c.Value); ok {
			return h1aV{k: 'i', u: h1aWrap(u, c.Type())}
		}
	}
	return h1aV{}
}

// h1aEvaluator folds SSA with constants.
type h1aEvaluator struct {
	// Global resolves element idx of a package-level constant table.
	Global func(g *ssa.Global, idx int64) (h1aV, bool)
	// Seeded values keep the constant the caller bound them to.
	Seeded map[ssa.Value]bool
	steps  int
}

// h1aOutcome is the result of folding a fragment.
type h1aOutcome struct {
	Kind string // "return", "stop", "unknown", "panic", "limit"
	Ret  *ssa.Return
	Vals []h1aV
	At   ssa.Instruction // undecidable branch for "unknown"
	Stop *ssa.BasicBlock
	Env  map[ssa.Value]h1aV
}

func (e *h1aEvaluator) val(v ssa.Value, env map[ssa.Value]h1aV) h1aV {
	if x, ok := env[v]; ok {
		return x
	}
	if c, ok := v.(*ssa.Const); ok {
		return h1aFromConst(c)
	}
	return h1aV{}
}

func (e *h1aEvaluator) binop(op token.Token, a, b h1aV, xt, rt types.Type) h1aV {
	if a.k == 'i' && b.k == 'i' {
		_, signed, _ := h1aIntInfo(xt)
		cmp := func(lt, eq bool) h1aV {
			switch op {
			case token.EQL:
				return h1aV{k: 'b', b: eq}
			case token.NEQ:
				return h1aV{k: 'b', b: !eq}
			case token.LSS:
				return h1aV{k: 'b', b: lt}
			case token.LEQ:
				return h1aV{k: 'b', b: lt || eq}
			case token.GTR:
				return h1aV{k: 'b', b: !lt && !eq}
			case token.GEQ:
				return h1aV{k: 'b', b: !lt}
			}
			return h1aV{}
		}
		switch op {
		case token.EQL, token.NEQ, token.LSS, token.LEQ, token.GTR, token.GEQ:
			if signed {
				return cmp(int64(a.u) < int64(b.u), a.u == b.u)
			}
			return cmp(a.u < b.u, a.u == b.u)
		}
		var r uint64
		switch op {
		case token.ADD:
			r = a.u + b.u
		case token.SUB:
			r = a.u - b.u
		case token.MUL:
			r = a.u * b.u
		case token.AND:
			r = a.u & b.u
		case token.OR:
			r = a.u | b.u
		case token.XOR:
			r = a.u ^ b.u
		case token.AND_NOT:
			r = a.u &^ b.u
		case token.SHL:
			if b.u >= 64 {
				r = 0
			} else {
				r = a.u << b.u
			}
		case token.SHR:
			if signed {
				if b.u >= 64 {
					b.u = 63
				}
				r = uint64(int64(a.u) >> b.u)
			} else if b.u >= 64 {
				r = 0
			} else {
				r = a.u >> b.u
			}
		case token.QUO, token.REM:
			if b.u == 0 {
				return h1aV{}
			}
			if signed {
				if op == token.QUO {
					r = uint64(int64(a.u) / int64(b.u))
				} else {
					r = uint64(int64(a.u) % int64(b.u))
				}
			} else if op == token.QUO {
				r = a.u / b.u
			} else {
				r = a.u % b.u
			}
		default:
			return h1aV{}
		}
		return h1aV{k: 'i', u: h1aWrap(r, rt)}
	}
	if a.k == 'b' && b.k == 'b' {
		switch op {
		case token.EQL:
			return h1aV{k: 'b', b: a.b == b.b}
		case token.NEQ:
			return h1aV{k: 'b', b: a.b != b.b}
		}
	}
	if a.k == 's' && b.k == 's' {
		switch op {
		case token.EQL:
			return h1aV{k: 'b', b: a.s == b.s}
		case token.NEQ:
			return h1aV{k: 'b', b: a.s != b.s}
		case token.ADD:
			return h1aV{k: 's', s: a.s + b.s}
		}
	}
	if a.k == 'n' && b.k == 'n' {
		switch op {
		case token.EQL:
			return h1aV{k: 'b', b: true}
		case token.NEQ:
			return h1aV{k: 'b', b: false}
		}
	}
	return h1aV{}
}

// Run folds fn starting at instruction index `from` of block b (entered from
// pred, which selects phi edges; may be nil when from skips the phis). stop,
// when non-nil, ends the walk on a transition into a block it accepts.
func (e *h1aEvaluator) Run(b *ssa.BasicBlock, from int, pred *ssa.BasicBlock, env map[ssa.Value]h1aV, stop func(to *ssa.BasicBlock) bool, depth int) h1aOutcome {
	tuples := map[ssa.Value][]h1aV{}
	for {
		e.steps++
		if e.steps > 20000 {
			return h1aOutcome{Kind: "limit", Env: env}
		}
		// phis are evaluated simultaneously
		if from == 0 && pred != nil {
			pi := -1
			for i, p := range b.Preds {
				if p == pred {
					pi = i
				}
			}
			newv := map[ssa.Value]h1aV{}
			for _, in := range b.Instrs {
				phi, ok := in.(*ssa.Phi)
				if !ok {
					break
				}
				if e.Seeded[phi] {
					continue
				}
				if pi >= 0 {
					newv[phi] = e.val(phi.Edges[pi], env)
				} else {
					newv[phi] = h1aV{}
				}
			}
			for k, v := range newv {
				if v.known() {
					env[k] = v
				} else {
					delete(env, k)
				}
			}
		}
		var next *ssa.BasicBlock
		for i := from; i < len(b.Instrs); i++ {
			if v, isVal := b.Instrs[i].(ssa.Value); isVal && e.Seeded[v] {
				continue
			}
			switch in := b.Instrs[i].(type) {
			case *ssa.Phi:
				// handled above
			case *ssa.BinOp:
				if v := e.binop(in.Op, e.val(in.X, env), e.val(in.Y, env), in.X.Type(), in.Type()); v.known() {
					env[in] = v
				} else {
					delete(env, in)
				}
			case *ssa.UnOp:
				delete(env, in)
				x := e.val(in.X, env)
				switch in.Op {
				case token.NOT:
					if x.k == 'b' {
						env[in] = h1aV{k: 'b', b: !x.b}
					}
				case token.SUB:
					if x.k == 'i' {
						env[in] = h1aV{k: 'i', u: h1aWrap(-x.u, in.Type())}
					}
				case token.XOR:
					if x.k == 'i' {
						env[in] = h1aV{k: 'i', u: h1aWrap(^x.u, in.Type())}
					}
				case token.MUL:
					if ia, ok := in.X.(*ssa.IndexAddr); ok && e.Global != nil {
						if g, ok := ia.X.(*ssa.Global); ok {
							if idx := e.val(ia.Index, env); idx.k == 'i' {
								if v, ok := e.Global(g, int64(idx.u)); ok {
									env[in] = v
								}
							}
						}
					}
				}
			case *ssa.Convert:
				delete(env, in)
				x := e.val(in.X, env)
				if x.k == 'i' {
					if _, _, ok := h1aIntInfo(in.Type()); ok {
						// reinterpret the source value in the source type first (zero/sign extension is already in u)
						env[in] = h1aV{k: 'i', u: h1aWrap(x.u, in.Type())}
					}
				}
			case *ssa.ChangeType:
				if v := e.val(in.X, env); v.known() {
					env[in] = v
				} else {
					delete(env, in)
				}
			case *ssa.Lookup:
				delete(env, in)
				s, idx := e.val(in.X, env), e.val(in.Index, env)
				if s.k == 's' && idx.k == 'i' && idx.u < uint64(len(s.s)) {
					env[in] = h1aV{k: 'i', u: uint64(s.s[idx.u])}
				}
			case *ssa.Index:
				delete(env, in)
				s, idx := e.val(in.X, env), e.val(in.Index, env)
				if s.k == 's' && idx.k == 'i' && idx.u < uint64(len(s.s)) {
					env[in] = h1aV{k: 'i', u: uint64(s.s[idx.u])}
				}
			case *ssa.Extract:
				delete(env, in)
				if t := tuples[in.Tuple]; t != nil && in.Index < len(t) && t[in.Index].known() {
					env[in] = t[in.Index]
				}
			case *ssa.Call:
				delete(env, in)
				if bi, ok := in.Call.Value.(*ssa.Builtin); ok {
					if bi.Name() == "len" && len(in.Call.Args) == 1 {
						if s := e.val(in.Call.Args[0], env); s.k == 's' {
							env[in] = h1aV{k: 'i', u: uint64(len(s.s))}
						}
					}
					break
				}
				sc := in.Call.StaticCallee()
				if sc == nil || len(sc.Blocks) == 0 || depth >= 3 || core.FuncPkgRel(sc) == "" {
					break
				}
				cenv := map[ssa.Value]h1aV{}
				anyKnown := false
				for pi, p := range sc.Params {
					if pi < len(in.Call.Args) {
						if v := e.val(in.Call.Args[pi], env); v.known() {
							cenv[p] = v
							anyKnown = true
						}
					}
				}
				if !anyKnown {
					break
				}
				out := e.Run(sc.Blocks[0], 0, nil, cenv, nil, depth+1)
				if out.Kind == "return" {
					if len(out.Vals) == 1 {
						if out.Vals[0].known() {
							env[in] = out.Vals[0]
						}
					} else {
						tuples[in] = out.Vals
					}
				}
			case *ssa.If:
				c := e.val(in.Cond, env)
				if c.k != 'b' {
					return h1aOutcome{Kind: "unknown", At: in, Env: env}
				}
				if c.b {
					next = b.Succs[0]
				} else {
					next = b.Succs[1]
				}
			case *ssa.Jump:
				next = b.Succs[0]
			case *ssa.Return:
				vals := make([]h1aV, len(in.Results))
				for ri, r := range in.Results {
					vals[ri] = e.val(r, env)
				}
				return h1aOutcome{Kind: "return", Ret: in, Vals: vals, Env: env}
			case *ssa.Panic:
				return h1aOutcome{Kind: "panic", At: in, Env: env}
			}
		}
		if next == nil {
			return h1aOutcome{Kind: "unknown", Env: env}
		}
		if stop != nil && stop(next) {
			// evaluate the phis of the stop block so that loop-carried values are visible
			pi := -1
			for i, p := range next.Preds {
				if p == b {
					pi = i
				}
			}
			if pi >= 0 {
				newv := map[ssa.Value]h1aV{}
				for _, in := range next.Instrs {
					phi, ok := in.(*ssa.Phi)
					if !ok {
						break
					}
					newv[phi] = e.val(phi.Edges[pi], env)
				}
				for k, v := range newv {
					if v.known() {
						env[k] = v
					} else {
						delete(env, k)
					}
				}
			}
			return h1aOutcome{Kind: "stop", Stop: next, Env: env}
		}
		pred, b, from = b, next, 0
	}
}

// h1aElems finds the values that denote "the current element" of the
// byte/rune sequence seq inside fn: loads of seq[i], string indexing seq[i],
// and the value component of a range over seq.
func h1aElems(fn *ssa.Function, seq ssa.Value) []ssa.Value {
	isSeq := func(v ssa.Value) bool {
		v = core.StripConv(v)
		for i := 0; i < 4; i++ {
			if v == seq {
				return true
			}
			if phi, ok := v.(*ssa.Phi); ok {
				// a slice that is re-sliced in a loop (b = b[:len(b)-1])
				for _, e := range phi.Edges {
					if core.StripConv(e) == seq {
						return true
					}
				}
				return false
			}
			if sl, ok := v.(*ssa.Slice); ok {
				v = sl.X
				continue
			}
			break
		}
		return false
	}
	var out []ssa.Value
	core.Instrs(fn, func(in ssa.Instruction) {
		switch x := in.(type) {
		case *ssa.UnOp:
			if ia, ok := x.X.(*ssa.IndexAddr); ok && x.Op == token.MUL && isSeq(ia.X) {
				out = append(out, x)
			}
		case *ssa.Lookup:
			if isSeq(x.X) {
				out = append(out, x)
			}
		case *ssa.Index:
			if isSeq(x.X) {
				out = append(out, x)
			}
		case *ssa.Extract:
			if nx, ok := x.Tuple.(*ssa.Next); ok && x.Index == 2 {
				if rg, ok := nx.Iter.(*ssa.Range); ok && isSeq(rg.X) {
					out = append(out, x)
				}
			}
		}
	})
	return out
}

// h1aFoldElem folds fn from just after elem with elem bound to val; the walk
// stops when control returns to a block dominating elem's block (next
// iteration) or the function returns.
func h1aFoldElem(e *h1aEvaluator, elem ssa.Value, val uint64) h1aOutcome {
	in, ok := elem.(ssa.Instruction)
	if !ok {
		return h1aOutcome{Kind: "unknown"}
	}
	b := in.Block()
	env := map[ssa.Value]h1aV{elem: {k: 'i', u: h1aWrap(val, elem.Type())}}
	e.steps = 0
	e.Seeded = map[ssa.Value]bool{elem: true}
	return e.Run(b, h1aIdx(in)+1, nil, env, func(to *ssa.BasicBlock) bool { return to.Dominates(b) }, 0)
}

// h1aFoldCall folds a whole function with its first parameter bound to val
// (byte/rune predicates such as isASCIISpace, validHeaderFieldByte).
func h1aFoldCall(e *h1aEvaluator, fn *ssa.Function, val uint64) h1aOutcome {
	if fn == nil || len(fn.Blocks) == 0 || len(fn.Params) == 0 {
		return h1aOutcome{Kind: "unknown"}
	}
	env := map[ssa.Value]h1aV{fn.Params[0]: {k: 'i', u: h1aWrap(val, fn.Params[0].Type())}}
	e.steps = 0
	return e.Run(fn.Blocks[0], 0, nil, env, nil, 0)
}

// ---------------------------------------------------------------- tables

// h1aBoolTable extracts the true keys of a package-level `var name = [N]bool{k: true, …}`.
func h1aBoolTable(c *core.Ctx, pkgRel, name string) (map[int64]bool, int64, bool) {
	pk := c.P.Pkg(pkgRel)
	if pk == nil {
		return nil, 0, false
	}
	obj := pk.Types.Scope().Lookup(name)
	if obj == nil {
		return nil, 0, false
	}
	arr, ok := obj.Type().Underlying().(*types.Array)
	if !ok {
		return nil, 0, false
	}
	for _, f := range pk.Syntax {
		for _, d := range f.Decls {
			gd, ok := d.(*ast.GenDecl)
			if !ok {
				continue
			}
			for _, sp := range gd.Specs {
				vs, ok := sp.(*ast.ValueSpec)
				if !ok {
					continue
				}
				for i, id := range vs.Names {
					if pk.TypesInfo.Defs[id] != obj || i >= len(vs.Values) {
						continue
					}
					cl, ok := vs.Values[i].(*ast.CompositeLit)
					if !ok {
						return nil, 0, false
					}
					out := map[int64]bool{}
					next := int64(0)
					for _, el := range cl.Elts {
						val := el
						if kv, ok := el.(*ast.KeyValueExpr); ok {
							tv, ok := pk.TypesInfo.Types[kv.Key]
							if !ok || tv.Value == nil {
								return nil, 0, false
							}
							k, ok := constant.Int64Val(constant.ToInt(tv.Value))
							if !ok {
								return nil, 0, false
							}
							next = k
							val = kv.Value
						}
						tv, ok := pk.TypesInfo.Types[val]
						if !ok || tv.Value == nil || tv.Value.Kind() != constant.Bool {
							return nil, 0, false
						}
						if constant.BoolVal(tv.Value) {
							out[next] = true
						}
						next++
					}
					return out, arr.Len(), true
				}
			}
		}
	}
	return nil, 0, false
}

// h1aTableResolver gives the evaluator access to the bool tables of the listed
// packages (looked up lazily by the global's object).
func h1aTableResolver(c *core.Ctx) func(g *ssa.Global, idx int64) (h1aV, bool) {
	cache := map[*ssa.Global]map[int64]bool{}
	sizes := map[*ssa.Global]int64{}
	bad := map[*ssa.Global]bool{}
	return func(g *ssa.Global, idx int64) (h1aV, bool) {
		if bad[g] || g.Pkg == nil {
			return h1aV{}, false
		}
		t, ok := cache[g]
		if !ok {
			rel := strings.TrimPrefix(strings.TrimPrefix(g.Pkg.Pkg.Path(), core.ModPath), "/")
			tab, n, ok2 := h1aBoolTable(c, rel, g.Name())
			if !ok2 {
				bad[g] = true
				return h1aV{}, false
			}
			cache[g], sizes[g] = tab, n
			t = tab
		}
		if idx < 0 || idx >= sizes[g] {
			return h1aV{}, false
		}
		return h1aV{k: 'b', b: t[idx]}, true
	}
}

// h1aTchar is the RFC 7230 tchar set.
func h1aTchar() map[int64]bool {
	m := map[int64]bool{}
	for _, ch := range "!#$%&'*+-.^_`|~" {
		m[int64(ch)] = true
	}
	for ch := '0'; ch <= '9'; ch++ {
		m[int64(ch)] = true
	}
	for ch := 'a'; ch <= 'z'; ch++ {
		m[int64(ch)] = true
	}
	for ch := 'A'; ch <= 'Z'; ch++ {
		m[int64(ch)] = true
	}
	return m
}

func h1aSetDiff(a, b map[int64]bool) []string {
	var out []string
	for k := range a {
		if !b[k] {
			out = append(out, fmt.Sprintf("%q", rune(k)))
		}
	}
	sort.Strings(out)
	return out
}

// h1aStoresInto lists the stores whose address is element idx (constant) of
// the array allocated by alloc, keyed by index.
func h1aArrayLitStores(alloc ssa.Value) map[int64]ssa.Value {
	out := map[int64]ssa.Value{}
	refs := alloc.Referrers()
	if refs == nil {
		return out
	}
	for _, r := range *refs {
		ia, ok := r.(*ssa.IndexAddr)
		if !ok || ia.Referrers() == nil {
			continue
		}
		idx, ok := h1aConstInt(ia.Index)
		if !ok {
			continue
		}
		for _, rr := range *ia.Referrers() {
			if st, ok := rr.(*ssa.Store); ok && st.Addr == ia {
				out[idx] = st.Val
			}
		}
	}
	return out
}

// h1aVarargs returns the elements of the variadic slice argument of a call
// (`new [n]T (varargs)` + stores + slice), in order; nil when not of that form.
func h1aVarargs(arg ssa.Value) []ssa.Value {
	sl, ok := arg.(*ssa.Slice)
	if !ok {
		return nil
	}
	al, ok := sl.X.(*ssa.Alloc)
	if !ok {
		return nil
	}
	m := h1aArrayLitStores(al)
	var out []ssa.Value
	for i := int64(0); i < int64(len(m)); i++ {
		v, ok := m[i]
		if !ok {
			return nil
		}
		out = append(out, v)
	}
	return out
}

// ---------------------------------------------------------------- validator gates

// h1aVerdict folds the predicate fn for one byte of its parameter p: when p is
// a byte/rune the whole function is folded, otherwise the loop over p's
// elements is folded for one iteration. The verdict is "continue" (next
// element), or the rendered constant results ("false", "?,false", "err").
func h1aVerdict(c *core.Ctx, fn *ssa.Function, p *ssa.Parameter, b byte, fx *h1aFacts) (string, h1aOutcome) {
	ev := &h1aEvaluator{Global: h1aTableResolver(c)}
	var out h1aOutcome
	if _, _, isInt := h1aIntInfo(p.Type()); isInt {
		env := map[ssa.Value]h1aV{p: {k: 'i', u: h1aWrap(uint64(b), p.Type())}}
		out = ev.Run(fn.Blocks[0], 0, nil, env, nil, 0)
	} else {
		elems := h1aElems(fn, p)
		if len(elems) == 0 {
			return "?", h1aOutcome{Kind: "unknown"}
		}
		out = h1aFoldElem(ev, elems[0], uint64(b))
	}
	switch out.Kind {
	case "stop":
		return "continue", out
	case "return":
		var parts []string
		for i, v := range out.Vals {
			switch {
			case v.known():
				parts = append(parts, v.String())
			case types.Identical(out.Ret.Results[i].Type(), types.Universe.Lookup("error").Type()) && h1aNonNilErr(out.Ret.Results[i], fx.At(out.Ret.Block()), nil):
				parts = append(parts, "err")
			default:
				parts = append(parts, "?")
			}
		}
		return strings.Join(parts, ","), out
	}
	return "?", out
}

// h1aCondCalls lists the calls a branch condition depends on (through !,
// comparisons, tuple extraction and materialised && / ||).
func h1aCondCalls(v ssa.Value, seen map[ssa.Value]bool, out *[]*ssa.Call) {
	if v == nil || seen[v] {
		return
	}
	seen[v] = true
	switch x := h1aResolve(v).(type) {
	case *ssa.Call:
		*out = append(*out, x)
	case *ssa.Extract:
		h1aCondCalls(x.Tuple, seen, out)
	case *ssa.UnOp:
		if x.Op == token.NOT {
			h1aCondCalls(x.X, seen, out)
		}
	case *ssa.BinOp:
		h1aCondCalls(x.X, seen, out)
		h1aCondCalls(x.Y, seen, out)
	case *ssa.Phi:
		for _, e := range x.Edges {
			h1aCondCalls(e, seen, out)
		}
	}
}

// h1aErrorExit: control entering b runs straight (through jumps only) into a
// return of a non-nil error.
func h1aErrorExit(b *ssa.BasicBlock, fx *h1aFacts) bool {
	for i := 0; i < 4 && b != nil; i++ {
		switch last := b.Instrs[len(b.Instrs)-1].(type) {
		case *ssa.Return:
			e := h1aRetErr(last)
			return e != nil && h1aNonNilErr(e, fx.At(b), nil)
		case *ssa.Jump:
			b = b.Succs[0]
		default:
			return false
		}
	}
	return false
}

// h1aGateResult describes a validating branch found by h1aFindGate.
type h1aGateResult struct {
	If       *ssa.If
	Call     *ssa.Call
	Verdicts map[byte]string
}

// h1aFindGate looks for a branch that dominates target, whose condition
// depends on a call G(…x…) with argOK(x), where G's verdict for every probe
// byte is a constant result different from its verdict for the letter 'a',
// and whose other successor runs straight into an error return.
func h1aFindGate(c *core.Ctx, fn *ssa.Function, target ssa.Instruction, argOK func(ssa.Value) bool, probes []byte, fx *h1aFacts) (*h1aGateResult, string) {
	why := "no branch dominating the use tests a validity predicate over these bytes"
	for _, b := range fn.Blocks {
		ifi, ok := b.Instrs[len(b.Instrs)-1].(*ssa.If)
		if !ok || !b.Dominates(target.Block()) || b == target.Block() {
			continue
		}
		var calls []*ssa.Call
		h1aCondCalls(ifi.Cond, map[ssa.Value]bool{}, &calls)
		for _, call := range calls {
			sc := call.Call.StaticCallee()
			if sc == nil || len(sc.Blocks) == 0 {
				continue
			}
			for ai, a := range call.Call.Args {
				if ai >= len(sc.Params) || !argOK(a) {
					continue
				}
				benign, _ := h1aVerdict(c, sc, sc.Params[ai], 'a', fx)
				verd := map[byte]string{}
				good := true
				for _, pb := range probes {
					v, _ := h1aVerdict(c, sc, sc.Params[ai], pb, fx)
					verd[pb] = v
					if v == "?" || v == "continue" || v == benign || strings.Contains(v, "?") && !strings.Contains(v, "false") && !strings.Contains(v, "err") {
						good = false
					}
				}
				if !good {
					why = fmt.Sprintf("%s is consulted but does not give a constant rejecting verdict for the probe bytes (verdicts %v, for 'a': %s)", core.FuncKey(sc), verd, benign)
					continue
				}
				// one successor must be an error exit, the other must lead to the target
				for si, s := range b.Succs {
					other := b.Succs[1-si]
					if !(other == target.Block() || other.Dominates(target.Block())) {
						continue
					}
					if !h1aErrorExit(s, fx) && !h1aDeferredErrorExit(fn, b, s, target) {
						continue
					}
					if h1aGatePolarity(c, call, sc.Params[ai], probes[0], s, fx) {
						return &h1aGateResult{If: ifi, Call: call, Verdicts: verd}, ""
					}
				}
				why = fmt.Sprintf("%s distinguishes the probe bytes, but the branch on it does not send the rejecting verdict into an error return while dominating the use on the other side", core.FuncKey(sc))
			}
		}
	}
	return nil, why
}

// h1aGatePolarity: with the validator's result bound to its verdict for the
// probe byte, constant folding from the call onwards enters errSucc (or, for
// validators that return an error, errSucc is the side where that error is
// known to be non-nil).
func h1aGatePolarity(c *core.Ctx, call *ssa.Call, p *ssa.Parameter, probe byte, errSucc *ssa.BasicBlock, fx *h1aFacts) bool {
	sc := call.Call.StaticCallee()
	_, pout := h1aVerdict(c, sc, p, probe, fx)
	if pout.Kind != "return" {
		return false
	}
	env := map[ssa.Value]h1aV{}
	seeded := map[ssa.Value]bool{}
	if len(pout.Vals) == 1 {
		if pout.Vals[0].known() {
			env[call], seeded[call] = pout.Vals[0], true
		}
	} else if call.Referrers() != nil {
		for _, r := range *call.Referrers() {
			if ex, ok := r.(*ssa.Extract); ok && ex.Index < len(pout.Vals) && pout.Vals[ex.Index].known() {
				env[ex], seeded[ex] = pout.Vals[ex.Index], true
			}
		}
	}
	if len(seeded) > 0 {
		ev := &h1aEvaluator{Global: h1aTableResolver(c), Seeded: seeded}
		entered := false
		res := ev.Run(call.Block(), h1aIdx(call)+1, nil, env, func(to *ssa.BasicBlock) bool {
			if to == errSucc {
				entered = true
			}
			return to == errSucc
		}, 0)
		if res.Kind == "stop" && entered {
			return true
		}
	}
	// error-returning validator: errSucc must be the side where its error is non-nil
	n := sc.Signature.Results().Len()
	if n > 0 && types.Identical(sc.Signature.Results().At(n-1).Type(), types.Universe.Lookup("error").Type()) {
		return h1aErrIs(fx.At(errSucc), call, n-1, false)
	}
	return false
}

// h1aDeferredErrorExit: the rejecting successor s of gate block gate does not
// return at once but (1) records a non-nil error value that flows, through
// phis only, into the error result of a return of fn, and (2) cannot reach the
// use at target again without passing the gate first (the rejected item is
// skipped, the rest of the input is still consumed). This is the "record the
// error, keep parsing, fail at the end" idiom.
func h1aDeferredErrorExit(fn *ssa.Function, gate, s *ssa.BasicBlock, target ssa.Instruction) bool {
	// (2) target not reachable from s while avoiding the gate block
	seen := map[*ssa.BasicBlock]bool{gate: true}
	work := []*ssa.BasicBlock{s}
	for len(work) > 0 {
		x := work[len(work)-1]
		work = work[:len(work)-1]
		if seen[x] {
			continue
		}
		seen[x] = true
		if x == target.Block() {
			return false
		}
		work = append(work, x.Succs...)
	}
	// (1) a non-nil error made in s (or a block s jumps to unconditionally) reaches an error result
	errT := types.Universe.Lookup("error").Type()
	flowsToReturn := func(v ssa.Value) bool {
		vis := map[ssa.Value]bool{}
		var walk func(x ssa.Value) bool
		walk = func(x ssa.Value) bool {
			if vis[x] || x.Referrers() == nil {
				return false
			}
			vis[x] = true
			for _, r := range *x.Referrers() {
				switch y := r.(type) {
				case *ssa.Phi:
					if walk(y) {
						return true
					}
				case *ssa.Return:
					if n := len(y.Results); n > 0 && y.Results[n-1] == x {
						return true
					}
				case *ssa.Store:
					// defer-spilled result slot
					if al, ok := y.Addr.(*ssa.Alloc); ok && y.Val == x {
						for _, rr := range *al.Referrers() {
							if ld, ok := rr.(*ssa.UnOp); ok && walk(ld) {
								return true
							}
						}
					}
				}
			}
			return false
		}
		return walk(v)
	}
	for blk, hops := s, 0; blk != nil && hops < 3; hops++ {
		for _, in := range blk.Instrs {
			if mi, ok := in.(*ssa.MakeInterface); ok && types.Identical(mi.Type(), errT) && flowsToReturn(mi) {
				return true
			}
			if call, ok := in.(*ssa.Call); ok && types.Identical(call.Type(), errT) && flowsToReturn(call) {
				return true
			}
		}
		if len(blk.Succs) != 1 {
			break
		}
		blk = blk.Succs[0]
	}
	return false
}
