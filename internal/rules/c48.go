package rules

import (
	"fmt"
	"go/token"
	"go/types"
	"os"
	"regexp"
	"sort"
	"strings"

	"golang.org/x/tools/go/ssa"

	"verif/internal/core"
)

// C48 — module callbacks run in order and verdicts are honoured.
func init() {
	Register(&Rule{
		ID: "C48", Section: "5 C48",
		Technique: "sibling agreement over the five HandlerList.Filter*/Add*Filter functions (loop shape, first-stop edge, PushBack only), table agreement (callback point -> handler kind in code, documentation and call sites), reachability/must-pass queries from each verdict arm of every Filter* call site in bfe_server",
		Meta: core.Meta{
			Level: "other",
			Explanation: "Decides: (list) each HandlerList.Filter<K> iterates hl.handlers from Front() by Next() only, invokes <K>Filter.Filter<K> on the element with the function's own arguments, leaves the loop on the edge verdict != BfeHandlerGoOn without any path back to the filter call, continues only through Next(), and returns the last verdict (or BfeHandlerGoOn for an empty chain); each Add<K>Filter only PushBack()s New<K>Filter(callback) under a successful type assertion and no other container/list mutator is called in bfe_module (registration order = call order); generic<K>Filter.Filter<K> forwards to the registered function; AddFilter dispatches on handlerType to the matching Add<K>Filter, looks the list up in the receiver's own table (the field NewBfeCallbacks fills and GetHandlerList serves), and reports success only as the verdict of an Add<K>Filter call (rule add-registers: every error value it returns is an Add<K>Filter result, a constructed error, or nil on an edge where an Add<K>Filter result was tested nil — no de-duplication or other shortcut may drop a filter silently); the point->kind table of NewBfeCallbacks agrees with the documentation table and with the Filter<K> method called on GetHandlerList(point) at each of the 9 call sites in bfe_server (each under hl != nil). " +
				"(verdicts) at each call site the verdicts the property names are compared (request hooks: Close, Finish, Redirect, Response; forward: Finish; response hooks: Finish; accept hooks: Close) and from each verdict arm: Close => action closeDirectly on every path to return and no path to a response write (Redirect, sendResponse, any ResponseWriter method), to clusterInvoke, or (accept hooks) to the TLS handshake / readRequest / serveRequest; Finish => action closeAfterReply on every path to return and no path to clusterInvoke / RoundTrip / Balance; Redirect => every path calls Redirect(rw, …), none reaches clusterInvoke, and no feasible path (isRedirect flag propagated) calls sendResponse; Response => no path to findProduct/findCluster/clusterInvoke and sendResponse is reachable with a response operand that includes the module's response. conn.serveRequest suppresses finishRequest for closeDirectly and reports keep-alive only if both ServeHTTP and FinishReq returned keepAlive; conn.serve leaves the request loop when serveRequest reports no keep-alive; the deferred c.close() is registered before the accept hooks. " +
				"Robustness: reactions that sit in private helpers of the hook function count at the helper's call (Redirect on all paths of the helper; response writes / backend calls anywhere in it; an action taken from a helper that returns one constant); the action cell is the function's first named result whatever its name. " +
				"Not covered: what modules do inside callbacks; verdicts a hook does not compare (e.g. Close at HandleForward/HandleReadResponse) are treated by bfe as GoOn — reported as a note, not decided; HTTP/2 and SPDY call ServeHTTP through their own response writers (only the action value is checked here); the bytes of the reply.",
			RuleText:    "obligations = per Filter<K>/Add<K>Filter/generic<K>Filter function the sibling clauses; each return of AddFilter; per callback point the table rows; per Filter* call site in bfe_server the kind agreement, the nil guard, each required verdict and each reaction clause of each compared verdict; the action consumers in http_conn.go",
			Assumptions: []string{"container/list preserves insertion order for PushBack/Front/Next", "response writes in bfe_server go through Redirect, ReverseProxy.sendResponse or methods of the ResponseWriter parameter"},
		},
		Run: runC48,
		Mutants: []Mutant{
			{Name: "filter-continues-after-verdict", File: "bfe_module/bfe_handler_list.go", Old: "			retVal, res = filter.FilterRequest(req)\n			if retVal != BfeHandlerGoOn {\n				break LOOP\n			}", New: "			retVal, res = filter.FilterRequest(req)\n			if retVal == BfeHandlerClose {\n				break LOOP\n			}", Expect: "first-stop|FilterRequest"},
			{Name: "filter-reverse-order", File: "bfe_module/bfe_handler_list.go", Old: "func (hl *HandlerList) FilterForward(req *bfe_basic.Request) int {\n	retVal := BfeHandlerGoOn\n\nLOOP:\n	for e := hl.handlers.Front(); e != nil; e = e.Next() {", New: "func (hl *HandlerList) FilterForward(req *bfe_basic.Request) int {\n	retVal := BfeHandlerGoOn\n\nLOOP:\n	for e := hl.handlers.Back(); e != nil; e = e.Prev() {", Expect: "iter-order|FilterForward"},
			{Name: "add-pushes-front", File: "bfe_module/bfe_handler_list.go", Old: "	hl.handlers.PushBack(NewResponseFilter(callback))", New: "	hl.handlers.PushFront(NewResponseFilter(callback))", Expect: "push-back|AddResponseFilter"},
			{Name: "verdict-swallowed", File: "bfe_module/bfe_handler_list.go", Old: "			retVal = filter.FilterAccept(session)\n			if retVal != BfeHandlerGoOn {\n				break LOOP\n			}", New: "			if filter.FilterAccept(session) != BfeHandlerGoOn {\n				break LOOP\n			}", Expect: "verdict-returned|FilterAccept"},
			{Name: "point-kind-mismatch", File: "bfe_module/bfe_callback.go", Old: "	bfeCallbacks.callbacks[HandleFoundProduct] = NewHandlerList(HandlersRequest)", New: "	bfeCallbacks.callbacks[HandleFoundProduct] = NewHandlerList(HandlersForward)", Expect: "point-kind"},
			{Name: "close-sends-response", File: "bfe_server/reverseproxy.go", Old: "	hl = srv.CallBacks.GetHandlerList(bfe_module.HandleFoundProduct)\n	if hl != nil {\n		retVal, res = hl.FilterRequest(basicReq)\n		basicReq.HttpResponse = res\n		switch retVal {\n		case bfe_module.BfeHandlerClose:\n			// close the connection directly (with no response)\n			action = closeDirectly\n			return", New: "	hl = srv.CallBacks.GetHandlerList(bfe_module.HandleFoundProduct)\n	if hl != nil {\n		retVal, res = hl.FilterRequest(basicReq)\n		basicReq.HttpResponse = res\n		switch retVal {\n		case bfe_module.BfeHandlerClose:\n			// close the connection directly (with no response)\n			action = closeDirectly\n			goto response_got", Expect: "verdict-close|ServeHTTP:HandleFoundProduct"},
			{Name: "close-wrong-action", File: "bfe_server/reverseproxy.go", Old: "	hl = srv.CallBacks.GetHandlerList(bfe_module.HandleAfterLocation)\n	if hl != nil {\n		retVal, res = hl.FilterRequest(basicReq)\n		basicReq.HttpResponse = res\n		switch retVal {\n		case bfe_module.BfeHandlerClose:\n			// close the connection directly (with no response)\n			action = closeDirectly", New: "	hl = srv.CallBacks.GetHandlerList(bfe_module.HandleAfterLocation)\n	if hl != nil {\n		retVal, res = hl.FilterRequest(basicReq)\n		basicReq.HttpResponse = res\n		switch retVal {\n		case bfe_module.BfeHandlerClose:\n			// close the connection directly (with no response)\n			action = closeAfterReply", Expect: "verdict-close|ServeHTTP:HandleAfterLocation"},
			{Name: "response-arm-dropped", File: "bfe_server/reverseproxy.go", Old: "			basicReq.BfeStatusCode = basicReq.Redirect.Code\n			goto send_response\n		case bfe_module.BfeHandlerResponse:\n			goto response_got\n		}\n	}\n\n	// find product", New: "			basicReq.BfeStatusCode = basicReq.Redirect.Code\n			goto send_response\n		}\n	}\n\n	// find product", Expect: "verdict-handled|ServeHTTP:HandleBeforeLocation:Response"},
			{Name: "redirect-also-sends-body", File: "bfe_server/reverseproxy.go", Old: "	if !isRedirect && res != nil {", New: "	_ = isRedirect\n	if res != nil {", Expect: "verdict-redirect"},
			{Name: "finish-keeps-alive", File: "bfe_server/reverseproxy.go", Old: "		case bfe_module.BfeHandlerFinish:\n			// close the connection after response\n			action = closeAfterReply\n			basicReq.BfeStatusCode = bfe_http.StatusInternalServerError\n			return\n		case bfe_module.BfeHandlerRedirect:\n			// make redirect\n			Redirect(rw, req, basicReq.Redirect.Url, basicReq.Redirect.Code, basicReq.Redirect.Header)\n			isRedirect = true\n			basicReq.BfeStatusCode = basicReq.Redirect.Code\n			goto send_response\n		}\n	}\n\nsend_response:", New: "		case bfe_module.BfeHandlerFinish:\n			// close the connection after response\n			basicReq.BfeStatusCode = bfe_http.StatusInternalServerError\n			return\n		case bfe_module.BfeHandlerRedirect:\n			// make redirect\n			Redirect(rw, req, basicReq.Redirect.Url, basicReq.Redirect.Code, basicReq.Redirect.Header)\n			isRedirect = true\n			basicReq.BfeStatusCode = basicReq.Redirect.Code\n			goto send_response\n		}\n	}\n\nsend_response:", Expect: "verdict-finish|ServeHTTP:HandleReadResponse"},
			{Name: "accept-close-ignored", File: "bfe_server/http_conn.go", Old: "		retVal = hl.FilterAccept(c.session)\n		if retVal == bfe_module.BfeHandlerClose {\n			// close the connection\n			return\n		}\n	}\n\n	if tlsConn, ok := c.rwc.(*bfe_tls.Conn); ok {", New: "		retVal = hl.FilterAccept(c.session)\n		if retVal == bfe_module.BfeHandlerClose {\n			// close the connection\n			log.Logger.Debug(\"closing\")\n		}\n	}\n\n	if tlsConn, ok := c.rwc.(*bfe_tls.Conn); ok {", Expect: "verdict-close|conn.serve:HandleAccept"},
			{Name: "keepalive-or", File: "bfe_server/http_conn.go", Old: "	isKeepAlive = (ret1 == keepAlive) && (ret2 == keepAlive)", New: "	isKeepAlive = (ret1 == keepAlive) || (ret2 == keepAlive)", Expect: "action-honoured|serveRequest:keepalive"},
			{Name: "close-directly-finishes-request", File: "bfe_server/http_conn.go", Old: "		if ret1 == closeDirectly {\n			res.prepareForCloseConn()\n		} else {\n			res.finishRequest()\n		}", New: "		if ret1 == closeDirectly {\n			res.prepareForCloseConn()\n		}\n		res.finishRequest()", Expect: "action-honoured|serveRequest:closeDirectly"},
			{Name: "add-filter-skips-lookalike", File: "bfe_module/bfe_callback.go", Old: "	var err error\n	switch hl.handlerType {\n	case HandlersAccept:", New: "	if hl.handlers.Len() > 0 && fmt.Sprint(hl.handlers.Back().Value) == fmt.Sprint(f) {\n		return nil\n	}\n	var err error\n	switch hl.handlerType {\n	case HandlersAccept:", Expect: "add-registers|AddFilter"},
			{Name: "add-filter-error-swallowed", File: "bfe_module/bfe_callback.go", Old: "	return err\n}\n\n// GetHandlerList gets", New: "	if err != nil {\n		log.Logger.Warn(\"AddFilter(): %s\", err)\n	}\n	return nil\n}\n\n// GetHandlerList gets", Expect: "add-registers|AddFilter"},
			{Name: "add-filter-into-shadow-table", File: "bfe_module/bfe_callback.go", Old: "	hl, ok := bcb.callbacks[point]\n\n	if !ok {\n		return fmt.Errorf(", New: "	shadow := NewBfeCallbacks()\n	hl, ok := shadow.callbacks[point]\n\n	if !ok {\n		return fmt.Errorf(", Expect: "add-dispatch|AddFilter:table"},
			{Name: "silent-add-filter-early-return", File: "bfe_module/bfe_callback.go", Old: "	case HandlersAccept:\n		err = hl.AddAcceptFilter(f)\n", New: "	case HandlersAccept:\n		if err := hl.AddAcceptFilter(f); err != nil {\n			return err\n		}\n		return nil\n", Silent: true},
			{Name: "silent-switch-to-if", File: "bfe_server/reverseproxy.go", Old: "		retVal := hl.FilterResponse(request, request.HttpResponse)\n		switch retVal {\n		case bfe_module.BfeHandlerFinish:\n			// close the connection after response\n			action = closeAfterReply\n			return\n		}", New: "		verdict := hl.FilterResponse(request, request.HttpResponse)\n		if verdict == bfe_module.BfeHandlerFinish {\n			log.Logger.Debug(\"finish\")\n			action = closeAfterReply\n			return\n		}", Silent: true},
		},
	})
}

const (
	c48mod = "bfe_module"
	c48srv = "bfe_server"
)

var c48kinds = []string{"Accept", "Request", "Forward", "Response", "Finish"}

func runC48(c *core.Ctx) {
	defer nxEnter(c)()
	if c.P.Pkg(c48mod) == nil {
		c.Missing(c48mod)
		return
	}
	if c.P.Pkg(c48srv) == nil {
		c.Missing(c48srv)
		return
	}
	verdict := map[string]int64{}
	for _, n := range []string{"Finish", "GoOn", "Redirect", "Response", "Close"} {
		v, ok := nxConstOf(c, c48mod, "BfeHandler"+n)
		if !ok {
			c.Missing(c48mod + ".BfeHandler" + n)
			return
		}
		verdict[n] = v
	}
	// distinct verdict values
	distinct := map[int64]bool{}
	for _, v := range verdict {
		distinct[v] = true
	}
	c.CheckAt("verdict-consts", "BfeHandler*", "bfe_module/bfe_handler_list.go", len(distinct) == 5, "the five BfeHandler* verdict constants are not pairwise distinct")
	c48list(c, verdict["GoOn"])
	table := c48table(c)
	c48sites(c, verdict, table)
	c48consumers(c)
}

// ---------------------------------------------------------------- bfe_module

func c48list(c *core.Ctx, goOn int64) {
	for _, k := range c48kinds {
		name := "Filter" + k
		fn := nxFuncOrMissing(c, c48mod, "HandlerList."+name)
		if fn == nil {
			continue
		}
		// (a) iteration
		var elem *ssa.Phi
		for _, in := range allInstrs(fn) {
			if phi, ok := in.(*ssa.Phi); ok && core.TypeStr(phi.Type()) == "*container/list.Element" {
				elem = phi
			}
		}
		okIter := elem != nil
		detail := "no loop variable of type *list.Element"
		if elem != nil {
			fronts, nexts := 0, 0
			for _, e := range elem.Edges {
				call, _ := nxCallResult(e)
				switch {
				case call != nil && core.CallIs(&call.Call, "container/list.List.Front") && nxOrigin(call.Call.Args[0]) == "hl.handlers":
					fronts++
				case call != nil && core.CallIs(&call.Call, "container/list.Element.Next") && call.Call.Args[0] == elem:
					nexts++
				default:
					okIter = false
					detail = "loop variable also takes " + core.Render(e)
				}
			}
			if fronts != 1 || nexts < 1 {
				okIter = false
				detail = fmt.Sprintf("loop variable starts from %d Front() calls and advances by %d Next() calls", fronts, nexts)
			}
		}
		for _, call := range core.AllCalls(fn) {
			if core.CallIs(call.Common(), "container/list.List.Back", "container/list.Element.Prev") {
				okIter = false
				detail = "uses Back()/Prev()"
			}
		}
		c.Check("iter-order", name, fn.Pos(), okIter, name+" must walk hl.handlers from Front() by Next() (registration order): "+detail)
		// (b) the filter invocation
		var inv *ssa.Call
		ninv := 0
		for _, in := range allInstrs(fn) {
			if call, ok := in.(*ssa.Call); ok && call.Call.IsInvoke() && call.Call.Method.Name() == name {
				inv = call
				ninv++
			}
		}
		if inv == nil || ninv != 1 {
			c.Check("filter-call", name, fn.Pos(), false, fmt.Sprintf("%s contains %d invocations of %sFilter.%s, expected one", name, ninv, k, name))
			continue
		}
		okRecv := false
		if ex, ok := inv.Call.Value.(*ssa.Extract); ok && ex.Index == 0 {
			if ta, ok := ex.Tuple.(*ssa.TypeAssert); ok && core.TypeStr(ta.AssertedType) == c48mod+"."+k+"Filter" && elem != nil {
				okRecv = nxFlows(ta.X, func(v ssa.Value) bool { return v == elem }, nil)
			}
		}
		okArgs := len(inv.Call.Args) == len(fn.Params)-1
		for i := 0; okArgs && i < len(inv.Call.Args); i++ {
			if core.StripConv(inv.Call.Args[i]) != fn.Params[i+1] {
				okArgs = false
			}
		}
		c.Check("filter-call", name, inv.Pos(), okRecv && okArgs, name+" must invoke "+k+"Filter."+name+" on the current list element with its own arguments in order")
		// (c) first non-GoOn verdict stops the chain
		var ver ssa.Value = inv
		if inv.Type().(interface{ String() string }) != nil {
			if _, isTuple := inv.Type().(*types.Tuple); isTuple {
				ver = nil
				for _, ref := range *inv.Referrers() {
					if ex, ok := ref.(*ssa.Extract); ok && ex.Index == 0 {
						ver = ex
					}
				}
			}
		}
		var stop, cont *ssa.BasicBlock
		var verIf *ssa.If
		for _, in := range allInstrs(fn) {
			ifi, ok := in.(*ssa.If)
			if !ok {
				continue
			}
			bo, ok := ifi.Cond.(*ssa.BinOp)
			if !ok || ver == nil {
				continue
			}
			var other ssa.Value
			if bo.X == ver {
				other = bo.Y
			} else if bo.Y == ver {
				other = bo.X
			} else {
				continue
			}
			if kv, ok := nxConstInt(other); !ok || kv != goOn {
				continue
			}
			switch bo.Op {
			case token.NEQ:
				stop, cont, verIf = ifi.Block().Succs[0], ifi.Block().Succs[1], ifi
			case token.EQL:
				stop, cont, verIf = ifi.Block().Succs[1], ifi.Block().Succs[0], ifi
			}
		}
		isInv := func(in ssa.Instruction) bool { return in == ssa.Instruction(inv) }
		isNext := func(in ssa.Instruction) bool { return nxIsCall(in, "container/list.Element.Next") }
		okStop := stop != nil && nxBlockReach(stop, nil, isInv) == nil && nxBlockReach(stop, nil, core.IsReturn) != nil
		okCont := cont != nil && nxBlockReach(cont, nil, isInv) != nil && nxBlockReach(cont, isNext, isInv) == nil
		// no other way from the call to the next call than through the verdict test
		okOnly := verIf != nil && core.ReachAvoiding(fn, inv, func(in ssa.Instruction) bool { return in == ssa.Instruction(verIf) }, isInv) == nil
		c.Check("first-stop", name, inv.Pos(), okStop && okCont && okOnly,
			fmt.Sprintf("%s must compare the filter's verdict with BfeHandlerGoOn and leave the loop on any other verdict without another filter call (stop edge ok=%v), continue only through e.Next() (ok=%v), with no path around the test (ok=%v)", name, okStop, okCont, okOnly))
		// (d) returned verdict
		for _, r := range core.Returns(fn) {
			okRet := true
			hasVer := false
			for _, l := range nxPhiLeaves(r.Results[0]) {
				if l.V == ver {
					hasVer = true
				} else if kv, ok := nxConstInt(l.V); !ok || kv != goOn {
					okRet = false
				}
			}
			c.Check("verdict-returned", name, r.Pos(), okRet && hasVer, name+" must return the verdict of the last filter called (BfeHandlerGoOn when no filter objected); returns "+core.Render(r.Results[0]))
			if len(r.Results) == 2 {
				okRes, hasRes := true, false
				for _, l := range nxPhiLeaves(r.Results[1]) {
					if call, i := nxCallResult(l.V); call == inv && i == 1 {
						hasRes = true
					} else if !isNilConst(l.V) {
						okRes = false
					}
				}
				c.Check("verdict-returned", name+":response", r.Pos(), okRes && hasRes, name+" must return the response produced by the last filter called (nil when none)")
			}
		}
	}
	c.Min("iter-order", 5)
	c.Min("filter-call", 5)
	c.Min("first-stop", 5)
	c.Min("verdict-returned", 6)
	// Add<K>Filter
	mutators := []string{"PushFront", "InsertBefore", "InsertAfter", "MoveToFront", "MoveToBack", "MoveBefore", "MoveAfter", "Remove", "PushBackList", "PushFrontList", "Init"}
	for _, k := range c48kinds {
		name := "Add" + k + "Filter"
		fn := nxFuncOrMissing(c, c48mod, "HandlerList."+name)
		if fn == nil {
			continue
		}
		pbs := core.Calls(fn, "container/list.List.PushBack")
		ok := len(pbs) == 1
		detail := fmt.Sprintf("%d PushBack calls", len(pbs))
		if ok {
			pb := pbs[0]
			a := pb.Common().Args
			nf, _ := nxCallResult(a[1])
			okList := nxOrigin(a[0]) == "hl.handlers"
			okNew := nf != nil && core.CallIs(&nf.Call, c48mod+".New"+k+"Filter")
			okCb := false
			var ta *ssa.TypeAssert
			if okNew {
				if ex, isEx := nf.Call.Args[0].(*ssa.Extract); isEx && ex.Index == 0 {
					if t, isTa := ex.Tuple.(*ssa.TypeAssert); isTa && t.X == fn.Params[1] {
						ta = t
						okCb = true
					}
				}
			}
			okGuard := false
			if ta != nil {
				okGuard = nxHolds(pb.(ssa.Instruction).Block(), func(g core.Guard) bool {
					ex, isEx := g.Cond.(*ssa.Extract)
					return isEx && ex.Tuple == ta && ex.Index == 1 && g.Pol
				})
			}
			ok = okList && okNew && okCb && okGuard
			detail = fmt.Sprintf("list=%v New%sFilter=%v callback-from-f=%v guarded-by-ok=%v", okList, k, okNew, okCb, okGuard)
			// nil error only after the push
			for _, r := range nxSuccessReturns(fn, 0) {
				if !nxAllPathsPass(fn, r, func(in ssa.Instruction) bool { return in == pb.(ssa.Instruction) }) {
					ok = false
					detail += "; a nil-error return is reachable without PushBack"
				}
			}
		}
		for _, call := range core.AllCalls(fn) {
			for _, m := range mutators {
				if core.CallIs(call.Common(), "container/list.List."+m) {
					ok = false
					detail += "; calls list." + m
				}
			}
		}
		c.Check("push-back", name, fn.Pos(), ok, name+" must append New"+k+"Filter(f.(func…)) at the tail of hl.handlers and nothing else: "+detail)
	}
	c.Min("push-back", 5)
	var offenders []string
	for _, fn := range c.P.SrcFuncs(c48mod) {
		for _, call := range core.AllCalls(fn) {
			for _, m := range mutators {
				if core.CallIs(call.Common(), "container/list.List."+m) {
					offenders = append(offenders, core.FuncKey(fn)+":"+m)
				}
			}
		}
	}
	c.CheckAt("list-mutators", c48mod, "bfe_module", len(offenders) == 0, "container/list reordering/removal calls in bfe_module: "+strings.Join(offenders, ", ")+"; filters must stay in registration order")
	// generic<K>Filter wrappers
	for _, k := range c48kinds {
		tn := "generic" + k + "Filter"
		fn := nxFuncOrMissing(c, c48mod, tn+".Filter"+k)
		if fn == nil {
			continue
		}
		ok := false
		rs := core.Returns(fn)
		if len(rs) == 1 {
			call, _ := nxCallResult(rs[0].Results[0])
			if call != nil && !call.Call.IsInvoke() && call.Call.StaticCallee() == nil && strings.HasSuffix(nxOrigin(call.Call.Value), ".f") {
				ok = len(call.Call.Args) == len(fn.Params)-1
				for i := 0; ok && i < len(call.Call.Args); i++ {
					if call.Call.Args[i] != fn.Params[i+1] {
						ok = false
					}
				}
				for i, res := range rs[0].Results {
					if rc, ri := nxCallResult(res); rc != call || ri != i {
						ok = false
					}
				}
			}
		}
		c.Check("wrapper", tn, fn.Pos(), ok, tn+".Filter"+k+" must return f.f(<its arguments>) unchanged")
	}
	c.Min("wrapper", 5)
	// AddFilter dispatch
	if fn := nxFuncOrMissing(c, c48mod, "BfeCallbacks.AddFilter"); fn != nil {
		c48addRegisters(c, fn)
		c48sameTable(c, fn)
		for _, k := range c48kinds {
			want, okK := nxConstOf(c, c48mod, "Handlers"+k)
			calls := core.Calls(fn, c48mod+".HandlerList.Add"+k+"Filter")
			ok := okK && len(calls) == 1
			if ok {
				call := calls[0]
				ok = nxHolds(call.(ssa.Instruction).Block(), func(g core.Guard) bool {
					x, op, kv, isCmp := nxCmp(g.Cond, g.Pol)
					return isCmp && op == token.EQL && kv == want && strings.HasSuffix(core.Render(x), ".handlerType")
				})
				// the list is the one looked up for `point`, the filter is f
				a := call.Common().Args
				ok = ok && len(a) == 2 && a[1] == fn.Params[2] && nxFlows(a[0], func(v ssa.Value) bool {
					lk, isLk := v.(*ssa.Lookup)
					return isLk && lk.Index == fn.Params[1]
				}, nil)
			}
			c.Check("add-dispatch", "AddFilter:"+k, fn.Pos(), ok, "AddFilter must call Add"+k+"Filter(f) on callbacks[point] exactly under handlerType == Handlers"+k)
		}
	}
	c.Min("add-dispatch", 5)
}

// c48table extracts point -> kind from NewBfeCallbacks and compares it with the documentation.
func c48table(c *core.Ctx) map[int64]int64 {
	table := map[int64]int64{}
	fn := nxFuncOrMissing(c, c48mod, "NewBfeCallbacks")
	if fn == nil {
		return table
	}
	for _, in := range allInstrs(fn) {
		mu, ok := in.(*ssa.MapUpdate)
		if !ok {
			continue
		}
		k, ok1 := nxConstInt(mu.Key)
		call, _ := nxCallResult(mu.Value)
		if !ok1 || call == nil || !core.CallIs(&call.Call, c48mod+".NewHandlerList") {
			continue
		}
		if kind, ok := nxConstInt(call.Call.Args[0]); ok {
			table[k] = kind
		}
	}
	// NewHandlerList stores its argument as handlerType
	if nh := nxFuncOrMissing(c, c48mod, "NewHandlerList"); nh != nil {
		ok := false
		for _, in := range allInstrs(nh) {
			if st, isSt := in.(*ssa.Store); isSt && strings.HasSuffix(nxOriginAddr(st.Addr), ".handlerType") && st.Val == nh.Params[0] {
				ok = true
			}
		}
		c.Check("point-kind", "NewHandlerList", nh.Pos(), ok, "NewHandlerList does not store its argument into handlerType")
	}
	// names of points and kinds
	pointName := map[int64]string{}
	kindName := map[int64]string{}
	scope := c.P.Pkg(c48mod).Types.Scope()
	for _, n := range scope.Names() {
		k, ok := scope.Lookup(n).(*types.Const)
		if !ok {
			continue
		}
		v, isInt := nxConstOf(c, c48mod, n)
		if !isInt {
			continue
		}
		_ = k
		switch {
		case strings.HasPrefix(n, "Handlers"):
			kindName[v] = n
		case strings.HasPrefix(n, "Handle") && !strings.HasPrefix(n, "Handler"):
			pointName[v] = n
		}
	}
	// documentation table
	doc := map[string]string{}
	docFile := "docs/en_us/development/module/bfe_callback.md"
	if b, err := os.ReadFile(core.FileOf(docFile)); err != nil {
		c.Missing(docFile)
	} else {
		cur := ""
		reKind := regexp.MustCompile(`^###\s+(Handlers\w+)\s*$`)
		rePoint := regexp.MustCompile(`^\s+\+\s+(Handle[A-Z]\w+)\s*$`)
		for _, line := range strings.Split(string(b), "\n") {
			if m := reKind.FindStringSubmatch(line); m != nil {
				cur = m[1]
				continue
			}
			if strings.HasPrefix(line, "#") {
				cur = ""
			}
			if m := rePoint.FindStringSubmatch(line); m != nil && cur != "" {
				doc[m[1]] = cur
			}
		}
	}
	var points []int64
	for p := range pointName {
		points = append(points, p)
	}
	sort.Slice(points, func(i, j int) bool { return points[i] < points[j] })
	for _, p := range points {
		kind, ok := table[p]
		got := "none"
		if ok {
			got = kindName[kind]
		}
		want := doc[pointName[p]]
		c.CheckAt("point-kind", pointName[p], "bfe_module/bfe_callback.go", ok && want != "" && got == want,
			fmt.Sprintf("callback point %s is created with handler kind %s; %s documents %q", pointName[p], got, docFile, want))
	}
	c.Min("point-kind", 10)
	return table
}

// ---------------------------------------------------------------- bfe_server call sites

type c48site struct {
	fn    *ssa.Function
	call  *ssa.Call
	kind  string // Accept, Request, …
	point string
	key   string
	ver   ssa.Value
	arms  map[string]*ssa.BasicBlock
	armIf map[string]*ssa.If
}

func c48sites(c *core.Ctx, verdict map[string]int64, table map[int64]int64) {
	kindVal := map[string]int64{}
	for _, k := range c48kinds {
		v, ok := nxConstOf(c, c48mod, "Handlers"+k)
		if !ok {
			c.Missing(c48mod + ".Handlers" + k)
			return
		}
		kindVal[k] = v
	}
	pointName := map[int64]string{}
	scope := c.P.Pkg(c48mod).Types.Scope()
	for _, n := range scope.Names() {
		if strings.HasPrefix(n, "Handle") && !strings.HasPrefix(n, "Handler") {
			if v, ok := nxConstOf(c, c48mod, n); ok {
				pointName[v] = n
			}
		}
	}
	closeDirectly, ok1 := nxConstOf(c, c48srv, "closeDirectly")
	closeAfterReply, ok2 := nxConstOf(c, c48srv, "closeAfterReply")
	if !ok1 || !ok2 {
		c.Missing(c48srv + ".closeDirectly/closeAfterReply")
		return
	}
	var sites []*c48site
	for _, fn := range c.P.SrcFuncs(c48srv) {
		for _, in := range allInstrs(fn) {
			call, ok := in.(*ssa.Call)
			if !ok {
				continue
			}
			kind := ""
			for _, k := range c48kinds {
				if core.CallIs(&call.Call, c48mod+".HandlerList.Filter"+k) {
					kind = k
				}
			}
			if kind == "" {
				continue
			}
			c.Analysed(core.FuncKey(fn))
			s := &c48site{fn: fn, call: call, kind: kind, arms: map[string]*ssa.BasicBlock{}, armIf: map[string]*ssa.If{}}
			// the list comes from GetHandlerList(const point)
			pt := int64(-1)
			var hl ssa.Value = call.Call.Args[0]
			for _, l := range nxPhiLeaves(hl) {
				if gc, _ := nxCallResult(l.V); gc != nil && core.CallIs(&gc.Call, c48mod+".BfeCallbacks.GetHandlerList") {
					if v, ok := nxConstInt(gc.Call.Args[1]); ok {
						pt = v
					}
				}
			}
			s.point = pointName[pt]
			if s.point == "" {
				s.point = fmt.Sprintf("point?%d", len(sites))
			}
			s.key = nxShort(fn) + ":" + s.point
			if i := strings.Index(s.key, "."); i >= 0 && strings.HasPrefix(s.key, "ReverseProxy.") {
				s.key = s.key[i+1:]
			}
			sites = append(sites, s)
			k, inTable := table[pt]
			c.Check("site-kind", s.key, call.Pos(), inTable && k == kindVal[kind],
				fmt.Sprintf("Filter%s is called on the handler list of %s, which is created for another kind of filter: every registered filter would be rejected by the type switch", kind, s.point))
			nonNil := nxHolds(call.Block(), func(g core.Guard) bool {
				bo, ok := g.Cond.(*ssa.BinOp)
				if !ok || !isNilConst(bo.Y) || bo.X != hl {
					return false
				}
				return (bo.Op == token.NEQ && g.Pol) || (bo.Op == token.EQL && !g.Pol)
			})
			c.Check("site-kind", s.key+":nil-guard", call.Pos(), nonNil, "Filter"+kind+" is called without the guard hl != nil (GetHandlerList returns nil for an unknown point)")
			// verdict value and the arms
			s.ver = call
			if _, isTuple := call.Type().(*types.Tuple); isTuple {
				s.ver = nil
				if call.Referrers() != nil {
					for _, ref := range *call.Referrers() {
						if ex, ok := ref.(*ssa.Extract); ok && ex.Index == 0 {
							s.ver = ex
						}
					}
				}
			}
			if s.ver != nil {
				for _, x := range allInstrs(fn) {
					ifi, ok := x.(*ssa.If)
					if !ok {
						continue
					}
					bo, ok := ifi.Cond.(*ssa.BinOp)
					if !ok || (bo.Op != token.EQL && bo.Op != token.NEQ) {
						continue
					}
					var other ssa.Value
					// the verdict may flow through a phi (var retVal int declared earlier)
					if c48isVer(bo.X, s.ver) {
						other = bo.Y
					} else if c48isVer(bo.Y, s.ver) {
						other = bo.X
					} else {
						continue
					}
					kv, ok := nxConstInt(other)
					if !ok {
						continue
					}
					for name, v := range verdict {
						if v == kv {
							if bo.Op == token.EQL {
								s.arms[name] = ifi.Block().Succs[0]
							} else {
								s.arms[name] = ifi.Block().Succs[1]
							}
							s.armIf[name] = ifi
						}
					}
				}
			}
		}
	}
	c.Check("site-kind", "bfe_server:sites", token.NoPos, len(sites) >= 9, fmt.Sprintf("%d Filter* call sites found in bfe_server, 9 were reviewed (one per callback point)", len(sites)))
	required := map[string][]string{
		"Request": {"Close", "Finish", "Redirect", "Response"}, "Forward": {"Finish"}, "Response": {"Finish"}, "Accept": {"Close"}, "Finish": nil,
	}
	for _, s := range sites {
		for _, v := range required[s.kind] {
			_, ok := s.arms[v]
			c.Check("verdict-handled", s.key+":"+v, s.call.Pos(), ok,
				"the verdict BfeHandler"+v+" of Filter"+s.kind+" at "+s.point+" is not compared: it would be treated like BfeHandlerGoOn")
		}
		var ignored []string
		for _, v := range []string{"Close", "Finish", "Redirect", "Response"} {
			if _, ok := s.arms[v]; !ok && s.kind != "Finish" {
				ignored = append(ignored, v)
			}
		}
		if len(ignored) > 0 {
			c.Note("%s: verdicts %s are not compared at this hook and act like GoOn (not decided)", s.key, strings.Join(ignored, ","))
		}
		c48reactions(c, s, closeDirectly, closeAfterReply)
	}
	c.Min("verdict-handled", 16)
	c.Min("verdict-close", 8)
	c.Min("verdict-finish", 12)
	c.Min("verdict-redirect", 12)
	c.Min("verdict-response", 9)
}

func c48isVer(v, ver ssa.Value) bool {
	if v == ver {
		return true
	}
	if phi, ok := v.(*ssa.Phi); ok {
		for _, l := range nxPhiLeaves(phi) {
			if l.V == ver {
				return true
			}
		}
	}
	return false
}

// c48actionCell finds the spilled named result `action` of fn.
func c48actionCell(fn *ssa.Function) *ssa.Alloc {
	// the result named `action`; otherwise (renamed) the first named int result
	for _, l := range fn.Locals {
		if l.Comment == "action" {
			return l
		}
	}
	rs := fn.Signature.Results()
	for i := 0; i < rs.Len(); i++ {
		name := rs.At(i).Name()
		if b, ok := rs.At(i).Type().Underlying().(*types.Basic); !ok || b.Kind() != types.Int || name == "" || name == "_" {
			continue
		}
		for _, l := range fn.Locals {
			if l.Comment == name {
				return l
			}
		}
		break
	}
	return nil
}

func c48reactions(c *core.Ctx, s *c48site, closeDirectly, closeAfterReply int64) {
	fn := s.fn
	cell := c48actionCell(fn)
	rwParam := func() ssa.Value {
		for _, p := range fn.Params {
			if core.TypeStr(p.Type()) == "bfe_http.ResponseWriter" {
				return p
			}
		}
		return nil
	}()
	// events inside a private helper of fn count at the helper's call (helper extraction)
	may := func(pred func(ssa.Instruction) bool) func(ssa.Instruction) bool { return nxLiftMay(fn, pred) }
	isRespWrite := may(func(in ssa.Instruction) bool {
		call, ok := in.(ssa.CallInstruction)
		if !ok {
			return false
		}
		cc := call.Common()
		if core.CallIs(cc, c48srv+".Redirect", c48srv+".ReverseProxy.sendResponse", "io.WriteString") {
			return true
		}
		if rwParam != nil && cc.IsInvoke() && core.StripConv(nxArgOf(cc.Value)) == rwParam {
			return true
		}
		return false
	})
	isRedirectCall := func(in ssa.Instruction) bool { return nxIsCall(in, c48srv+".Redirect") }
	isSendResponse := may(func(in ssa.Instruction) bool { return nxIsCall(in, c48srv+".ReverseProxy.sendResponse") })
	isBackend0 := func(in ssa.Instruction) bool {
		if nxIsCall(in, c48srv+".ReverseProxy.clusterInvoke", "bfe_http.RoundTripper.RoundTrip", "bfe_balance/bal_gslb.BalanceGslb.Balance") {
			return true
		}
		call, ok := in.(ssa.CallInstruction)
		return ok && call.Common().IsInvoke() && call.Common().Method.Name() == "RoundTrip"
	}
	isBackend := may(isBackend0)
	isRouting := may(func(in ssa.Instruction) bool {
		return isBackend0(in) || nxIsCall(in, c48srv+".BfeServer.findProduct", c48srv+".BfeServer.findCluster")
	})
	isServe0 := may(func(in ssa.Instruction) bool {
		return nxIsCall(in, c48srv+".conn.readRequest", c48srv+".conn.serveRequest", "bfe_tls.Conn.Handshake")
	})
	isServe := func(in ssa.Instruction) bool { return isServe0(in) || isRespWrite(in) }
	storesAction := func(want int64) func(ssa.Instruction) bool {
		return func(in ssa.Instruction) bool {
			st, ok := in.(*ssa.Store)
			if !ok || cell == nil || st.Addr != cell {
				return false
			}
			k, ok := nxConstResult(st.Val)
			return ok && k == want
		}
	}
	actionOn := func(arm *ssa.BasicBlock, want int64) (bool, string) {
		if cell == nil {
			return false, "the function has no named result `action` the rule can follow"
		}
		if bad := nxBlockReach(arm, storesAction(want), core.IsReturn); bad != nil {
			return false, "a path from the verdict arm returns without setting action"
		}
		// not overwritten afterwards
		for _, in := range allInstrs(fn) {
			if !storesAction(want)(in) || nxBlockReach(arm, nil, func(x ssa.Instruction) bool { return x == in }) == nil {
				continue
			}
			over := core.ReachAvoiding(fn, in, nil, func(x ssa.Instruction) bool {
				st, ok := x.(*ssa.Store)
				if !ok || st.Addr != cell {
					return false
				}
				k, ok := nxConstResult(st.Val)
				return !ok || k != want
			})
			if over != nil {
				return false, "action is overwritten after the verdict arm set it"
			}
		}
		return true, ""
	}
	for _, v := range []string{"Close", "Finish", "Redirect", "Response"} {
		arm := s.arms[v]
		if arm == nil {
			continue
		}
		pos := arm.Instrs[0].Pos()
		if !pos.IsValid() {
			pos = s.armIf[v].Pos()
		}
		key := s.key
		switch v {
		case "Close":
			if s.kind == "Accept" {
				bad := nxBlockReach(arm, nil, isServe)
				c.Check("verdict-close", key+":no-service", pos, bad == nil && nxBlockReach(arm, nil, core.IsReturn) != nil,
					"after BfeHandlerClose at "+s.point+" the connection is still served (TLS handshake / readRequest / serveRequest / a write is reachable): a close verdict must send nothing")
				continue
			}
			ok, why := actionOn(arm, closeDirectly)
			c.Check("verdict-close", key+":action", pos, ok, "BfeHandlerClose at "+s.point+" must return action closeDirectly on every path: "+why)
			bad := nxBlockReach(arm, nil, func(in ssa.Instruction) bool { return isRespWrite(in) || isBackend(in) })
			c.Check("verdict-close", key+":no-write", pos, bad == nil,
				"after BfeHandlerClose at "+s.point+" a response write or a backend call is reachable before return: a close verdict must send nothing to the client")
		case "Finish":
			ok, why := actionOn(arm, closeAfterReply)
			c.Check("verdict-finish", key+":action", pos, ok, "BfeHandlerFinish at "+s.point+" must return action closeAfterReply on every path: "+why)
			bad := nxBlockReach(arm, nil, isBackend)
			c.Check("verdict-finish", key+":no-backend", pos, bad == nil, "after BfeHandlerFinish at "+s.point+" a backend call (clusterInvoke/Balance/RoundTrip) is reachable")
		case "Redirect":
			bad := nxBlockReach(arm, nxLiftMust(fn, isRedirectCall), core.IsReturn)
			okArg := true
			for _, g := range nxRegion(fn) {
				for _, call := range core.Calls(g, c48srv+".Redirect") {
					// the call, or the call of the helper it sits in, is in the verdict arm
					inArm := call.(ssa.Instruction).Block() == arm
					if g != fn && !inArm {
						if pr := nxProgOf(fn); pr != nil {
							for _, site := range pr.CallSites(g) {
								inArm = inArm || site.Block() == arm
							}
						}
					}
					if !inArm || rwParam == nil {
						continue
					}
					a0 := core.StripConv(call.Common().Args[0])
					if g == fn {
						okArg = okArg && a0 == rwParam
						continue
					}
					// in a helper: the writer must be the helper's parameter that is bound to rw at the arm's call
					pi := -1
					for i, hp := range g.Params {
						if ssa.Value(hp) == a0 {
							pi = i
						}
					}
					if pr := nxProgOf(fn); pi < 0 || pr == nil {
						okArg = false
					} else {
						for _, site := range pr.CallSites(g) {
							if site.Block() == arm && (pi >= len(site.Common().Args) || core.StripConv(site.Common().Args[pi]) != rwParam) {
								okArg = false
							}
						}
					}
				}
			}
			c.Check("verdict-redirect", key+":redirects", pos, bad == nil && okArg, "BfeHandlerRedirect at "+s.point+": a path returns without calling Redirect(rw, …)")
			c.Check("verdict-redirect", key+":no-backend", pos, nxBlockReach(arm, nil, isRouting) == nil, "after BfeHandlerRedirect at "+s.point+" routing or a backend call is reachable")
			// feasible paths do not also send a proxied response
			sent := ""
			n := 0
			complete := nxEnumPaths(arm, s.armIf[v].Block(), 2, 3000, nil, func(p *core.Path) {
				n++
				if p.Has(isSendResponse) && sent == "" {
					sent = pathSig(p)
				}
			})
			c.Check("verdict-redirect", key+":only-redirect", pos, complete && n > 0 && sent == "",
				fmt.Sprintf("after BfeHandlerRedirect at %s a feasible path (of %d, complete=%v) also calls sendResponse: the client would get a second response; branches: %s", s.point, n, complete, sent))
		case "Response":
			c.Check("verdict-response", key+":no-backend", pos, nxBlockReach(arm, nil, isRouting) == nil,
				"after BfeHandlerResponse at "+s.point+" findProduct/findCluster/clusterInvoke is reachable: the module's response must be sent without contacting a backend")
			send := nxBlockReach(arm, nil, func(in ssa.Instruction) bool { return nxIsCall(in, c48srv+".ReverseProxy.sendResponse") })
			okSend, okRes := send != nil, false
			if okSend {
				a := send.(ssa.CallInstruction).Common().Args
				if len(a) >= 3 {
					okSend = rwParam == nil || core.StripConv(a[1]) == rwParam
					for _, l := range nxPhiLeaves(a[2]) {
						if rc, i := nxCallResult(l.V); rc == s.call && i == 1 {
							okRes = true
						}
					}
				}
			}
			c.Check("verdict-response", key+":sends", pos, okSend, "after BfeHandlerResponse at "+s.point+" sendResponse(rw, …) is not reachable")
			c.Check("verdict-response", key+":module-response", pos, okRes, "the response handed to sendResponse cannot be the one returned by the "+s.point+" filter")
		}
	}
}

// ---------------------------------------------------------------- consumers of the action

func c48consumers(c *core.Ctx) {
	closeDirectly, _ := nxConstOf(c, c48srv, "closeDirectly")
	keepAlive, okKA := nxConstOf(c, c48srv, "keepAlive")
	if sr := nxFuncOrMissing(c, c48srv, "conn.serveRequest"); sr != nil && okKA {
		var serveCall, finCall *ssa.Call
		for _, call := range core.Calls(sr, c48srv+".ReverseProxy.ServeHTTP") {
			serveCall, _ = call.(*ssa.Call)
		}
		for _, call := range core.Calls(sr, c48srv+".ReverseProxy.FinishReq") {
			finCall, _ = call.(*ssa.Call)
		}
		if serveCall == nil || finCall == nil {
			c.Check("action-honoured", "serveRequest:calls", sr.Pos(), false, "serveRequest does not call ServeHTTP and FinishReq")
		} else {
			isCD := func(g core.Guard, pol bool) bool {
				x, op, kv, ok := nxCmp(g.Cond, g.Pol)
				if !ok || x != ssa.Value(serveCall) || kv != closeDirectly {
					return false
				}
				return (op == token.EQL) == pol
			}
			okFin := true
			nfin := 0
			for _, call := range core.Calls(sr, c48srv+".response.finishRequest") {
				nfin++
				if !nxHolds(call.(ssa.Instruction).Block(), func(g core.Guard) bool { return isCD(g, false) }) {
					okFin = false
				}
			}
			okPrep := false
			for _, call := range core.Calls(sr, c48srv+".response.prepareForCloseConn") {
				okPrep = nxHolds(call.(ssa.Instruction).Block(), func(g core.Guard) bool { return isCD(g, true) })
			}
			c.Check("action-honoured", "serveRequest:closeDirectly", serveCall.Pos(), okFin && nfin > 0 && okPrep,
				"serveRequest must call res.finishRequest() (which flushes a reply) only when ServeHTTP's action is not closeDirectly, and prepareForCloseConn() when it is")
			// keep-alive
			rs := core.Returns(sr)
			ok := len(rs) > 0
			for _, r := range rs {
				for _, l := range nxPhiLeaves(r.Results[0]) {
					if k, isK := l.V.(*ssa.Const); isK && k.Value != nil && k.Value.ExactString() == "false" {
						continue
					}
					cmp := map[*ssa.Call]bool{}
					if x, op, kv, isCmp := nxCmp(l.V, true); isCmp && op == token.EQL && kv == keepAlive {
						if call, _ := nxCallResult(x); call != nil {
							cmp[call] = true
						}
					}
					if l.From != nil {
						for _, g := range core.GuardsOnEdge(l.From, l.From.Succs[0]) {
							_ = g
						}
						for _, g := range core.GuardsAt(l.From) {
							if x, op, kv, isCmp := nxCmp(g.Cond, g.Pol); isCmp && op == token.EQL && kv == keepAlive {
								if call, _ := nxCallResult(x); call != nil {
									cmp[call] = true
								}
							}
						}
					}
					if !cmp[serveCall] || !cmp[finCall] {
						ok = false
					}
				}
			}
			c.Check("action-honoured", "serveRequest:keepalive", sr.Pos(), ok,
				"serveRequest may report keep-alive although ServeHTTP or FinishReq returned an action other than keepAlive: a Finish/Close verdict would not close the connection")
		}
	}
	if sv := nxFuncOrMissing(c, c48srv, "conn.serve"); sv != nil {
		ok := false
		var srCall ssa.Instruction
		for _, call := range core.Calls(sv, c48srv+".conn.serveRequest") {
			srCall = call.(ssa.Instruction)
		}
		if srCall != nil {
			for _, in := range allInstrs(sv) {
				ifi, isIf := in.(*ssa.If)
				if !isIf {
					continue
				}
				cond := ifi.Cond
				neg := false
				if u, isU := cond.(*ssa.UnOp); isU && u.Op == token.NOT {
					cond, neg = u.X, true
				}
				if sv, isVal := srCall.(ssa.Value); !isVal || cond != sv {
					continue
				}
				exit := ifi.Block().Succs[1]
				if neg {
					exit = ifi.Block().Succs[0]
				}
				again := nxBlockReach(exit, nil, func(x ssa.Instruction) bool {
					return nxIsCall(x, c48srv+".conn.readRequest", c48srv+".conn.serveRequest")
				})
				ok = again == nil
			}
		}
		c.Check("action-honoured", "conn.serve:loop-exit", sv.Pos(), ok, "conn.serve must leave the request loop when serveRequest reports no keep-alive (no path back to readRequest)")
		// the deferred close is registered before the accept hooks
		var closer *ssa.Defer
		for _, in := range allInstrs(sv) {
			d, isD := in.(*ssa.Defer)
			if !isD {
				continue
			}
			if mc, isMc := d.Call.Value.(*ssa.MakeClosure); isMc {
				if len(core.Calls(mc.Fn.(*ssa.Function), c48srv+".conn.close")) > 0 {
					closer = d
				}
			}
		}
		okDefer := closer != nil
		for _, call := range core.Calls(sv, c48mod+".HandlerList.FilterAccept") {
			if closer == nil || !core.Dominates(closer, call.(ssa.Instruction)) {
				okDefer = false
			}
		}
		c.Check("action-honoured", "conn.serve:deferred-close", sv.Pos(), okDefer, "no deferred c.close() is registered before the accept hooks run: a Close verdict would not close the connection")
	}
	c.Min("action-honoured", 4)
}
