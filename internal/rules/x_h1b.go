package rules

// Shared helpers of the HTTP/1 proxy-side properties (C26-C29): facts implied
// by branch conditions (looking through `!`, and the phi form go/ssa gives to
// value-context `&&` / `||`), path queries that stop at witness instructions
// and at witness branch edges, comparison normalisation, field-load matching,
// table extraction from composite literals and string-constant census.

import (
	"go/ast"
	"go/constant"
	"go/token"
	"go/types"
	"strconv"
	"strings"

	"golang.org/x/tools/go/ssa"

	"verif/internal/core"
)

// h1bFact: value V is known to evaluate to Pol.
type h1bFact struct {
	V   ssa.Value
	Pol bool
}

// h1bImplied lists the facts that hold whenever cond evaluates to pol: the
// condition itself, the operand of a negation, and for the phi that go/ssa
// builds for `a && b` / `a || b` in value context the deciding operand plus the
// conditions established on the edge that carries it.
func h1bImplied(cond ssa.Value, pol bool) []h1bFact { return h1bImpliedD(cond, pol, 0) }

// h1bImpliedD: cd counts how many calls the expansion already looked through
// (a fact about the result of a boolean helper is expanded through the return
// that decides it, see h1bImpliedThrough).
func h1bImpliedD(cond ssa.Value, pol bool, cd int) []h1bFact {
	var out []h1bFact
	seen := map[h1bFact]bool{}
	var walk func(v ssa.Value, pol bool, d int)
	walk = func(v ssa.Value, pol bool, d int) {
		f := h1bFact{v, pol}
		if v == nil || seen[f] || d > 6 {
			return
		}
		seen[f] = true
		out = append(out, f)
		switch x := v.(type) {
		case *ssa.UnOp:
			if x.Op == token.NOT {
				walk(x.X, !pol, d+1)
			}
		case *ssa.Call, *ssa.Extract:
			if cd < 2 {
				for _, g := range h1bImpliedThroughD(v, pol, cd+1) {
					if !seen[g] {
						seen[g] = true
						out = append(out, g)
					}
				}
			}
		case *ssa.Phi:
			// all edges but one are the constant !pol: the remaining edge decided
			idx := -1
			for i, e := range x.Edges {
				if k, ok := e.(*ssa.Const); ok && k.Value != nil && k.Value.Kind() == constant.Bool && constant.BoolVal(k.Value) == !pol {
					continue
				}
				if idx >= 0 {
					return
				}
				idx = i
			}
			if idx < 0 || idx >= len(x.Block().Preds) {
				return
			}
			walk(x.Edges[idx], pol, d+1)
			for _, g := range core.GuardsOnEdge(x.Block().Preds[idx], x.Block()) {
				walk(g.Cond, g.Pol, d+1)
			}
		}
	}
	walk(cond, pol, 0)
	return out
}

// h1bEdgeFacts: the facts established by leaving block b towards successor i.
func h1bEdgeFacts(b *ssa.BasicBlock, i int) []h1bFact {
	ifi, ok := b.Instrs[len(b.Instrs)-1].(*ssa.If)
	if !ok || len(b.Succs) != 2 || b.Succs[0] == b.Succs[1] {
		return nil
	}
	return h1bImplied(ifi.Cond, i == 0)
}

// h1bFactsOnEdge: everything known when control moves from pred to succ
// (dominating conditions of pred plus pred's own branch), expanded.
func h1bFactsOnEdge(pred, succ *ssa.BasicBlock) []h1bFact {
	var out []h1bFact
	for _, g := range core.GuardsOnEdge(pred, succ) {
		out = append(out, h1bImplied(g.Cond, g.Pol)...)
	}
	return out
}

// h1bFactsAt: expanded conditions that hold on every path to b.
func h1bFactsAt(b *ssa.BasicBlock) []h1bFact {
	var out []h1bFact
	for _, g := range core.GuardsAt(b) {
		out = append(out, h1bImplied(g.Cond, g.Pol)...)
	}
	return out
}

// h1bGuarded: every way of entering b establishes a fact accepted by match.
func h1bGuarded(b *ssa.BasicBlock, match func(h1bFact) bool) bool {
	any := func(fs []h1bFact) bool {
		for _, f := range fs {
			if match(f) {
				return true
			}
		}
		return false
	}
	if any(h1bFactsAt(b)) {
		return true
	}
	if len(b.Preds) < 2 {
		return false
	}
	for _, p := range b.Preds {
		if !any(h1bFactsOnEdge(p, b)) {
			return false
		}
	}
	return true
}

// h1bReach is core.ReachAvoiding with witness edges: starting just after
// `from` (function entry when nil), is an instruction satisfying target
// reachable on a path that neither executes an instruction satisfying avoid nor
// takes a branch edge that establishes a fact satisfying avoidFact? The search
// stays inside fn; it is sensitive to boolean phis (named booleans) and prunes
// branches decided by the path taken (see h1bSearch).
func h1bReach(fn *ssa.Function, from ssa.Instruction, avoid func(ssa.Instruction) bool, avoidFact func(h1bFact) bool, target func(ssa.Instruction) bool) ssa.Instruction {
	if fn == nil || len(fn.Blocks) == 0 {
		return nil
	}
	q := &h1bSearch{Anchor: fn, Avoid: avoid, AvoidFact: avoidFact, Target: target, NoInline: true}
	return q.Reach(from)
}

// h1bCmp normalises a fact about a comparison: it reports the operands and
// the relation that holds ("==", "!=", "<", "<=", ">", ">=").
func h1bCmp(f h1bFact) (x, y ssa.Value, op token.Token, ok bool) {
	b, isBin := f.V.(*ssa.BinOp)
	if !isBin {
		return nil, nil, 0, false
	}
	op = b.Op
	if !f.Pol {
		switch b.Op {
		case token.EQL:
			op = token.NEQ
		case token.NEQ:
			op = token.EQL
		case token.LSS:
			op = token.GEQ
		case token.LEQ:
			op = token.GTR
		case token.GTR:
			op = token.LEQ
		case token.GEQ:
			op = token.LSS
		default:
			return nil, nil, 0, false
		}
	}
	switch op {
	case token.EQL, token.NEQ, token.LSS, token.LEQ, token.GTR, token.GEQ:
		return b.X, b.Y, op, true
	}
	return nil, nil, 0, false
}

// h1bEq: the fact asserts a == b (either operand order) for operands accepted
// by pa and pb.
func h1bEq(f h1bFact, pa, pb func(ssa.Value) bool) bool {
	x, y, op, ok := h1bCmp(f)
	if !ok || op != token.EQL {
		return false
	}
	return pa(x) && pb(y) || pa(y) && pb(x)
}

// h1bNe: the fact asserts a != b.
func h1bNe(f h1bFact, pa, pb func(ssa.Value) bool) bool {
	x, y, op, ok := h1bCmp(f)
	if !ok || op != token.NEQ {
		return false
	}
	return pa(x) && pb(y) || pa(y) && pb(x)
}

// h1bFieldOf: v is a load of (or the address of) a struct field; returns the
// field object and the struct base value.
func h1bFieldOf(v ssa.Value) (*types.Var, ssa.Value) {
	v = core.StripConv(v)
	if u, ok := v.(*ssa.UnOp); ok && u.Op == token.MUL {
		v = u.X
	}
	switch x := v.(type) {
	case *ssa.FieldAddr:
		return core.FieldObj(x.X, x.Field), x.X
	case *ssa.Field:
		return core.FieldObj(x.X, x.Field), x.X
	}
	return nil, nil
}

// h1bIsField returns a predicate: value is a load of the given field.
func h1bIsField(fld *types.Var) func(ssa.Value) bool {
	return func(v ssa.Value) bool {
		f, _ := h1bFieldOf(v)
		return fld != nil && f == fld
	}
}

// h1bIsStr: value is the string constant s.
func h1bIsStr(s string) func(ssa.Value) bool {
	return func(v ssa.Value) bool {
		k, ok := core.ConstString(v)
		return ok && k == s
	}
}

// h1bIsInt: value is the integer constant n.
func h1bIsInt(n int64) func(ssa.Value) bool {
	return func(v ssa.Value) bool {
		k, ok := h1bConstInt(v)
		return ok && k == n
	}
}

func h1bIsVal(want ssa.Value) func(ssa.Value) bool {
	return func(v ssa.Value) bool { return want != nil && core.StripConv(v) == want }
}

func h1bAny(ssa.Value) bool { return true }

// h1bConstInt returns the integer constant value of v.
func h1bConstInt(v ssa.Value) (int64, bool) {
	k, ok := core.StripConv(v).(*ssa.Const)
	if !ok || k.Value == nil || k.Value.Kind() != constant.Int {
		return 0, false
	}
	return constant.Int64Val(k.Value)
}

// h1bConstBool returns the boolean constant value of v.
func h1bConstBool(v ssa.Value) (bool, bool) {
	k, ok := v.(*ssa.Const)
	if !ok || k.Value == nil || k.Value.Kind() != constant.Bool {
		return false, false
	}
	return constant.BoolVal(k.Value), true
}

// h1bCallOf: v is (a result of) a call to one of the named callees.
func h1bCallOf(v ssa.Value, names ...string) *ssa.Call {
	v = core.StripConv(v)
	if e, ok := v.(*ssa.Extract); ok {
		v = e.Tuple
	}
	if c, ok := v.(*ssa.Call); ok && core.CallIs(&c.Call, names...) {
		return c
	}
	return nil
}

// h1bStoresOf lists the stores to a field inside fn.
func h1bStoresOf(fn *ssa.Function, fld *types.Var) []*ssa.Store {
	var out []*ssa.Store
	for _, s := range core.FieldStores([]*ssa.Function{fn}, fld) {
		out = append(out, s.Store)
	}
	return out
}

// h1bField resolves a struct field or reports the anchor missing.
func h1bField(c *core.Ctx, pkg, name string) *types.Var {
	v, _ := c.P.Obj(pkg, name).(*types.Var)
	if v == nil || !v.IsField() {
		c.Missing(pkg + "." + name)
		return nil
	}
	return v
}

// h1bFunc resolves a function or reports the anchor missing.
func h1bFunc(c *core.Ctx, pkg, name string) *ssa.Function {
	fn := c.P.Func(pkg, name)
	if fn == nil || fn.Blocks == nil {
		c.Missing(pkg + "." + name)
		return nil
	}
	c.Analysed(core.FuncKey(fn))
	return fn
}

// h1bCoupled: instruction a and b always execute together (same block, or one
// dominates the other and no path from the first reaches an exit without the
// second).
func h1bCoupled(a, b ssa.Instruction) bool {
	if a.Parent() != b.Parent() {
		return false
	}
	if a.Block() == b.Block() {
		return true
	}
	first, second := a, b
	if !core.Dominates(a, b) {
		first, second = b, a
		if !core.Dominates(b, a) {
			return false
		}
	}
	return core.ReachAvoiding(first.Parent(), first, func(x ssa.Instruction) bool { return x == second }, core.IsExit) == nil
}

// h1bVarDecl finds the composite literal that initialises a package-level
// variable; elements are reported as constant strings (slice elements or map
// keys whose value is the constant true).
func h1bStringTable(c *core.Ctx, pkg, name string) (vals []string, pos token.Pos, ok bool) {
	pk := c.P.Pkg(pkg)
	obj := c.P.Obj(pkg, name)
	if pk == nil || obj == nil {
		return nil, token.NoPos, false
	}
	for _, f := range pk.Syntax {
		for _, d := range f.Decls {
			gd, isGen := d.(*ast.GenDecl)
			if !isGen {
				continue
			}
			for _, sp := range gd.Specs {
				vs, isVal := sp.(*ast.ValueSpec)
				if !isVal {
					continue
				}
				for i, id := range vs.Names {
					if pk.TypesInfo.Defs[id] != obj || i >= len(vs.Values) {
						continue
					}
					cl, isLit := ast.Unparen(vs.Values[i]).(*ast.CompositeLit)
					if !isLit {
						return nil, id.Pos(), false
					}
					str := func(e ast.Expr) (string, bool) {
						tv, has := pk.TypesInfo.Types[e]
						if !has || tv.Value == nil || tv.Value.Kind() != constant.String {
							return "", false
						}
						return constant.StringVal(tv.Value), true
					}
					for _, el := range cl.Elts {
						if kv, isKV := el.(*ast.KeyValueExpr); isKV {
							k, okK := str(kv.Key)
							tv := pk.TypesInfo.Types[kv.Value]
							if !okK {
								return nil, el.Pos(), false
							}
							if tv.Value != nil && tv.Value.Kind() == constant.Bool && constant.BoolVal(tv.Value) {
								vals = append(vals, k)
							}
							continue
						}
						s, okS := str(el)
						if !okS {
							return nil, el.Pos(), false
						}
						vals = append(vals, s)
					}
					return vals, id.Pos(), true
				}
			}
		}
	}
	return nil, token.NoPos, false
}

// h1bCanonical is textproto.CanonicalMIMEHeaderKey for plain token names.
func h1bCanonical(s string) string {
	b := []byte(s)
	upper := true
	for i, ch := range b {
		if upper && 'a' <= ch && ch <= 'z' {
			b[i] = ch - 32
		} else if !upper && 'A' <= ch && ch <= 'Z' {
			b[i] = ch + 32
		}
		upper = ch == '-'
	}
	return string(b)
}

// h1bDerives walks backwards from v through value-preserving and
// string-deriving operations (calls: arguments and receiver; loads, index,
// slice, range/next, extract, phi, conversions, concatenation, allocs through
// their stores) and reports whether a value accepted by src is reached. via
// collects the static callees passed on the way.
func h1bDerives(v ssa.Value, src func(ssa.Value) bool, via map[string]bool) bool {
	seen := map[ssa.Value]bool{}
	var walk func(v ssa.Value, d int) bool
	walk = func(v ssa.Value, d int) bool {
		if v == nil || seen[v] || d > 24 {
			return false
		}
		seen[v] = true
		if src(v) {
			return true
		}
		found := false
		rec := func(x ssa.Value) {
			if walk(x, d+1) {
				found = true
			}
		}
		switch x := v.(type) {
		case *ssa.Call:
			if via != nil {
				via[core.CalleeKey(&x.Call)] = true
			}
			if x.Call.IsInvoke() {
				rec(x.Call.Value)
			}
			for _, a := range x.Call.Args {
				rec(a)
			}
		case *ssa.UnOp:
			rec(x.X)
		case *ssa.BinOp:
			rec(x.X)
			rec(x.Y)
		case *ssa.Phi:
			for _, e := range x.Edges {
				rec(e)
			}
		case *ssa.Extract:
			rec(x.Tuple)
		case *ssa.Next:
			rec(x.Iter)
		case *ssa.Range:
			rec(x.X)
		case *ssa.IndexAddr:
			rec(x.X)
		case *ssa.Index:
			rec(x.X)
		case *ssa.Lookup:
			rec(x.X)
		case *ssa.Slice:
			rec(x.X)
		case *ssa.FieldAddr:
			rec(x.X)
		case *ssa.Field:
			rec(x.X)
		case *ssa.ChangeType:
			rec(x.X)
		case *ssa.ChangeInterface:
			rec(x.X)
		case *ssa.MakeInterface:
			rec(x.X)
		case *ssa.Convert:
			rec(x.X)
		case *ssa.TypeAssert:
			rec(x.X)
		case *ssa.Alloc:
			if x.Referrers() != nil {
				for _, r := range *x.Referrers() {
					if st, ok := r.(*ssa.Store); ok && st.Addr == x {
						rec(st.Val)
					}
				}
			}
		}
		return found
	}
	return walk(v, 0)
}

// h1bStaticCallers lists the call instructions in the given functions whose
// static callee is target.
func h1bStaticCallers(fns []*ssa.Function, target *ssa.Function) []ssa.CallInstruction {
	var out []ssa.CallInstruction
	for _, fn := range fns {
		core.Instrs(fn, func(in ssa.Instruction) {
			if ci, ok := in.(ssa.CallInstruction); ok && ci.Common().StaticCallee() == target {
				out = append(out, ci)
			}
		})
	}
	return out
}

// h1bFuncValueUses lists instructions that use target as a value (not as the
// callee of a static call): such uses defeat a who-may-call census.
func h1bFuncValueUses(fns []*ssa.Function, target *ssa.Function) []ssa.Instruction {
	var out []ssa.Instruction
	for _, fn := range fns {
		core.Instrs(fn, func(in ssa.Instruction) {
			for _, op := range in.Operands(nil) {
				if op == nil || *op != ssa.Value(target) {
					continue
				}
				if ci, ok := in.(ssa.CallInstruction); ok && ci.Common().Value == ssa.Value(target) && !ci.Common().IsInvoke() {
					continue
				}
				out = append(out, in)
			}
		})
	}
	return out
}

func h1bOrd(prefix string, n map[string]int) string {
	n[prefix]++
	if n[prefix] == 1 {
		return prefix
	}
	return prefix + "#" + strconv.Itoa(n[prefix])
}

func h1bJoinFacts(fs []h1bFact) string {
	var parts []string
	seen := map[string]bool{}
	for _, f := range fs {
		s := core.Render(f.V)
		if !f.Pol {
			s = "!" + s
		}
		if !seen[s] {
			seen[s] = true
			parts = append(parts, s)
		}
	}
	return strings.Join(parts, " && ")
}
