package rules

import (
	"fmt"
	"go/constant"
	"go/token"
	"go/types"
	"strings"

	"golang.org/x/tools/go/ssa"

	"verif/internal/core"
)

// C11 — basic route rules follow the documented precedence.
func init() {
	const f = "bfe_config/bfe_route_conf/route_rule_conf/basic_rule_tree.go"
	Register(&Rule{
		ID: "C11", Section: "4 C11",
		Technique: "feasible-path enumeration with phi resolution of hostTrees.get/insert, pathTrees.get/insert and BasicRouteRuleTree.Get/Insert: which radix tree (exact/wildcard index) each lookup and insertion uses, under which branch facts each result is returned, and the normaliser chain of every key on the insert and on the lookup side (agreement); census of radix insertions",
		Meta: core.Meta{
			Level:       "other",
			Explanation: "Decides: (a) host keys: hostTrees.insert and hostTrees.get both use ToUpper(ReverseFqdnHost(host)); insert strips the leading '*' and selects the wildcard tree exactly when host[0] == '*', the exact tree otherwise; Insert never passes an empty host (host[0] would panic); (b) hostTrees.get consults the exact tree first; a value of the wildcard tree's LongestPrefix is returned only after the exact lookup missed and strings.Contains(TrimPrefix(key, matchedPrefix), \".\") was false (single label); the any-host entry (wildcard tree, key \"\") is returned only after the exact lookup missed and no single-label wildcard applied; not-found is returned only after all of them missed; (c) path keys: pathTrees.insert selects the wildcard tree exactly when the last byte is '*', strips it and appends '/' exactly when the remainder is non-empty and does not already end in '/'; pathTrees.get looks up the unmodified path in the exact tree first and, only after a miss, the path with '/' appended under the same condition in the wildcard tree (both sides produce keys that are empty or end in '/'); a duplicate path is rejected; (d) BasicRouteRuleTree.Get calls hostTrees.get once with the host, returns (\"\", false) when no host class was found and otherwise returns exactly the result of one pathTrees.get on that class's trees (no fallback to another host class on a path miss); Insert inserts every path of every host into the trees returned for that host, with \"*\" substituted for empty lists, and propagates errors; LookupCluster passes the port-stripped request host; radix insertions happen only in the two insert functions; (e) convertBasicRule creates one tree per product inside the product loop, hands every configured rule (ascending order) to Insert or returns an error, propagates Insert errors and publishes each tree under its product in the returned map. Form-independence: paths continue through unexported functions and closures of the package (an extracted wildcard / any-host lookup, a key-normalising helper); string tests are read as predicates whatever their spelling: starts with c (s[0] == c, strings.HasPrefix), ends in c (s[len(s)-1] == c, strings.HasSuffix), contains c (strings.Contains*, strings.Index* compared with 0 or -1), empty (s == \"\", any comparison of len(s) with a constant), the marker strip (s[1:] / TrimPrefix, s[:len(s)-1] / TrimSuffix) and the unmatched remainder (TrimPrefix(key, prefix) / key[len(prefix):]); a branch taken when strings.HasPrefix(key, p) is false for p the prefix returned by LongestPrefix(key) cannot execute and adds no path. Not covered: the radix library's LongestPrefix/Get semantics (longest path-element prefix relies on every wildcard key ending in '/'), Unicode behaviour of ToUpper, syntax checking of rules (\"*est.com\", \"/fo*\"), the documentation tables of route.md.",
			RuleText:    "obligations = one per (clause, path class) of the six functions, the key chain of every radix call, the census of radix.Insert call sites, LookupCluster's host operand, the Insert site of convertBasicRule",
			Assumptions: []string{"github.com/armon/go-radix Tree.Get is exact match and LongestPrefix returns the longest stored key that is a prefix of the argument"},
		},
		Run: runC11,
		Mutants: []Mutant{
			{Name: "lookup-case-not-folded", File: f, Old: "	key := strings.ToUpper(string_reverse.ReverseFqdnHost(host))\n\n	//exact match firstly", New: "	key := string_reverse.ReverseFqdnHost(host)\n\n	//exact match firstly", Expect: "host-key"},
			{Name: "insert-lower-lookup-upper", File: f, Old: "	key = strings.ToUpper(string_reverse.ReverseFqdnHost(key))", New: "	key = strings.ToLower(string_reverse.ReverseFqdnHost(key))", Expect: "host-key"},
			{Name: "wildcard-star-kept", File: f, Old: "		key = host[1:]\n		treeType = treeMatchWildcard", New: "		key = host\n		treeType = treeMatchWildcard", Expect: "hostTrees.insert:wildcard-key"},
			{Name: "wildcard-into-exact-tree", File: f, Old: "		key = host[1:]\n		treeType = treeMatchWildcard", New: "		key = host[1:]\n		treeType = treeMatchExact", Expect: "host-insert"},
			{Name: "multi-label-wildcard", File: f, Old: "		if strings.Contains(remainingPart, \".\") {", New: "		if strings.Contains(remainingPart, \"..\") {", Expect: "host-get"},
			{Name: "single-label-test-inverted", File: f, Old: "		if strings.Contains(remainingPart, \".\") {", New: "		if !strings.Contains(remainingPart, \".\") {", Expect: "host-get"},
			{Name: "wildcard-before-exact", File: f, Old: "	if value, found := ht[treeMatchExact].Get(key); found {\n		return value.(pathTrees), true\n	}\n\n	// try wildcard match if exact match fail", New: "	// try wildcard match if exact match fail", Expect: "host-get"},
			{Name: "any-host-before-wildcard", File: f, Old: "	// try wildcard match if exact match fail\n	// note: * only match one label in hostname.", New: "	if value, found := ht[treeMatchWildcard].Get(\"\"); found {\n		return value.(pathTrees), true\n	}", Expect: "host-get"},
			{Name: "prefix-slash-not-appended-on-lookup", File: f, Old: "	if len(path) > 0 && path[len(path)-1] != '/' {\n		path = path + \"/\"\n	}\n\n	// wildcard match", New: "	// wildcard match", Expect: "path-get"},
			{Name: "prefix-slash-not-appended-on-insert", File: f, Old: "		if len(key) > 0 && key[len(key)-1] != '/' {\n			key = key + \"/\"\n		}\n", New: "", Expect: "path-insert"},
			{Name: "prefix-before-exact", File: f, Old: "	// exact match firstly\n	if value, found := pt[treeMatchExact].Get(path); found {\n		return value.(string), true\n	}\n", New: "", Expect: "path-get"},
			{Name: "exact-lookup-in-wildcard-tree", File: f, Old: "	if value, found := pt[treeMatchExact].Get(path); found {", New: "	if value, found := pt[treeMatchWildcard].Get(path); found {", Expect: "path-get"},
			{Name: "duplicate-path-overwrites", File: f, Old: "	if old, updated := pt[treeType].Insert(key, cluster); updated {\n		// if key exist, return error\n		return fmt.Errorf(\"path[%s] is duplicated in same host, existing cluster: %s\", path, old)\n	}", New: "	pt[treeType].Insert(key, cluster)", Expect: "path-insert"},
			{Name: "fallback-to-any-host-on-path-miss", File: f, Old: "	// match path\n	return pathTree.get(path)", New: "	// match path\n	if name, ok := pathTree.get(path); ok {\n		return name, ok\n	}\n	if v, ok := r.hosts[treeMatchWildcard].Get(\"\"); ok {\n		anyTrees := v.(pathTrees)\n		return anyTrees.get(path)\n	}\n	return \"\", false", Expect: "tree-get"},
			{Name: "empty-host-unchecked", File: f, Old: "		if host == \"\" {\n			// not allow\n			return fmt.Errorf(\"hostname is empty string\")\n		}\n", New: "", Expect: "tree-insert"},
			{Name: "insert-error-dropped", File: f, Old: "			if err := pathTree.insert(path, *ruleConf.ClusterName); err != nil {\n				return err\n			}", New: "			pathTree.insert(path, *ruleConf.ClusterName)", Expect: "tree-insert"},
			{Name: "tree-shared-between-products", File: "bfe_config/bfe_route_conf/route_rule_conf/route_table_load.go", Old: "	for product, ruleFiles := range *ProductRule {\n		ruleTrees := NewBasicRouteRuleTree()\n", New: "	ruleTrees := NewBasicRouteRuleTree()\n	for product, ruleFiles := range *ProductRule {\n", Expect: "tree-build"},
			{Name: "advanced-mode-rules-not-inserted", File: "bfe_config/bfe_route_conf/route_rule_conf/route_table_load.go", Old: "			if err := ruleTrees.Insert(&ruleFile); err != nil {", New: "			if *ruleFile.ClusterName == AdvancedMode {\n				continue\n			}\n			if err := ruleTrees.Insert(&ruleFile); err != nil {", Expect: "tree-build"},
			{Name: "silent-rename-and-hoist", Silent: true, File: f, Old: "	key := strings.ToUpper(string_reverse.ReverseFqdnHost(host))\n\n	//exact match firstly\n	if value, found := ht[treeMatchExact].Get(key); found {\n		return value.(pathTrees), true\n	}", New: "	reversed := string_reverse.ReverseFqdnHost(host)\n	k := strings.ToUpper(reversed)\n\n	//exact match firstly\n	exactTree := ht[treeMatchExact]\n	v, hit := exactTree.Get(k)\n	if hit {\n		return v.(pathTrees), true\n	}\n	key := k"},
			{Name: "silent-early-return-form", Silent: true, File: f, Old: "		if strings.Contains(remainingPart, \".\") {\n			// not matched, try again to match empty string \"\", which match any hostname\n			if value, found := ht[treeMatchWildcard].Get(\"\"); found {\n				// matched with \"\"\n				return value.(pathTrees), true\n			}\n		} else {\n			// matched with wildcard host\n			return value.(pathTrees), true\n		}", New: "		if !strings.Contains(remainingPart, \".\") {\n			// matched with wildcard host\n			return value.(pathTrees), true\n		}\n		// not matched, try again to match empty string \"\", which match any hostname\n		if anyValue, anyFound := ht[treeMatchWildcard].Get(\"\"); anyFound {\n			return anyValue.(pathTrees), true\n		}"},
			{Name: "silent-any-host-lookup-in-helper", Silent: true, File: "bfe_config/bfe_route_conf/route_rule_conf/basic_rule_tree.go", Old: "			if value, found := ht[treeMatchWildcard].Get(\"\"); found {\n				// matched with \"\"\n				return value.(pathTrees), true\n			}\n		} else {\n			// matched with wildcard host\n			return value.(pathTrees), true\n		}\n	}\n\n	return pathTrees{}, false\n}\n\n", New: "			if anyTrees, anyFound := ht.anyHost(); anyFound {\n				// matched with \"\"\n				return anyTrees, true\n			}\n		} else {\n			// matched with wildcard host\n			return value.(pathTrees), true\n		}\n	}\n\n	return pathTrees{}, false\n}\n\n// anyHost returns the trees of the rule without host condition\nfunc (ht *hostTrees) anyHost() (pathTrees, bool) {\n	value, found := ht[treeMatchWildcard].Get(\"\")\n	if !found {\n		return pathTrees{}, false\n	}\n	return value.(pathTrees), true\n}\n\n"},
			{Name: "silent-wildcard-marker-hasprefix", Silent: true, File: "bfe_config/bfe_route_conf/route_rule_conf/basic_rule_tree.go", Old: "	if host[0] == '*' {\n		key = host[1:]", New: "	if strings.HasPrefix(host, \"*\") {\n		key = host[1:]"},
			{Name: "silent-single-label-test-index", Silent: true, File: "bfe_config/bfe_route_conf/route_rule_conf/basic_rule_tree.go", Old: "		if strings.Contains(remainingPart, \".\") {", New: "		if strings.Index(remainingPart, \".\") != -1 {"},
			{Name: "silent-insert-slash-guard-respelled", Silent: true, File: "bfe_config/bfe_route_conf/route_rule_conf/basic_rule_tree.go", Old: "		if len(key) > 0 && key[len(key)-1] != '/' {", New: "		if key != \"\" && !strings.HasSuffix(key, \"/\") {"},
			{Name: "silent-prefix-of-key-defensive-check", Silent: true, File: "bfe_config/bfe_route_conf/route_rule_conf/basic_rule_tree.go", Old: "		remainingPart := strings.TrimPrefix(key, matchedPrefix)\n", New: "		if !strings.HasPrefix(key, matchedPrefix) {\n			// LongestPrefix returns a prefix of key\n			return pathTrees{}, false\n		}\n		remainingPart := strings.TrimPrefix(key, matchedPrefix)\n"},
		},
	})
}

const (
	c11Pkg    = "bfe_config/bfe_route_conf/route_rule_conf"
	c11RGet   = "github.com/armon/go-radix.Tree.Get"
	c11RIns   = "github.com/armon/go-radix.Tree.Insert"
	c11RLP    = "github.com/armon/go-radix.Tree.LongestPrefix"
	c11RNew   = "github.com/armon/go-radix.New"
	c11HGet   = c11Pkg + ".hostTrees.get"
	c11HIns   = c11Pkg + ".hostTrees.insert"
	c11PGet   = c11Pkg + ".pathTrees.get"
	c11PIns   = c11Pkg + ".pathTrees.insert"
	c11Upper  = "strings.ToUpper"
	c11Revers = "reverse"
)

// c11Tree: which element of the receiver's tree array a radix call works on.
func c11Tree(p *rtPath, i int, recv ssa.Value, arr ssa.Value) (int64, bool) {
	ia, ok := rtLoadOf(p.R(i, recv)).(*ssa.IndexAddr)
	if !ok || (ia.X != arr && p.R(i, ia.X) != arr) {
		return -1, false
	}
	return rtConstInt(p.R(i, ia.Index))
}

func c11ConstInt(c *core.Ctx, name string) (int64, bool) {
	k, ok := c.P.Obj(c11Pkg, name).(*types.Const)
	if !ok || k.Val().Kind() != constant.Int {
		return 0, false
	}
	v, exact := constant.Int64Val(k.Val())
	return v, exact
}

// c11LastByte: v is s[len(s)-1] for the given string value s.
func c11LastByte(v ssa.Value, s ssa.Value) bool {
	x, index, ok := rtStrIndex(v)
	if !ok || x != s {
		return false
	}
	b, ok := index.(*ssa.BinOp)
	if !ok || b.Op != token.SUB || !c10IsLenOf(b.X, s) {
		return false
	}
	k, ok := rtConstInt(b.Y)
	return ok && k == 1
}

// c11SlashState: is the string value s known, before item i, to be non-empty
// and not ending in '/' (needs the slash), or known to be empty / ending in '/'
// (must not get one)?
func c11SlashState(p *rtPath, i int, s ssa.Value) string {
	isS := func(v ssa.Value) bool { return v == s }
	empty, k1 := p.lenIs(i, isS, 0)
	if k1 && empty {
		return "complete" // empty
	}
	// the last byte against '/', in any spelling (s[len(s)-1] == '/', strings.HasSuffix(s, "/"))
	slash, k2 := p.strFact(i, isS, "last", '/')
	switch {
	case k1 && !empty && k2 && !slash:
		return "needs-slash"
	case k2 && slash:
		return "complete"
	}
	return "unknown"
}

// c11CanonStrip: the two spellings of "drop the leading '*'" are one step.
func c11CanonStrip(steps []string) []string {
	out := make([]string, len(steps))
	for i, x := range steps {
		if x == "slice(1:)" || x == "strings.TrimPrefix(*)" {
			x = "strip(*)"
		}
		out[i] = x
	}
	return out
}

func runC11(c *core.Ctx) {
	exact, ok1 := c11ConstInt(c, "treeMatchExact")
	wild, ok2 := c11ConstInt(c, "treeMatchWildcard")
	if !ok1 || !ok2 || exact == wild {
		c.Missing(c11Pkg + ".treeMatchExact/treeMatchWildcard")
		return
	}
	var hostGetChain, hostInsChain []string
	c11HostGet(c, exact, wild, &hostGetChain)
	c11HostInsert(c, exact, wild, &hostInsChain)
	if hostGetChain != nil && hostInsChain != nil {
		c.Check("host-key", "agreement", token.NoPos, rtJoin(hostGetChain) == rtJoin(hostInsChain),
			"hostTrees.insert normalises host keys as ["+rtJoin(hostInsChain)+"] but hostTrees.get as ["+rtJoin(hostGetChain)+"]: configured and requested hosts are compared in different forms")
	}
	c.Min("host-key", 4)
	c11PathInsert(c, exact, wild)
	c11PathGet(c, exact, wild)
	c11TreeGet(c)
	c11TreeInsert(c)
	c11Build(c)
	// census: radix insertions only in the two insert functions
	n := 0
	var foreign []string
	for _, fn := range c.P.SrcFuncs(c11Pkg) {
		for _, call := range core.Calls(fn, c11RIns, "github.com/armon/go-radix.Tree.Delete", "github.com/armon/go-radix.Tree.DeletePrefix") {
			_ = call
			n++
			if k := core.FuncKey(fn); k != c11HIns && k != c11PIns {
				foreign = append(foreign, k)
			}
		}
	}
	c.Check("tree-writers", "radix-insert-sites", token.NoPos, n >= 2 && len(foreign) == 0, fmt.Sprintf("radix trees of the basic rule tree are modified outside hostTrees.insert/pathTrees.insert by %s (%d sites)", strings.Join(foreign, ", "), n))
	if fld, ok := c.P.Obj(c11Pkg, "BasicRouteRuleTree.hosts").(*types.Var); !ok {
		c.Missing(c11Pkg + ".BasicRouteRuleTree.hosts")
	} else {
		var bad []string
		for _, st := range core.FieldStores(c.P.SrcFuncs(""), fld) {
			if k := core.FuncKey(st.Fn); k != c11Pkg+".NewBasicRouteRuleTree" {
				bad = append(bad, k)
			}
		}
		c.Check("tree-writers", "BasicRouteRuleTree.hosts", fld.Pos(), len(bad) == 0, "BasicRouteRuleTree.hosts is replaced by "+strings.Join(bad, ", "))
	}
	// the host handed to the basic tree has no port
	if lc := c.P.Func("bfe_route", "HostTable.LookupCluster"); lc == nil {
		c.Missing("bfe_route.HostTable.LookupCluster")
	} else {
		c.Analysed(core.FuncKey(lc))
		// the call may sit in a private helper of LookupCluster (region); the request then reaches it through the helper's parameter
		calls := c.P.RegionCalls(lc, c11Pkg+".BasicRouteRuleTree.Get")
		for _, call := range calls {
			steps, root := rtChainRegion(c.P, call.Common().Args[1])
			steps = rtCanonChain(steps)
			ok := len(steps) == 1 && steps[0] == "portstrip" && rtAPRegion(c.P, root) == "p1.HttpRequest.Host"
			if ok {
				if ia, isIA := rtLoadOf(call.Common().Args[1]).(*ssa.IndexAddr); isIA {
					if sc, isCall := ia.X.(*ssa.Call); isCall && core.CallIs(&sc.Call, "strings.SplitN") {
						if n, isK := rtConstInt(sc.Call.Args[2]); !isK || n == 0 || n == 1 {
							ok = false
						}
					}
				}
			}
			c.Check("lookup-host", "LookupCluster:host-operand", call.Pos(), ok, "the host handed to BasicRouteRuleTree.Get is "+rtJoin(steps)+" of "+core.Render(root)+"; expected req.HttpRequest.Host without its \":port\"")
		}
		c.Min("lookup-host", 1)
	}
}

// ---- hostTrees.get ---------------------------------------------------------

func c11HostGet(c *core.Ctx, exact, wild int64, chainOut *[]string) {
	fn := c.P.Func(c11Pkg, "hostTrees.get")
	if fn == nil {
		c.Missing(c11HGet)
		return
	}
	c.Analysed(core.FuncKey(fn))
	if len(fn.Params) != 2 {
		c.Check("host-get", "hostTrees.get:signature", fn.Pos(), false, "hostTrees.get no longer has the (host) parameter")
		return
	}
	arr, host := ssa.Value(fn.Params[0]), ssa.Value(fn.Params[1])
	for _, g := range c.P.Region(fn) {
		c.Analysed(core.FuncKey(g))
	}
	// paths continue through private helpers (an extracted wildcard lookup, a key-normalising helper)
	paths, complete := rtPathsR(fn, 2)
	agg := newRtAgg(c)
	agg.add("host-get", "hostTrees.get:enumeration", fn.Pos(), complete && len(paths) >= 2, fmt.Sprintf("%d feasible paths (complete=%v)", len(paths), complete))
	for _, p := range paths {
		rets, rn := p.ret()
		if rn < 0 || len(rets) != 2 {
			continue
		}
		var exactGet, lp, anyGet *ssa.Call
		exactAt, lpAt, anyAt := -1, -1, -1
		first := ""
		for i, it := range p.Items {
			call, ok := it.In.(*ssa.Call)
			if !ok || !core.CallIs(&call.Call, c11RGet, c11RLP, c11RIns) {
				continue
			}
			idx, known := c11Tree(p, i, call.Call.Args[0], arr)
			key := p.R(i, call.Call.Args[1])
			kind := "?"
			switch {
			case !known:
				kind = "unknown-tree"
			case core.CallIs(&call.Call, c11RGet) && idx == exact && !rtConstStr(key, ""):
				kind, exactGet, exactAt = "exact", call, i
			case core.CallIs(&call.Call, c11RLP) && idx == wild:
				kind, lp, lpAt = "wildcard", call, i
			case core.CallIs(&call.Call, c11RGet) && idx == wild && rtConstStr(key, ""):
				kind, anyGet, anyAt = "any", call, i
			default:
				kind = fmt.Sprintf("%s on tree %d", core.CalleeKey(&call.Call), idx)
			}
			if first == "" {
				first = kind
			}
			if kind == "exact" || kind == "wildcard" {
				steps, root := rtChain(call.Call.Args[1], func(v ssa.Value) ssa.Value { return p.R(i, v) })
				ok := len(steps) == 2 && steps[0] == c11Upper && steps[1] == c11Revers && root == host
				agg.add("host-key", "hostTrees.get:"+kind+"-key", call.Pos(), ok, "the "+kind+" host tree is searched with ["+rtJoin(steps)+"] of "+core.Render(root)+"; expected ToUpper(ReverseFqdnHost(host))")
				if ok {
					*chainOut = steps
				}
			} else if kind != "any" {
				agg.add("host-get", "hostTrees.get:tree-use", call.Pos(), false, "unexpected radix access in hostTrees.get: "+kind)
			}
		}
		agg.add("host-get", "hostTrees.get:exact-first", p.pos(rn), first == "exact", "the first tree consulted is "+first+", expected the exact-match tree with the normalised host")
		factOf := func(call *ssa.Call, at, idx int) (bool, bool) {
			if call == nil {
				return false, false
			}
			v := rtExtractOf(call, idx)
			if v == nil {
				return false, false
			}
			return p.factAfter(at, v)
		}
		exHit, exKnown := factOf(exactGet, exactAt, 1)
		lpHit, lpKnown := factOf(lp, lpAt, 2)
		anyHit, anyKnown := factOf(anyGet, anyAt, 1)
		// the single-label test: "the key without the matched prefix contains '.'", in any spelling
		// (TrimPrefix(key, matchedPrefix) or key[len(matchedPrefix):]; Contains / Index* >= 0)
		multi, multiKnown := false, false
		if lp != nil {
			p := p
			lpKey, lpPrefix := p.R(lpAt, lp.Call.Args[1]), rtExtractOf(lp, 0)
			isRem := func(v ssa.Value) bool {
				k, pre, ok := rtRemainder(p, len(p.Items), v)
				return ok && lpPrefix != nil && k == lpKey && pre == lpPrefix
			}
			multi, multiKnown = p.strFact(-1, isRem, "contains", '.')
		}
		exactMissed := exKnown && !exHit
		singleLabelHit := lpKnown && lpHit && multiKnown && !multi
		okv, okConst := rtConstBool(rets[1])
		ta, isTA := rets[0].(*ssa.TypeAssert)
		switch {
		case okConst && okv && isTA && exactGet != nil && p.R(rn, ta.X) == rtExtractOf(exactGet, 0):
			agg.add("host-get", "hostTrees.get:exact-result", p.pos(rn), exKnown && exHit, "the exact tree's value is returned without the exact lookup having reported found")
		case okConst && okv && isTA && lp != nil && p.R(rn, ta.X) == rtExtractOf(lp, 1):
			agg.add("host-get", "hostTrees.get:wildcard-result", p.pos(rn), exactMissed && singleLabelHit,
				fmt.Sprintf("a wildcard host's trees are returned without: exact lookup missed (%v), LongestPrefix found (%v), and the part matched by '*' tested to contain no \".\" (%v): '*' must match exactly one label and exact hosts win", exactMissed, lpKnown && lpHit, multiKnown && !multi))
		case okConst && okv && isTA && anyGet != nil && p.R(rn, ta.X) == rtExtractOf(anyGet, 0):
			noWildcard := (lpKnown && !lpHit) || (lpKnown && lpHit && multiKnown && multi)
			agg.add("host-get", "hostTrees.get:any-result", p.pos(rn), exactMissed && anyKnown && anyHit && noWildcard,
				"the any-host trees are returned although the exact lookup did not miss or a single-label wildcard host was not excluded first")
		case okConst && !okv:
			noWildcard := (lpKnown && !lpHit) || (lpKnown && lpHit && multiKnown && multi && anyKnown && !anyHit)
			agg.add("host-get", "hostTrees.get:not-found", p.pos(rn), exactMissed && noWildcard, "not-found is returned although a host class could still match (exact, single-label wildcard and any-host must all have missed)")
		default:
			agg.add("host-get", "hostTrees.get:result", p.pos(rn), false, "hostTrees.get returns "+core.Render(rets[0])+", "+core.Render(rets[1])+": not the value of one of the three lookups with a constant found flag")
		}
	}
	agg.flush()
	c.Min("host-get", 6)
}

// ---- hostTrees.insert --------------------------------------------------------

func c11HostInsert(c *core.Ctx, exact, wild int64, chainOut *[]string) {
	fn := c.P.Func(c11Pkg, "hostTrees.insert")
	if fn == nil {
		c.Missing(c11HIns)
		return
	}
	c.Analysed(core.FuncKey(fn))
	if len(fn.Params) != 2 {
		c.Check("host-insert", "hostTrees.insert:signature", fn.Pos(), false, "hostTrees.insert no longer has the (host) parameter")
		return
	}
	arr, host := ssa.Value(fn.Params[0]), ssa.Value(fn.Params[1])
	paths, complete := rtPathsR(fn, 2)
	agg := newRtAgg(c)
	agg.add("host-insert", "hostTrees.insert:enumeration", fn.Pos(), complete && len(paths) >= 2, fmt.Sprintf("%d feasible paths (complete=%v)", len(paths), complete))
	isHost := func(v ssa.Value) bool { return v == host }
	for _, p := range paths {
		rets, rn := p.ret()
		if rn < 0 || len(rets) != 1 {
			continue
		}
		// "the host starts with '*'": host[0] == '*' or strings.HasPrefix(host, "*")
		star, starKnown := p.strFact(-1, isHost, "first", '*')
		class := "exact"
		wantTree, wantChain := exact, []string{c11Upper, c11Revers}
		if starKnown && star {
			// dropping the marker: host[1:] or strings.TrimPrefix(host, "*")
			class, wantTree, wantChain = "wildcard", wild, []string{c11Upper, c11Revers, "strip(*)"}
		}
		if !starKnown {
			agg.add("host-insert", "hostTrees.insert:class-tested", p.pos(rn), false, "a host is inserted without host[0] having been compared with '*'")
			continue
		}
		var get, ins *ssa.Call
		getAt := -1
		for i, it := range p.Items {
			call, ok := it.In.(*ssa.Call)
			if !ok || !core.CallIs(&call.Call, c11RGet, c11RIns, c11RLP) {
				continue
			}
			idx, known := c11Tree(p, i, call.Call.Args[0], arr)
			steps, root := rtChain(call.Call.Args[1], func(v ssa.Value) ssa.Value { return p.R(i, v) })
			what := "lookup"
			if core.CallIs(&call.Call, c11RIns) {
				what, ins = "insert", call
			} else {
				get, getAt = call, i
			}
			agg.add("host-insert", "hostTrees.insert:"+class+"-tree:"+what, call.Pos(), known && idx == wantTree, fmt.Sprintf("a %s host is handled in tree %d, expected tree %d ('*' hosts belong to the wildcard tree, all others to the exact tree)", class, idx, wantTree))
			steps = c11CanonStrip(steps)
			ok = rtJoin(steps) == rtJoin(wantChain) && root == host
			agg.add("host-key", "hostTrees.insert:"+class+"-key:"+what, call.Pos(), ok, "a "+class+" host is stored under ["+rtJoin(steps)+"] of "+core.Render(root)+"; expected ["+rtJoin(wantChain)+"] of the host")
			if ok {
				*chainOut = rtWithout(steps, "strip(*)")
			}
		}
		found, foundKnown := false, false
		if get != nil {
			if v := rtExtractOf(get, 1); v != nil {
				found, foundKnown = p.factAfter(getAt, v)
			}
		}
		switch {
		case foundKnown && found:
			ta, isTA := rets[0].(*ssa.TypeAssert)
			agg.add("host-insert", "hostTrees.insert:"+class+"-existing", p.pos(rn), isTA && p.R(rn, ta.X) == rtExtractOf(get, 0) && ins == nil, "when the host already has trees they must be returned (so that all its paths share one pathTrees) and nothing inserted")
		case foundKnown && !found:
			ok := ins != nil
			if ok {
				raw := p.Items[rn].In.(*ssa.Return).Results[0]
				a, isA := rtLoadOf(raw).(*ssa.Alloc)
				b, isB := rtLoadOf(core.StripConv(ins.Call.Args[2])).(*ssa.Alloc)
				ok = isA && isB && a == b
				if ok {
					// both trees of the new value are created
					n := 0
					for i := range p.Items {
						if st, isSt := p.Items[i].In.(*ssa.Store); isSt {
							if ia, isIA := st.Addr.(*ssa.IndexAddr); isIA && ia.X == ssa.Value(a) && rtResultOf(p.R(i, st.Val), 0, c11RNew) != nil {
								n++
							}
						}
					}
					ok = n == 2
				}
			}
			agg.add("host-insert", "hostTrees.insert:"+class+"-new", p.pos(rn), ok, "for a new host a pathTrees value with two fresh radix trees must be inserted under the key and that same value returned")
		default:
			agg.add("host-insert", "hostTrees.insert:"+class+"-lookup", p.pos(rn), false, "the host is inserted without first looking up whether it already has trees")
		}
	}
	agg.flush()
	c.Min("host-insert", 8)
}

// ---- pathTrees.insert ----------------------------------------------------------

func c11PathInsert(c *core.Ctx, exact, wild int64) {
	fn := c.P.Func(c11Pkg, "pathTrees.insert")
	if fn == nil {
		c.Missing(c11PIns)
		return
	}
	c.Analysed(core.FuncKey(fn))
	if len(fn.Params) != 3 {
		c.Check("path-insert", "pathTrees.insert:signature", fn.Pos(), false, "pathTrees.insert no longer has (path, cluster) parameters")
		return
	}
	arr, path, cluster := ssa.Value(fn.Params[0]), ssa.Value(fn.Params[1]), ssa.Value(fn.Params[2])
	isPath := func(v ssa.Value) bool { return v == path }
	paths, complete := rtPathsR(fn, 2)
	agg := newRtAgg(c)
	agg.add("path-insert", "pathTrees.insert:enumeration", fn.Pos(), complete && len(paths) >= 2, fmt.Sprintf("%d feasible paths (complete=%v)", len(paths), complete))
	for _, p := range paths {
		rets, rn := p.ret()
		if rn < 0 || len(rets) != 1 {
			continue
		}
		inss := p.calls(c11RIns)
		empty, emptyKnown := p.lenIs(len(p.Items), isPath, 0)
		if emptyKnown && empty {
			agg.add("path-insert", "pathTrees.insert:empty-path", p.pos(rn), len(inss) == 0 && !rtIsNil(rets[0]), "an empty path must be rejected with an error and nothing inserted")
			continue
		}
		if len(inss) != 1 {
			agg.add("path-insert", "pathTrees.insert:one-insert", p.pos(rn), false, fmt.Sprintf("%d radix insertions on one path, expected 1", len(inss)))
			continue
		}
		ii := inss[0]
		ins := p.Items[ii].In.(*ssa.Call)
		if !emptyKnown {
			agg.add("path-insert", "pathTrees.insert:length-tested", ins.Pos(), false, "path[len(path)-1] is read without len(path) == 0 having been excluded")
			continue
		}
		// "the path ends in '*'": path[len(path)-1] == '*' or strings.HasSuffix(path, "*")
		star, starKnown := p.strFact(ii, isPath, "last", '*')
		if !starKnown {
			agg.add("path-insert", "pathTrees.insert:class-tested", ins.Pos(), false, "a path is inserted without its last byte having been compared with '*'")
			continue
		}
		idx, known := c11Tree(p, ii, ins.Call.Args[0], arr)
		steps, root := rtChain(ins.Call.Args[1], func(v ssa.Value) ssa.Value { return p.R(ii, v) })
		if !star {
			agg.add("path-insert", "pathTrees.insert:exact-tree", ins.Pos(), known && idx == exact, fmt.Sprintf("a path without trailing '*' is inserted into tree %d, expected the exact tree %d", idx, exact))
			agg.add("path-insert", "pathTrees.insert:exact-key", ins.Pos(), len(steps) == 0 && root == path, "an exact path is stored under ["+rtJoin(steps)+"] of "+core.Render(root)+", expected the path itself")
		} else {
			agg.add("path-insert", "pathTrees.insert:prefix-tree", ins.Pos(), known && idx == wild, fmt.Sprintf("a path with trailing '*' is inserted into tree %d, expected the wildcard tree %d", idx, wild))
			// the stripped path: path[:len(path)-1] or strings.TrimSuffix(path, "*")
			var stripped ssa.Value
			if root == path && len(steps) >= 1 {
				v := p.R(ii, ins.Call.Args[1])
				if b, ok := v.(*ssa.BinOp); ok && b.Op == token.ADD {
					v = p.R(ii, b.X)
				}
				if s0, ok := rtStripLast(p, ii, v, '*'); ok && s0 == path {
					stripped = v
				}
			}
			if stripped == nil {
				agg.add("path-insert", "pathTrees.insert:prefix-key", ins.Pos(), false, "a prefix path is stored under ["+rtJoin(steps)+"] of "+core.Render(root)+"; expected path[:len(path)-1], optionally with \"/\" appended")
			} else {
				st := c11SlashState(p, ii, stripped)
				appended := len(steps) == 2 && steps[0] == "append(/)"
				plain := len(steps) == 1 && steps[0] != "append(/)"
				ok := (appended && st == "needs-slash") || (plain && st == "complete")
				agg.add("path-insert", "pathTrees.insert:prefix-key", ins.Pos(), ok, "a prefix path is stored under ["+rtJoin(steps)+"] while the stripped path is "+st+": the key must end in '/' (or be empty) exactly once, so that /foo* matches /foo and /foo/bar but not /foobar")
			}
		}
		mi, isMI := ins.Call.Args[2].(*ssa.MakeInterface)
		agg.add("path-insert", "pathTrees.insert:value", ins.Pos(), isMI && mi.X == cluster, "the value stored for a path is "+core.Render(ins.Call.Args[2])+", expected the cluster name")
		upd, updKnown := false, false
		if v := rtExtractOf(ins, 1); v != nil {
			upd, updKnown = p.factAfter(ii, v)
		}
		switch {
		case !updKnown:
			agg.add("path-insert", "pathTrees.insert:duplicate", ins.Pos(), false, "the `updated` result of radix Insert is not tested: a duplicate path silently replaces the earlier rule")
		case upd:
			agg.add("path-insert", "pathTrees.insert:duplicate", p.pos(rn), !rtIsNil(rets[0]), "a duplicate path in the same host class must be rejected with an error")
		default:
			agg.add("path-insert", "pathTrees.insert:inserted", p.pos(rn), rtIsNil(rets[0]), "a fresh path must be accepted (nil error)")
		}
	}
	agg.flush()
	c.Min("path-insert", 8)
}

// ---- pathTrees.get ---------------------------------------------------------------

func c11PathGet(c *core.Ctx, exact, wild int64) {
	fn := c.P.Func(c11Pkg, "pathTrees.get")
	if fn == nil {
		c.Missing(c11PGet)
		return
	}
	c.Analysed(core.FuncKey(fn))
	if len(fn.Params) != 2 {
		c.Check("path-get", "pathTrees.get:signature", fn.Pos(), false, "pathTrees.get no longer has the (path) parameter")
		return
	}
	arr, path := ssa.Value(fn.Params[0]), ssa.Value(fn.Params[1])
	paths, complete := rtPathsR(fn, 2)
	agg := newRtAgg(c)
	agg.add("path-get", "pathTrees.get:enumeration", fn.Pos(), complete && len(paths) >= 2, fmt.Sprintf("%d feasible paths (complete=%v)", len(paths), complete))
	for _, p := range paths {
		rets, rn := p.ret()
		if rn < 0 || len(rets) != 2 {
			continue
		}
		var exactGet, lp *ssa.Call
		exactAt, lpAt := -1, -1
		first := ""
		for i, it := range p.Items {
			call, ok := it.In.(*ssa.Call)
			if !ok || !core.CallIs(&call.Call, c11RGet, c11RLP, c11RIns) {
				continue
			}
			idx, known := c11Tree(p, i, call.Call.Args[0], arr)
			kind := fmt.Sprintf("%s on tree %d", core.CalleeKey(&call.Call), idx)
			switch {
			case known && core.CallIs(&call.Call, c11RGet) && idx == exact:
				kind, exactGet, exactAt = "exact", call, i
				agg.add("path-get", "pathTrees.get:exact-key", call.Pos(), p.R(i, call.Call.Args[1]) == path, "the exact path tree is searched with "+core.Render(p.R(i, call.Call.Args[1]))+", expected the unmodified path")
			case known && core.CallIs(&call.Call, c11RLP) && idx == wild:
				kind, lp, lpAt = "prefix", call, i
				steps, root := rtChain(call.Call.Args[1], func(v ssa.Value) ssa.Value { return p.R(i, v) })
				st := c11SlashState(p, i, path)
				ok := root == path && ((len(steps) == 1 && steps[0] == "append(/)" && st == "needs-slash") || (len(steps) == 0 && st == "complete"))
				agg.add("path-get", "pathTrees.get:prefix-key", call.Pos(), ok, "the prefix tree is searched with ["+rtJoin(steps)+"] of "+core.Render(root)+" while the path is "+st+": prefix keys end in '/', so the request path must get exactly one trailing '/' unless it is empty")
			default:
				agg.add("path-get", "pathTrees.get:tree-use", call.Pos(), false, "unexpected radix access in pathTrees.get: "+kind)
			}
			if first == "" {
				first = kind
			}
		}
		agg.add("path-get", "pathTrees.get:exact-first", p.pos(rn), first == "exact", "the first tree consulted is "+first+", expected the exact-match tree")
		exHit, exKnown := false, false
		if exactGet != nil {
			if v := rtExtractOf(exactGet, 1); v != nil {
				exHit, exKnown = p.factAfter(exactAt, v)
			}
		}
		lpHit, lpKnown := false, false
		if lp != nil {
			if v := rtExtractOf(lp, 2); v != nil {
				lpHit, lpKnown = p.factAfter(lpAt, v)
			}
		}
		okv, okConst := rtConstBool(rets[1])
		ta, isTA := rets[0].(*ssa.TypeAssert)
		switch {
		case okConst && okv && isTA && exactGet != nil && p.R(rn, ta.X) == rtExtractOf(exactGet, 0):
			agg.add("path-get", "pathTrees.get:exact-result", p.pos(rn), exKnown && exHit, "the exact tree's value is returned without the lookup having reported found")
		case okConst && okv && isTA && lp != nil && p.R(rn, ta.X) == rtExtractOf(lp, 1):
			agg.add("path-get", "pathTrees.get:prefix-result", p.pos(rn), exKnown && !exHit && lpKnown && lpHit, "a prefix rule's cluster is returned although the exact path lookup did not miss first, or LongestPrefix did not report found")
		case okConst && !okv:
			agg.add("path-get", "pathTrees.get:not-found", p.pos(rn), exKnown && !exHit && lpKnown && !lpHit && rtConstStr(rets[0], ""), "not-found is returned although the exact or the prefix lookup could still match")
		default:
			agg.add("path-get", "pathTrees.get:result", p.pos(rn), false, "pathTrees.get returns "+core.Render(rets[0])+", "+core.Render(rets[1])+": not the value of one of the two lookups with a constant found flag")
		}
	}
	agg.flush()
	c.Min("path-get", 7)
}

// ---- BasicRouteRuleTree.Get / Insert -------------------------------------------------

func c11TreeGet(c *core.Ctx) {
	fn := c.P.Func(c11Pkg, "BasicRouteRuleTree.Get")
	if fn == nil {
		c.Missing(c11Pkg + ".BasicRouteRuleTree.Get")
		return
	}
	c.Analysed(core.FuncKey(fn))
	if len(fn.Params) != 3 {
		c.Check("tree-get", "BasicRouteRuleTree.Get:signature", fn.Pos(), false, "BasicRouteRuleTree.Get no longer has (host, path) parameters")
		return
	}
	paths, complete := rtPathsR(fn, 2, c11HGet, c11PGet)
	agg := newRtAgg(c)
	agg.add("tree-get", "BasicRouteRuleTree.Get:enumeration", fn.Pos(), complete && len(paths) >= 2, fmt.Sprintf("%d feasible paths (complete=%v)", len(paths), complete))
	for _, p := range paths {
		rets, rn := p.ret()
		if rn < 0 || len(rets) != 2 {
			continue
		}
		hgs, pgs := p.calls(c11HGet), p.calls(c11PGet)
		radix := p.calls(c11RGet, c11RLP)
		if len(hgs) != 1 || len(radix) != 0 {
			agg.add("tree-get", "BasicRouteRuleTree.Get:one-host-class", p.pos(rn), false, fmt.Sprintf("%d hostTrees.get calls and %d direct radix lookups on one path: the host class must be chosen exactly once, by hostTrees.get", len(hgs), len(radix)))
			continue
		}
		hg := p.Items[hgs[0]].In.(*ssa.Call)
		agg.add("tree-get", "BasicRouteRuleTree.Get:host-operand", hg.Pos(), p.AP(hgs[0], hg.Call.Args[0]) == "p0.hosts" && p.R(hgs[0], hg.Call.Args[1]) == ssa.Value(fn.Params[1]), "hostTrees.get must run on r.hosts with the host argument")
		found, known := false, false
		if v := rtExtractOf(hg, 1); v != nil {
			found, known = p.factAfter(hgs[0], v)
		}
		switch {
		case !known:
			agg.add("tree-get", "BasicRouteRuleTree.Get:host-found-tested", p.pos(rn), false, "the found result of hostTrees.get is not tested")
		case !found:
			okv, isK := rtConstBool(rets[1])
			agg.add("tree-get", "BasicRouteRuleTree.Get:no-host-class", p.pos(rn), len(pgs) == 0 && rtConstStr(rets[0], "") && isK && !okv, "without a host class Get must return (\"\", false)")
		default:
			ok := len(pgs) == 1
			if ok {
				pg := p.Items[pgs[0]].In.(*ssa.Call)
				recv := pg.Call.Args[0]
				var trees ssa.Value
				if a, isA := recv.(*ssa.Alloc); isA {
					if si := p.lastStore(pgs[0], func(s *ssa.Store) bool { return s.Addr == ssa.Value(a) }); si >= 0 {
						trees = p.R(si, p.Items[si].In.(*ssa.Store).Val)
					}
				}
				if trees == nil {
					// the trees handed on by value through a helper's parameter
					if par, isPar := recv.(*ssa.Parameter); isPar && par.Parent() != fn {
						if a, isA := p.R(pgs[0], par).(*ssa.Alloc); isA {
							if si := p.lastStore(pgs[0], func(s *ssa.Store) bool { return s.Addr == ssa.Value(a) }); si >= 0 {
								trees = p.R(si, p.Items[si].In.(*ssa.Store).Val)
							}
						}
					}
				}
				ok = trees != nil && trees == rtExtractOf(hg, 0) && p.R(pgs[0], pg.Call.Args[1]) == ssa.Value(fn.Params[2]) &&
					rets[0] == rtExtractOf(pg, 0) && rets[1] == rtExtractOf(pg, 1)
			}
			agg.add("tree-get", "BasicRouteRuleTree.Get:path-in-class", p.pos(rn), ok, "once a host class is found Get must return exactly the result of one pathTrees.get(path) on that class's trees: a path miss must not fall back to another host class")
		}
	}
	agg.flush()
	c.Min("tree-get", 4)
}

func c11TreeInsert(c *core.Ctx) {
	fn := c.P.Func(c11Pkg, "BasicRouteRuleTree.Insert")
	if fn == nil {
		c.Missing(c11Pkg + ".BasicRouteRuleTree.Insert")
		return
	}
	c.Analysed(core.FuncKey(fn))
	paths, complete := rtPathsR(fn, 2, c11HIns, c11PIns)
	agg := newRtAgg(c)
	agg.add("tree-insert", "BasicRouteRuleTree.Insert:enumeration", fn.Pos(), complete && len(paths) >= 2, fmt.Sprintf("%d feasible paths (complete=%v)", len(paths), complete))
	isZero := func(v ssa.Value) bool { k, ok := rtConstInt(v); return ok && k == 0 }
	elemOf := func(v ssa.Value, list string) bool {
		ia, ok := rtLoadOf(v).(*ssa.IndexAddr)
		return ok && rtAP(ia.X) == list
	}
	// "*" default: a store to the list of append(list, "*")
	starDefault := func(p *rtPath, list string) bool {
		si := p.lastStore(len(p.Items), func(s *ssa.Store) bool { return rtAP(s.Addr) == list })
		if si < 0 {
			return false
		}
		call, ok := p.R(si, p.Items[si].In.(*ssa.Store).Val).(*ssa.Call)
		if !ok {
			return false
		}
		b, ok := call.Call.Value.(*ssa.Builtin)
		if !ok || b.Name() != "append" || rtAP(call.Call.Args[0]) != list {
			return false
		}
		sl, ok := call.Call.Args[1].(*ssa.Slice)
		if !ok {
			return false
		}
		n, star := 0, false
		for i := 0; i < si; i++ {
			if st, ok := p.Items[i].In.(*ssa.Store); ok {
				if ia, ok := st.Addr.(*ssa.IndexAddr); ok && ia.X == sl.X {
					n++
					star = rtConstStr(st.Val, "*")
				}
			}
		}
		return n == 1 && star
	}
	for _, p := range paths {
		rets, rn := p.ret()
		if rn < 0 || len(rets) != 1 {
			continue
		}
		for _, list := range []string{"p1.Hostname", "p1.Path"} {
			empty, known := p.eqFact(len(p.Items), func(v ssa.Value) bool {
				call, ok := v.(*ssa.Call)
				if !ok {
					return false
				}
				b, ok := call.Call.Value.(*ssa.Builtin)
				return ok && b.Name() == "len" && rtAP(call.Call.Args[0]) == list
			}, isZero)
			short := strings.TrimPrefix(list, "p1.")
			if known && empty {
				agg.add("tree-insert", "BasicRouteRuleTree.Insert:default-"+short, p.pos(rn), starDefault(p, list), "an empty "+short+" list must be replaced by [\"*\"] (any "+strings.ToLower(short)+")")
			} else if !known {
				agg.add("tree-insert", "BasicRouteRuleTree.Insert:default-"+short, p.pos(rn), false, "len("+short+") == 0 is not tested: rules without "+strings.ToLower(short)+" condition are dropped")
			}
		}
		var curTrees ssa.Value
		curAt := -1
		for i, it := range p.Items {
			call, ok := it.In.(*ssa.Call)
			if !ok {
				continue
			}
			switch {
			case core.CallIs(&call.Call, c11HIns):
				h := call.Call.Args[1]
				isEmpty, known := p.eqFact(i, func(v ssa.Value) bool { return v == h }, func(v ssa.Value) bool { return rtConstStr(v, "") })
				agg.add("tree-insert", "BasicRouteRuleTree.Insert:host-non-empty", call.Pos(), known && !isEmpty, "hostTrees.insert reads host[0]; an empty host must be rejected before (it would panic)")
				agg.add("tree-insert", "BasicRouteRuleTree.Insert:host-operand", call.Pos(), rtAP(call.Call.Args[0]) == "p0.hosts" && elemOf(h, "p1.Hostname"), "hosts are inserted into r.hosts from ruleConf.Hostname; got "+core.Render(h))
				curTrees, curAt = call, i
			case core.CallIs(&call.Call, c11PIns):
				var trees ssa.Value
				if a, isA := call.Call.Args[0].(*ssa.Alloc); isA {
					if si := p.lastStore(i, func(s *ssa.Store) bool { return s.Addr == ssa.Value(a) }); si >= 0 && si > curAt {
						trees = p.R(si, p.Items[si].In.(*ssa.Store).Val)
					}
				}
				ok := curTrees != nil && trees == curTrees && elemOf(call.Call.Args[1], "p1.Path") && rtAP(call.Call.Args[2]) == "p1.ClusterName"
				agg.add("tree-insert", "BasicRouteRuleTree.Insert:path-operands", call.Pos(), ok, "each path of ruleConf.Path must be inserted, with *ruleConf.ClusterName, into the trees hostTrees.insert returned for the current host")
				errNil, known := p.eqFactAfter(i, func(v ssa.Value) bool { return v == ssa.Value(call) }, rtIsNil)
				if !known {
					agg.add("tree-insert", "BasicRouteRuleTree.Insert:path-error", call.Pos(), false, "the error of pathTrees.insert is not tested (duplicate or empty paths would be accepted silently)")
				} else if !errNil {
					agg.add("tree-insert", "BasicRouteRuleTree.Insert:path-error", call.Pos(), rets[0] == ssa.Value(call), "a failed pathTrees.insert must abort Insert with that error")
				}
			}
		}
	}
	agg.flush()
	c.Min("tree-insert", 6)
}

// ---- convertBasicRule: one tree per product, every rule inserted -----------------------

func c11Build(c *core.Ctx) {
	fn := c.P.Func(c11Pkg, "convertBasicRule")
	if fn == nil {
		c.Missing(c11Pkg + ".convertBasicRule")
		return
	}
	c.Analysed(core.FuncKey(fn))
	const newFn, insFn = c11Pkg + ".NewBasicRouteRuleTree", c11Pkg + ".BasicRouteRuleTree.Insert"
	// the range over the products
	var next *ssa.Next
	core.Instrs(fn, func(in ssa.Instruction) {
		if nx, ok := in.(*ssa.Next); ok {
			if rg, ok := nx.Iter.(*ssa.Range); ok && len(fn.Params) == 1 {
				if root, _ := rtPathOf(rg.X); root == ssa.Value(fn.Params[0]) {
					next = nx
				}
			}
		}
	})
	if next == nil {
		c.Check("tree-build", "convertBasicRule:product-loop", fn.Pos(), false, "no range over the product -> rules map found in convertBasicRule")
		return
	}
	product, files := rtExtractOf(next, 1), rtExtractOf(next, 2)
	inss := core.Calls(fn, insFn)
	c.Check("tree-build", "convertBasicRule:insert-sites", fn.Pos(), len(inss) == 1, fmt.Sprintf("expected one BasicRouteRuleTree.Insert call, found %d", len(inss)))
	for _, ic := range inss {
		ins, ok := ic.(*ssa.Call)
		if !ok {
			continue
		}
		tree := rtResultOf(ins.Call.Args[0], 0, newFn)
		c.Check("tree-build", "convertBasicRule:tree-per-product", ins.Pos(), tree != nil && next.Block().Dominates(tree.Block()) && next.Block() != tree.Block(),
			"rules must be inserted into a tree created by NewBasicRouteRuleTree() inside the per-product loop; a tree shared between products would mix their rules")
		// the rule inserted is the current element of the product's rule list
		var elemStore *ssa.Store
		srcOK := false
		if a, isA := ins.Call.Args[1].(*ssa.Alloc); isA {
			n := 0
			core.Instrs(fn, func(in ssa.Instruction) {
				if st, ok := in.(*ssa.Store); ok && st.Addr == ssa.Value(a) {
					n++
					if ia, ok := rtLoadOf(st.Val).(*ssa.IndexAddr); ok && files != nil && ia.X == files && rtAscendingIndex(ia.Index) {
						elemStore = st
					}
				}
			})
			srcOK = n == 1 && elemStore != nil
		}
		c.Check("tree-build", "convertBasicRule:rule-source", ins.Pos(), srcOK, "the rule handed to Insert must be the current element of the product's rule list, visited in ascending order")
		if elemStore != nil {
			bad := core.ReachAvoiding(fn, elemStore, func(in ssa.Instruction) bool { return in == ssa.Instruction(ins) }, func(in ssa.Instruction) bool { return in == ssa.Instruction(elemStore) })
			c.Check("tree-build", "convertBasicRule:every-rule", ins.Pos(), bad == nil, "a rule can be skipped: the next rule is reached without BasicRouteRuleTree.Insert (or an error return) for the current one")
		}
		// error propagated
		errOK := false
		if refs := ins.Referrers(); refs != nil {
			for _, r := range *refs {
				b, ok := r.(*ssa.BinOp)
				if !ok || b.Op != token.NEQ || !rtIsNil(b.Y) || b.Referrers() == nil {
					continue
				}
				for _, u := range *b.Referrers() {
					ifi, ok := u.(*ssa.If)
					if !ok {
						continue
					}
					tb := ifi.Block().Succs[0]
					if ret, ok := tb.Instrs[len(tb.Instrs)-1].(*ssa.Return); ok {
						rv := core.RetVals(ret)
						errOK = len(rv) == 3 && rv[2] == ssa.Value(ins)
					}
				}
			}
		}
		c.Check("tree-build", "convertBasicRule:insert-error", ins.Pos(), errOK, "an Insert error (duplicate/empty path, empty host) must abort the conversion with that error")
		// the product's tree is published under the product's name, on every iteration
		var pub *ssa.MapUpdate
		core.Instrs(fn, func(in ssa.Instruction) {
			if mu, ok := in.(*ssa.MapUpdate); ok && tree != nil && mu.Value == ssa.Value(tree) {
				pub = mu
			}
		})
		pubOK := pub != nil && product != nil && pub.Key == product
		if pubOK {
			_, isMake := pub.Map.(*ssa.MakeMap)
			pubOK = isMake
			for _, r := range core.Returns(fn) {
				rv := core.RetVals(r)
				if len(rv) == 3 && rtIsNil(rv[2]) && rv[1] != pub.Map {
					pubOK = false
				}
			}
			b := next.Block()
			if ifi, isIf := b.Instrs[len(b.Instrs)-1].(*ssa.If); isIf && pubOK {
				bad := core.ReachAvoiding(fn, ifi, func(in ssa.Instruction) bool { return in == ssa.Instruction(pub) }, func(in ssa.Instruction) bool { return in == ssa.Instruction(next) })
				pubOK = bad == nil
			}
		}
		c.Check("tree-build", "convertBasicRule:publish", ins.Pos(), pubOK, "every product's tree must be stored under the product's name in the map that is returned")
	}
	c.Min("tree-build", 6)
}
