package rules

import (
	"fmt"
	"go/constant"
	"go/token"
	"go/types"

	"golang.org/x/tools/go/ssa"

	"verif/internal/core"
)

// Shared helpers of the C19–C22 rules (all prefixed uu to stay clear of the
// helpers of other rule files).

// uuInstrs lists the instructions of fn in block order.
func uuInstrs(fn *ssa.Function) []ssa.Instruction {
	var out []ssa.Instruction
	if fn == nil {
		return nil
	}
	core.Instrs(fn, func(in ssa.Instruction) { out = append(out, in) })
	return out
}

// uuSingleStore returns the only value ever stored into the Alloc a (nil when
// there is none or more than one, or when the address escapes to a call).
func uuSingleStore(a *ssa.Alloc) ssa.Value {
	if a == nil || a.Referrers() == nil {
		return nil
	}
	var v ssa.Value
	n := 0
	for _, r := range *a.Referrers() {
		switch x := r.(type) {
		case *ssa.Store:
			if x.Addr == a {
				n++
				v = x.Val
			}
		case *ssa.MakeClosure:
			// captured: stores inside the closure would be through the FreeVar
			if fn, ok := x.Fn.(*ssa.Function); ok {
				for i, b := range x.Bindings {
					if b == a && i < len(fn.FreeVars) {
						if uuFreeVarStored(fn, fn.FreeVars[i]) {
							return nil
						}
					}
				}
			}
		}
	}
	if n == 1 {
		return v
	}
	return nil
}

func uuFreeVarStored(fn *ssa.Function, fv *ssa.FreeVar) bool {
	if fv.Referrers() == nil {
		return false
	}
	for _, r := range *fv.Referrers() {
		switch x := r.(type) {
		case *ssa.Store:
			if x.Addr == fv {
				return true
			}
		case *ssa.MakeClosure:
			return true // re-captured: give up
		}
	}
	return false
}

// uuFreeVarBinding finds the value bound to the free variable fv where its
// function is turned into a closure (the parent's MakeClosure).
func uuFreeVarBinding(fv *ssa.FreeVar) ssa.Value {
	fn := fv.Parent()
	if fn == nil || fn.Parent() == nil {
		return nil
	}
	pos := -1
	for i, x := range fn.FreeVars {
		if x == fv {
			pos = i
		}
	}
	if pos < 0 {
		return nil
	}
	var out ssa.Value
	n := 0
	core.Instrs(fn.Parent(), func(in ssa.Instruction) {
		if mc, ok := in.(*ssa.MakeClosure); ok && mc.Fn == fn && pos < len(mc.Bindings) {
			out = mc.Bindings[pos]
			n++
		}
	})
	if n == 1 {
		return out
	}
	return nil
}

// uuResolve peels conversions, interface boxing and loads of local variables
// that are assigned exactly once (also through a closure's free variable), so
// that `ip16 := x.To16(); f(ip16)` resolves to the To16 call.
func uuResolve(v ssa.Value) ssa.Value {
	for i := 0; i < 20 && v != nil; i++ {
		switch x := v.(type) {
		case *ssa.ChangeType:
			v = x.X
		case *ssa.ChangeInterface:
			v = x.X
		case *ssa.MakeInterface:
			v = x.X
		case *ssa.Convert:
			v = x.X
		case *ssa.UnOp:
			if x.Op != token.MUL {
				return v
			}
			switch a := x.X.(type) {
			case *ssa.Alloc:
				if s := uuSingleStore(a); s != nil {
					v = s
					continue
				}
				// a local assigned on several paths (named result): the one
				// store that reaches this load on every path, if there is one
				if s := uuReachingStore(a, x); s != nil {
					v = s
					continue
				}
				return v
			case *ssa.FreeVar:
				if b, ok := uuFreeVarBinding(a).(*ssa.Alloc); ok {
					if s := uuSingleStore(b); s != nil {
						v = s
						continue
					}
				}
				return v
			default:
				return v
			}
		default:
			return v
		}
	}
	return v
}

// uuIsNil: v is the nil constant.
func uuIsNil(v ssa.Value) bool {
	k, ok := v.(*ssa.Const)
	return ok && k.Value == nil
}

// uuConstInt returns the integer constant value of v.
func uuConstInt(v ssa.Value) (int64, bool) {
	k, ok := v.(*ssa.Const)
	if !ok || k.Value == nil || k.Value.Kind() != constant.Int {
		return 0, false
	}
	n, exact := constant.Int64Val(k.Value)
	return n, exact
}

// uuConstBool returns the boolean constant value of v.
func uuConstBool(v ssa.Value) (val, ok bool) {
	k, isK := v.(*ssa.Const)
	if !isK || k.Value == nil || k.Value.Kind() != constant.Bool {
		return false, false
	}
	return constant.BoolVal(k.Value), true
}

// uuFieldLoad: v (after uuResolve) is a load of struct field; returns the
// field object and the struct base value.
func uuFieldLoad(v ssa.Value) (*types.Var, ssa.Value) {
	v = uuResolve(v)
	switch x := v.(type) {
	case *ssa.UnOp:
		if x.Op == token.MUL {
			if fa, ok := x.X.(*ssa.FieldAddr); ok {
				return core.FieldObj(fa.X, fa.Field), fa.X
			}
		}
	case *ssa.Field:
		return core.FieldObj(x.X, x.Field), x.X
	}
	return nil, nil
}

// uuFieldAddr: addr is the address of a struct field; returns field and base.
func uuFieldAddr(addr ssa.Value) (*types.Var, ssa.Value) {
	if fa, ok := addr.(*ssa.FieldAddr); ok {
		return core.FieldObj(fa.X, fa.Field), fa.X
	}
	return nil, nil
}

// uuRel is a comparison known to hold: X Op Y.
type uuRel struct {
	Op   token.Token
	X, Y ssa.Value
}

func uuNegate(op token.Token) token.Token {
	switch op {
	case token.EQL:
		return token.NEQ
	case token.NEQ:
		return token.EQL
	case token.LSS:
		return token.GEQ
	case token.GEQ:
		return token.LSS
	case token.GTR:
		return token.LEQ
	case token.LEQ:
		return token.GTR
	}
	return token.ILLEGAL
}

func uuFlip(op token.Token) token.Token {
	switch op {
	case token.LSS:
		return token.GTR
	case token.GTR:
		return token.LSS
	case token.LEQ:
		return token.GEQ
	case token.GEQ:
		return token.LEQ
	}
	return op
}

// uuRelOf normalises a branch condition with polarity into a comparison that
// holds (`!(a > b)` becomes a <= b); ok is false for non-comparisons.
func uuRelOf(cond ssa.Value, pol bool) (uuRel, bool) {
	for {
		u, ok := cond.(*ssa.UnOp)
		if !ok || u.Op != token.NOT {
			break
		}
		cond, pol = u.X, !pol
	}
	b, ok := cond.(*ssa.BinOp)
	if !ok {
		return uuRel{}, false
	}
	op := b.Op
	switch op {
	case token.EQL, token.NEQ, token.LSS, token.LEQ, token.GTR, token.GEQ:
	default:
		return uuRel{}, false
	}
	if !pol {
		op = uuNegate(op)
	}
	return uuRel{op, b.X, b.Y}, true
}

// uuGuardRels lists the comparisons established at block b (named booleans
// and evaluated conjunctions expanded, see uuExpandGuards).
func uuGuardRels(b *ssa.BasicBlock) []uuRel {
	var out []uuRel
	for _, g := range uuGuardsAt(b) {
		if r, ok := uuRelOf(g.Cond, g.Pol); ok {
			out = append(out, r)
		}
	}
	return out
}

// uuHasRel: some guard at b, normalised, satisfies match.
func uuHasRel(b *ssa.BasicBlock, match func(r uuRel) bool) bool {
	return uuHasGuard(b, uuRelMatch(match))
}

// uuAllEdgesRel is core.AllEdgesGuarded on normalised comparisons.
func uuAllEdgesRel(b *ssa.BasicBlock, match func(r uuRel) bool) bool {
	return uuAllEdgesGuarded(b, uuRelMatch(match))
}

// uuBoolGuard: a guard at b is the boolean value matched by f with the given
// polarity (e.g. the result of a call used directly as condition).
func uuBoolGuard(b *ssa.BasicBlock, pol bool, f func(v ssa.Value) bool) bool {
	return uuHasGuard(b, func(g core.Guard) bool {
		cond, p := uuStripNot(g.Cond, g.Pol)
		return p == pol && f(cond)
	})
}

// uuNilTest: r states "v == nil" (isNil true) or "v != nil" for a v accepted by f.
func uuNilTest(r uuRel, isNil bool, f func(v ssa.Value) bool) bool {
	want := token.NEQ
	if isNil {
		want = token.EQL
	}
	if r.Op != want {
		return false
	}
	if uuIsNil(r.Y) && f(r.X) {
		return true
	}
	return uuIsNil(r.X) && f(r.Y)
}

// uuStaticCall returns the call (value form) if v resolves to a call of one of names.
func uuStaticCall(v ssa.Value, names ...string) *ssa.Call {
	c, ok := uuResolve(v).(*ssa.Call)
	if !ok || !core.CallIs(&c.Call, names...) {
		return nil
	}
	return c
}

// uuExtractOf: v resolves to result #i of call.
func uuExtractOf(v ssa.Value, call ssa.Value, i int) bool {
	ex, ok := uuResolve(v).(*ssa.Extract)
	return ok && ex.Index == i && ex.Tuple == call
}

// uuErrUsed reports whether the error produced by v (a call returning error,
// or an Extract of an error) is looked at: compared with nil / another value,
// returned, stored, or passed on; through phis. An error that only dies is
// "dropped".
func uuErrUsed(v ssa.Value) bool {
	seen := map[ssa.Value]bool{}
	var walk func(v ssa.Value) bool
	walk = func(v ssa.Value) bool {
		if v == nil || seen[v] {
			return false
		}
		seen[v] = true
		refs := v.Referrers()
		if refs == nil {
			return false
		}
		for _, r := range *refs {
			switch x := r.(type) {
			case *ssa.BinOp:
				if x.Op == token.EQL || x.Op == token.NEQ {
					return true
				}
			case *ssa.Return, *ssa.Store, *ssa.Call, *ssa.Defer, *ssa.Go, *ssa.MakeInterface, *ssa.TypeAssert, *ssa.MapUpdate, *ssa.Send:
				return true
			case *ssa.Phi:
				if walk(x) {
					return true
				}
			case *ssa.Extract:
				if types.Identical(x.Type(), uuErrorType) && walk(x) {
					return true
				}
			case *ssa.ChangeInterface:
				if walk(x) {
					return true
				}
			}
		}
		return false
	}
	return walk(v)
}

var uuErrorType = types.Universe.Lookup("error").Type()

// uuOrd hands out per-kind ordinals for obligation keys.
type uuOrd map[string]int

func (o uuOrd) key(prefix, kind string) string {
	o[prefix+kind]++
	return fmt.Sprintf("%s:%s#%d", prefix, kind, o[prefix+kind])
}

// uuShort is the function key without the package path.
func uuShort(fn *ssa.Function) string {
	k := core.FuncKey(fn)
	for i := len(k) - 1; i >= 0; i-- {
		if k[i] == '/' {
			return k[i+1:]
		}
	}
	return k
}

// uuRetIndex numbers the returns of fn in block order (stable under edits that
// do not add or remove returns before it).
func uuRetIndex(fn *ssa.Function) map[*ssa.Return]int {
	m := map[*ssa.Return]int{}
	for i, r := range core.Returns(fn) {
		m[r] = i + 1
	}
	return m
}

// uuCmpSet: cond (taken with polarity pol) compares the result of a
// bytes.Compare call with an integer constant; returns the call and for which
// of the outcomes -1, 0, +1 the condition holds.
func uuCmpSet(cond ssa.Value, pol bool) (call *ssa.Call, set [3]bool, ok bool) {
	r, isRel := uuRelOf(cond, pol)
	if !isRel {
		return nil, set, false
	}
	op := r.Op
	c := uuStaticCall(r.X, "bytes.Compare")
	k, isK := uuConstInt(r.Y)
	if c == nil || !isK {
		c = uuStaticCall(r.Y, "bytes.Compare")
		k, isK = uuConstInt(r.X)
		op = uuFlip(op)
		if c == nil || !isK {
			return nil, set, false
		}
	}
	for i, v := range []int64{-1, 0, 1} {
		switch op {
		case token.EQL:
			set[i] = v == k
		case token.NEQ:
			set[i] = v != k
		case token.LSS:
			set[i] = v < k
		case token.LEQ:
			set[i] = v <= k
		case token.GTR:
			set[i] = v > k
		case token.GEQ:
			set[i] = v >= k
		}
	}
	return c, set, true
}

func uuSetStr(s [3]bool) string {
	out := "{"
	for i, n := range []string{"<", "=", ">"} {
		if s[i] {
			out += n
		}
	}
	return out + "}"
}

// uuCallsIn returns the calls of fn (value or defer/go) to one of names.
func uuCallsIn(fn *ssa.Function, names ...string) []ssa.CallInstruction {
	if fn == nil {
		return nil
	}
	return core.Calls(fn, names...)
}

// uuIsCallTo: in is a call instruction (call/defer/go) of one of names.
func uuIsCallTo(in ssa.Instruction, names ...string) bool {
	ci, ok := in.(ssa.CallInstruction)
	return ok && core.CallIs(ci.Common(), names...)
}

// uuShapeGuard turns an analyser panic (an index into arguments/parameters
// that no longer exist because a signature changed) into an undischarged
// obligation: the rule can no longer follow the code, so the property cannot
// be certified. Use as `defer uuShapeGuard(c)`.
func uuShapeGuard(c *core.Ctx) {
	if e := recover(); e != nil {
		c.Check("shape", "rule-could-not-follow-the-code", token.NoPos, false, fmt.Sprintf("the rule tables no longer match the shape of the code (signature or arity of an anchored function changed): %v", e))
	}
}
