package rules

import (
	"fmt"
	"go/token"
	"go/types"
	"strings"

	"golang.org/x/tools/go/ssa"

	"verif/internal/core"
)

// C24 — accepted HTTP/1 requests have unambiguous framing.
func init() {
	Register(&Rule{
		ID: "C24", Section: "5 C24",
		Technique: "use census of framing-header reads (count inspected vs element 0 only), natural-loop exit analysis of the Transfer-Encoding scan, resolved branch facts on every success return of fixTransferEncoding/fixLength/parseContentLength/readTransfer/ReadRequest/parseRequestLine, validator-gate search (dominating branch on a predicate whose constant-folded verdict rejects SP/CR) before the header-map insertion of ReadMIMEHeaderAndKeys, table agreement of isTokenTable with RFC 7230 tchar, value-origin census of the method consulted by the shared request/response framing code (who-may-write transferReader.RequestMethod, call-site arguments) with response-only guard recognition, two-context forward dataflow of the sticky error field of the body decoders (pending-verdict state, cleared on the nil edge of a fresh test of the field, helper methods summarised per entry state), backing-block family analysis of the slices stored into header maps (phi/reslice closure, capacity bound vs start of the remaining block)",
		Meta: core.Meta{
			Level:       "other",
			Explanation: "Decides: (a) multiplicity: fixTransferEncoding and fixLength must inspect the number of Transfer-Encoding / Content-Length field values (len or a loop over all) instead of element 0 / GetDirect only; (b) Transfer-Encoding grammar: the loop over the comma-separated codings is left early only into an error return, every element either is stored as \"chunked\" or ends in an error, a non-empty result has len <= 1 and is returned only after delete(header, \"Content-Length\"); chunked() is len(te) > 0 && te[0|last] == \"chunked\"; (c) Content-Length: read only when not chunked, parse errors are returned, the accepted value is the parsed one, parseContentLength accepts only err == nil && n >= 0 and must not accept a sign (ParseUint or a digit gate); (d) readTransfer returns nil only when fixTransferEncoding, fixLength and fixTrailer succeeded, stores their results, and the length-delimited body is LimitReader(r, that length) under length > 0; (e) ReadRequest returns a request only when parseRequestLine ok, ParseHTTPVersion ok, ParseRequestURI, ReadMIMEHeaderAndKeys and readTransfer succeeded, every other return is (nil, non-nil error), Method/RequestURI/Header are the parsed ones; parseRequestLine says ok only with two separators found; (f) ReadMIMEHeaderAndKeys inserts only under `colon found`, the key is canonicalMIMEHeaderKey(kv[:colon]), the value starts after the colon, a read error is never dropped, and the insertion must be dominated by a validity gate over the name bytes that rejects SP/HT/CR (field-name gate, whitespace before colon); isTokenTable equals the RFC 7230 tchar set and validHeaderFieldByte follows it; (g) request framing is method-independent: every branch of readTransfer/fixLength/fixTransferEncoding/fixTrailer on a request method (noBodyExpected(m), m == \"HEAD\"/\"GET\") either consults a method that can never be the parsed request's own (all writers of transferReader.RequestMethod and all arguments bound to the method parameter are constants or Response.Request.Method) or is taken only under the message-is-a-response evidence (isResponse / the *Response type-switch arm). (h) a recorded rejection is not lost: for every struct type of bfe_http with a Read method and a field of type error (chunkedReader.err, the sticky verdict of the chunked decoder; bodyEOFSignal.rerr), a forward dataflow over Read and the methods it calls on the same receiver (two contexts: entered with / without a pending verdict) shows that no store assigns a value that may be nil to the field while an error stored since the last `field == nil` test may still be in it - so the CRLF / size-line verdict of one step cannot be overwritten by the next step; (i) field values do not share writable storage: every value list inserted into a map[string][]string in bfe_net/textproto and bfe_http that is cut out of a backing block which keeps being cut for other keys is a three-index slice whose capacity bound is not above the start of the rest of the block (same value or constants), so appending a repeated field line cannot overwrite the value of another field such as Content-Length. Not covered: equality with a reference parser on whole streams, obs-fold handling, Host multiplicity, response framing, bare CR inside lines; for (h) error fields touched by closures or by module functions that receive the reader as an argument are reported as not followed, explicit hand-over of the verdict through other variables is not modelled; for (i) value lists received whole from a caller or another map (aliasing of complete lists between maps) and blocks cut in a form other than block[:a:b] / block[c:] on the same SSA value. Robustness: framing-header reads, gate calls and field stores are looked for in the anchored function and its private helpers (unexported, one call site; facts of the call site hold inside the helper, facts established by a helper's returns hold after its call, a value returned by every relevant return of a helper is the call's result), `return helper(…)` tails are followed, codings may be recorded by index store or by append of single elements. Not followed: the Transfer-Encoding scan loop moved out of fixTransferEncoding, the splitting of a header line (colon search, key slice, value start) moved out of ReadMIMEHeaderAndKeys into a helper that returns several of these at once (value-after-colon is then not an obligation).",
			RuleText:    "obligations = each framing-header read, each loop exit / element path of the Transfer-Encoding scan, each success return of the framing functions and of ReadRequest, each error return of ReadRequest, each header-map insertion, the token table, each method-dependent branch of the framing functions, each store to a sticky error field reachable from a Read method, each insertion of a value list into a header map",
			Assumptions: []string{"strconv.ParseUint rejects a leading sign; net/url.ParseRequestURI returns an error for malformed targets"},
		},
		Run: runC24,
		Mutants: []Mutant{
			{Name: "silent-cl-read-in-helper", Silent: true, File: "bfe_http/transfer.go", Old: "\tcl := strings.TrimSpace(header.GetDirect(\"Content-Length\"))\n\tif cl != \"\" {\n\t\tn, err := parseContentLength(cl)\n\t\tif err != nil {\n\t\t\treturn -1, err\n\t\t}\n\t\treturn n, nil\n\t} else {\n\t\theader.Del(\"Content-Length\")\n\t}\n\n\tif !isResponse && requestMethod == MethodGet {\n\t\t// RFC 2616 doesn't explicitly permit nor forbid an\n\t\t// entity-body on a GET request so we permit one if\n\t\t// declared, but we default to 0 here (not -1 below)\n\t\t// if there's no mention of a body.\n\t\treturn 0, nil\n\t}\n\n\t// Body-EOF logic based on other methods (like closing, or chunked coding)\n\treturn -1, nil\n}\n", New: "\tcl := declaredContentLength(header)\n\tif cl != \"\" {\n\t\tn, err := parseContentLength(cl)\n\t\tif err != nil {\n\t\t\treturn -1, err\n\t\t}\n\t\treturn n, nil\n\t} else {\n\t\theader.Del(\"Content-Length\")\n\t}\n\n\tif !isResponse && requestMethod == MethodGet {\n\t\t// RFC 2616 doesn't explicitly permit nor forbid an\n\t\t// entity-body on a GET request so we permit one if\n\t\t// declared, but we default to 0 here (not -1 below)\n\t\t// if there's no mention of a body.\n\t\treturn 0, nil\n\t}\n\n\t// Body-EOF logic based on other methods (like closing, or chunked coding)\n\treturn -1, nil\n}\n\n// declaredContentLength returns the (single) Content-Length value, trimmed.\nfunc declaredContentLength(hdr Header) string {\n\treturn strings.TrimSpace(hdr.GetDirect(\"Content-Length\"))\n}\n"},
			{Name: "silent-te-append-constant", Silent: true, File: "bfe_http/transfer.go", Old: "\t\tte = te[0 : len(te)+1]\n\t\tte[len(te)-1] = encoding\n", New: "\t\tte = append(te, \"chunked\")\n"},
			{Name: "silent-transfer-framing-in-helper", Silent: true, File: "bfe_http/transfer.go", Old: "\t// Transfer encoding, content length\n\tt.TransferEncoding, err = fixTransferEncoding(t.RequestMethod, t.Header)\n\tif err != nil {\n\t\treturn err\n\t}\n\n\trealLength, err := fixLength(isResponse, t.StatusCode, t.RequestMethod, t.Header, t.TransferEncoding)\n\tif err != nil {\n\t\treturn err\n\t}\n\tif isResponse && t.RequestMethod == MethodHead {\n\t\tif n, err := parseContentLength(t.Header.GetDirect(\"Content-Length\")); err != nil {\n\t\t\treturn err\n\t\t} else {\n\t\t\tt.ContentLength = n\n\t\t}\n\t} else {\n\t\tt.ContentLength = realLength\n\t}\n\n\t// Trailer\n\tt.Trailer, err = fixTrailer(t.Header, t.TransferEncoding)\n\tif err != nil {\n\t\treturn err\n\t}\n\n\t// If there is no Content-Length or chunked Transfer-Encoding on a *Response\n\t// and the status is not 1xx, 204 or 304, then the body is unbounded.\n\t// See RFC2616, section 4.4.\n\tswitch msg.(type) {\n\tcase *Response:\n\t\tif realLength == -1 &&\n\t\t\t!chunked(t.TransferEncoding) &&\n\t\t\tbodyAllowedForStatus(t.StatusCode) {\n\t\t\t// Unbounded body.\n\t\t\tt.Close = true\n\t\t}\n\t}\n\n\t// Prepare body reader.  ContentLength < 0 means chunked encoding\n\t// or close connection when finished, since multipart is not supported yet\n\tswitch {\n\tcase chunked(t.TransferEncoding):\n\t\tif noBodyExpected(t.RequestMethod) {\n\t\t\tt.Body = EofReader\n\t\t} else {\n\t\t\tt.Body = &body{src: newChunkedReader(r), hdr: msg, r: r, closing: t.Close}\n\t\t}\n\tcase realLength == 0:\n\t\tt.Body = EofReader\n\tcase realLength > 0:\n\t\t// weiwei02: set r for peek data from body\n\t\tt.Body = &body{src: io.LimitReader(r, realLength), r: r, closing: t.Close}\n\tdefault:\n\t\t// realLength < 0, i.e. \"Content-Length\" not mentioned in header\n\t\tif t.Close {\n\t\t\t// Close semantics (i.e. HTTP/1.0)\n\t\t\tt.Body = &body{src: r, closing: t.Close}\n\t\t} else {\n\t\t\t// Persistent connection (i.e. HTTP/1.1)\n\t\t\tt.Body = EofReader\n\t\t}\n\t}\n\n\t// Unify output\n\tswitch rr := msg.(type) {\n\tcase *Request:\n\t\trr.Body = t.Body\n\t\trr.ContentLength = t.ContentLength\n\t\trr.TransferEncoding = t.TransferEncoding\n\t\trr.Close = t.Close\n\t\trr.Trailer = t.Trailer\n\tcase *Response:\n\t\trr.Body = t.Body\n\t\trr.ContentLength = t.ContentLength\n\t\trr.TransferEncoding = t.TransferEncoding\n\t\trr.Close = t.Close\n\t\trr.Trailer = t.Trailer\n\t}\n\n\treturn nil\n}\n\n", New: "\t// Transfer encoding, content length\n\trealLength, err := t.fixFraming(isResponse)\n\tif err != nil {\n\t\treturn err\n\t}\n\tif isResponse && t.RequestMethod == MethodHead {\n\t\tif n, err := parseContentLength(t.Header.GetDirect(\"Content-Length\")); err != nil {\n\t\t\treturn err\n\t\t} else {\n\t\t\tt.ContentLength = n\n\t\t}\n\t} else {\n\t\tt.ContentLength = realLength\n\t}\n\n\t// Trailer\n\tt.Trailer, err = fixTrailer(t.Header, t.TransferEncoding)\n\tif err != nil {\n\t\treturn err\n\t}\n\n\t// If there is no Content-Length or chunked Transfer-Encoding on a *Response\n\t// and the status is not 1xx, 204 or 304, then the body is unbounded.\n\t// See RFC2616, section 4.4.\n\tswitch msg.(type) {\n\tcase *Response:\n\t\tif realLength == -1 &&\n\t\t\t!chunked(t.TransferEncoding) &&\n\t\t\tbodyAllowedForStatus(t.StatusCode) {\n\t\t\t// Unbounded body.\n\t\t\tt.Close = true\n\t\t}\n\t}\n\n\t// Prepare body reader.  ContentLength < 0 means chunked encoding\n\t// or close connection when finished, since multipart is not supported yet\n\tswitch {\n\tcase chunked(t.TransferEncoding):\n\t\tif noBodyExpected(t.RequestMethod) {\n\t\t\tt.Body = EofReader\n\t\t} else {\n\t\t\tt.Body = &body{src: newChunkedReader(r), hdr: msg, r: r, closing: t.Close}\n\t\t}\n\tcase realLength == 0:\n\t\tt.Body = EofReader\n\tcase realLength > 0:\n\t\t// weiwei02: set r for peek data from body\n\t\tt.Body = &body{src: io.LimitReader(r, realLength), r: r, closing: t.Close}\n\tdefault:\n\t\t// realLength < 0, i.e. \"Content-Length\" not mentioned in header\n\t\tif t.Close {\n\t\t\t// Close semantics (i.e. HTTP/1.0)\n\t\t\tt.Body = &body{src: r, closing: t.Close}\n\t\t} else {\n\t\t\t// Persistent connection (i.e. HTTP/1.1)\n\t\t\tt.Body = EofReader\n\t\t}\n\t}\n\n\t// Unify output\n\tswitch rr := msg.(type) {\n\tcase *Request:\n\t\trr.Body = t.Body\n\t\trr.ContentLength = t.ContentLength\n\t\trr.TransferEncoding = t.TransferEncoding\n\t\trr.Close = t.Close\n\t\trr.Trailer = t.Trailer\n\tcase *Response:\n\t\trr.Body = t.Body\n\t\trr.ContentLength = t.ContentLength\n\t\trr.TransferEncoding = t.TransferEncoding\n\t\trr.Close = t.Close\n\t\trr.Trailer = t.Trailer\n\t}\n\n\treturn nil\n}\n\n// fixFraming decides the transfer codings and the body length of the message.\nfunc (tr *transferReader) fixFraming(isResp bool) (int64, error) {\n\tcodings, err := fixTransferEncoding(tr.RequestMethod, tr.Header)\n\tif err != nil {\n\t\treturn 0, err\n\t}\n\ttr.TransferEncoding = codings\n\treturn fixLength(isResp, tr.StatusCode, tr.RequestMethod, tr.Header, tr.TransferEncoding)\n}\n\n"},
			{Name: "te-skip-unknown", File: "bfe_http/transfer.go", Old: "		if encoding != \"chunked\" {\n			return nil, &badStringError{\"unsupported transfer encoding\", encoding}\n		}", New: "		if encoding != \"chunked\" {\n			continue\n		}", Expect: "te-grammar|fixTransferEncoding:element-path"},
			{Name: "te-many-allowed", File: "bfe_http/transfer.go", Old: "	if len(te) > 1 {\n		return nil, &badStringError{\"too many transfer encodings\", strings.Join(te, \",\")}\n	}\n", New: "", Expect: "te-grammar|fixTransferEncoding:single"},
			{Name: "te-keeps-content-length", File: "bfe_http/transfer.go", Old: "		delete(header, \"Content-Length\")\n		return te, nil", New: "		return te, nil", Expect: "te-grammar|fixTransferEncoding:deletes-content-length"},
			{Name: "cl-before-chunked", File: "bfe_http/transfer.go", Old: "	// Logic based on Transfer-Encoding\n	if chunked(te) {\n		return -1, nil\n	}\n", New: "", Expect: "cl|fixLength:chunked-precedence"},
			{Name: "cl-error-swallowed", File: "bfe_http/transfer.go", Old: "		n, err := parseContentLength(cl)\n		if err != nil {\n			return -1, err\n		}\n		return n, nil", New: "		n, _ := parseContentLength(cl)\n		return n, nil", Expect: "cl|fixLength:parse-error"},
			{Name: "cl-negative-accepted", File: "bfe_http/transfer.go", Old: "strconv.ParseUint(cl, 10, 63)", New: "strconv.ParseInt(cl, 10, 64)", Expect: "cl|parseContentLength:nonneg"},
			{Name: "transfer-te-error-ignored", File: "bfe_http/transfer.go", Old: "	t.TransferEncoding, err = fixTransferEncoding(t.RequestMethod, t.Header)\n	if err != nil {\n		return err\n	}", New: "	t.TransferEncoding, _ = fixTransferEncoding(t.RequestMethod, t.Header)", Expect: "transfer|readTransfer:success"},
			{Name: "transfer-limit-plus-one", File: "bfe_http/transfer.go", Old: "io.LimitReader(r, realLength), r: r, closing: t.Close}", New: "io.LimitReader(r, realLength+1), r: r, closing: t.Close}", Expect: "transfer|readTransfer:length-body"},
			{Name: "request-line-unchecked", File: "bfe_http/request.go", Old: "	if !ok {\n		return nil, &badStringError{\"malformed HTTP request\", s}\n	}\n", New: "", Expect: "accept|ReadRequest:parseRequestLine"},
			{Name: "request-transfer-error-ignored", File: "bfe_http/request.go", Old: "	err = readTransfer(req, b)\n	if err != nil {\n		return nil, err\n	}\n\n	return req, nil", New: "	readTransfer(req, b)\n\n	return req, nil", Expect: "accept|ReadRequest:readTransfer"},
			{Name: "request-line-one-space", File: "bfe_http/request.go", Old: "	if s1 < 0 || s2 < 0 {\n		return\n	}", New: "	if s1 < 0 {\n		return\n	}", Expect: "request-line|parseRequestLine"},
			{Name: "mime-colon-optional", File: "bfe_net/textproto/reader.go", Old: "		if i < 0 {\n			return m, mkeys, ProtocolError(\"malformed MIME header line: \" + string(kv))\n		}", New: "		if i < 0 {\n			i = len(kv) - 1\n		}", Expect: "mime|ReadMIMEHeaderAndKeys:colon-required"},
			{Name: "mime-key-includes-colon", File: "bfe_net/textproto/reader.go", Old: "		key := canonicalMIMEHeaderKey(kv[:i])", New: "		key := canonicalMIMEHeaderKey(kv[:i+1])", Expect: "mime|ReadMIMEHeaderAndKeys:key-before-colon"},
			{Name: "mime-error-dropped", File: "bfe_net/textproto/reader.go", Old: "		if len(kv) == 0 {\n			return m, mkeys, err\n		}", New: "		if len(kv) == 0 {\n			return m, mkeys, nil\n		}", Expect: "mime|ReadMIMEHeaderAndKeys:error-propagated"},
			{Name: "token-table-space", File: "bfe_net/textproto/reader.go", Old: "var isTokenTable = [127]bool{\n	'!':  true,", New: "var isTokenTable = [127]bool{\n	' ':  true,\n	'!':  true,", Expect: "token-table|textproto.isTokenTable"},
			{Name: "request-method-reaches-framing", File: "bfe_http/transfer.go", Old: "	case *Request:\n		t.Header = rr.Header\n", New: "	case *Request:\n		t.Header = rr.Header\n		t.RequestMethod = rr.Method\n", Expect: "method-independent|"},
			{Name: "request-method-passed-to-fixlength", File: "bfe_http/transfer.go", Old: "	realLength, err := fixLength(isResponse, t.StatusCode, t.RequestMethod, t.Header, t.TransferEncoding)", New: "	reqMethod := t.RequestMethod\n	if rq, isReq := msg.(*Request); isReq {\n		reqMethod = rq.Method\n	}\n	realLength, err := fixLength(isResponse, t.StatusCode, reqMethod, t.Header, t.TransferEncoding)", Expect: "method-independent|fixLength"},
			{Name: "silent-head-test-restricted-to-responses", Silent: true, File: "bfe_http/transfer.go", Old: "	if noBodyExpected(requestMethod) {\n		return 0, nil\n	}", New: "	if isResponse && noBodyExpected(requestMethod) {\n		return 0, nil\n	}"},
			{Name: "silent-te-rename", Silent: true, File: "bfe_http/transfer.go", Old: "	encodings := strings.Split(raw[0], \",\")\n	te := make([]string, 0, len(encodings))", New: "	codings := strings.Split(raw[0], \",\")\n	encodings := codings\n	te := make([]string, 0, len(codings))"},
			{Name: "latch-crlf-check-after-read-error", File: "bfe_http/chunked.go", Old: "	if cr.n == 0 && cr.err == nil {\n		// end of chunk (CRLF)", New: "	if cr.n == 0 {\n		// end of chunk (CRLF)", Expect: "error-latch|chunkedReader.Read:err-store#1"},
			{Name: "latch-next-size-line-prefetched", File: "bfe_http/chunked.go", Old: "				cr.err = errors.New(\"malformed chunked encoding\")\n			}\n		}\n	}\n	return n, cr.err", New: "				cr.err = errors.New(\"malformed chunked encoding\")\n			}\n		}\n		cr.beginChunk()\n	}\n	return n, cr.err", Expect: "error-latch|chunkedReader.beginChunk:err-store#0"},
			{Name: "latch-size-parse-over-line-error", File: "bfe_http/chunked.go", Old: "	line, cr.err = readLine(cr.r)\n	if cr.err != nil {\n		return\n	}\n", New: "	line, cr.err = readLine(cr.r)\n", Expect: "error-latch|chunkedReader.beginChunk:err-store#1"},
			{Name: "silent-crlf-check-in-helper", Silent: true, File: "bfe_http/chunked.go", Old: "		// end of chunk (CRLF)\n		if _, cr.err = io.ReadFull(cr.r, cr.buf[:]); cr.err == nil {\n			if cr.buf[0] != '\\r' || cr.buf[1] != '\\n' {\n				cr.err = errors.New(\"malformed chunked encoding\")\n			}\n		}\n	}\n	return n, cr.err\n}\n", New: "		cr.endChunk()\n	}\n	return n, cr.err\n}\n\n// endChunk consumes the CRLF that terminates the data of a chunk.\nfunc (cr *chunkedReader) endChunk() {\n	if _, cr.err = io.ReadFull(cr.r, cr.buf[:]); cr.err == nil {\n		if cr.buf[0] != '\\r' || cr.buf[1] != '\\n' {\n			cr.err = errors.New(\"malformed chunked encoding\")\n		}\n	}\n}\n"},
			{Name: "silent-deferred-crlf-check-tested", Silent: true, File: "bfe_http/chunked.go", Old: "type chunkedReader struct {\n	r   *bfe_bufio.Reader\n	n   uint64 // unread bytes in chunk\n	err error\n	buf [2]byte\n}\n\nfunc (cr *chunkedReader) beginChunk() {\n	// chunk-size CRLF\n	var line []byte\n	line, cr.err = readLine(cr.r)\n	if cr.err != nil {\n		return\n	}\n	cr.n, cr.err = parseHexUint(line)\n	if cr.err != nil {\n		return\n	}\n	if cr.n == 0 {\n		cr.err = io.EOF\n	}\n}\n\nfunc (cr *chunkedReader) Read(b []uint8) (n int, err error) {\n	if cr.err != nil {\n		return 0, cr.err\n	}\n	if cr.n == 0 {\n		cr.beginChunk()\n		if cr.err != nil {\n			return 0, cr.err\n		}\n	}\n	if uint64(len(b)) > cr.n {\n		b = b[0:cr.n]\n	}\n	n, cr.err = cr.r.Read(b)\n	cr.n -= uint64(n)\n	if cr.n == 0 && cr.err == nil {\n		// end of chunk (CRLF)\n		if _, cr.err = io.ReadFull(cr.r, cr.buf[:]); cr.err == nil {\n			if cr.buf[0] != '\\r' || cr.buf[1] != '\\n' {\n				cr.err = errors.New(\"malformed chunked encoding\")\n			}\n		}\n	}\n	return n, cr.err\n}\n\n", New: "type chunkedReader struct {\n	r        *bfe_bufio.Reader\n	n        uint64 // unread bytes in chunk\n	err      error\n	buf      [2]byte\n	checkEnd bool // chunk data fully returned, trailing CRLF not consumed yet\n}\n\nfunc (cr *chunkedReader) beginChunk() {\n	// chunk-size CRLF\n	var line []byte\n	line, cr.err = readLine(cr.r)\n	if cr.err != nil {\n		return\n	}\n	cr.n, cr.err = parseHexUint(line)\n	if cr.err != nil {\n		return\n	}\n	if cr.n == 0 {\n		cr.err = io.EOF\n	}\n}\n\nfunc (cr *chunkedReader) Read(b []uint8) (n int, err error) {\n	if cr.err != nil {\n		return 0, cr.err\n	}\n	if cr.n == 0 {\n		if cr.checkEnd {\n			cr.endChunk()\n			if cr.err != nil {\n				return 0, cr.err\n			}\n		}\n		cr.beginChunk()\n		if cr.err != nil {\n			return 0, cr.err\n		}\n	}\n	if uint64(len(b)) > cr.n {\n		b = b[0:cr.n]\n	}\n	n, cr.err = cr.r.Read(b)\n	cr.n -= uint64(n)\n	if cr.n == 0 && cr.err == nil {\n		if n > 0 && cr.r.Buffered() < 2 {\n			cr.checkEnd = true\n			return n, nil\n		}\n		cr.endChunk()\n	}\n	return n, cr.err\n}\n\n// endChunk consumes the CRLF that terminates the data of a chunk.\nfunc (cr *chunkedReader) endChunk() {\n	cr.checkEnd = false\n	if _, cr.err = io.ReadFull(cr.r, cr.buf[:]); cr.err == nil {\n		if cr.buf[0] != '\\r' || cr.buf[1] != '\\n' {\n			cr.err = errors.New(\"malformed chunked encoding\")\n		}\n	}\n}\n\n"},
			{Name: "carve-capacity-two", File: "bfe_net/textproto/reader.go", Old: "vv, strs = strs[:1:1], strs[1:]", New: "vv, strs = strs[:1:2], strs[1:]", Expect: "header-storage|bfe_net/textproto.Reader.ReadMIMEHeaderAndKeys:insert"},
			{Name: "clone-carve-uncapped", File: "bfe_http/header.go", Old: "	h2 := make(Header, len(h))\n	for k, vv := range h {\n		vv2 := make([]string, len(vv))\n		copy(vv2, vv)\n		h2[k] = vv2\n	}\n	return h2\n", New: "	h2 := make(Header, len(h))\n	nv := 0\n	for _, vv := range h {\n		nv += len(vv)\n	}\n	sv := make([]string, nv) // shared backing array for the values of all keys\n	for k, vv := range h {\n		n := copy(sv, vv)\n		h2[k] = sv[:n]\n		sv = sv[n:]\n	}\n	return h2\n", Expect: "header-storage|bfe_http.Header.Clone:insert"},
			{Name: "silent-clone-carve-capped", Silent: true, File: "bfe_http/header.go", Old: "	h2 := make(Header, len(h))\n	for k, vv := range h {\n		vv2 := make([]string, len(vv))\n		copy(vv2, vv)\n		h2[k] = vv2\n	}\n	return h2\n", New: "	h2 := make(Header, len(h))\n	nv := 0\n	for _, vv := range h {\n		nv += len(vv)\n	}\n	sv := make([]string, nv) // shared backing array for the values of all keys\n	for k, vv := range h {\n		n := copy(sv, vv)\n		h2[k] = sv[:n:n]\n		sv = sv[n:]\n	}\n	return h2\n"},
		},
	})
}

var c24FramingKeys = map[string]bool{"Transfer-Encoding": true, "Content-Length": true}

func c24IsLenOf(v, x ssa.Value) bool {
	lc, ok := core.StripConv(v).(*ssa.Call)
	if !ok || len(lc.Call.Args) != 1 || h1aResolve(lc.Call.Args[0]) != h1aResolve(x) {
		return false
	}
	bi, ok := lc.Call.Value.(*ssa.Builtin)
	return ok && bi.Name() == "len"
}

// c24FoundIndex: `idx op k` says that an Index/IndexByte result (>= -1) is a
// position: idx >= 0, idx > -1, idx != -1.
func c24FoundIndex(op token.Token, y ssa.Value) bool {
	k, isK := h1aConstInt(y)
	if !isK {
		return false
	}
	return (op == token.GEQ && k == 0) || ((op == token.GTR || op == token.NEQ) && k == -1)
}

func c24IsConst(k int64) func(ssa.Value) bool {
	return func(v ssa.Value) bool { x, ok := h1aConstInt(v); return ok && x == k }
}

// c24CountInspected: the slice value is ranged over or its len is compared.
func c24CountInspected(v ssa.Value) bool {
	refs := v.Referrers()
	if refs == nil {
		return false
	}
	for _, r := range *refs {
		switch x := r.(type) {
		case *ssa.Range:
			return true
		case *ssa.Call:
			if bi, ok := x.Call.Value.(*ssa.Builtin); ok && bi.Name() == "len" && x.Referrers() != nil {
				for _, rr := range *x.Referrers() {
					if bo, ok := rr.(*ssa.BinOp); ok {
						switch bo.Op {
						case token.EQL, token.NEQ, token.LSS, token.LEQ, token.GTR, token.GEQ:
							return true
						}
					}
				}
			}
		}
	}
	return false
}

// c24Anchors marks the functions the rules of C24 analyse under their own name.
func c24Anchors(c *core.Ctx) {
	h1rAnchors(c.P, "bfe_http", "fixTransferEncoding", "fixLength", "fixTrailer", "chunked", "parseContentLength", "readTransfer",
		"ReadRequest", "parseRequestLine", "noBodyExpected", "ParseHTTPVersion", "newChunkedReader", "bodyAllowedForStatus")
	h1rAnchors(c.P, "bfe_net/textproto", "Reader.ReadMIMEHeaderAndKeys", "Reader.readContinuedLineSlice", "Reader.ReadLine",
		"validHeaderFieldByte", "canonicalMIMEHeaderKey")
}

func runC24(c *core.Ctx) {
	h1aDebugDump(c)
	const pkg = "bfe_http"
	if c.P.Pkg(pkg) == nil {
		c.Missing(pkg)
		return
	}
	defer h1rRegister(c.P)()
	c24Anchors(c)
	fx := h1aNewFacts()
	c24Multiplicity(c, fx)
	c24TransferEncoding(c, fx)
	c24ContentLength(c, fx)
	c24ReadTransfer(c, fx)
	c24ReadRequest(c, fx)
	c24MIME(c, fx)
	c24MethodIndependent(c, fx)
	c24ErrorLatch(c, fx)
	c24HeaderStorage(c)
}

// ------------------------------------------------------------ (h) a recorded rejection is never overwritten

// c24ErrorLatch: the body decoders of bfe_http record "this message is
// malformed" in a sticky error field of the reader (chunkedReader.err) and
// every later Read fails with it. The verdict is lost if the field is assigned
// a value that may be nil while an error stored since the last `field == nil`
// test may still be in it (e.g. the CRLF check of a chunk followed, without a
// test, by the read of the next chunk-size line). Obligations: every store to
// the error field in the Read method of every struct type of bfe_http that has
// one, and in the methods Read calls on the same receiver.
func c24ErrorLatch(c *core.Ctx, fx *h1aFacts) {
	c.Min("error-latch", 6)
	h1cErrorLatch(c, fx, "error-latch", "bfe_http", "chunkedReader.err")
}

// ------------------------------------------------------------ (i) field values do not share writable storage

// c24HeaderStorage: the header block parser cuts the value lists of the keys
// out of one preallocated block. A list whose capacity reaches into the part
// of the block handed to later keys lets `append` (a repeated field line)
// overwrite another field's value - for instance the Content-Length the
// framing is then taken from. Obligations: every insertion of a value list
// into a map[string][]string in bfe_net/textproto and bfe_http.
func c24HeaderStorage(c *core.Ctx) {
	c.Min("header-storage", 6)
	h1cCarves(c, "header-storage", "bfe_net/textproto", "bfe_http")
	if c.P.Func("bfe_net/textproto", "Reader.ReadMIMEHeaderAndKeys") == nil {
		c.Missing("bfe_net/textproto.Reader.ReadMIMEHeaderAndKeys")
	}
}

// ------------------------------------------------------------ (a) multiplicity

func c24Multiplicity(c *core.Ctx, fx *h1aFacts) {
	const pkg = "bfe_http"
	c.Min("multiplicity", 2)
	for _, name := range []string{"fixTransferEncoding", "fixLength"} {
		fn := c.P.Func(pkg, name)
		if fn == nil {
			c.Missing(pkg + "." + name)
			continue
		}
		c.Analysed(core.FuncKey(fn))
		// the anchored function together with its private helpers: the count may
		// be inspected in a helper that is always executed before the read
		h1rRegionInstrs(fn, func(in ssa.Instruction) {
			switch x := in.(type) {
			case *ssa.Lookup:
				key, ok := core.ConstString(x.Index)
				if !ok || !c24FramingKeys[key] || core.TypeStr(x.X.Type()) != "bfe_http.Header" {
					return
				}
				var vals ssa.Value = x
				if x.CommaOk && x.Referrers() != nil {
					vals = nil
					for _, r := range *x.Referrers() {
						if ex, ok := r.(*ssa.Extract); ok && ex.Index == 0 {
							vals = ex
						}
					}
				}
				ok2 := vals != nil && c24CountInspected(vals)
				c.Check("multiplicity", name+":"+key, x.Pos(), ok2,
					"the framing decision uses header[\""+key+"\"] but only element 0 of the value list is looked at: the number of field lines is never inspected, so a second "+key+" line (conflicting or duplicated) is silently ignored instead of the request being rejected")
			case *ssa.Call:
				if !core.CallIs(&x.Call, pkg+".Header.GetDirect", pkg+".Header.Get", "bfe_net/textproto.MIMEHeader.Get") || len(x.Call.Args) < 2 {
					return
				}
				key, ok := core.ConstString(x.Call.Args[1])
				if !ok || !c24FramingKeys[key] {
					return
				}
				// a first-value accessor is acceptable only when the count is inspected before it
				okCount := false
				h1rRegionInstrs(fn, func(in2 ssa.Instruction) {
					if lk, ok := in2.(*ssa.Lookup); ok {
						if k2, ok := core.ConstString(lk.Index); ok && k2 == key && !lk.CommaOk && c24CountInspected(lk) && h1rDominates(lk, x, fn) {
							okCount = true
						}
					}
					if vc, ok := in2.(*ssa.Call); ok && core.CallIs(&vc.Call, pkg+".Header.Values") && len(vc.Call.Args) == 2 {
						if k2, ok := core.ConstString(vc.Call.Args[1]); ok && k2 == key && c24CountInspected(vc) && h1rDominates(vc, x, fn) {
							okCount = true
						}
					}
				})
				c.Check("multiplicity", name+":"+key, x.Pos(), okCount,
					"the framing decision reads "+key+" through "+core.CalleeKey(&x.Call)+", which yields the first field line only; the number of "+key+" lines is never inspected, so `"+key+": 5` followed by `"+key+": 50` is accepted with the first value instead of being rejected")
			}
		})
	}
	if fn := c.P.Func(pkg, "readTransfer"); fn != nil {
		for _, ci := range core.Calls(fn, pkg+".Header.GetDirect") {
			if k, ok := core.ConstString(ci.Common().Args[1]); ok && c24FramingKeys[k] {
				c.Note("readTransfer reads %s through GetDirect at %s (response to HEAD only; outside the request property)", k, c.P.Pos(ci.Pos()))
			}
		}
	}
}

// ------------------------------------------------------------ (b) Transfer-Encoding

// c24NaturalLoop returns the loop header that governs block b (nearest
// dominator with a back edge from a block it dominates) and the loop's blocks.
func c24NaturalLoop(b *ssa.BasicBlock) (*ssa.BasicBlock, map[*ssa.BasicBlock]bool) {
	for h := b; h != nil; h = h.Idom() {
		var latches []*ssa.BasicBlock
		for _, p := range h.Preds {
			if h.Dominates(p) {
				latches = append(latches, p)
			}
		}
		if len(latches) == 0 {
			continue
		}
		body := map[*ssa.BasicBlock]bool{h: true}
		work := latches
		for len(work) > 0 {
			x := work[len(work)-1]
			work = work[:len(work)-1]
			if body[x] {
				continue
			}
			body[x] = true
			work = append(work, x.Preds...)
		}
		if body[b] {
			return h, body
		}
	}
	return nil, nil
}

func c24TransferEncoding(c *core.Ctx, fx *h1aFacts) {
	const pkg = "bfe_http"
	c.Min("te-grammar", 5)
	c.Min("te-scan", 1)
	fn := c.P.Func(pkg, "fixTransferEncoding")
	if fn == nil {
		c.Missing(pkg + ".fixTransferEncoding")
		return
	}
	// the list of codings: strings.Split(<value>, ",")
	var split *ssa.Call
	for _, ci := range core.Calls(fn, "strings.Split") {
		if s, ok := core.ConstString(ci.Common().Args[1]); ok && s == "," {
			split, _ = ci.(*ssa.Call)
		}
	}
	if split == nil {
		c.Check("te-grammar", "fixTransferEncoding:shape", fn.Pos(), false, "the comma split of the Transfer-Encoding value was not found")
		return
	}
	elems := h1aElems(fn, split)
	if len(elems) != 1 {
		c.Check("te-grammar", "fixTransferEncoding:shape", fn.Pos(), false, fmt.Sprintf("expected one loop over the codings, found %d element reads", len(elems)))
		return
	}
	elem := elems[0].(ssa.Instruction)
	header, loop := c24NaturalLoop(elem.Block())
	if header == nil {
		c.Check("te-grammar", "fixTransferEncoding:shape", fn.Pos(), false, "the codings are not examined in a loop")
		return
	}
	// result slice: the value returned with a nil error that is not the nil constant
	var te ssa.Value
	var succ []*ssa.Return
	for _, r := range core.Returns(fn) {
		rv := core.RetVals(r)
		if len(rv) == 2 && h1aIsNil(rv[1]) && !h1aIsNil(rv[0]) {
			te = rv[0]
			succ = append(succ, r)
		}
	}
	// loop exits
	var badExit []string
	for b := range loop {
		for _, s := range b.Succs {
			if loop[s] || b == header {
				continue
			}
			if !h1aErrorExit(s, fx) {
				badExit = append(badExit, strings.Join(h1aFactStrs(fx.Edge(b, s)), " && "))
			}
		}
	}
	c.Check("te-scan", "fixTransferEncoding:scan-complete", split.Pos(), len(badExit) == 0,
		"the loop over the Transfer-Encoding codings is left early without an error (under "+strings.Join(badExit, " | ")+"): the codings after that element are never examined, so e.g. `identity, chunked` is taken as `no transfer coding` and `identity, bogus` is not rejected")
	// stores into the result: te[len(te)-1] = coding, or te = append(te, coding)
	teAppend := func(in ssa.Instruction) (*ssa.Call, []ssa.Value) {
		call, ok := in.(*ssa.Call)
		if !ok || !loop[call.Block()] || len(call.Call.Args) != 2 || core.TypeStr(call.Type()) != "[]string" {
			return nil, nil
		}
		if bi, ok := call.Call.Value.(*ssa.Builtin); !ok || bi.Name() != "append" {
			return nil, nil
		}
		return call, h1aVarargs(call.Call.Args[1])
	}
	isTeStore := func(in ssa.Instruction) bool {
		if call, elems := teAppend(in); call != nil {
			return len(elems) > 0
		}
		st, ok := in.(*ssa.Store)
		if !ok {
			return false
		}
		ia, ok := st.Addr.(*ssa.IndexAddr)
		return ok && core.TypeStr(ia.X.Type()) == "[]string" && loop[st.Block()]
	}
	isChunked := func(fs []h1aFact, v ssa.Value) bool {
		if k, isK := core.ConstString(v); isK && k == "chunked" {
			return true
		}
		return h1aHasCmp(fs, func(x ssa.Value) bool { return x == h1aRes(v) }, h1aOpIs(token.EQL), func(x ssa.Value) bool { s, ok := core.ConstString(x); return ok && s == "chunked" })
	}
	nStores := 0
	core.Instrs(fn, func(in ssa.Instruction) {
		if call, elems := teAppend(in); call != nil {
			nStores++
			ok := len(elems) > 0
			for _, e := range elems {
				if !isChunked(fx.At(call.Block()), e) {
					ok = false
				}
			}
			why := "a coding is appended without `== \"chunked\"` being established: " + strings.Join(h1aFactStrs(fx.At(call.Block())), " && ")
			if len(elems) == 0 {
				why = "codings are appended in a form the rule does not follow (append of a whole list)"
			}
			c.Check("te-grammar", "fixTransferEncoding:only-chunked", call.Pos(), ok, why)
			return
		}
		if !isTeStore(in) {
			return
		}
		nStores++
		st := in.(*ssa.Store)
		c.Check("te-grammar", "fixTransferEncoding:only-chunked", st.Pos(), isChunked(fx.At(st.Block()), st.Val), "a coding is recorded without `== \"chunked\"` being established: "+strings.Join(h1aFactStrs(fx.At(st.Block())), " && "))
	})
	c.Check("te-grammar", "fixTransferEncoding:records", fn.Pos(), nStores >= 1, "no coding is recorded in the loop")
	// every way from an element back to the loop header records it (no silent skip)
	skip := core.ReachAvoiding(fn, elem, isTeStore, func(in ssa.Instruction) bool { return in.Block() == header })
	c.Check("te-grammar", "fixTransferEncoding:element-path", split.Pos(), skip == nil, "a coding can be skipped (next element reached without recording it and without an error): unsupported transfer codings must be rejected")
	// success returns
	c.Check("te-grammar", "fixTransferEncoding:has-chunked-return", fn.Pos(), len(succ) >= 1, "no return of a non-empty coding list")
	for i, r := range succ {
		f := fx.At(r.Block())
		lo, hi := int64(0), int64(1<<40)
		for _, ff := range f {
			x, op, y, ok := ff.Cmp()
			k, isK := h1aConstInt(y)
			if !ok || !isK || !c24IsLenOf(x, te) {
				continue
			}
			switch op {
			case token.LEQ:
				hi = min(hi, k)
			case token.LSS:
				hi = min(hi, k-1)
			case token.GTR:
				lo = max(lo, k+1)
			case token.GEQ:
				lo = max(lo, k)
			case token.EQL:
				lo, hi = max(lo, k), min(hi, k)
			}
		}
		c.Check("te-grammar", fmt.Sprintf("fixTransferEncoding:single#%d", i), r.Pos(), hi <= 1 && lo >= 1,
			fmt.Sprintf("a coding list is returned with %d <= len <= %d established; required exactly one coding (chunked must be the only/last coding): facts %s", lo, hi, strings.Join(h1aFactStrs(f), " && ")))
		isDel := func(in ssa.Instruction) bool {
			call, ok := in.(*ssa.Call)
			if !ok {
				return false
			}
			if bi, ok := call.Call.Value.(*ssa.Builtin); ok && bi.Name() == "delete" && len(call.Call.Args) == 2 {
				k, ok := core.ConstString(call.Call.Args[1])
				return ok && k == "Content-Length" && call.Call.Args[0] == ssa.Value(fn.Params[1])
			}
			if core.CallIs(&call.Call, pkg+".Header.Del") && len(call.Call.Args) == 2 {
				k, ok := core.ConstString(call.Call.Args[1])
				return ok && k == "Content-Length" && call.Call.Args[0] == ssa.Value(fn.Params[1])
			}
			return false
		}
		bad := core.ReachAvoiding(fn, nil, isDel, func(in ssa.Instruction) bool { return in == ssa.Instruction(r) })
		c.Check("te-grammar", fmt.Sprintf("fixTransferEncoding:deletes-content-length#%d", i), r.Pos(), bad == nil, "chunked is returned on a path that does not delete Content-Length from the header: both framings would remain visible (and be forwarded)")
	}
	c24ChunkedPredicate(c, fx, "te-grammar")
}

// c24ChunkedPredicate decides the shape of bfe_http.chunked (shared by C23 and C24).
func c24ChunkedPredicate(c *core.Ctx, fx *h1aFacts, rule string) {
	const pkg = "bfe_http"
	// chunked()
	if ch := c.P.Func(pkg, "chunked"); ch == nil {
		c.Missing(pkg + ".chunked")
	} else {
		c.Analysed(core.FuncKey(ch))
		okAll, n := true, 0
		var leaves func(v ssa.Value, from *ssa.BasicBlock, seen map[ssa.Value]bool)
		leaves = func(v ssa.Value, from *ssa.BasicBlock, seen map[ssa.Value]bool) {
			if seen[v] {
				return
			}
			seen[v] = true
			if phi, ok := v.(*ssa.Phi); ok {
				for i, e := range phi.Edges {
					leaves(e, phi.Block().Preds[i], seen)
				}
				return
			}
			n++
			if b, ok := h1aConstBool(v); ok && !b {
				return
			}
			bo, ok := v.(*ssa.BinOp)
			if !ok || bo.Op != token.EQL {
				okAll = false
				return
			}
			s, isS := core.ConstString(bo.Y)
			ld, isLd := bo.X.(*ssa.UnOp)
			if !isS || s != "chunked" || !isLd {
				okAll = false
				return
			}
			ia, ok := ld.X.(*ssa.IndexAddr)
			if !ok || ia.X != ssa.Value(ch.Params[0]) {
				okAll = false
				return
			}
			// index 0 or len-1, and len > 0 established where the comparison is made
			idxOK := false
			if k, isK := h1aConstInt(ia.Index); isK && k == 0 {
				idxOK = true
			}
			if sub, ok := ia.Index.(*ssa.BinOp); ok && sub.Op == token.SUB && c24IsLenOf(sub.X, ch.Params[0]) {
				if k, isK := h1aConstInt(sub.Y); isK && k == 1 {
					idxOK = true
				}
			}
			nonEmpty := h1aHasCmp(fx.At(bo.Block()), func(x ssa.Value) bool { return c24IsLenOf(x, ch.Params[0]) }, h1aOpIs(token.GTR, token.NEQ), c24IsConst(0)) ||
				h1aHasCmp(fx.At(bo.Block()), func(x ssa.Value) bool { return c24IsLenOf(x, ch.Params[0]) }, h1aOpIs(token.GEQ, token.EQL), c24IsConst(1))
			if !idxOK || !nonEmpty {
				okAll = false
			}
		}
		for _, r := range core.Returns(ch) {
			leaves(r.Results[0], r.Block(), map[ssa.Value]bool{})
		}
		c.Check(rule, "chunked:predicate", ch.Pos(), okAll && n >= 2, "chunked(te) must be `len(te) > 0 && te[0] == \"chunked\"` (the single recorded coding)")
	}
}

// ------------------------------------------------------------ (c) Content-Length

func c24ContentLength(c *core.Ctx, fx *h1aFacts) {
	const pkg = "bfe_http"
	c.Min("cl", 6)
	fn := c.P.Func(pkg, "fixLength")
	if fn == nil {
		c.Missing(pkg + ".fixLength")
	} else {
		// reads of Content-Length happen only when not chunked
		n := 0
		h1rRegionInstrs(fn, func(in ssa.Instruction) {
			call, ok := in.(*ssa.Call)
			isRead := false
			if ok && core.CallIs(&call.Call, pkg+".Header.GetDirect", pkg+".Header.Get", pkg+".Header.Values") && len(call.Call.Args) == 2 {
				if k, ok := core.ConstString(call.Call.Args[1]); ok && k == "Content-Length" {
					isRead = true
				}
			}
			if lk, ok := in.(*ssa.Lookup); ok {
				if k, ok := core.ConstString(lk.Index); ok && k == "Content-Length" {
					isRead = true
				}
			}
			if !isRead {
				return
			}
			n++
			f := fx.At(in.Block())
			cf := h1aBoolCallFact(f, false, pkg+".chunked")
			c.Check("cl", "fixLength:chunked-precedence", in.Pos(), cf != nil && len(fn.Params) == 5 && cf.Call.Args[0] == ssa.Value(fn.Params[4]),
				"Content-Length is consulted without chunked(te) == false being established: Transfer-Encoding must override Content-Length; facts: "+strings.Join(h1aFactStrs(f), " && "))
		})
		c.Check("cl", "fixLength:reads-content-length", fn.Pos(), n >= 1, "fixLength no longer reads Content-Length")
		pcs := h1rRegionCalls(fn, pkg+".parseContentLength")
		c.Check("cl", "fixLength:parses", fn.Pos(), len(pcs) >= 1, "fixLength no longer calls parseContentLength")
		for _, ci := range pcs {
			pc, ok := ci.(*ssa.Call)
			if !ok {
				continue
			}
			lp := h1rLift(pc, fn, false)
			if lp == nil {
				continue
			}
			for i, r := range h1rReturns(fn) {
				if lr := h1rLift(r, fn, false); lr == nil || !lp.Block().Dominates(lr.Block()) {
					continue
				}
				rv := core.RetVals(r)
				if len(rv) != 2 {
					continue
				}
				f := fx.At(r.Block())
				if h1aIsNil(rv[1]) {
					c.Check("cl", fmt.Sprintf("fixLength:parse-error#%d", i), r.Pos(), h1aErrIs(f, pc, 1, true), "a length is returned with a nil error although parseContentLength's error was not tested to be nil")
					c.Check("cl", fmt.Sprintf("fixLength:parsed-value#%d", i), r.Pos(), h1aIsResultOf(rv[0], pc, 0), "the body length returned is "+core.Render(rv[0])+", expected the value parsed from Content-Length")
				} else {
					c.Check("cl", fmt.Sprintf("fixLength:parse-error#%d", i), r.Pos(), h1aNonNilErr(rv[1], f, nil), "the error exit after parseContentLength returns "+core.Render(rv[1]))
				}
			}
		}
	}
	pf := c.P.Func(pkg, "parseContentLength")
	if pf == nil {
		c.Missing(pkg + ".parseContentLength")
		return
	}
	c.Analysed(core.FuncKey(pf))
	var parse *ssa.Call
	for _, ci := range h1rRegionCalls(pf, "strconv.ParseInt", "strconv.ParseUint") {
		parse, _ = ci.(*ssa.Call)
	}
	if parse == nil {
		c.Check("cl", "parseContentLength:shape", pf.Pos(), false, "no strconv.ParseInt/ParseUint call found")
		return
	}
	base, _ := h1aConstInt(parse.Call.Args[1])
	c.Check("cl", "parseContentLength:decimal", parse.Pos(), base == 10, fmt.Sprintf("Content-Length must be parsed in base 10, base %d", base))
	unsigned := core.CallIs(&parse.Call, "strconv.ParseUint")
	n := 0
	for i, r := range h1rReturns(pf) {
		rv := core.RetVals(r)
		if len(rv) != 2 || !h1aIsNil(rv[1]) {
			continue
		}
		if k, ok := h1aConstInt(rv[0]); ok && k == -1 {
			continue // "no value"
		}
		n++
		f := fx.At(r.Block())
		nonneg := unsigned || h1aHasCmp(f, func(v ssa.Value) bool { return h1aIsResultOf(v, parse, 0) }, h1aOpIs(token.GEQ), c24IsConst(0))
		c.Check("cl", fmt.Sprintf("parseContentLength:nonneg#%d", i), r.Pos(), h1aErrIs(f, parse, 1, true) && nonneg && h1aIsResultOf(core.StripConv(rv[0]), parse, 0),
			"a Content-Length is accepted without `parse error == nil && n >= 0` established for the returned value; facts: "+strings.Join(h1aFactStrs(f), " && "))
	}
	c.Check("cl", "parseContentLength:has-success", pf.Pos(), n >= 1, "parseContentLength has no success return")
	// 1*DIGIT: no sign
	digitsOnly := unsigned
	why := "strconv.ParseInt accepts a leading '+' or '-': `Content-Length: +5` is accepted as 5 although RFC 7230 defines Content-Length = 1*DIGIT and requires such a message to be rejected"
	if !digitsOnly {
		if g, w := h1aFindGate(c, pf, parse, func(v ssa.Value) bool { return h1aResolve(v) == h1aResolve(parse.Call.Args[0]) }, []byte{'+'}, fx); g != nil {
			digitsOnly = true
		} else {
			why += " (" + w + ")"
		}
	}
	c.Check("cl-digits", "parseContentLength:digits-only", parse.Pos(), digitsOnly, why)
	c.Min("cl-digits", 1)
}

// ------------------------------------------------------------ (d) readTransfer

func c24ReadTransfer(c *core.Ctx, fx *h1aFacts) {
	const pkg = "bfe_http"
	c.Min("transfer", 6)
	fn := c.P.Func(pkg, "readTransfer")
	if fn == nil {
		c.Missing(pkg + ".readTransfer")
		return
	}
	c.Analysed(core.FuncKey(fn))
	steps := map[string]*ssa.Call{}
	for _, name := range []string{"fixTransferEncoding", "fixLength", "fixTrailer"} {
		cs := h1rRegionCalls(fn, pkg+"."+name)
		if len(cs) != 1 {
			c.Check("transfer", "readTransfer:calls-"+name, fn.Pos(), false, fmt.Sprintf("expected one call of %s, found %d", name, len(cs)))
			continue
		}
		call, _ := cs[0].(*ssa.Call)
		steps[name] = call
	}
	nSucc := 0
	for i, r := range h1rReturns(fn) {
		e := h1aRetErr(r)
		if e == nil {
			continue
		}
		f := fx.At(r.Block())
		if h1aIsNil(h1aResolve(e)) {
			nSucc++
			for _, name := range []string{"fixTransferEncoding", "fixLength", "fixTrailer"} {
				if call := steps[name]; call != nil {
					c.Check("transfer", fmt.Sprintf("readTransfer:success#%d:%s", i, name), r.Pos(), h1aErrIs(f, call, 1, true), "readTransfer reports success although the error of "+name+" was not tested to be nil")
				}
			}
			continue
		}
		c.Check("transfer", fmt.Sprintf("readTransfer:error-return#%d", i), r.Pos(), h1aNonNilErr(e, f, nil), "an error exit of readTransfer returns "+core.Render(e)+", not a certainly non-nil error")
	}
	c.Check("transfer", "readTransfer:has-success", fn.Pos(), nSucc >= 1, "readTransfer has no success return")
	// results are used
	if te := steps["fixTransferEncoding"]; te != nil {
		stored := false
		h1rRegionInstrs(fn, func(in ssa.Instruction) {
			if st, ok := in.(*ssa.Store); ok && strings.HasSuffix(core.Render(st.Addr), ".TransferEncoding") && h1aIsResultOf(st.Val, te, 0) {
				stored = true
			}
		})
		okArg := false
		if fl := steps["fixLength"]; fl != nil && len(fl.Call.Args) == 5 {
			okArg = h1aIsResultOf(fl.Call.Args[4], te, 0)
		}
		c.Check("transfer", "readTransfer:te-flows", te.Pos(), stored && okArg, fmt.Sprintf("the codings returned by fixTransferEncoding must be stored in t.TransferEncoding (stored=%v) and be the te argument of fixLength (%v)", stored, okArg))
	}
	if fl := steps["fixLength"]; fl != nil {
		lrs := h1rRegionCalls(fn, "io.LimitReader")
		c.Check("transfer", "readTransfer:length-body-present", fn.Pos(), len(lrs) >= 1, "no length-delimited body reader")
		for i, ci := range lrs {
			f := fx.At(ci.(ssa.Instruction).Block())
			pos := h1aHasCmp(f, func(v ssa.Value) bool { return h1aIsResultOf(v, fl, 0) }, h1aOpIs(token.GTR), c24IsConst(0)) ||
				h1aHasCmp(f, func(v ssa.Value) bool { return h1aIsResultOf(v, fl, 0) }, h1aOpIs(token.GEQ), c24IsConst(1))
			okv := h1aIsResultOf(ci.Common().Args[1], fl, 0) && h1aResConv(ci.Common().Args[0]) == ssa.Value(fn.Params[1])
			c.Check("transfer", fmt.Sprintf("readTransfer:length-body#%d", i), ci.Pos(), pos && okv,
				"the length-delimited body must be io.LimitReader(r, n) with n the length decided by fixLength and n > 0 established; got LimitReader("+core.Render(ci.Common().Args[0])+", "+core.Render(ci.Common().Args[1])+")")
		}
	}
}

// ------------------------------------------------------------ (e) ReadRequest

func c24ReadRequest(c *core.Ctx, fx *h1aFacts) {
	const pkg = "bfe_http"
	c.Min("accept", 8)
	c.Min("request-line", 1)
	fn := c.P.Func(pkg, "ReadRequest")
	if fn == nil {
		c.Missing(pkg + ".ReadRequest")
		return
	}
	c.Analysed(core.FuncKey(fn))
	type gate struct {
		name, callee string
		idx          int
		isBool       bool
	}
	gates := []gate{
		{"parseRequestLine", pkg + ".parseRequestLine", 3, true},
		{"ParseHTTPVersion", pkg + ".ParseHTTPVersion", 2, true},
		{"ParseRequestURI", "net/url.ParseRequestURI", 1, false},
		{"ReadMIMEHeaderAndKeys", "bfe_net/textproto.Reader.ReadMIMEHeaderAndKeys", 2, false},
		{"readTransfer", pkg + ".readTransfer", 0, false},
	}
	calls := map[string]*ssa.Call{}
	for _, g := range gates {
		cs := h1rRegionCalls(fn, g.callee)
		if len(cs) != 1 {
			c.Check("accept", "ReadRequest:"+g.name, fn.Pos(), false, fmt.Sprintf("expected one call of %s, found %d", g.callee, len(cs)))
			continue
		}
		calls[g.name], _ = cs[0].(*ssa.Call)
	}
	nSucc := 0
	for i, r := range h1rReturns(fn) {
		rv := core.RetVals(r)
		if len(rv) != 2 {
			continue
		}
		f := fx.At(r.Block())
		if h1aIsNil(h1aResolve(rv[1])) {
			nSucc++
			for _, g := range gates {
				call := calls[g.name]
				if call == nil {
					continue
				}
				ok := false
				if g.isBool {
					for _, ff := range f {
						if ff.Pol && h1aIsResultOf(ff.Cond, call, g.idx) {
							ok = true
						}
					}
				} else {
					ok = h1aErrIs(f, call, g.idx, true)
				}
				c.Check("accept", "ReadRequest:"+g.name, r.Pos(), ok, "a request is returned although the outcome of "+g.name+" was not tested to be good; facts: "+strings.Join(h1aFactStrs(f), " && "))
			}
			continue
		}
		c.Check("accept", fmt.Sprintf("ReadRequest:error-return#%d", i), r.Pos(), h1aNonNilErr(rv[1], f, nil) && h1aIsNil(h1aResolve(rv[0])),
			"an error exit of ReadRequest returns ("+core.Render(h1aResolve(rv[0]))+", "+core.Render(h1aResolve(rv[1]))+"): must be (nil, non-nil error)")
	}
	c.Check("accept", "ReadRequest:has-success", fn.Pos(), nSucc >= 1, "ReadRequest has no success return")
	// fields come from the parsed line / header block
	if prl, rl := calls["parseRequestLine"], h1rRegionCalls(fn, "bfe_net/textproto.Reader.ReadLine"); prl != nil {
		lineOK := false
		if len(rl) == 1 {
			if rlc, ok := rl[0].(*ssa.Call); ok {
				lineOK = h1aIsResultOf(prl.Call.Args[0], rlc, 0)
			}
		}
		c.Check("accept", "ReadRequest:line-source", prl.Pos(), lineOK, "parseRequestLine must be applied to the line returned by tp.ReadLine()")
		want := map[string]int{"Method": 0, "RequestURI": 1, "Proto": 2}
		got := map[string]bool{}
		h1rRegionInstrs(fn, func(in ssa.Instruction) {
			st, ok := in.(*ssa.Store)
			if !ok {
				return
			}
			fa, ok := st.Addr.(*ssa.FieldAddr)
			if !ok || core.TypeStr(fa.X.Type()) != "*bfe_http.Request" {
				return
			}
			fo := core.FieldObj(fa.X, fa.Field)
			if fo == nil {
				return
			}
			if idx, isWanted := want[fo.Name()]; isWanted {
				if h1aIsResultOf(st.Val, prl, idx) {
					got[fo.Name()] = true
				} else {
					c.Check("accept", "ReadRequest:field-"+fo.Name(), st.Pos(), false, "Request."+fo.Name()+" is set to "+core.Render(st.Val)+", expected the corresponding part of the request line")
				}
			}
			if fo.Name() == "Header" {
				if mh := calls["ReadMIMEHeaderAndKeys"]; mh != nil {
					c.Check("accept", "ReadRequest:field-Header", st.Pos(), h1aIsResultOf(core.StripConv(st.Val), mh, 0), "Request.Header is set to "+core.Render(st.Val)+", expected the parsed header block")
				}
			}
		})
		c.Check("accept", "ReadRequest:line-fields", prl.Pos(), got["Method"] && got["RequestURI"] && got["Proto"], fmt.Sprintf("Method/RequestURI/Proto must be stored from the request line: %v", got))
		if pu := calls["ParseRequestURI"]; pu != nil {
			// the parsed target is the request line's target (possibly prefixed for CONNECT)
			arg := pu.Call.Args[0]
			ok := false
			var leaves []ssa.Value
			if phi, isPhi := arg.(*ssa.Phi); isPhi {
				leaves = phi.Edges
			} else {
				leaves = []ssa.Value{arg}
			}
			ok = len(leaves) > 0
			for _, l := range leaves {
				if bo, isBin := l.(*ssa.BinOp); isBin && bo.Op == token.ADD {
					if _, isC := core.ConstString(bo.X); isC {
						l = bo.Y
					}
				}
				if !h1aIsResultOf(l, prl, 1) {
					ok = false
				}
			}
			c.Check("accept", "ReadRequest:target-parsed", pu.Pos(), ok, "url.ParseRequestURI must be applied to the request-target of the request line; applied to "+core.Render(arg))
		}
	}
	// parseRequestLine
	if pl := c.P.Func(pkg, "parseRequestLine"); pl == nil {
		c.Missing(pkg + ".parseRequestLine")
	} else {
		c.Analysed(core.FuncKey(pl))
		for i, r := range core.Returns(pl) {
			if len(r.Results) != 4 {
				continue
			}
			if b, ok := h1aConstBool(r.Results[3]); ok && !b {
				continue
			}
			f := fx.At(r.Block())
			n := 0
			seen := map[ssa.Value]bool{}
			for _, ff := range f {
				x, op, y, ok := ff.Cmp()
				if !ok || !c24FoundIndex(op, y) {
					continue
				}
				if call, ok := x.(*ssa.Call); ok && core.CallIs(&call.Call, "strings.Index", "strings.IndexByte") && !seen[x] {
					if s, isS := core.ConstString(call.Call.Args[1]); (isS && s == " ") || c24IsConst(' ')(call.Call.Args[1]) {
						seen[x] = true
						n++
					}
				}
			}
			c.Check("request-line", fmt.Sprintf("parseRequestLine:ok#%d", i), r.Pos(), n >= 2, fmt.Sprintf("parseRequestLine reports ok with %d of the 2 separators established; facts: %s", n, strings.Join(h1aFactStrs(f), " && ")))
		}
	}
}

// ------------------------------------------------------------ (f) header block

func c24MIME(c *core.Ctx, fx *h1aFacts) {
	const pkg = "bfe_net/textproto"
	c.Min("mime", 5)
	c.Min("field-name-gate", 1)
	c.Min("ws-before-colon", 1)
	c.Min("token-table", 2)
	fn := c.P.Func(pkg, "Reader.ReadMIMEHeaderAndKeys")
	if fn == nil {
		c.Missing(pkg + ".Reader.ReadMIMEHeaderAndKeys")
		return
	}
	c.Analysed(core.FuncKey(fn))
	lines := h1rRegionCalls(fn, pkg+".Reader.readContinuedLineSlice")
	if len(lines) != 1 {
		c.Check("mime", "ReadMIMEHeaderAndKeys:shape", fn.Pos(), false, fmt.Sprintf("expected one readContinuedLineSlice call, found %d", len(lines)))
		return
	}
	line, _ := lines[0].(*ssa.Call)
	isKV := func(v ssa.Value) bool { return h1aIsResultOf(v, line, 0) }
	// the returned map
	var hdrMap ssa.Value
	for _, r := range core.Returns(fn) {
		if len(r.Results) == 3 {
			hdrMap = r.Results[0]
		}
	}
	var inserts []*ssa.MapUpdate
	core.Instrs(fn, func(in ssa.Instruction) {
		if mu, ok := in.(*ssa.MapUpdate); ok && mu.Map == hdrMap {
			inserts = append(inserts, mu)
		}
	})
	c.Check("mime", "ReadMIMEHeaderAndKeys:inserts", fn.Pos(), len(inserts) >= 1, "no insertion into the returned header map found")
	table, _, tabOK := h1aBoolTable(c, pkg, "isTokenTable")
	gateOK, gateWhy := len(inserts) > 0, ""
	wsOK := len(inserts) > 0
	for i, mu := range inserts {
		f := fx.At(mu.Block())
		var colon *ssa.Call
		for _, ff := range f {
			x, op, y, ok := ff.Cmp()
			if !ok || !c24FoundIndex(op, y) {
				continue
			}
			if call, ok := x.(*ssa.Call); ok && core.CallIs(&call.Call, "bytes.IndexByte") && isKV(call.Call.Args[0]) && c24IsConst(':')(call.Call.Args[1]) {
				colon = call
			}
		}
		c.Check("mime", fmt.Sprintf("ReadMIMEHeaderAndKeys:colon-required#%d", i), mu.Pos(), colon != nil, "a field is inserted without `bytes.IndexByte(line, ':') >= 0` established: a line without a colon must be an error")
		// key = canonical(kv[:colon])
		keyOK := false
		var keyArg ssa.Value
		if kc, ok := h1aRes(mu.Key).(*ssa.Call); ok && colon != nil {
			if sc := kc.Call.StaticCallee(); sc != nil && strings.HasPrefix(sc.Name(), "canonicalMIMEHeaderKey") && len(kc.Call.Args) >= 1 {
				if sl, ok := kc.Call.Args[0].(*ssa.Slice); ok && isKV(sl.X) && sl.Low == nil && sl.High == ssa.Value(colon) {
					keyOK = true
					keyArg = sl
				}
			}
		}
		if ex, ok := h1aRes(mu.Key).(*ssa.Extract); ok && colon != nil && ex.Index == 0 {
			if kc, ok := ex.Tuple.(*ssa.Call); ok && len(kc.Call.Args) >= 1 {
				if sl, ok := kc.Call.Args[0].(*ssa.Slice); ok && isKV(sl.X) && sl.Low == nil && sl.High == ssa.Value(colon) {
					keyOK = true
					keyArg = sl
				}
			}
		}
		c.Check("mime", fmt.Sprintf("ReadMIMEHeaderAndKeys:key-before-colon#%d", i), mu.Pos(), keyOK, "the inserted key is "+core.Render(mu.Key)+", expected the canonical form of exactly the bytes before the first colon")
		// gate
		derives := func(v ssa.Value) bool {
			v = h1aResolve(v)
			if keyArg != nil && v == keyArg {
				return true
			}
			if sl, ok := v.(*ssa.Slice); ok && isKV(sl.X) {
				return true
			}
			if cv, ok := v.(*ssa.Convert); ok {
				if sl, ok := cv.X.(*ssa.Slice); ok && isKV(sl.X) {
					return true
				}
			}
			return isKV(v) || v == h1aResolve(mu.Key)
		}
		g, why := h1aFindGate(c, fn, mu, derives, []byte{' ', '\r', '('}, fx)
		if g == nil {
			gateOK, gateWhy = false, why
		}
		if g == nil || !tabOK || table[' '] || table['\t'] {
			// or an explicit test of the byte before the colon
			explicit := false
			for _, b := range fn.Blocks {
				ifi, ok := b.Instrs[len(b.Instrs)-1].(*ssa.If)
				if !ok || !b.Dominates(mu.Block()) {
					continue
				}
				bo, ok := ifi.Cond.(*ssa.BinOp)
				if !ok || !(c24IsConst(' ')(bo.Y) || c24IsConst('\t')(bo.Y)) {
					continue
				}
				if ld, ok := bo.X.(*ssa.UnOp); ok {
					if ia, ok := ld.X.(*ssa.IndexAddr); ok && isKV(ia.X) {
						if sub, ok := ia.Index.(*ssa.BinOp); ok && sub.Op == token.SUB && sub.X == ssa.Value(colon) && c24IsConst(1)(sub.Y) {
							if h1aErrorExit(b.Succs[0], fx) || h1aErrorExit(b.Succs[1], fx) {
								explicit = true
							}
						}
					}
				}
			}
			if !explicit {
				wsOK = false
			}
		}
	}
	c.Check("field-name-gate", "ReadMIMEHeaderAndKeys", fn.Pos(), gateOK,
		"header fields are inserted without a validity gate over the field-name bytes: "+gateWhy+". A name containing bytes outside RFC 7230 token (e.g. `Content-Length : 5`, `X(y): z`) is kept verbatim (canonicalMIMEHeaderKey returns it unchanged) instead of the request being rejected")
	c.Check("ws-before-colon", "ReadMIMEHeaderAndKeys", fn.Pos(), wsOK,
		"SP/HTAB between the field name and the colon does not lead to an error: `Transfer-Encoding : chunked` is stored under the key \"Transfer-Encoding \" (not seen by the framing code, but forwarded), RFC 7230 3.2.4 requires a 400")
	// errors of the line reader are never dropped
	for i, r := range core.Returns(fn) {
		if len(r.Results) != 3 {
			continue
		}
		e := r.Results[2]
		ok := h1aIsResultOf(e, line, 1) || h1aNonNilErr(e, fx.At(r.Block()), nil)
		c.Check("mime", fmt.Sprintf("ReadMIMEHeaderAndKeys:error-propagated#%d", i), r.Pos(), ok, "ReadMIMEHeaderAndKeys returns error "+core.Render(e)+": must be the line reader's error or a fresh non-nil error (a dropped read error would accept a truncated header block)")
	}
	// value starts after the colon
	for _, in := range allInstrs(fn) {
		cv, ok := in.(*ssa.Convert)
		if !ok || core.TypeStr(cv.Type()) != "string" {
			continue
		}
		sl, ok := cv.X.(*ssa.Slice)
		if !ok || !isKV(sl.X) || sl.High != nil || sl.Low == nil {
			continue
		}
		// Low is a phi whose entry edge is colon+1 and whose loop edge is itself+1
		okLow := false
		if phi, ok := sl.Low.(*ssa.Phi); ok {
			okLow = true
			for _, e := range phi.Edges {
				bo, ok := e.(*ssa.BinOp)
				if !ok || bo.Op != token.ADD || !c24IsConst(1)(bo.Y) {
					okLow = false
					break
				}
				if call, ok := bo.X.(*ssa.Call); ok && core.CallIs(&call.Call, "bytes.IndexByte") {
					continue
				}
				if bo.X != ssa.Value(phi) {
					okLow = false
				}
			}
		}
		c.Check("mime", "ReadMIMEHeaderAndKeys:value-after-colon", cv.Pos(), okLow, "the field value must start after the colon (leading SP/HT skipped); it starts at "+core.Render(sl.Low))
	}
	// token table
	if !tabOK {
		c.Missing(pkg + ".isTokenTable")
	} else {
		tc := h1aTchar()
		c.Check("token-table", "textproto.isTokenTable", fn.Pos(), len(h1aSetDiff(table, tc)) == 0 && len(h1aSetDiff(tc, table)) == 0,
			fmt.Sprintf("isTokenTable differs from RFC 7230 tchar: extra %v, missing %v", h1aSetDiff(table, tc), h1aSetDiff(tc, table)))
		if vb := c.P.Func(pkg, "validHeaderFieldByte"); vb == nil {
			c.Missing(pkg + ".validHeaderFieldByte")
		} else {
			ev := &h1aEvaluator{Global: h1aTableResolver(c)}
			bad := ""
			for b := 0; b < 256 && bad == ""; b++ {
				out := h1aFoldCall(ev, vb, uint64(b))
				if out.Kind != "return" || len(out.Vals) != 1 || out.Vals[0].k != 'b' {
					bad = fmt.Sprintf("byte 0x%02x: undecided", b)
				} else if out.Vals[0].b != tc[int64(b)] {
					bad = fmt.Sprintf("byte 0x%02x: validHeaderFieldByte = %v, tchar = %v", b, out.Vals[0].b, tc[int64(b)])
				}
			}
			c.Check("token-table", "textproto.validHeaderFieldByte", vb.Pos(), bad == "", "validHeaderFieldByte disagrees with RFC 7230 tchar: "+bad)
		}
	}
	_ = types.Typ
}

// ------------------------------------------------------------ (g) request framing is method-independent

// c24MethodIndependent: RFC 7230 frames a request by Transfer-Encoding and
// Content-Length alone. bfe_http shares readTransfer/fixLength between
// requests and responses and the "no body expected" tests on the request
// method are meant for responses (reply to HEAD). Every branch of the framing
// functions that depends on a method value is an obligation: it is discharged
// when the method consulted can never be the method of the request being
// parsed (every writer of transferReader.RequestMethod stores a constant or
// the Method of a Response's originating request, and likewise for the
// arguments bound to a method parameter), or when the branch is taken only
// with the "message is a response" evidence established.
func c24MethodIndependent(c *core.Ctx, fx *h1aFacts) {
	const pkg = "bfe_http"
	const rule = "method-independent"
	defer h1rRegister(c.P)() // also run on behalf of C28
	c24Anchors(c)
	c.Min(rule, 3)
	fld, _ := c.P.Obj(pkg, "transferReader.RequestMethod").(*types.Var)
	reqMethod, _ := c.P.Obj(pkg, "Request.Method").(*types.Var)
	respReq, _ := c.P.Obj(pkg, "Response.Request").(*types.Var)
	if fld == nil || reqMethod == nil || respReq == nil {
		c.Missing(pkg + ".transferReader.RequestMethod / Request.Method / Response.Request")
		return
	}
	scope := c.P.SrcFuncs(pkg)
	// is the stored / passed value certainly not the parsed request's own method?
	fieldOf := func(v ssa.Value) (*types.Var, ssa.Value) {
		v = core.StripConv(v)
		if u, ok := v.(*ssa.UnOp); ok && u.Op == token.MUL {
			v = u.X
		}
		switch x := v.(type) {
		case *ssa.FieldAddr:
			return core.FieldObj(x.X, x.Field), x.X
		case *ssa.Field:
			return core.FieldObj(x.X, x.Field), x.X
		}
		return nil, nil
	}
	var fieldTaint []string
	for _, st := range core.FieldStores(scope, fld) {
		v := st.Store.Val
		if _, isK := core.ConstString(v); isK {
			continue
		}
		if f, base := fieldOf(v); f == reqMethod {
			if bf, _ := fieldOf(base); bf == respReq {
				continue // the method of the request a response answers
			}
		}
		fieldTaint = append(fieldTaint, core.FuncKey(st.Fn)+" stores "+core.Render(v)+" at "+c.P.Pos(st.Store.Pos()))
	}
	// taint(v): the reasons why v may be the parsed request's method (nil = cannot)
	var taint func(v ssa.Value, fn *ssa.Function, d int) []string
	taint = func(v ssa.Value, fn *ssa.Function, d int) []string {
		v = core.StripConv(v)
		if _, isK := core.ConstString(v); isK {
			return nil
		}
		if d > 3 {
			return []string{"value flow too deep at " + core.Render(v)}
		}
		switch x := v.(type) {
		case *ssa.Phi:
			var out []string
			for _, e := range x.Edges {
				out = append(out, taint(e, fn, d+1)...)
			}
			return out
		case *ssa.Parameter:
			var out []string
			idx := -1
			for i, p := range fn.Params {
				if p == x {
					idx = i
				}
			}
			callers := h1bStaticCallers(c.P.SrcFuncs(""), fn)
			if idx < 0 || len(callers) == 0 || len(h1bFuncValueUses(c.P.SrcFuncs(""), fn)) > 0 {
				return []string{"callers of " + core.FuncKey(fn) + " cannot be enumerated"}
			}
			for _, ci := range callers {
				if idx < len(ci.Common().Args) {
					out = append(out, taint(ci.Common().Args[idx], ci.Parent(), d+1)...)
				}
			}
			return out
		}
		if f, base := fieldOf(v); f != nil {
			if f == fld {
				return fieldTaint
			}
			if f == reqMethod {
				if bf, _ := fieldOf(base); bf == respReq {
					return nil
				}
				return []string{core.Render(v) + " is the Method of the message being read"}
			}
		}
		return []string{"origin of " + core.Render(v) + " not followed"}
	}
	// "the message is a response" evidence
	var isRespFlag func(v ssa.Value, fn *ssa.Function, d int) bool
	isRespFlag = func(v ssa.Value, fn *ssa.Function, d int) bool {
		if d > 3 {
			return false
		}
		switch x := v.(type) {
		case *ssa.Extract:
			ta, ok := x.Tuple.(*ssa.TypeAssert)
			return ok && x.Index == 1 && core.TypeStr(ta.AssertedType) == "*bfe_http.Response"
		case *ssa.Phi:
			nTrue := 0
			for i, e := range x.Edges {
				b, isB := h1aConstBool(e)
				if !isB {
					return false
				}
				if !b {
					continue
				}
				nTrue++
				ok := false
				for _, f := range fx.Edge(x.Block().Preds[i], x.Block()) {
					if _, isPhi := f.Cond.(*ssa.Phi); !isPhi && f.Pol && isRespFlag(f.Cond, fn, d+1) {
						ok = true
					}
				}
				if !ok {
					return false
				}
			}
			return nTrue > 0
		case *ssa.Parameter:
			idx := -1
			for i, p := range fn.Params {
				if p == x {
					idx = i
				}
			}
			callers := h1bStaticCallers(c.P.SrcFuncs(""), fn)
			if idx < 0 || len(callers) == 0 {
				return false
			}
			for _, ci := range callers {
				if idx >= len(ci.Common().Args) || !isRespFlag(h1aResolve(ci.Common().Args[idx]), ci.Parent(), d+1) {
					return false
				}
			}
			return true
		}
		return false
	}
	respGuarded := func(b *ssa.BasicBlock) bool {
		for _, f := range fx.At(b) {
			if f.Pol && isRespFlag(h1aResolve(f.Cond), b.Parent(), 0) {
				return true
			}
		}
		return false
	}
	// a value that denotes "a request method" inside fn
	var isMethodVal func(v ssa.Value, fn *ssa.Function, d int) bool
	isMethodVal = func(v ssa.Value, fn *ssa.Function, d int) bool {
		v = core.StripConv(v)
		if d > 3 {
			return false
		}
		if f, _ := fieldOf(v); f == fld || f == reqMethod {
			return true
		}
		if p, ok := v.(*ssa.Parameter); ok {
			for i, q := range fn.Params {
				if q != p {
					continue
				}
				for _, ci := range h1bStaticCallers(scope, fn) {
					if i < len(ci.Common().Args) && isMethodVal(ci.Common().Args[i], ci.Parent(), d+1) {
						return true
					}
				}
			}
		}
		if phi, ok := v.(*ssa.Phi); ok {
			for _, e := range phi.Edges {
				if isMethodVal(e, fn, d+1) {
					return true
				}
			}
		}
		return false
	}
	for _, name := range []string{"readTransfer", "fixLength", "fixTransferEncoding", "fixTrailer"} {
		fn := c.P.Func(pkg, name)
		if fn == nil {
			c.Missing(pkg + "." + name)
			continue
		}
		n := map[string]int{}
		// the anchored function and its private helpers (a method test moved into a helper is still a method test)
		h1rRegionInstrs(fn, func(in ssa.Instruction) {
			fn := in.Parent()
			var mv ssa.Value
			kind := ""
			switch x := in.(type) {
			case *ssa.Call:
				if core.CallIs(&x.Call, pkg+".noBodyExpected") && len(x.Call.Args) == 1 {
					mv, kind = x.Call.Args[0], "noBodyExpected"
				}
			case *ssa.BinOp:
				if x.Op != token.EQL && x.Op != token.NEQ {
					return
				}
				if s, ok := core.ConstString(x.Y); ok && isMethodVal(x.X, fn, 0) {
					mv, kind = x.X, "method=="+s
				} else if s, ok := core.ConstString(x.X); ok && isMethodVal(x.Y, fn, 0) {
					mv, kind = x.Y, "method=="+s
				}
			}
			if mv == nil {
				return
			}
			why := taint(mv, fn, 0)
			ok := len(why) == 0 || respGuarded(in.Block())
			c.Check(rule, h1bOrd(name+":"+kind, n), in.Pos(), ok,
				"the framing code branches on a request method ("+core.Render(mv)+") that can be the method of the request being parsed ("+strings.Join(uniqStrings(why), "; ")+
					") and the branch is not restricted to responses: a request's body boundaries would depend on its method (e.g. a HEAD request with Content-Length or chunked body is framed with an empty body and its body bytes are parsed as the next request); RFC 7230 3.3.3 frames requests by Transfer-Encoding and Content-Length only; facts: "+strings.Join(h1aFactStrs(fx.At(in.Block())), " && "))
		})
	}
}

func uniqStrings(in []string) []string {
	seen := map[string]bool{}
	var out []string
	for _, s := range in {
		if !seen[s] {
			seen[s] = true
			out = append(out, s)
		}
	}
	return out
}
