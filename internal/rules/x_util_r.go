package rules

import (
	"go/constant"
	"go/token"
	"go/types"

	"golang.org/x/tools/go/ssa"

	"verif/internal/core"
)

// Robustness helpers of the C19–C22 rules: the same code written with named
// booleans, an `a && b` evaluated into a value (tagless switch), named results
// that are assigned before the return, helpers extracted from (or inlined
// into) the anchored function, or flag-controlled loops must be read the same
// way. Everything here is value- and path-based; nothing looks at block shape,
// statement position or local names.

// ---------------------------------------------------------------- guards

// uuStripNot peels `!` from a condition, flipping the polarity.
func uuStripNot(cond ssa.Value, pol bool) (ssa.Value, bool) {
	for {
		u, ok := cond.(*ssa.UnOp)
		if !ok || u.Op != token.NOT {
			return cond, pol
		}
		cond, pol = u.X, !pol
	}
}

func uuMkGuard(cond ssa.Value, pol bool, ifi *ssa.If) core.Guard {
	s := core.Render(cond)
	if !pol {
		s = "!" + s
	}
	return core.Guard{Cond: cond, Pol: pol, Str: s, If: ifi}
}

func uuIsBool(t types.Type) bool {
	b, ok := t.Underlying().(*types.Basic)
	return ok && b.Info()&types.IsBoolean != 0
}

// uuPhiLive lists the edges of a boolean phi over which it can receive the
// value pol (edges carrying the opposite constant are dead). ok is false when
// a live edge is a back edge (the phi is a loop-carried flag: the guards of
// the latch belong to an earlier iteration and say nothing about values that
// are recomputed afterwards) or when there is no live edge.
func uuPhiLive(phi *ssa.Phi, pol bool) ([]int, bool) {
	if !uuIsBool(phi.Type()) {
		return nil, false
	}
	var live []int
	for j, e := range phi.Edges {
		if k, isK := uuConstBool(e); isK && k != pol {
			continue
		}
		if phi.Block().Dominates(phi.Block().Preds[j]) {
			return nil, false
		}
		live = append(live, j)
	}
	return live, len(live) > 0
}

// uuExpandGuards adds, for every guard whose condition is a boolean phi with
// exactly one live edge (`x := a && b; if x` / a tagless switch case `a && b`:
// the phi is true only when it was entered from the block that evaluated b),
// the guards established on that edge and the edge value itself; `!c` is
// added as c with the opposite polarity. The result is a conjunction: every
// listed guard holds at the block the input list was computed for.
func uuExpandGuards(gs []core.Guard) []core.Guard {
	out := append([]core.Guard(nil), gs...)
	seen := map[*ssa.Phi]bool{}
	for i := 0; i < len(out) && len(out) < 128; i++ {
		cond, pol := uuStripNot(out[i].Cond, out[i].Pol)
		if cond != out[i].Cond {
			out = append(out, uuMkGuard(cond, pol, out[i].If))
			continue
		}
		phi, ok := cond.(*ssa.Phi)
		if !ok || seen[phi] {
			continue
		}
		seen[phi] = true
		live, ok := uuPhiLive(phi, pol)
		if !ok || len(live) != 1 {
			continue
		}
		j := live[0]
		out = append(out, core.GuardsOnEdge(phi.Block().Preds[j], phi.Block())...)
		if _, isK := uuConstBool(phi.Edges[j]); !isK {
			out = append(out, uuMkGuard(phi.Edges[j], pol, nil))
		}
	}
	return out
}

// uuGuardsAt is core.GuardsAt with named booleans / evaluated conjunctions expanded.
func uuGuardsAt(b *ssa.BasicBlock) []core.Guard { return uuExpandGuards(core.GuardsAt(b)) }

// uuGuardsOnEdge is core.GuardsOnEdge, expanded.
func uuGuardsOnEdge(pred, succ *ssa.BasicBlock) []core.Guard {
	return uuExpandGuards(core.GuardsOnEdge(pred, succ))
}

// uuGuardsAtCtx is Prog.GuardsAtCtx (guards of the single call site of a
// private helper hold inside it), expanded.
func uuGuardsAtCtx(p *core.Prog, b *ssa.BasicBlock) []core.Guard {
	return uuExpandGuards(p.GuardsAtCtx(b))
}

// uuSat: the guard g implies a fact accepted by match. Besides g itself this
// looks through `!` and through boolean phis: a phi that is known to be pol
// was entered over one of its live edges, so a fact that is established on
// every live edge (by the guards of the edge or by the edge value) holds. One
// live edge is a conjunction (`a && b` is true), several are a disjunction
// (`a && b` is false: either a is false, or a is true and b is false).
func uuSat(g core.Guard, match func(core.Guard) bool, depth int) bool {
	if match(g) {
		return true
	}
	cond, pol := uuStripNot(g.Cond, g.Pol)
	if cond != g.Cond && match(uuMkGuard(cond, pol, g.If)) {
		return true
	}
	phi, ok := cond.(*ssa.Phi)
	if !ok || depth > 3 {
		return false
	}
	live, ok := uuPhiLive(phi, pol)
	if !ok {
		return false
	}
	for _, j := range live {
		pred := phi.Block().Preds[j]
		found := false
		for _, eg := range core.GuardsOnEdge(pred, phi.Block()) {
			if uuSat(eg, match, depth+1) {
				found = true
				break
			}
		}
		if !found {
			if _, isK := uuConstBool(phi.Edges[j]); !isK && uuSat(uuMkGuard(phi.Edges[j], pol, nil), match, depth+1) {
				found = true
			}
		}
		if !found {
			return false
		}
	}
	return true
}

// uuHasGuard: some guard established at b implies a fact accepted by match.
func uuHasGuard(b *ssa.BasicBlock, match func(core.Guard) bool) bool {
	for _, g := range core.GuardsAt(b) {
		if uuSat(g, match, 0) {
			return true
		}
	}
	return false
}

// uuHasGuardCtx is uuHasGuard over the guards of b and of the call sites of
// the private helper b belongs to.
func uuHasGuardCtx(p *core.Prog, b *ssa.BasicBlock, match func(core.Guard) bool) bool {
	for _, g := range p.GuardsAtCtx(b) {
		if uuSat(g, match, 0) {
			return true
		}
	}
	return false
}

// uuAllEdgesGuarded: every way of entering b establishes a fact accepted by
// match (core.AllEdgesGuarded with uuSat).
func uuAllEdgesGuarded(b *ssa.BasicBlock, match func(core.Guard) bool) bool {
	if uuHasGuard(b, match) {
		return true
	}
	if len(b.Preds) < 2 {
		return false
	}
	for _, p := range b.Preds {
		ok := false
		for _, g := range core.GuardsOnEdge(p, b) {
			if uuSat(g, match, 0) {
				ok = true
				break
			}
		}
		if !ok {
			return false
		}
	}
	return true
}

// uuRelMatch lifts a predicate on normalised comparisons to guards.
func uuRelMatch(match func(r uuRel) bool) func(core.Guard) bool {
	return func(g core.Guard) bool {
		r, ok := uuRelOf(g.Cond, g.Pol)
		return ok && match(r)
	}
}

// uuHasRelCtx is uuHasRel that also reads the guards at the call sites of the
// private helper b belongs to.
func uuHasRelCtx(p *core.Prog, b *ssa.BasicBlock, match func(r uuRel) bool) bool {
	return uuHasGuardCtx(p, b, uuRelMatch(match))
}

// ---------------------------------------------------------------- memory: locals assigned on several paths

func uuIndexOf(in ssa.Instruction) int {
	for i, x := range in.Block().Instrs {
		if x == in {
			return i
		}
	}
	return -1
}

// uuReachingStore returns the value of the store to the local a that reaches
// the instruction at on every path, when that is one and the same SSA value
// (named results assigned once and returned later behind other statements:
// `n, err = f(); if n > 0 {…}; return n, err` in a function with a defer). nil
// when different stores (or the zero value) can reach at, or when the address
// of a is used for anything but plain loads and stores.
func uuReachingStore(a *ssa.Alloc, at ssa.Instruction) ssa.Value {
	if a == nil || a.Referrers() == nil || at == nil || at.Block() == nil {
		return nil
	}
	for _, r := range *a.Referrers() {
		switch x := r.(type) {
		case *ssa.Store:
			if x.Addr != ssa.Value(a) {
				return nil
			}
		case *ssa.UnOp, *ssa.DebugRef:
		default:
			return nil
		}
	}
	var val ssa.Value
	ok := true
	seen := map[*ssa.BasicBlock]bool{}
	var walk func(b *ssa.BasicBlock, from int)
	walk = func(b *ssa.BasicBlock, from int) {
		if !ok {
			return
		}
		for i := from - 1; i >= 0; i-- {
			if st, isSt := b.Instrs[i].(*ssa.Store); isSt && st.Addr == ssa.Value(a) {
				if val == nil {
					val = st.Val
				} else if val != st.Val {
					ok = false
				}
				return
			}
		}
		if len(b.Preds) == 0 {
			ok = false // the zero value reaches
			return
		}
		for _, p := range b.Preds {
			if !seen[p] {
				seen[p] = true
				walk(p, len(p.Instrs))
			}
		}
	}
	walk(at.Block(), uuIndexOf(at))
	if !ok {
		return nil
	}
	return val
}

// ---------------------------------------------------------------- regions: values across the boundary of a private helper

// uuRegion is the anchored function together with its private helpers
// (core.Prog.Region): extracting a helper from the anchor or inlining it back
// does not change what the rule sees.
type uuRegion struct {
	p      *core.Prog
	anchor *ssa.Function
	fns    []*ssa.Function
	in     map[*ssa.Function]bool
}

func uuRegionOf(p *core.Prog, anchor *ssa.Function) *uuRegion {
	r := &uuRegion{p: p, anchor: anchor, in: map[*ssa.Function]bool{}}
	for _, f := range p.Region(anchor) {
		r.fns = append(r.fns, f)
		r.in[f] = true
	}
	return r
}

// instrs lists the instructions of all functions of the region.
func (r *uuRegion) instrs() []ssa.Instruction {
	var out []ssa.Instruction
	for _, f := range r.fns {
		out = append(out, uuInstrs(f)...)
	}
	return out
}

// origins resolves v (uuResolve) and, when the result is a parameter of a
// private helper of the region, replaces it by what the call sites pass
// (every call site of such a helper lies inside the region), transitively.
// A value that is the same at all call sites yields one origin.
func (r *uuRegion) origins(v ssa.Value) []ssa.Value {
	var out []ssa.Value
	seen := map[ssa.Value]bool{}
	var walk func(v ssa.Value, depth int)
	walk = func(v ssa.Value, depth int) {
		v = uuResolve(v)
		if seen[v] {
			return
		}
		seen[v] = true
		prm, ok := v.(*ssa.Parameter)
		if !ok || depth > 4 || prm.Parent() == r.anchor || !r.in[prm.Parent()] {
			out = append(out, v)
			return
		}
		h := prm.Parent()
		pi := -1
		for i, q := range h.Params {
			if q == prm {
				pi = i
			}
		}
		sites := r.p.CallSites(h)
		if pi < 0 || len(sites) == 0 {
			out = append(out, v)
			return
		}
		for _, s := range sites {
			if pi >= len(s.Common().Args) {
				out = append(out, v)
				continue
			}
			walk(s.Common().Args[pi], depth+1)
		}
	}
	walk(v, 0)
	return out
}

// all: every origin of v satisfies f.
func (r *uuRegion) all(v ssa.Value, f func(ssa.Value) bool) bool {
	os := r.origins(v)
	if len(os) == 0 {
		return false
	}
	for _, o := range os {
		if !f(o) {
			return false
		}
	}
	return true
}

// uuResults returns what the static callee of call can return as result #i
// (looking through the result spill of functions with a defer); nil when the
// callee has no body.
func uuResults(call *ssa.Call, i int) []ssa.Value {
	sc := call.Call.StaticCallee()
	if sc == nil || sc.Blocks == nil {
		return nil
	}
	var out []ssa.Value
	for _, r := range core.Returns(sc) {
		rv := core.RetVals(r)
		if i >= len(rv) {
			return nil
		}
		out = append(out, rv[i])
	}
	return out
}

// uuFieldLoadVia: v is a load of field f of the object recv — directly, or as
// the result of a method called on recv (a private helper) all of whose
// returns yield such a load of its own receiver.
func uuFieldLoadVia(v ssa.Value, f *types.Var, recv ssa.Value, depth int) bool {
	v = uuResolve(v)
	if g, base := uuFieldLoad(v); g != nil && g == f && (recv == nil || uuResolve(base) == recv) {
		return true
	}
	if depth > 2 {
		return false
	}
	idx := 0
	if ex, ok := v.(*ssa.Extract); ok {
		idx = ex.Index
		v = ex.Tuple
	}
	call, ok := v.(*ssa.Call)
	if !ok {
		return false
	}
	sc := call.Call.StaticCallee()
	if sc == nil || sc.Blocks == nil || sc.Signature.Recv() == nil || len(sc.Params) == 0 || len(call.Call.Args) == 0 {
		return false
	}
	if sc.Object() == nil || sc.Object().Exported() {
		return false
	}
	if recv != nil && uuResolve(call.Call.Args[0]) != recv {
		return false
	}
	res := uuResults(call, idx)
	if len(res) == 0 {
		return false
	}
	for _, x := range res {
		if !uuFieldLoadVia(x, f, sc.Params[0], depth+1) {
			return false
		}
	}
	return true
}

// ---------------------------------------------------------------- paths with flag variables

// uuPathConsts replays the phis along a path and returns the constants they
// carry at its end (boolean / integer flags such as `found := false; for … {
// found = true }`).
func uuPathConsts(p *core.Path) map[ssa.Value]constant.Value {
	env := map[ssa.Value]constant.Value{}
	for i := 1; i < len(p.Blocks); i++ {
		pred, b := p.Blocks[i-1], p.Blocks[i]
		pi := -1
		for j, q := range b.Preds {
			if q == pred {
				pi = j
			}
		}
		if pi < 0 {
			continue
		}
		type upd struct {
			phi *ssa.Phi
			v   constant.Value
		}
		var ups []upd
		for _, in := range b.Instrs {
			phi, ok := in.(*ssa.Phi)
			if !ok {
				break
			}
			ups = append(ups, upd{phi, uuEvalConst(phi.Edges[pi], env)})
		}
		for _, u := range ups {
			if u.v != nil {
				env[u.phi] = u.v
			} else {
				delete(env, u.phi)
			}
		}
	}
	return env
}

func uuEvalConst(v ssa.Value, env map[ssa.Value]constant.Value) constant.Value {
	switch x := v.(type) {
	case *ssa.Const:
		if x.Value != nil && (x.Value.Kind() == constant.Bool || x.Value.Kind() == constant.Int) {
			return x.Value
		}
	case *ssa.Phi:
		if c, ok := env[x]; ok {
			return c
		}
	case *ssa.UnOp:
		if x.Op == token.NOT {
			if c := uuEvalConst(x.X, env); c != nil && c.Kind() == constant.Bool {
				return constant.MakeBool(!constant.BoolVal(c))
			}
		}
	}
	return nil
}

// uuPathRels lists the comparisons established by the branch edges of a path,
// in order, with the index of the block that ends in the branch.
type uuPathRel struct {
	rel uuRel
	at  int
}

func uuPathRels(p *core.Path) []uuPathRel {
	var out []uuPathRel
	for i := 0; i+1 < len(p.Blocks); i++ {
		b := p.Blocks[i]
		ifi, ok := b.Instrs[len(b.Instrs)-1].(*ssa.If)
		if !ok || b.Succs[0] == b.Succs[1] {
			continue
		}
		if r, isRel := uuRelOf(ifi.Cond, b.Succs[0] == p.Blocks[i+1]); isRel {
			out = append(out, uuPathRel{r, i})
		}
	}
	return out
}

// uuPhiWeb returns the phis reachable from v through phi edges (v included
// when it is a phi) and the non-phi values that enter the web.
func uuPhiWeb(v ssa.Value) (web map[ssa.Value]bool, leaves []ssa.Value) {
	web = map[ssa.Value]bool{}
	seenLeaf := map[ssa.Value]bool{}
	var walk func(v ssa.Value)
	walk = func(v ssa.Value) {
		phi, ok := v.(*ssa.Phi)
		if !ok {
			if !seenLeaf[v] {
				seenLeaf[v] = true
				leaves = append(leaves, v)
			}
			return
		}
		if web[phi] {
			return
		}
		web[phi] = true
		for _, e := range phi.Edges {
			walk(e)
		}
	}
	walk(v)
	return web, leaves
}

// ---------------------------------------------------------------- stale values after the lock was given up

// uuStaleUse runs a forward may-analysis over fn: at every instruction in
// sources (a point where the lock is given up and taken again, e.g. Cond.Wait)
// every value computed so far from a load accepted by isLoad becomes stale; a
// value becomes fresh again when the instruction that defines it is executed
// anew with fresh operands (a load of the field reads it again; a phi takes
// the state of the operand of the edge it is entered over). It returns the
// first instruction accepted by isUse that has a stale operand, nil if none.
func uuStaleUse(fn *ssa.Function, sources map[ssa.Instruction]bool, isLoad func(in ssa.Instruction) bool, isUse func(in ssa.Instruction) bool) ssa.Instruction {
	if len(fn.Blocks) == 0 {
		return nil
	}
	// the values that depend on a load of the field at all
	dep := map[ssa.Value]bool{}
	var work []ssa.Value
	for _, in := range uuInstrs(fn) {
		if isLoad(in) {
			if v, ok := in.(ssa.Value); ok && !dep[v] {
				dep[v] = true
				work = append(work, v)
			}
		}
	}
	for len(work) > 0 {
		x := work[len(work)-1]
		work = work[:len(work)-1]
		if x.Referrers() == nil {
			continue
		}
		for _, r := range *x.Referrers() {
			v, ok := r.(ssa.Value)
			if !ok || dep[v] {
				continue
			}
			if _, isMC := r.(*ssa.MakeClosure); isMC {
				continue
			}
			dep[v] = true
			work = append(work, v)
		}
	}
	type set map[ssa.Value]bool
	in := map[*ssa.BasicBlock]set{}
	in[fn.Blocks[0]] = set{}
	var hit ssa.Instruction
	operandStale := func(x ssa.Instruction, s set) bool {
		var ops []*ssa.Value
		for _, op := range x.Operands(ops) {
			if op != nil && *op != nil && s[*op] {
				return true
			}
		}
		return false
	}
	flow := func(b *ssa.BasicBlock, s set, report bool) set {
		for _, x := range b.Instrs {
			if _, isPhi := x.(*ssa.Phi); isPhi {
				continue // handled on the edge
			}
			stale := operandStale(x, s)
			if report && stale && hit == nil && isUse(x) {
				hit = x
			}
			if v, ok := x.(ssa.Value); ok && dep[v] {
				if stale && !isLoad(x) {
					s[v] = true
				} else {
					delete(s, v)
				}
			}
			if sources[x] {
				for v := range dep {
					if vi, ok := v.(ssa.Instruction); ok && vi != x {
						s[v] = true
					}
				}
			}
		}
		return s
	}
	clone := func(s set) set {
		o := make(set, len(s))
		for k := range s {
			o[k] = true
		}
		return o
	}
	edge := func(from, to *ssa.BasicBlock, s set) set {
		o := clone(s)
		pi := -1
		for j, q := range to.Preds {
			if q == from {
				pi = j
			}
		}
		for _, x := range to.Instrs {
			phi, ok := x.(*ssa.Phi)
			if !ok {
				break
			}
			if pi >= 0 && s[phi.Edges[pi]] {
				o[phi] = true
			} else {
				delete(o, phi)
			}
		}
		return o
	}
	wl := []*ssa.BasicBlock{fn.Blocks[0]}
	for len(wl) > 0 {
		b := wl[0]
		wl = wl[1:]
		out := flow(b, clone(in[b]), false)
		for _, sc := range b.Succs {
			e := edge(b, sc, out)
			old, seen := in[sc]
			if !seen {
				in[sc] = e
				wl = append(wl, sc)
				continue
			}
			grew := false
			for k := range e {
				if !old[k] {
					old[k] = true
					grew = true
				}
			}
			if grew {
				wl = append(wl, sc)
			}
		}
	}
	for _, b := range fn.Blocks {
		if s, ok := in[b]; ok {
			flow(b, clone(s), true)
		}
	}
	return hit
}
