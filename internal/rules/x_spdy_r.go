package rules

// Robustness helpers of the bfe_spdy rules (C39, C40): the verdict of a rule
// must not depend on how a condition is spelled (named booleans, `a && b`
// assigned to a variable, a predicate extracted into a helper) nor on whether
// a block of a function was extracted into a private helper.

import (
	"go/constant"
	"go/token"
	"go/types"

	"golang.org/x/tools/go/ssa"

	"verif/internal/core"
)

// spdyMkGuard builds the guard "cond has truth value pol" (no branch attached).
func spdyMkGuard(cond ssa.Value, pol bool) core.Guard {
	s := core.Render(cond)
	if !pol {
		s = "!" + s
	}
	return core.Guard{Cond: cond, Pol: pol, Str: s}
}

// spdyBoolConst: v is the constant true/false.
func spdyBoolConst(v ssa.Value) (val, ok bool) {
	c, isC := v.(*ssa.Const)
	if !isC || c.Value == nil || c.Value.Kind() != constant.Bool {
		return false, false
	}
	return constant.BoolVal(c.Value), true
}

func spdyIsBool(t types.Type) bool {
	b, ok := t.Underlying().(*types.Basic)
	return ok && b.Info()&types.IsBoolean != 0
}

// spdyImplied reports whether the guard g (a branch condition with the truth
// value it has on the edge taken) implies an atomic guard accepted by match.
//
// Besides g itself the following spellings are looked through:
//
//   - `!c`                       -> c with the opposite truth value;
//   - a boolean phi (the value of `a && b`, `a || b` assigned to a variable):
//     the phi has truth value pol if one of its edges was taken whose value can
//     be pol; a constant edge of the other truth value is infeasible; for
//     every feasible edge either the conditions established on that edge
//     (core.GuardsOnEdge) or the edge value itself must imply the fact
//     (loop-carried flags are not looked through);
//   - with calls=true, the boolean result of a private predicate of bfe_spdy
//     and `helper(...) ==/!= nil` for an error-returning private helper: every
//     return of the helper that can produce that truth value must establish
//     the fact in the helper's own frame (all edges into the returning block,
//     or the returned value). Only use calls=true with a match that identifies
//     its subject by field path (not by SSA value identity).
func spdyImplied(g core.Guard, match func(core.Guard) bool, calls bool) bool {
	return spdyImpliedD(g, match, calls, 0, map[ssa.Value]bool{})
}

func spdyImpliedD(g core.Guard, match func(core.Guard) bool, calls bool, depth int, seen map[ssa.Value]bool) bool {
	if g.Cond == nil {
		return false
	}
	if match(g) {
		return true
	}
	if depth > 8 {
		return false
	}
	lifted := func(x core.Guard) bool { return spdyImpliedD(x, match, calls, depth+1, seen) }
	switch x := g.Cond.(type) {
	case *ssa.UnOp:
		if x.Op == token.NOT {
			return spdyImpliedD(spdyMkGuard(x.X, !g.Pol), match, calls, depth+1, seen)
		}
	case *ssa.Phi:
		if !spdyIsBool(x.Type()) || seen[x] {
			return false
		}
		seen[x] = true
		defer delete(seen, x)
		feasible := 0
		for i, e := range x.Edges {
			k, isK := spdyBoolConst(e)
			if isK && k != g.Pol {
				continue // this edge cannot give the phi the truth value pol
			}
			feasible++
			if x.Block().Dominates(x.Block().Preds[i]) {
				return false // loop-carried flag: facts about the previous iteration are not facts about this one
			}
			ok := false
			for _, eg := range core.GuardsOnEdge(x.Block().Preds[i], x.Block()) {
				if lifted(eg) {
					ok = true
					break
				}
			}
			if !ok && !isK {
				ok = lifted(spdyMkGuard(e, g.Pol))
			}
			if !ok {
				return false
			}
		}
		return feasible > 0
	case *ssa.BinOp:
		// b == true, b != false, ... on booleans
		if x.Op == token.EQL || x.Op == token.NEQ {
			for i, o := range []ssa.Value{x.X, x.Y} {
				if k, isK := spdyBoolConst(o); isK {
					other := []ssa.Value{x.Y, x.X}[i]
					pol := g.Pol
					if (x.Op == token.EQL) != k {
						pol = !pol
					}
					return spdyImpliedD(spdyMkGuard(other, pol), match, calls, depth+1, seen)
				}
			}
		}
		if !calls || (x.Op != token.EQL && x.Op != token.NEQ) {
			return false
		}
		// helper(...) == nil / != nil
		for i, o := range []ssa.Value{x.X, x.Y} {
			if !spdyIsNil(o) {
				continue
			}
			h, idx := spdyHelperResult([]ssa.Value{x.Y, x.X}[i])
			if h == nil {
				return false
			}
			isNil := (x.Op == token.EQL) == g.Pol
			feasible := 0
			for _, r := range core.Returns(h) {
				rv := core.RetVals(r)
				if idx >= len(rv) {
					return false
				}
				v := rv[idx]
				if (isNil && spdyNonNilErr(v)) || (!isNil && spdyIsNil(v)) {
					continue
				}
				feasible++
				if !core.AllEdgesGuarded(r.Block(), lifted) {
					return false
				}
			}
			return feasible > 0
		}
	case *ssa.Call:
		if !calls {
			return false
		}
		h, idx := spdyHelperResult(x)
		if h == nil || !spdyIsBool(x.Type()) {
			return false
		}
		feasible := 0
		for _, r := range core.Returns(h) {
			rv := core.RetVals(r)
			if idx >= len(rv) {
				return false
			}
			v := rv[idx]
			k, isK := spdyBoolConst(v)
			if isK && k != g.Pol {
				continue
			}
			feasible++
			ok := core.AllEdgesGuarded(r.Block(), lifted)
			if !ok && !isK {
				ok = lifted(spdyMkGuard(v, g.Pol))
			}
			if !ok {
				return false
			}
		}
		return feasible > 0
	}
	return false
}

// spdyHelperResult: v is result #idx of a static call of an unexported
// function or method of bfe_spdy that has a body.
func spdyHelperResult(v ssa.Value) (*ssa.Function, int) {
	idx := 0
	if ex, ok := v.(*ssa.Extract); ok {
		idx = ex.Index
		v = ex.Tuple
	}
	call, ok := v.(*ssa.Call)
	if !ok {
		return nil, 0
	}
	h := call.Call.StaticCallee()
	if h == nil || h.Blocks == nil || core.FuncPkgRel(h) != spdyPkg || h.Object() == nil || h.Object().Exported() {
		return nil, 0
	}
	return h, idx
}

// spdyLift turns a matcher of atomic guards into a matcher of guards that
// imply such an atomic guard (named booleans, assigned && / ||).
func spdyLift(match func(core.Guard) bool) func(core.Guard) bool {
	return func(g core.Guard) bool { return spdyImplied(g, match, false) }
}

// spdyLiftCalls is spdyLift that also looks through private predicates.
func spdyLiftCalls(match func(core.Guard) bool) func(core.Guard) bool {
	return func(g core.Guard) bool { return spdyImplied(g, match, true) }
}

// spdyHasGuard: some condition established at b implies a guard accepted by match.
func spdyHasGuard(b *ssa.BasicBlock, match func(core.Guard) bool) bool {
	return core.HasGuard(b, spdyLift(match))
}

// spdyHasGuardCtx is spdyHasGuard that also sees the conditions established
// at the single call site of a private helper (core.GuardsAtCtx). Only for
// matchers that identify their subject by field path or by constants: values
// of the outer frame are not values of the helper.
func spdyHasGuardCtx(p *core.Prog, b *ssa.BasicBlock, match func(core.Guard) bool) bool {
	return p.HasGuardCtx(b, spdyLift(match))
}

// spdyViolated returns the block reached when the branch behind guard g goes
// the other way.
func spdyViolated(g core.Guard) *ssa.BasicBlock {
	ifi := g.If
	if ifi == nil && g.Cond != nil && g.Cond.Referrers() != nil {
		for _, r := range *g.Cond.Referrers() {
			if x, ok := r.(*ssa.If); ok {
				ifi = x
				break
			}
		}
	}
	if ifi == nil || len(ifi.Block().Succs) != 2 {
		return nil
	}
	if g.Pol {
		return ifi.Block().Succs[1]
	}
	return ifi.Block().Succs[0]
}

// spdyRegionSet returns the members of the regions (core.Region: the function,
// its closures and its private helpers) of the named bfe_spdy functions, each
// mapped to the short name of the anchor that owns it. An anchor owns itself;
// a function inside several regions (an anchor that is itself a private helper
// of another anchor, and its helpers) belongs to the smallest of them.
func spdyRegionSet(p *core.Prog, anchors ...string) map[*ssa.Function]string {
	out := map[*ssa.Function]string{}
	size := map[*ssa.Function]int{}
	isAnchor := map[*ssa.Function]bool{}
	for _, a := range anchors {
		if f := p.Func(spdyPkg, a); f != nil {
			isAnchor[f] = true
			out[f] = a
		}
	}
	for _, a := range anchors {
		f := p.Func(spdyPkg, a)
		if f == nil {
			continue
		}
		reg := p.Region(f)
		for _, g := range reg {
			if isAnchor[g] {
				continue
			}
			if n, dup := size[g]; !dup || len(reg) < n {
				out[g] = a
				size[g] = len(reg)
			}
		}
	}
	return out
}

// spdyOwner: the anchor whose region contains f, or f's own short name.
func spdyOwner(set map[*ssa.Function]string, f *ssa.Function) string {
	if a, ok := set[f]; ok {
		return a
	}
	return spdyShort(f)
}

// spdySiteWeight: how many times the body of fn is instantiated by its
// callers: 1 for ordinary functions, the number of static call sites for a
// private helper (unexported) with at least two of them. Two copies of a statement sequence that were merged into one helper
// called twice keep their weight in the anti-vacuity counts.
func spdySiteWeight(p *core.Prog, fn *ssa.Function) int {
	if fn == nil || fn.Parent() != nil || fn.Object() == nil || fn.Object().Exported() {
		return 1
	}
	sites := p.CallSites(fn)
	if len(sites) < 2 {
		return 1
	}
	return len(sites)
}
