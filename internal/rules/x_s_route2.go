package rules

// Helpers added for the "every configured rule reaches the published table"
// clause of C12 (and usable by the other routing properties).
//
// rtIterationSkips: inside a natural loop, can one iteration complete (the
// header be reached again) without executing an instruction of the sink set?
// Decided on the block graph of the loop body only, so that the answer does
// not depend on what follows the loop, on how the loop condition is written or
// on the order of independent statements in the body.

import (
	"fmt"
	"go/constant"
	"go/token"
	"go/types"
	"math"
	"strings"

	"golang.org/x/tools/go/ssa"

	"verif/internal/core"
)

// rtInnermostLoop: the smallest natural loop of fn whose body contains b.
func rtInnermostLoop(loops []*core.Loop, b *ssa.BasicBlock) *core.Loop {
	var best *core.Loop
	for _, l := range loops {
		if l.Body[b] && (best == nil || len(l.Body) < len(best.Body)) {
			best = l
		}
	}
	return best
}

// rtIterationSkips returns the deciding block of an iteration that completes
// without passing a sink: on a path header -> ... -> header inside the loop
// that avoids every sink, the last block from which a sink was still reachable
// within the same iteration (its branch is the one that skips); the source of
// the back edge when no sink is reachable at all. nil when every completed
// iteration passes a sink.
func rtIterationSkips(l *core.Loop, sink func(ssa.Instruction) bool) *ssa.BasicBlock {
	hasSink := func(b *ssa.BasicBlock) bool {
		for _, in := range b.Instrs {
			if sink(in) {
				return true
			}
		}
		return false
	}
	seen := map[*ssa.BasicBlock]bool{}
	var path []*ssa.BasicBlock
	var visit func(b *ssa.BasicBlock) bool
	visit = func(b *ssa.BasicBlock) bool {
		if seen[b] || hasSink(b) {
			return false
		}
		seen[b] = true
		path = append(path, b)
		for _, s := range b.Succs {
			if !l.Body[s] {
				continue
			}
			if s == l.Header || visit(s) {
				return true
			}
		}
		path = path[:len(path)-1]
		return false
	}
	if !visit(l.Header) {
		return nil
	}
	// can a sink be reached from b within the iteration?
	reaches := func(from *ssa.BasicBlock) bool {
		vis := map[*ssa.BasicBlock]bool{}
		work := []*ssa.BasicBlock{from}
		for len(work) > 0 {
			b := work[len(work)-1]
			work = work[:len(work)-1]
			if vis[b] {
				continue
			}
			vis[b] = true
			if hasSink(b) {
				return true
			}
			for _, s := range b.Succs {
				if l.Body[s] && s != l.Header {
					work = append(work, s)
				}
			}
		}
		return false
	}
	for i := len(path) - 1; i >= 0; i-- {
		if _, isIf := path[i].Instrs[len(path[i].Instrs)-1].(*ssa.If); isIf && reaches(path[i]) {
			return path[i]
		}
	}
	return path[len(path)-1]
}

// rtInBlock: predicate "instruction belongs to block b".
func rtInBlock(b *ssa.BasicBlock) func(ssa.Instruction) bool {
	return func(in ssa.Instruction) bool { return in.Block() == b }
}

// rtNilErrReturn: a return whose last result is the nil error.
func rtNilErrReturn(in ssa.Instruction) bool {
	r, ok := in.(*ssa.Return)
	if !ok {
		return false
	}
	rv := core.RetVals(r)
	return len(rv) > 0 && rtIsNil(rv[len(rv)-1])
}

// rtRangeElem: v is the current element of a range over a slice — a load of
// &slice[idx], the per-iteration copy (Alloc whose only store is such a load)
// or its address — returns the IndexAddr.
func rtRangeElem(v ssa.Value) *ssa.IndexAddr {
	switch x := v.(type) {
	case *ssa.IndexAddr:
		return x
	case *ssa.UnOp:
		if ia, ok := rtLoadOf(x).(*ssa.IndexAddr); ok {
			return ia
		}
		if a, ok := rtLoadOf(x).(*ssa.Alloc); ok {
			return rtRangeElem(a)
		}
	case *ssa.Alloc:
		refs := x.Referrers()
		if refs == nil {
			return nil
		}
		var found *ssa.IndexAddr
		n := 0
		for _, r := range *refs {
			if st, ok := r.(*ssa.Store); ok && st.Addr == ssa.Value(x) {
				n++
				if ia, ok := rtLoadOf(st.Val).(*ssa.IndexAddr); ok {
					found = ia
				}
			}
		}
		if n == 1 {
			return found
		}
	}
	return nil
}

// rtInsertsBeforeSuccess: g (a function of the module with a body) calls
// insFn(param #ti, param #ri) on every path to a return that can report
// success (error returns built by errors.New / fmt.Errorf, or returning a value
// tested non-nil, may precede the insertion).
func rtInsertsBeforeSuccess(g *ssa.Function, ti, ri int, insFn string) bool {
	if g == nil || g.Blocks == nil || core.FuncPkgRel(g) == "" || ti >= len(g.Params) || ri >= len(g.Params) {
		return false
	}
	isIns := func(in ssa.Instruction) bool {
		call, ok := in.(*ssa.Call)
		if !ok || !core.CallIs(&call.Call, insFn) || len(call.Call.Args) != 2 {
			return false
		}
		root, fields := rtPathOf(call.Call.Args[1])
		return rtAP(call.Call.Args[0]) == fmt.Sprintf("p%d", ti) && root == ssa.Value(g.Params[ri]) && len(fields) == 0
	}
	maySucceed := func(in ssa.Instruction) bool {
		r, ok := in.(*ssa.Return)
		if !ok {
			return false
		}
		rv := core.RetVals(r)
		if len(rv) == 0 || !cxIsErrorType(rv[len(rv)-1].Type()) {
			return true
		}
		e := rv[len(rv)-1]
		if call, ok := core.StripConv(e).(*ssa.Call); ok && core.CallIs(&call.Call, "errors.New", "fmt.Errorf") {
			return false
		}
		if core.HasGuard(r.Block(), func(gd core.Guard) bool { return cxErrTest(gd, e) == 1 }) {
			return false
		}
		return true
	}
	n := 0
	core.Instrs(g, func(in ssa.Instruction) {
		if isIns(in) {
			n++
		}
	})
	return n > 0 && core.ReachAvoiding(g, nil, isIns, maySucceed) == nil
}

// rtSkipGuard renders the branch condition of the deciding block returned by
// rtIterationSkips.
func rtSkipGuard(b *ssa.BasicBlock) string {
	if ifi, ok := b.Instrs[len(b.Instrs)-1].(*ssa.If); ok {
		return cxTrim(core.Render(ifi.Cond), 160)
	}
	return "unconditional"
}

func rtSkipPos(b *ssa.BasicBlock, fn *ssa.Function) token.Pos {
	if ifi, ok := b.Instrs[len(b.Instrs)-1].(*ssa.If); ok {
		if p := ifi.Cond.Pos(); p.IsValid() {
			return p
		}
	}
	for i := len(b.Instrs) - 1; i >= 0; i-- {
		if p := b.Instrs[i].Pos(); p.IsValid() {
			return p
		}
	}
	return fn.Pos()
}

// c12BasicComplete: every configured basic rule — ADVANCED_MODE entries
// included, they shadow broader rules — reaches the tree LookupCluster
// consults, with the configured cluster name.
func c12BasicComplete(c *core.Ctx) {
	const rrc = "bfe_config/bfe_route_conf/route_rule_conf"
	const rule = "basic-complete"
	const (
		newFn  = rrc + ".NewBasicRouteRuleTree"
		insFn  = rrc + ".BasicRouteRuleTree.Insert"
		hInsFn = rrc + ".hostTrees.insert"
		pInsFn = rrc + ".pathTrees.insert"
		radIns = "github.com/armon/go-radix.Tree.Insert"
	)
	// ---- convertBasicRule
	if fn := c.P.Func(rrc, "convertBasicRule"); fn == nil {
		c.Missing(rrc + ".convertBasicRule")
	} else {
		c.Analysed(core.FuncKey(fn))
		loops := core.Loops(fn)
		// the range over product -> rule files
		var next *ssa.Next
		core.Instrs(fn, func(in ssa.Instruction) {
			if nx, ok := in.(*ssa.Next); ok {
				if rg, ok := nx.Iter.(*ssa.Range); ok && len(fn.Params) == 1 {
					if root, _ := rtPathOf(rg.X); root == ssa.Value(fn.Params[0]) {
						next = nx
					}
				}
			}
		})
		if next == nil {
			c.Check(rule, "convertBasicRule:product-loop", fn.Pos(), false, "no range over the configured product -> basic rules map found")
		} else {
			product, files := rtExtractOf(next, 1), rtExtractOf(next, 2)
			outer := rtInnermostLoop(loops, next.Block())
			// the loop over the product's rules: the innermost loop that indexes `files` with its ascending index
			var ruleLoop *core.Loop
			core.Instrs(fn, func(in ssa.Instruction) {
				if ia, ok := in.(*ssa.IndexAddr); ok && files != nil && ia.X == files && rtAscendingIndex(ia.Index) {
					if l := rtInnermostLoop(loops, ia.Block()); l != nil && l != outer {
						ruleLoop = l
					}
				}
			})
			// the tree published under the product in the map that is returned
			var pubs []*ssa.MapUpdate
			core.Instrs(fn, func(in ssa.Instruction) {
				if mu, ok := in.(*ssa.MapUpdate); ok && product != nil && mu.Key == product {
					if _, isMake := mu.Map.(*ssa.MakeMap); !isMake {
						return
					}
					if strings.HasSuffix(core.TypeStr(mu.Value.Type()), "BasicRouteRuleTree") {
						pubs = append(pubs, mu)
					}
				}
			})
			var pub *ssa.MapUpdate
			if len(pubs) == 1 {
				pub = pubs[0]
			}
			pubOK, why := pub != nil, fmt.Sprintf("%d stores of a tree under the product's name, expected one", len(pubs))
			if pubOK {
				for _, r := range core.Returns(fn) {
					if rv := core.RetVals(r); len(rv) == 3 && rtIsNil(rv[2]) && rv[1] != pub.Map {
						pubOK, why = false, "a successful return hands out "+core.Render(rv[1])+", not the map the trees were stored in"
					}
				}
				if outer == nil || !outer.Body[pub.Block()] {
					pubOK, why = false, "the tree is not published inside the per-product loop"
				} else if b := rtIterationSkips(outer, func(in ssa.Instruction) bool { return in == ssa.Instruction(pub) }); b != nil {
					pubOK, why = false, "the next product can be reached without publishing the current product's tree"
				}
				if call := rtResultOf(pub.Value, 0, newFn); call == nil || outer == nil || !outer.Body[call.Block()] {
					pubOK, why = false, "the published tree is not created by NewBasicRouteRuleTree() inside the per-product loop"
				}
			}
			c.Check(rule, "convertBasicRule:publish", fn.Pos(), pubOK, "every product's basic tree must be stored under the product's name in the returned map; "+why)
			if ruleLoop == nil {
				c.Check(rule, "convertBasicRule:every-rule", fn.Pos(), false, "no loop over the product's configured basic rules (ascending index into the map value) found")
			} else {
				isElem := func(v ssa.Value) bool {
					ia := rtRangeElem(v)
					return ia != nil && ia.X == files && rtAscendingIndex(ia.Index) && rtInnermostLoop(loops, ia.Block()) == ruleLoop
				}
				isSink := func(in ssa.Instruction) bool {
					call, ok := in.(*ssa.Call)
					if !ok || pub == nil {
						return false
					}
					if core.CallIs(&call.Call, insFn) {
						return len(call.Call.Args) == 2 && call.Call.Args[0] == pub.Value && isElem(call.Call.Args[1])
					}
					// a helper of the package that inserts its rule argument into its tree argument before it can succeed
					ti, ri := -1, -1
					for i, a := range call.Call.Args {
						switch {
						case a == pub.Value:
							ti = i
						case isElem(a):
							ri = i
						}
					}
					return ti >= 0 && ri >= 0 && rtInsertsBeforeSuccess(call.Call.StaticCallee(), ti, ri, insFn)
				}
				n := 0
				for b := range ruleLoop.Body {
					for _, in := range b.Instrs {
						if isSink(in) {
							n++
						}
					}
				}
				skip := rtIterationSkips(ruleLoop, isSink)
				pos := fn.Pos()
				det := "no call BasicRouteRuleTree.Insert(current rule) on the product's published tree inside the rule loop"
				if skip != nil {
					pos = rtSkipPos(skip, fn)
					if n > 0 {
						det = "the next configured rule is reached without inserting the current one (skipping branch: " + rtSkipGuard(skip) + ")"
					}
				}
				c.Check(rule, "convertBasicRule:every-rule", pos, n > 0 && skip == nil,
					"every configured basic rule, whatever its cluster name (ADVANCED_MODE entries shadow broader rules), must be inserted into the product's tree before the next rule is processed; "+det)
			}
		}
	}
	// ---- BasicRouteRuleTree.Insert
	if fn := c.P.Func(rrc, "BasicRouteRuleTree.Insert"); fn == nil {
		c.Missing(insFn)
	} else {
		c.Analysed(core.FuncKey(fn))
		loops := core.Loops(fn)
		var hCalls, pCalls []*ssa.Call
		core.Instrs(fn, func(in ssa.Instruction) {
			if call, ok := in.(*ssa.Call); ok {
				switch {
				case core.CallIs(&call.Call, hInsFn):
					hCalls = append(hCalls, call)
				case core.CallIs(&call.Call, pInsFn):
					pCalls = append(pCalls, call)
				}
			}
		})
		if len(hCalls) != 1 || len(pCalls) != 1 {
			c.Check(rule, "Insert:sites", fn.Pos(), false, fmt.Sprintf("expected one hostTrees.insert and one pathTrees.insert call in BasicRouteRuleTree.Insert, found %d and %d", len(hCalls), len(pCalls)))
		} else {
			hc, pc := hCalls[0], pCalls[0]
			hl, pl := rtInnermostLoop(loops, hc.Block()), rtInnermostLoop(loops, pc.Block())
			// operands
			var problems []string
			if len(pc.Call.Args) != 3 || len(hc.Call.Args) != 2 {
				problems = append(problems, "unexpected arity of the insert helpers")
			} else {
				if rtAP(pc.Call.Args[2]) != "p1.ClusterName" || rtLoadOf(pc.Call.Args[2]) == nil {
					problems = append(problems, "the cluster stored is "+core.Render(pc.Call.Args[2])+", expected *ruleConf.ClusterName unchanged")
				}
				if ia := rtRangeElem(pc.Call.Args[1]); ia == nil || rtAP(ia.X) != "p1.Path" {
					problems = append(problems, "the path inserted is not the current element of ruleConf.Path")
				}
				if ia := rtRangeElem(hc.Call.Args[1]); ia == nil || rtAP(ia.X) != "p1.Hostname" {
					problems = append(problems, "the host inserted is not the current element of ruleConf.Hostname")
				}
				// receiver of pathTrees.insert: the trees hostTrees.insert returned
				recvOK := pc.Call.Args[0] == ssa.Value(hc)
				if a, ok := pc.Call.Args[0].(*ssa.Alloc); ok && a.Referrers() != nil {
					n := 0
					for _, r := range *a.Referrers() {
						if st, ok := r.(*ssa.Store); ok && st.Addr == ssa.Value(a) {
							n++
							recvOK = st.Val == ssa.Value(hc)
						}
					}
					recvOK = recvOK && n == 1
				}
				if !recvOK {
					problems = append(problems, "paths are not inserted into the trees hostTrees.insert returned for the host")
				}
			}
			c.Check(rule, "Insert:operands", pc.Pos(), len(problems) == 0, "BasicRouteRuleTree.Insert: "+strings.Join(problems, "; "))
			switch {
			case hl == nil || pl == nil || hl == pl || !hl.Body[pl.Header]:
				c.Check(rule, "Insert:loops", fn.Pos(), false, "expected pathTrees.insert in a loop over the paths nested in the loop over the hosts that calls hostTrees.insert")
			default:
				isP := func(in ssa.Instruction) bool { return in == ssa.Instruction(pc) }
				isH := func(in ssa.Instruction) bool { return in == ssa.Instruction(hc) }
				c.Check(rule, "Insert:every-path", pc.Pos(), rtIterationSkips(pl, isP) == nil, "a path of the rule can be skipped: the next path is reached without pathTrees.insert for the current one (an entry such as ADVANCED_MODE would not shadow broader rules)")
				c.Check(rule, "Insert:every-host", hc.Pos(), rtIterationSkips(hl, isH) == nil && rtIterationSkips(hl, rtInBlock(pl.Header)) == nil, "a host of the rule can be skipped: the next host is reached without hostTrees.insert and the loop over the rule's paths")
				bad := core.ReachAvoiding(fn, nil, rtInBlock(hl.Header), rtNilErrReturn)
				c.Check(rule, "Insert:no-early-success", fn.Pos(), bad == nil && len(fn.Blocks) > 0 && fn.Blocks[0] != hl.Header, "BasicRouteRuleTree.Insert can report success without entering the loop over the rule's hosts: the rule would be accepted but never be found by Get")
			}
		}
	}
	// ---- pathTrees.insert: success only after the radix insertion of (key, cluster)
	if fn := c.P.Func(rrc, "pathTrees.insert"); fn == nil {
		c.Missing(pInsFn)
	} else if len(fn.Params) != 3 {
		c.Check(rule, "pathTrees.insert:stores-cluster", fn.Pos(), false, "pathTrees.insert no longer has (path, cluster) parameters")
	} else {
		c.Analysed(core.FuncKey(fn))
		n := 0
		isIns := func(in ssa.Instruction) bool {
			call, ok := in.(*ssa.Call)
			return ok && core.CallIs(&call.Call, radIns) && len(call.Call.Args) == 3 && core.StripConv(call.Call.Args[2]) == ssa.Value(fn.Params[2])
		}
		core.Instrs(fn, func(in ssa.Instruction) {
			if isIns(in) {
				n++
			}
		})
		bad := core.ReachAvoiding(fn, nil, isIns, rtNilErrReturn)
		c.Check(rule, "pathTrees.insert:stores-cluster", fn.Pos(), n >= 1 && bad == nil, "pathTrees.insert can report success without a radix insertion whose value is its cluster parameter (the configured name, ADVANCED_MODE included, must be what Get returns)")
	}
	// ---- nothing removes entries from the radix trees of this package
	var dels []string
	for _, f := range c.P.SrcFuncs(rrc, "bfe_route") {
		for _, call := range core.Calls(f, "github.com/armon/go-radix.Tree.Delete", "github.com/armon/go-radix.Tree.DeletePrefix") {
			dels = append(dels, core.FuncKey(f)+"@"+c.P.Pos(call.Pos()))
		}
	}
	c.Check(rule, "no-radix-delete", 0, len(dels) == 0, "entries are removed from radix trees by "+strings.Join(dels, ", ")+": a configured basic rule could be missing from the tree LookupCluster consults")
	c.Min(rule, 8)
}

// c12AdvancedComplete: every iteration of convertAdvancedRule's rule loop that
// completes has stored both ClusterName and Cond of the element (a skipped
// element would be a rule with a nil condition in the published slice).
func c12AdvancedComplete(c *core.Ctx) {
	const rrc = "bfe_config/bfe_route_conf/route_rule_conf"
	fn := c.P.Func(rrc, "convertAdvancedRule")
	if fn == nil {
		return // reported by c12ConfiguredOrder
	}
	loops := core.Loops(fn)
	for _, field := range []string{"ClusterName", "Cond"} {
		var stores []*ssa.Store
		core.Instrs(fn, func(in ssa.Instruction) {
			st, ok := in.(*ssa.Store)
			if !ok {
				return
			}
			fa, ok := st.Addr.(*ssa.FieldAddr)
			if !ok {
				return
			}
			ia, ok := fa.X.(*ssa.IndexAddr)
			if !ok || !rtAscendingIndex(ia.Index) {
				return
			}
			if _, isMake := ia.X.(*ssa.MakeSlice); !isMake {
				return
			}
			if fo := core.FieldObj(fa.X, fa.Field); fo != nil && fo.Name() == field {
				stores = append(stores, st)
			}
		})
		ok := len(stores) >= 1
		det := "no store of " + field + " into the element of the product's rule slice"
		pos := fn.Pos()
		for _, st := range stores {
			pos = st.Pos()
			l := rtInnermostLoop(loops, st.Block())
			if l == nil {
				ok, det = false, field+" is stored outside the loop over the configured rules"
				continue
			}
			if b := rtIterationSkips(l, func(in ssa.Instruction) bool { return in == ssa.Instruction(st) }); b != nil {
				ok, det = false, "the next configured rule is reached without storing "+field+" of the current one (skipping branch: "+rtSkipGuard(b)+")"
				pos = rtSkipPos(b, fn)
			}
		}
		c.Check("configured-order", "convertAdvancedRule:every-rule:"+field, pos, ok, "every configured advanced rule must become an element of the product's slice; "+det)
	}
}

// ---- integer value ranges ------------------------------------------------------------
//
// ivOf over-approximates the set of values an integer SSA value can take by
// an interval. It knows the result ranges of the time.Time accessors, Go's
// sign rule for % (the remainder has the sign of the dividend), conversions,
// local variables, phis (with the branch conditions on the incoming edge
// applied to the values they constrain) and module functions with a body
// (parameters bound to the argument ranges). Everything else has the range
// of its type. math.MinInt64 / math.MaxInt64 stand for -inf / +inf.

type ivl struct{ lo, hi int64 }

const (
	ivNegInf = math.MinInt64
	ivPosInf = math.MaxInt64
)

func (a ivl) String() string {
	b := func(x int64) string {
		switch x {
		case ivNegInf:
			return "-inf"
		case ivPosInf:
			return "+inf"
		}
		return fmt.Sprint(x)
	}
	return "[" + b(a.lo) + ", " + b(a.hi) + "]"
}

func (a ivl) within(b ivl) bool { return a.lo >= b.lo && a.hi <= b.hi }

func ivHull(a, b ivl) ivl {
	if b.lo < a.lo {
		a.lo = b.lo
	}
	if b.hi > a.hi {
		a.hi = b.hi
	}
	return a
}

func ivMeet(a, b ivl) ivl {
	if b.lo > a.lo {
		a.lo = b.lo
	}
	if b.hi < a.hi {
		a.hi = b.hi
	}
	return a
}

func ivInf(x int64) bool { return x == ivNegInf || x == ivPosInf }

func ivAddSat(x, y int64) int64 {
	if ivInf(x) {
		return x
	}
	if ivInf(y) {
		return y
	}
	s := x + y
	if (x > 0 && y > 0 && s < 0) || s == ivPosInf {
		return ivPosInf
	}
	if (x < 0 && y < 0 && s >= 0) || s == ivNegInf {
		return ivNegInf
	}
	return s
}

func ivNeg(x int64) int64 {
	switch x {
	case ivNegInf:
		return ivPosInf
	case ivPosInf:
		return ivNegInf
	}
	return -x
}

func ivMulSat(x, y int64) int64 {
	if x == 0 || y == 0 {
		return 0
	}
	neg := (x < 0) != (y < 0)
	if ivInf(x) || ivInf(y) {
		if neg {
			return ivNegInf
		}
		return ivPosInf
	}
	p := x * y
	if p/y != x || ivInf(p) {
		if neg {
			return ivNegInf
		}
		return ivPosInf
	}
	return p
}

// ivType: the range of an integer type.
func ivType(t types.Type) ivl {
	b, ok := t.Underlying().(*types.Basic)
	if !ok {
		return ivl{ivNegInf, ivPosInf}
	}
	switch b.Kind() {
	case types.Int8:
		return ivl{-1 << 7, 1<<7 - 1}
	case types.Int16:
		return ivl{-1 << 15, 1<<15 - 1}
	case types.Int32:
		return ivl{-1 << 31, 1<<31 - 1}
	case types.Uint8:
		return ivl{0, 1<<8 - 1}
	case types.Uint16:
		return ivl{0, 1<<16 - 1}
	case types.Uint32:
		return ivl{0, 1<<32 - 1}
	case types.Uint, types.Uint64, types.Uintptr:
		return ivl{0, ivPosInf}
	}
	return ivl{ivNegInf, ivPosInf}
}

// ivFit: a computed range that leaves the type's range may have wrapped.
func ivFit(a ivl, t types.Type) ivl {
	if tr := ivType(t); !a.within(tr) {
		return tr
	}
	return a
}

type ivEnv struct {
	params map[*ssa.Parameter]ivl
	refine map[ssa.Value]ivl
	busy   map[ssa.Value]bool
	depth  int
}

func newIvEnv() *ivEnv {
	return &ivEnv{params: map[*ssa.Parameter]ivl{}, refine: map[ssa.Value]ivl{}, busy: map[ssa.Value]bool{}}
}

var ivTimeAccessors = map[string]ivl{
	"time.Time.Hour": {0, 23}, "time.Time.Minute": {0, 59}, "time.Time.Second": {0, 59}, "time.Time.Nanosecond": {0, 999999999},
	"time.Time.Weekday": {0, 6}, "time.Time.Month": {1, 12}, "time.Time.Day": {1, 31}, "time.Time.YearDay": {1, 366},
}

func ivOf(v ssa.Value, env *ivEnv) ivl {
	tr := ivType(v.Type())
	if r, ok := env.refine[v]; ok {
		return r
	}
	if env.busy[v] {
		return tr // loop-carried value: not followed
	}
	env.busy[v] = true
	defer delete(env.busy, v)
	switch x := v.(type) {
	case *ssa.Const:
		if x.Value != nil && x.Value.Kind() == constant.Int {
			if k, exact := constant.Int64Val(x.Value); exact {
				return ivl{k, k}
			}
		}
		return tr
	case *ssa.Parameter:
		if r, ok := env.params[x]; ok {
			return r
		}
		return tr
	case *ssa.Convert:
		if b, isBasic := x.X.Type().Underlying().(*types.Basic); !isBasic || b.Info()&types.IsInteger == 0 {
			return tr
		}
		a := ivOf(x.X, env)
		if a.hi == ivPosInf && ivType(x.X.Type()).lo == 0 && tr.lo < 0 {
			return tr // an unbounded unsigned value wraps when converted to a signed type
		}
		return ivFit(a, v.Type())
	case *ssa.ChangeType:
		return ivOf(x.X, env)
	case *ssa.Phi:
		var out ivl
		first := true
		for i, e := range x.Edges {
			pred := x.Block().Preds[i]
			added := ivRefineEdge(env, pred, x.Block())
			r := ivOf(e, env)
			for _, k := range added {
				delete(env.refine, k)
			}
			if first {
				out, first = r, false
			} else {
				out = ivHull(out, r)
			}
		}
		if first {
			return tr
		}
		return out
	case *ssa.UnOp:
		switch x.Op {
		case token.SUB:
			a := ivOf(x.X, env)
			return ivFit(ivl{ivNeg(a.hi), ivNeg(a.lo)}, v.Type())
		case token.MUL:
			a, ok := x.X.(*ssa.Alloc)
			if !ok || a.Referrers() == nil {
				return tr
			}
			var out ivl
			n := 0
			for _, r := range *a.Referrers() {
				switch y := r.(type) {
				case *ssa.Store:
					if y.Addr != ssa.Value(a) {
						return tr
					}
					if n == 0 {
						out = ivOf(y.Val, env)
					} else {
						out = ivHull(out, ivOf(y.Val, env))
					}
					n++
				case *ssa.UnOp, *ssa.DebugRef:
				default:
					return tr // address escapes
				}
			}
			if n == 0 {
				return ivl{0, 0} // zero value
			}
			return out
		}
		return tr
	case *ssa.BinOp:
		a, b := ivOf(x.X, env), ivOf(x.Y, env)
		switch x.Op {
		case token.ADD:
			return ivFit(ivl{ivAddSat(a.lo, b.lo), ivAddSat(a.hi, b.hi)}, v.Type())
		case token.SUB:
			return ivFit(ivl{ivAddSat(a.lo, ivNeg(b.hi)), ivAddSat(a.hi, ivNeg(b.lo))}, v.Type())
		case token.MUL:
			ps := []int64{ivMulSat(a.lo, b.lo), ivMulSat(a.lo, b.hi), ivMulSat(a.hi, b.lo), ivMulSat(a.hi, b.hi)}
			out := ivl{ps[0], ps[0]}
			for _, p := range ps[1:] {
				out = ivHull(out, ivl{p, p})
			}
			return ivFit(out, v.Type())
		case token.REM:
			// |x % y| < |y| and the result has the sign of x
			if b.lo <= 0 || ivInf(b.hi) {
				if a.lo >= 0 {
					return ivFit(ivl{0, a.hi}, v.Type())
				}
				return tr
			}
			m := b.hi - 1
			out := ivl{-m, m}
			if a.lo >= 0 {
				out.lo = 0
			}
			if a.hi <= 0 {
				out.hi = 0
			}
			return ivMeet(out, ivl{minI64(a.lo, 0), maxI64(a.hi, 0)})
		case token.QUO:
			if b.lo > 0 && b.lo == b.hi && !ivInf(a.lo) && !ivInf(a.hi) {
				return ivl{a.lo / b.lo, a.hi / b.lo}
			}
			if b.lo > 0 && a.lo >= 0 {
				return ivl{0, a.hi}
			}
			return tr
		case token.AND:
			if b.lo >= 0 && !ivInf(b.hi) {
				return ivl{0, b.hi}
			}
			if a.lo >= 0 && !ivInf(a.hi) {
				return ivl{0, a.hi}
			}
			return tr
		case token.SHR:
			if a.lo >= 0 {
				return ivl{0, a.hi}
			}
			return tr
		}
		return tr
	case *ssa.Extract:
		if call, ok := x.Tuple.(*ssa.Call); ok {
			if core.CallIs(&call.Call, "time.Time.Clock") && x.Index < 3 {
				return []ivl{{0, 23}, {0, 59}, {0, 59}}[x.Index]
			}
			return ivCall(call, x.Index, env, tr)
		}
		return tr
	case *ssa.Call:
		if r, ok := ivTimeAccessors[core.CalleeKey(&x.Call)]; ok {
			return r
		}
		if b, ok := x.Call.Value.(*ssa.Builtin); ok && (b.Name() == "len" || b.Name() == "cap") {
			return ivl{0, ivPosInf}
		}
		return ivCall(x, 0, env, tr)
	}
	return tr
}

func minI64(a, b int64) int64 {
	if a < b {
		return a
	}
	return b
}

func maxI64(a, b int64) int64 {
	if a > b {
		return a
	}
	return b
}

// ivCall: result #idx of a call to a module function with a body — the hull of
// what its returns yield with the parameters bound to the argument ranges.
func ivCall(call *ssa.Call, idx int, env *ivEnv, tr ivl) ivl {
	sc := call.Call.StaticCallee()
	if sc == nil || sc.Blocks == nil || env.depth >= 2 || core.FuncPkgRel(sc) == "" || len(sc.Params) != len(call.Call.Args) {
		return tr
	}
	sub := newIvEnv()
	sub.depth = env.depth + 1
	for i, p := range sc.Params {
		if b, ok := p.Type().Underlying().(*types.Basic); ok && b.Info()&types.IsInteger != 0 {
			sub.params[p] = ivOf(call.Call.Args[i], env)
		}
	}
	var out ivl
	n := 0
	for _, r := range core.Returns(sc) {
		rv := core.RetVals(r)
		if idx >= len(rv) {
			return tr
		}
		if _, isErrPath := rv[idx].(*ssa.Const); isErrPath && len(rv) > 1 && !rtIsNil(rv[len(rv)-1]) && cxIsErrorType(rv[len(rv)-1].Type()) {
			continue // placeholder result of an error return
		}
		x := ivOf(rv[idx], sub)
		if n == 0 {
			out = x
		} else {
			out = ivHull(out, x)
		}
		n++
	}
	if n == 0 {
		return tr
	}
	return out
}

// ivRefineEdge applies the comparisons with constants that hold when control
// moves from pred to succ to the values compared; returns the keys it added.
func ivRefineEdge(env *ivEnv, pred, succ *ssa.BasicBlock) []ssa.Value {
	var added []ssa.Value
	for _, g := range core.GuardsOnEdge(pred, succ) {
		bo, ok := g.Cond.(*ssa.BinOp)
		if !ok {
			continue
		}
		op, x, y, pol, ok := rtCanon(bo.Op, bo.X, bo.Y, g.Pol)
		if !ok {
			continue
		}
		// bring into the form  val REL const
		var val ssa.Value
		var k int64
		flipped := false
		if c, isK := rtConstInt(y); isK {
			val, k = x, c
		} else if c, isK := rtConstInt(x); isK {
			val, k, flipped = y, c, true
		} else {
			continue
		}
		if _, isK := val.(*ssa.Const); isK {
			continue
		}
		r := ivl{ivNegInf, ivPosInf}
		switch op {
		case token.EQL:
			if pol {
				r = ivl{k, k}
			}
		case token.LSS: // x < y
			switch {
			case !flipped && pol: // val < k
				r.hi = k - 1
			case !flipped && !pol: // val >= k
				r.lo = k
			case flipped && pol: // k < val
				r.lo = k + 1
			default: // k >= val
				r.hi = k
			}
		case token.LEQ: // x <= y
			switch {
			case !flipped && pol: // val <= k
				r.hi = k
			case !flipped && !pol: // val > k
				r.lo = k + 1
			case flipped && pol: // k <= val
				r.lo = k
			default: // k > val
				r.hi = k - 1
			}
		}
		if _, had := env.refine[val]; had {
			continue
		}
		cur := ivOf(val, env)
		env.refine[val] = ivMeet(cur, r)
		added = append(added, val)
	}
	return added
}

// ivSliceLen: the length of a slice value as a range, when it is a make()
// result, possibly held in a local variable whose address is only handed to
// module functions that do not reassign it.
func ivSliceLen(v ssa.Value, env *ivEnv) (ivl, bool) {
	switch x := v.(type) {
	case *ssa.MakeSlice:
		return ivOf(x.Len, env), true
	case *ssa.Slice:
		// make([]T, constant) is built as a slice of a fresh array
		a, ok := x.X.(*ssa.Alloc)
		if !ok || x.Low != nil {
			return ivl{}, false
		}
		pt, ok := a.Type().Underlying().(*types.Pointer)
		if !ok {
			return ivl{}, false
		}
		arr, ok := pt.Elem().Underlying().(*types.Array)
		if !ok {
			return ivl{}, false
		}
		if x.High != nil {
			h := ivOf(x.High, env)
			return ivMeet(h, ivl{0, arr.Len()}), true
		}
		return ivl{arr.Len(), arr.Len()}, true
	case *ssa.UnOp:
		a, ok := rtLoadOf(x).(*ssa.Alloc)
		if !ok || a.Referrers() == nil {
			return ivl{}, false
		}
		var out ivl
		n := 0
		for _, r := range *a.Referrers() {
			switch y := r.(type) {
			case *ssa.Store:
				if y.Addr != ssa.Value(a) {
					return ivl{}, false
				}
				l, ok := ivSliceLen(y.Val, env)
				if !ok {
					return ivl{}, false
				}
				if n == 0 {
					out = l
				} else {
					out = ivHull(out, l)
				}
				n++
			case *ssa.UnOp, *ssa.DebugRef:
			case *ssa.Call:
				sc := y.Call.StaticCallee()
				if sc == nil || sc.Blocks == nil || len(sc.Params) != len(y.Call.Args) {
					return ivl{}, false
				}
				for i, arg := range y.Call.Args {
					if arg != ssa.Value(a) {
						continue
					}
					if refs := sc.Params[i].Referrers(); refs != nil {
						for _, pr := range *refs {
							if u, isLoad := pr.(*ssa.UnOp); !isLoad || u.Op != token.MUL {
								if _, dbg := pr.(*ssa.DebugRef); !dbg {
									return ivl{}, false // the callee may reassign or leak the slice variable
								}
							}
						}
					}
				}
			default:
				return ivl{}, false
			}
		}
		return out, n > 0
	}
	return ivl{}, false
}

// ivDepends: the values v is computed from (operands followed through
// instructions, local variables through their stores).
func ivDepends(v ssa.Value) map[ssa.Value]bool {
	seen := map[ssa.Value]bool{}
	var walk func(v ssa.Value)
	walk = func(v ssa.Value) {
		if v == nil || seen[v] {
			return
		}
		seen[v] = true
		if a, ok := v.(*ssa.Alloc); ok && a.Referrers() != nil {
			for _, r := range *a.Referrers() {
				if st, ok := r.(*ssa.Store); ok && st.Addr == ssa.Value(a) {
					walk(st.Val)
				}
			}
			return
		}
		if in, ok := v.(ssa.Instruction); ok {
			for _, op := range in.Operands(nil) {
				if op != nil {
					walk(*op)
				}
			}
		}
	}
	walk(v)
	return seen
}
