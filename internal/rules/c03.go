package rules

import (
	"fmt"
	"go/token"
	"go/types"
	"strings"

	"golang.org/x/tools/go/ssa"

	"verif/internal/core"
)

// C03 — selection never returns an ineligible target.
func init() {
	Register(&Rule{
		ID: "C03", Section: "3 C03",
		Technique: "interprocedural eligibility dataflow on go/ssa: every backend on a success return derives from a list element guarded by Avail() and positive weight/credit; guard census for sub-cluster selection",
		Meta: core.Meta{
			Level:       "other",
			Explanation: "Decides that in bfe_balance/bal_slb every *BfeBackend returned together with a nil error is the .backend of a BackendRR element that, on the returning path, passed both `backend.Avail()` and `weight > 0` (or `current > 0` in simpleBalance), directly or through a candidate list built only from such elements (followed through phis, append, parameters and callee results); that BalanceGslb.Balance calls SubCluster.balance only on a sub-cluster dominated by the blackhole test on that same value, that randomSelectExclude's two loops use the same three-conjunct predicate (!= exclude, weight >= 0, sType != blackhole), that subClusterBalance's walk skips weight <= 0, that the single-sub-cluster index bal.avail is computed from the list after it was sorted and that list is the one published, and that every writer of BackendRR.weight is in the reviewed set. Not covered: that weights and availability flags themselves hold the right values at run time (health checking: C06), slow-start arithmetic. Robustness: eligibility facts are read in either comparison spelling and polarity, through named booleans (also `a && b` evaluated into a variable) and boolean predicate helpers with their parameters bound to the arguments; elements, lists and backends are followed through results and parameters of unexported helpers; Balance, subClusterBalance, randomSelectExclude and the avail/weight writers are examined together with their private helpers (regions), a helper called from two places being examined once per call path; randomSelectExclude's counting site is found by role (an increment that feeds the modulus of the random draw), its exclude operand is its own parameter by position. Not decided: values that travel through struct fields or closure-captured variables between the guard and the use (reported as not followable).",
			RuleText:    "obligations = every success return of every selection function in bal_slb; each call of SubCluster.balance; predicate agreement instances; writers of BackendRR.weight and BalanceGslb.avail",
		},
		Run: runC03,
		Mutants: []Mutant{
			{Name: "smooth-drops-avail", File: "bfe_balance/bal_slb/bal_rr.go", Old: "		if !backend.Avail() || backendRR.weight <= 0 {\n			continue\n		}\n\n		// select backend with greatest current weight", New: "		if backend == nil || backendRR.weight <= 0 {\n			continue\n		}\n\n		// select backend with greatest current weight", Expect: "eligible-return"},
			{Name: "sticky-weight-ge0", File: "bfe_balance/bal_slb/bal_rr.go", Old: "if backendRR.backend.Avail() && backendRR.weight > 0 {", New: "if backendRR.backend.Avail() && backendRR.weight >= 0 {", Expect: "eligible-return"},
			{Name: "lc-second-loop-drops-filter", File: "bfe_balance/bal_slb/bal_rr.go", Old: "	for _, backendRR := range backs {\n		if !backendRR.backend.Avail() || backendRR.weight <= 0 {\n			continue\n		}\n\n		if ret := compLCWeight", New: "	for _, backendRR := range backs {\n		if ret := compLCWeight", Expect: "eligible-return"},
			{Name: "simple-current-ge0", File: "bfe_balance/bal_slb/bal_rr.go", Old: "if avail && backendRR.current > 0 {", New: "if avail && backendRR.current >= 0 {", Expect: "eligible-return"},
			{Name: "blackhole-test-after-balance", File: "bfe_balance/bal_gslb/bal_gslb.go", Old: "	if current.sType == TypeGslbBlackhole {\n		state.ErrGslbBlackhole.Inc(1)\n		req.ErrCode = bfe_basic.ErrGslbBlackhole\n		return nil, bfe_basic.ErrGslbBlackhole\n	}\n", New: "", Expect: "blackhole-gate"},
			{Name: "exclude-second-loop-weight", File: "bfe_balance/bal_gslb/bal_gslb.go", Old: "		if subCluster != excludeCluster && subCluster.weight >= 0 &&\n			subCluster.sType != TypeGslbBlackhole {\n			if n == 0 {", New: "		if subCluster != excludeCluster &&\n			subCluster.sType != TypeGslbBlackhole {\n			if n == 0 {", Expect: "exclude-predicate"},
			{Name: "subcluster-walk-includes-zero", File: "bfe_balance/bal_gslb/bal_gslb.go", Old: "		if subCluster.weight <= 0 {\n			continue\n		}\n		w -= subCluster.weight", New: "		if subCluster.weight < 0 {\n			continue\n		}\n		w -= subCluster.weight", Expect: "subcluster-walk"},
			{Name: "slowstart-skip-update", File: "bfe_balance/bal_slb/bal_rr.go", Old: "				backendRR.initSlowStart(brr.slowStartTime)\n", New: "				backendRR.initSlowStart(brr.slowStartTime)\n				continue\n", Expect: "slowstart-pairing"},
			{Name: "avail-index-before-sort", File: "bfe_balance/bal_gslb/bal_gslb.go", Old: "	// sort list\n	sort.Sort(SubClusterListSorter{subListNew})\n", New: "", Expect: "avail-index"},
			// behaviour-preserving refactorings: the verdict must not change
			{Name: "silent-eligibility-predicate-helper", File: "bfe_balance/bal_slb/bal_rr.go", Old: "func smoothBalance(backs BackendList) (*backend.BfeBackend, error) {\n\tvar best *BackendRR\n\ttotal, max := 0, 0\n\n\tfor _, backendRR := range backs {\n\t\tbackend := backendRR.backend\n\t\t// skip ineligible backend\n\t\tif !backend.Avail() || backendRR.weight <= 0 {\n\t\t\tcontinue\n\t\t}\n", New: "func rrTakesPart(item *BackendRR) bool {\n\treturn item.backend.Avail() && 0 < item.weight\n}\n\nfunc smoothBalance(backs BackendList) (*backend.BfeBackend, error) {\n\tvar best *BackendRR\n\ttotal, max := 0, 0\n\n\tfor _, backendRR := range backs {\n\t\t// skip ineligible backend\n\t\tif !rrTakesPart(backendRR) {\n\t\t\tcontinue\n\t\t}\n", Silent: true},
			{Name: "silent-updateweight-renamed-store-helper", File: "bfe_balance/bal_slb/backend_rr.go", Old: "func (backRR *BackendRR) UpdateWeight(weight int) {\n\tbackRR.weight = weight * 100\n\n\t// if weight > 0, don't touch backRR.current\n\tif weight <= 0 {\n\t\tbackRR.current = 0\n\t}\n}", New: "func (backRR *BackendRR) storeWeight(scaled int) {\n\tbackRR.weight = scaled\n}\n\nfunc (backRR *BackendRR) UpdateWeight(newWeight int) {\n\tscaled := 100 * newWeight\n\tbackRR.storeWeight(scaled)\n\n\t// if newWeight > 0, don't touch backRR.current\n\tif newWeight <= 0 {\n\t\tbackRR.current = 0\n\t}\n}", Silent: true},
			{Name: "silent-cross-pick-helper", File: "bfe_balance/bal_gslb/bal_gslb.go", Old: "\tbackend, err = current.balance(balAlgor, hashKey)\n\tif err == nil {\n\t\treturn backend, nil\n\t}\n\n\t// fail to get backend from current sub-cluster\n\tstate.ErrBkNoBackend.Inc(1)\n\treq.ErrCode = bfe_basic.ErrBkNoBackend\n\treq.ErrMsg = fmt.Sprintf(\"cluster[%s], sub[%s], err[%s]\", bal.name, current.Name, err.Error())\n\tlog.Logger.Info(\"gslb.Balance():no backend(cross cluster):cluster[%s], sub[%s], err[%s]\",\n\t\tbal.name, current.Name, err.Error())\n\n\treturn backend, bfe_basic.ErrBkCrossRetryBalance\n}\n", New: "\tbackend, err = crossPick(current, balAlgor, hashKey)\n\tif err == nil {\n\t\treturn backend, nil\n\t}\n\n\t// fail to get backend from current sub-cluster\n\tstate.ErrBkNoBackend.Inc(1)\n\treq.ErrCode = bfe_basic.ErrBkNoBackend\n\treq.ErrMsg = fmt.Sprintf(\"cluster[%s], sub[%s], err[%s]\", bal.name, current.Name, err.Error())\n\tlog.Logger.Info(\"gslb.Balance():no backend(cross cluster):cluster[%s], sub[%s], err[%s]\",\n\t\tbal.name, current.Name, err.Error())\n\n\treturn backend, bfe_basic.ErrBkCrossRetryBalance\n}\n\n// crossPick balances inside the sub cluster chosen for the cross retry.\nfunc crossPick(target *SubCluster, algor int, key []byte) (*bal_backend.BfeBackend, error) {\n\treturn target.balance(algor, key)\n}\n", Silent: true},
			{Name: "silent-smooth-logging-defensive", File: "bfe_balance/bal_slb/bal_rr.go", Old: "\tif best == nil {\n\t\tif bfe_debug.DebugBal {\n\t\t\tlog.Logger.Debug(\"rr_bal:reset backend weight\")\n\t\t}\n\t\treturn nil, fmt.Errorf(\"rr_bal:all backend is down\")\n\t}\n\n\t// update current weight for chosen backend\n", New: "\tif best == nil {\n\t\tif bfe_debug.DebugBal {\n\t\t\tlog.Logger.Debug(\"rr_bal:reset backend weight\")\n\t\t}\n\t\treturn nil, fmt.Errorf(\"rr_bal:all backend is down\")\n\t}\n\n\t// defensive: credits of eligible backends always sum up to a positive value\n\tif total < 0 {\n\t\tif bfe_debug.DebugBal {\n\t\t\tlog.Logger.Debug(\"rr_bal:negative credit sum[%d], chosen[%s]\", total, best.backend.Name)\n\t\t}\n\t}\n\n\t// update current weight for chosen backend\n", Silent: true},
			{Name: "silent-reload-weights-helper", File: "bfe_balance/bal_gslb/bal_gslb.go", Old: "\t// calc total_weight\n\ttotalWeight := 0\n\tavailableNum := 0\n\tlastAvailIndex := 0\n\n\tfor index, sub := range subListNew {\n\t\tif sub.weight > 0 {\n\t\t\ttotalWeight += sub.weight\n\t\t\tavailableNum += 1\n\t\t\tlastAvailIndex = index\n\t\t}\n\t}\n\n\tif totalWeight == 0 {\n\t\t// should never be here, as ClusterCheck return true\n\t\tlog.Logger.Critical(\"gslb total weight = 0 [%s]\", bal.name)\n\t\treturn fmt.Errorf(\"gslb total weight = 0 [%s]\", bal.name)\n\t}\n\n\tbal.totalWeight = totalWeight\n\n\tif availableNum == 1 {\n\t\tbal.single = true\n\t\tbal.avail = lastAvailIndex\n\t} else {\n\t\tbal.single = false\n\t}\n\n\t// update gslb.subClusters\n\tbal.subClusters = subListNew\n\n\treturn nil\n}\n", New: "\t// calc total_weight\n\ttotalWeight, availableNum, lastAvailIndex := sumPositive(subListNew)\n\n\tif totalWeight == 0 {\n\t\t// should never be here, as ClusterCheck return true\n\t\tlog.Logger.Critical(\"gslb total weight = 0 [%s]\", bal.name)\n\t\treturn fmt.Errorf(\"gslb total weight = 0 [%s]\", bal.name)\n\t}\n\n\tbal.totalWeight = totalWeight\n\n\tif availableNum == 1 {\n\t\tbal.single = true\n\t\tbal.avail = lastAvailIndex\n\t} else {\n\t\tbal.single = false\n\t}\n\n\t// update gslb.subClusters\n\tbal.subClusters = subListNew\n\n\treturn nil\n}\n\n// sumPositive returns the weight sum and the number of sub clusters with\n// positive weight, and the index of the last of them.\nfunc sumPositive(list SubClusterList) (total int, num int, last int) {\n\tfor index, item := range list {\n\t\tif item.weight > 0 {\n\t\t\ttotal += item.weight\n\t\t\tnum++\n\t\t\tlast = index\n\t\t}\n\t}\n\treturn total, num, last\n}\n", Silent: true},
			{Name: "silent-sticky-debug-logging", File: "bfe_balance/bal_slb/bal_rr.go", Old: "\tvalue := GetHash(key, uint(totalWeight))\n", New: "\tvalue := GetHash(key, uint(totalWeight))\n\tif bfe_debug.DebugBal {\n\t\tlog.Logger.Debug(\"rr_bal:sticky residue[%d] of [%d]\", value, totalWeight)\n\t}\n", Silent: true},
			{Name: "silent-sticky-walk-index-loop", File: "bfe_balance/bal_slb/bal_rr.go", Old: "\tfor _, backendRR := range candidates {\n\t\tvalue -= backendRR.weight\n\t\tif value < 0 {\n\t\t\treturn backendRR.backend, nil\n\t\t}\n\t}\n", New: "\tfor i := 0; i < len(candidates); i++ {\n\t\tvalue -= candidates[i].weight\n\t\tif value >= 0 {\n\t\t\tcontinue\n\t\t}\n\t\treturn candidates[i].backend, nil\n\t}\n", Silent: true},
			{Name: "silent-sticky-predicate-helper-renamed-key", File: "bfe_balance/bal_slb/bal_rr.go", Old: "func (brr *BalanceRR) stickyBalance(key []byte) (*backend.BfeBackend, error) {\n\tcandidates := make(BackendList, 0, brr.Len())\n\ttotalWeight := 0\n\n\tbrr.Lock()\n\tdefer brr.Unlock()\n\n\t// select available candidates\n\tbrr.ensureSortedUnlocked()\n\tfor _, backendRR := range brr.backends {\n\t\tif backendRR.backend.Avail() && backendRR.weight > 0 {\n", New: "func stickyUsable(item *BackendRR) bool {\n\tif !item.backend.Avail() {\n\t\treturn false\n\t}\n\treturn item.weight > 0\n}\n\nfunc (brr *BalanceRR) stickyBalance(hashKey []byte) (*backend.BfeBackend, error) {\n\tkey := hashKey\n\tcandidates := make(BackendList, 0, brr.Len())\n\ttotalWeight := 0\n\n\tbrr.Lock()\n\tdefer brr.Unlock()\n\n\t// select available candidates\n\tbrr.ensureSortedUnlocked()\n\tfor _, backendRR := range brr.backends {\n\t\tif stickyUsable(backendRR) {\n", Silent: true},
			{Name: "silent-blackhole-named-mirrored", File: "bfe_balance/bal_gslb/bal_gslb.go", Old: "\t// blackhole\n\tif current.sType == TypeGslbBlackhole {\n", New: "\t// blackhole\n\tblackholed := TypeGslbBlackhole == current.sType\n\tif blackholed {\n", Silent: true},
			{Name: "silent-subcluster-walk-nested-positive", File: "bfe_balance/bal_gslb/bal_gslb.go", Old: "\t\tif subCluster.weight <= 0 {\n\t\t\tcontinue\n\t\t}\n\t\tw -= subCluster.weight\n\t\t// got it\n\t\tif w < 0 {\n\t\t\tbreak\n\t\t}\n", New: "\t\tif 0 < subCluster.weight {\n\t\t\tw -= subCluster.weight\n\t\t\t// got it\n\t\t\tif w < 0 {\n\t\t\t\tbreak\n\t\t\t}\n\t\t}\n", Silent: true},
			{Name: "silent-exclude-count-range-early-continue", File: "bfe_balance/bal_gslb/bal_gslb.go", Old: "\tfor i = 0; i < len(bal.subClusters); i++ {\n\t\tsubCluster = bal.subClusters[i]\n\t\tif subCluster != excludeCluster && subCluster.weight >= 0 &&\n\t\t\tsubCluster.sType != TypeGslbBlackhole {\n\t\t\tavailable++\n\t\t}\n\t}\n", New: "\tfor _, sc := range bal.subClusters {\n\t\tsubCluster = sc\n\t\tif sc == excludeCluster {\n\t\t\tcontinue\n\t\t}\n\t\tif sc.weight < 0 || TypeGslbBlackhole == sc.sType {\n\t\t\tcontinue\n\t\t}\n\t\tavailable += 1\n\t}\n", Silent: true},
			{Name: "silent-simple-named-conjunction", File: "bfe_balance/bal_slb/bal_rr.go", Old: "\t\tavail := backend.Avail()\n\t\tif avail && backendRR.current > 0 {\n\t\t\t// find one available backend\n\t\t\tbreak\n\t\t}\n", New: "\t\tavail := backend.Avail()\n\t\tusable := avail && backendRR.current > 0\n\t\tif usable {\n\t\t\t// find one available backend\n\t\t\tbreak\n\t\t}\n", Silent: true},
			{Name: "silent-balance-defensive-check", File: "bfe_balance/bal_gslb/bal_gslb.go", Old: "\t\treturn nil, bfe_basic.ErrGslbBlackhole\n\t}\n", New: "\t\treturn nil, bfe_basic.ErrGslbBlackhole\n\t}\n\tif current.backends == nil {\n\t\t// defensive: newSubCluster always creates the backend list\n\t\tlog.Logger.Warn(\"sub cluster [%s] has no backend list\", current.Name)\n\t\treq.ErrCode = bfe_basic.ErrBkNoBackend\n\t\treturn nil, bfe_basic.ErrBkNoBackend\n\t}\n", Silent: true},
			{Name: "silent-tie-predicate-helper", File: "bfe_balance/bal_slb/bal_rr.go", Old: "\t\tif ret := compLCWeight(best, backendRR); ret == 0 {\n\t\t\tcandidates = append(candidates, backendRR)\n\t\t}\n\t}\n\n\treturn candidates, nil\n}\n", New: "\t\tif lcTied(best, backendRR) {\n\t\t\tcandidates = append(candidates, backendRR)\n\t\t}\n\t}\n\n\treturn candidates, nil\n}\n\nfunc lcTied(min, other *BackendRR) bool {\n\treturn compLCWeight(min, other) == 0\n}\n", Silent: true},
			{Name: "silent-single-inverted-else-logging", File: "bfe_balance/bal_slb/bal_rr.go", Old: "\tif singleBackend {\n\t\tcandidates = append(candidates, best)\n\t\treturn candidates, nil\n\t}\n", New: "\tif !singleBackend {\n\t\t// several backends tie: collect them below\n\t} else {\n\t\tif bfe_debug.DebugBal {\n\t\t\tlog.Logger.Debug(\"lc_bal:single backend[%s]\", best.backend.Name)\n\t\t}\n\t\tcandidates = append(candidates, best)\n\t\treturn candidates, nil\n\t}\n", Silent: true},
		},
	})
}

type eligCtx struct {
	c        *core.Ctx
	memoList map[ssa.Value]int // 0 unknown, 1 in progress/true, 2 false
	fnRet    map[*ssa.Function]int
	fnElem   map[string]int
	why      string
}

func isNilConst(v ssa.Value) bool {
	k, ok := v.(*ssa.Const)
	return ok && k.Value == nil
}

// fieldLoadOf: v is a load of field `name` of x; returns x.
func fieldLoadOf(v ssa.Value, name string) ssa.Value {
	v = core.StripConv(v)
	if u, ok := v.(*ssa.UnOp); ok && u.Op == token.MUL {
		if fa, ok := u.X.(*ssa.FieldAddr); ok && core.FieldObj(fa.X, fa.Field) != nil && core.FieldObj(fa.X, fa.Field).Name() == name {
			return fa.X
		}
	}
	if f, ok := v.(*ssa.Field); ok && core.FieldObj(f.X, f.Field).Name() == name {
		return f.X
	}
	return nil
}

// guardsOnEdge: guards established at the end of pred when control moves to succ.
func guardsOnEdge(pred, succ *ssa.BasicBlock) []core.Guard {
	gs := core.GuardsAt(pred)
	if ifi, ok := pred.Instrs[len(pred.Instrs)-1].(*ssa.If); ok && pred.Succs[0] != pred.Succs[1] {
		pol := pred.Succs[0] == succ
		s := core.Render(ifi.Cond)
		if !pol {
			s = "!" + s
		}
		gs = append(gs, core.Guard{Cond: ifi.Cond, Pol: pol, Str: s})
	}
	return gs
}

// eligibleByGuards: the guards prove Avail(e.backend) and e.weight>0 (or
// e.current>0). Comparisons are accepted in either spelling and polarity;
// named booleans and boolean predicate helpers (`eligible(e)`) are expanded
// into the conditions they imply.
func eligibleByGuards(e ssa.Value, gs []core.Guard) (avail, positive bool) {
	return balEligible(e, balExpand(gs))
}

// sameElem: two SSA values denote the same list element (identical value or
// loads of the same address expression).
func sameElem(a, b ssa.Value) bool {
	if a == b {
		return true
	}
	return core.Render(a) == core.Render(b) && !strings.Contains(core.Render(a), "…")
}

func (e *eligCtx) elem(v ssa.Value, gs []core.Guard, seen map[ssa.Value]bool) bool {
	v = core.StripConv(v)
	if isNilConst(v) {
		return true
	}
	if seen[v] {
		return true
	}
	if a, p := eligibleByGuards(v, gs); a && p {
		return true
	}
	switch x := v.(type) {
	case *ssa.Phi:
		seen[x] = true
		for i, ed := range x.Edges {
			if !e.elem(ed, guardsOnEdge(x.Block().Preds[i], x.Block()), seen) {
				return false
			}
		}
		return true
	case *ssa.UnOp:
		if x.Op == token.MUL {
			if ia, ok := x.X.(*ssa.IndexAddr); ok {
				if e.list(ia.X, map[ssa.Value]bool{}) {
					return true
				}
				e.why = "element of list " + core.Render(ia.X) + " which is not restricted to eligible backends, and no Avail()/weight>0 guard on the element reaches this point"
				return false
			}
		}
	case *ssa.Call, *ssa.Extract:
		// the element is the result of a helper: every value the helper can return there is eligible
		if _, h, idx := balCallee(x); h != nil {
			return e.fnReturnsEligibleElem(h, idx)
		}
	case *ssa.Parameter:
		// parameter of an unexported helper: every call site passes an element that is eligible there
		fn := x.Parent()
		idx := balParamIndex(x)
		if fn.Parent() == nil && fn.Object() != nil && !fn.Object().Exported() && idx >= 0 {
			sites := balSites(e.c.P, fn)
			ok := len(sites) > 0
			seen[x] = true
			for _, s := range sites {
				if idx >= len(s.Common().Args) || !e.elem(s.Common().Args[idx], core.GuardsAt(s.Block()), seen) {
					ok = false
					if e.why == "" {
						e.why = "caller " + core.FuncKey(s.Parent()) + " passes an element that is not known to be eligible as " + x.Name()
					}
					break
				}
			}
			if ok {
				return true
			}
			return false
		}
	}
	if e.why == "" {
		e.why = "value " + core.Render(v) + " is not a guarded list element"
	}
	return false
}

// fnReturnsEligibleElem: every value fn returns as result #idx (on returns
// that do not carry a non-nil error) is nil or an eligible element.
func (e *eligCtx) fnReturnsEligibleElem(fn *ssa.Function, idx int) bool {
	if e.fnElem == nil {
		e.fnElem = map[string]int{}
	}
	key := fmt.Sprintf("%p#%d", fn, idx)
	if s := e.fnElem[key]; s != 0 {
		return s == 1
	}
	e.fnElem[key] = 1
	ok := true
	for _, r := range core.Returns(fn) {
		rv := core.RetVals(r)
		if idx >= len(rv) {
			ok = false
			break
		}
		last := rv[len(rv)-1]
		if len(rv) > 1 && types.Identical(last.Type(), types.Universe.Lookup("error").Type()) && !isNilConst(last) && errKnownNonNil(last, r.Block()) {
			continue // error return
		}
		gs := core.GuardsAt(r.Block())
		if !e.elem(rv[idx], gs, map[ssa.Value]bool{}) {
			ok = false
		}
	}
	if !ok {
		e.fnElem[key] = 2
	}
	return ok
}

// list: every element of the slice value is an eligible BackendRR.
func (e *eligCtx) list(v ssa.Value, seen map[ssa.Value]bool) bool {
	v = core.StripConv(v)
	if isNilConst(v) || seen[v] {
		return true
	}
	seen[v] = true
	switch x := v.(type) {
	case *ssa.MakeSlice:
		return true
	case *ssa.Slice:
		// append's variadic argument: new [n]T{...}[:]
		if al, ok := x.X.(*ssa.Alloc); ok {
			ok2 := true
			for _, r := range *al.Referrers() {
				ia, isIA := r.(*ssa.IndexAddr)
				if !isIA {
					continue
				}
				for _, rr := range *ia.Referrers() {
					if st, isSt := rr.(*ssa.Store); isSt && st.Addr == ia {
						if !e.elem(st.Val, core.GuardsAt(st.Block()), map[ssa.Value]bool{}) {
							ok2 = false
						}
					}
				}
			}
			return ok2
		}
		return e.list(x.X, seen)
	case *ssa.Phi:
		for _, ed := range x.Edges {
			if !e.list(ed, seen) {
				return false
			}
		}
		return true
	case *ssa.Call:
		if b, ok := x.Call.Value.(*ssa.Builtin); ok && b.Name() == "append" {
			return e.list(x.Call.Args[0], seen) && e.list(x.Call.Args[1], seen)
		}
		if _, h, idx := balCallee(x); h != nil {
			return e.fnReturnsEligibleList(h, idx)
		}
	case *ssa.Extract:
		if _, h, idx := balCallee(x); h != nil {
			return e.fnReturnsEligibleList(h, idx)
		}
	case *ssa.Parameter:
		fn := x.Parent()
		idx := balParamIndex(x)
		sites := 0
		for _, ci := range balSites(e.c.P, fn) {
			sites++
			if idx < 0 || idx >= len(ci.Common().Args) || !e.list(ci.Common().Args[idx], map[ssa.Value]bool{}) {
				e.why = "caller " + core.FuncKey(ci.Parent()) + " passes " + core.Render(ci.Common().Args[idx]) + " as " + x.Name() + ", a list not restricted to eligible backends"
				return false
			}
		}
		if sites == 0 || (fn.Object() != nil && fn.Object().Exported()) {
			e.why = "parameter " + x.Name() + " of " + core.FuncKey(fn) + " has callers that cannot be enumerated"
			return false
		}
		return true
	}
	return false
}

func (e *eligCtx) fnReturnsEligibleList(fn *ssa.Function, idx int) bool {
	if e.fnRet == nil {
		e.fnRet = map[*ssa.Function]int{}
	}
	key := fn
	if s := e.fnRet[key]; s != 0 {
		return s == 1
	}
	e.fnRet[key] = 1
	ok := true
	for _, r := range core.Returns(fn) {
		rv := core.RetVals(r)
		last := rv[len(rv)-1]
		if types.Identical(last.Type(), types.Universe.Lookup("error").Type()) && !isNilConst(last) {
			if _, isExtract := last.(*ssa.Extract); !isExtract {
				continue // error return
			}
		}
		if idx >= len(rv) || !e.list(rv[idx], map[ssa.Value]bool{}) {
			ok = false
		}
	}
	if !ok {
		e.fnRet[key] = 2
	}
	return ok
}

// errNilGuarded: the facts establish that the error result of the call that
// produced v (v = result #0 of a two-result call) is nil.
func errNilGuarded(v ssa.Value, facts []balFact) bool {
	ex, ok := core.StripConv(v).(*ssa.Extract)
	if !ok || ex.Index != 0 {
		return false
	}
	for _, f := range facts {
		if x, isNil, ok := balNilTest(f); ok && isNil {
			if ex1, isEx := x.(*ssa.Extract); isEx && ex1.Tuple == ex.Tuple && ex1.Index == 1 {
				return true
			}
		}
	}
	return false
}

// isSelectionFunc: fn has the signature (... ) (*backend.BfeBackend, error).
func isSelectionFunc(fn *ssa.Function) bool {
	res := fn.Signature.Results()
	return res.Len() == 2 && strings.HasSuffix(core.TypeStr(res.At(0).Type()), "backend.BfeBackend") && types.Identical(res.At(1).Type(), types.Universe.Lookup("error").Type())
}

// backendOK: the backend value v, returned with a nil error under guards gs,
// is the .backend of an eligible list element — directly, on every edge of a
// phi, as the result of another selection function of bal_slb under err ==
// nil (that function's own returns are obligations of this rule), or as the
// result of a helper whose every return is such a backend.
func (e *eligCtx) backendOK(v ssa.Value, gs []core.Guard, depth int) bool {
	const slb = "bfe_balance/bal_slb"
	v = core.StripConv(v)
	if x := fieldLoadOf(v, "backend"); x != nil {
		// guards: those at the return plus those at the block where the field was loaded
		if ins, ok := v.(ssa.Instruction); ok {
			gs = append(append([]core.Guard(nil), gs...), core.GuardsAt(ins.Block())...)
		}
		return e.elem(x, gs, map[ssa.Value]bool{})
	}
	if depth > 3 {
		e.why = "value " + core.Render(v) + " could not be followed"
		return false
	}
	switch x := v.(type) {
	case *ssa.Phi:
		for i, ed := range x.Edges {
			if isNilConst(ed) {
				e.why = "a nil backend can be returned with a nil error"
				return false
			}
			if !e.backendOK(ed, guardsOnEdge(x.Block().Preds[i], x.Block()), depth+1) {
				return false
			}
		}
		return true
	case *ssa.Extract, *ssa.Call:
		_, h, idx := balCallee(x)
		if h == nil || core.FuncPkgRel(h) != slb {
			break
		}
		if isSelectionFunc(h) && idx == 0 {
			if errNilGuarded(v, balExpand(gs)) {
				return true
			}
			e.why = "result of " + core.FuncKey(h) + " is handed out without err == nil having been tested"
			return false
		}
		if h.Signature.Results().Len() == 1 {
			nonNil := false
			for _, f := range balExpand(gs) {
				if y, isNil, ok := balNilTest(f); ok && !isNil && y == v {
					nonNil = true
				}
			}
			for _, r := range core.Returns(h) {
				rv := core.RetVals(r)
				if isNilConst(rv[0]) {
					if nonNil {
						continue
					}
					e.why = core.FuncKey(h) + " can return nil and the caller does not test it"
					return false
				}
				if !e.backendOK(rv[0], core.GuardsAt(r.Block()), depth+1) {
					return false
				}
			}
			return true
		}
	}
	e.why = "returned backend " + core.Render(v) + " is not the .backend of a BackendRR list element; eligibility cannot be established"
	return false
}

func runC03(c *core.Ctx) {
	defer balAcquire(c.P)()
	const slb = "bfe_balance/bal_slb"
	const gslb = "bfe_balance/bal_gslb"
	if c.P.Pkg(slb) == nil || c.P.Pkg(gslb) == nil {
		c.Missing(slb + " / " + gslb)
		return
	}
	e := &eligCtx{c: c, memoList: map[ssa.Value]int{}, fnRet: map[*ssa.Function]int{}}
	// ---- every selection function of bal_slb -----------------------------
	nsel := 0
	for _, fn := range c.P.SrcFuncs(slb) {
		if !isSelectionFunc(fn) {
			continue
		}
		nsel++
		c.Analysed(core.FuncKey(fn))
		ord := 0
		for _, r := range core.Returns(fn) {
			rv := core.RetVals(r)
			r0, r1 := rv[0], rv[1]
			if isNilConst(r0) && !isNilConst(r1) {
				continue // no backend handed out
			}
			if !isNilConst(r1) {
				// delegated: return f(...) of another selection function
				if ex, ok := r1.(*ssa.Extract); ok {
					if ex0, ok := r0.(*ssa.Extract); ok && ex0.Tuple == ex.Tuple {
						if call, ok := ex.Tuple.(*ssa.Call); ok {
							if callee := call.Call.StaticCallee(); callee != nil && core.FuncPkgRel(callee) == slb {
								continue
							}
						}
						ord++
						c.Check("eligible-return", fmt.Sprintf("%s:return#%d", core.FuncKey(fn), ord), r.Pos(), false, "result delegated to a callee outside bal_slb: "+core.Render(r0))
						continue
					}
				}
				if errKnownNonNil(r1, r.Block()) {
					continue // error return: callers discard the backend
				}
			}
			ord++
			key := fmt.Sprintf("%s:return#%d", core.FuncKey(fn), ord)
			if isNilConst(r0) {
				c.Check("eligible-return", key, r.Pos(), false, "returns (nil, nil): no backend and no error")
				continue
			}
			e.why = ""
			ok := e.backendOK(r0, core.GuardsAt(r.Block()), 0)
			c.Check("eligible-return", key, r.Pos(), ok, "a backend is returned with a nil error without having passed Avail() and weight>0 on this path: "+e.why)
		}
	}
	c.Min("eligible-return", 6)
	if nsel < 8 {
		c.Check("instances", "selection-functions", token.NoPos, false, fmt.Sprintf("only %d selection functions found in bal_slb (8 reviewed)", nsel))
	}

	// ---- gslb: blackhole gate on every SubCluster.balance -----------------
	if fn := c.P.Func(gslb, "BalanceGslb.Balance"); fn == nil {
		c.Missing(gslb + ".BalanceGslb.Balance")
	} else {
		c.Analysed(core.FuncKey(fn))
		n := 0
		for _, cc := range balCtxCalls(c.P, fn, balCallMatcher(gslb+".SubCluster.balance")) {
			n++
			ok := cc.Frames(cc.Call.Common().Args[0], func(v ssa.Value, b *ssa.BasicBlock) bool {
				return subNotBlackhole(c, v, b, map[ssa.Value]bool{})
			})
			c.Check("blackhole-gate", fmt.Sprintf("BalanceGslb.Balance:balance#%d", n), cc.Call.Pos(), ok,
				"SubCluster.balance is called on "+core.Render(cc.Arg(0))+" without a dominating sType != blackhole test on that sub-cluster (directly, or through randomSelectExclude's predicate)")
		}
		c.Min("blackhole-gate", 2)
		// success returns hand out the result of SubCluster.balance under err == nil
		for i, r := range core.Returns(fn) {
			rv := core.RetVals(r)
			if !isNilConst(rv[1]) || isNilConst(rv[0]) {
				if isNilConst(rv[1]) {
					c.Check("gslb-return", fmt.Sprintf("BalanceGslb.Balance:return#%d", i), r.Pos(), false, "returns (nil, nil)")
				}
				continue
			}
			ok := balanceResult(c.P, fn, rv[0], balFactsAt(r.Block()), 0)
			c.Check("gslb-return", fmt.Sprintf("BalanceGslb.Balance:return#%d", i), r.Pos(), ok, "success return does not hand out the result of SubCluster.balance under err == nil: "+core.Render(rv[0]))
		}
		c.Min("gslb-return", 2)
	}
	// SubCluster.balance delegates to BalanceRR.Balance
	if fn := c.P.Func(gslb, "SubCluster.balance"); fn != nil {
		c.Analysed(core.FuncKey(fn))
		for i, r := range core.Returns(fn) {
			rv := core.RetVals(r)
			if isNilConst(rv[1]) {
				c.Check("gslb-return", fmt.Sprintf("SubCluster.balance:return#%d", i), r.Pos(), false, "SubCluster.balance returns a nil error without delegating to BalanceRR.Balance")
				continue
			}
			if ex, ok := rv[1].(*ssa.Extract); ok {
				call, _ := ex.Tuple.(*ssa.Call)
				c.Check("gslb-return", fmt.Sprintf("SubCluster.balance:return#%d", i), r.Pos(), call != nil && core.CallIs(&call.Call, slb+".BalanceRR.Balance"), "SubCluster.balance must delegate to BalanceRR.Balance")
			}
		}
	} else {
		c.Missing(gslb + ".SubCluster.balance")
	}

	checkExcludePredicate(c, "exclude-predicate")

	// ---- subClusterBalance walk skips weight <= 0 --------------------------
	if fn := c.P.Func(gslb, "BalanceGslb.subClusterBalance"); fn == nil {
		c.Missing(gslb + ".BalanceGslb.subClusterBalance")
	} else {
		c.Analysed(core.FuncKey(fn))
		n := 0
		for _, in := range balRegionInstrs(c.P, fn) {
			b, ok := in.(*ssa.BinOp)
			if !ok || b.Op != token.SUB {
				continue
			}
			x := fieldLoadOf(b.Y, "weight")
			if x == nil {
				continue
			}
			n++
			_, pos := balEligibleAt(c.P, x, in.Block())
			c.Check("subcluster-walk", "subClusterBalance:subtract", in.Pos(), pos, "the cumulative walk subtracts the weight of a sub-cluster that was not tested for weight > 0; zero/negative-weight sub-clusters can be selected")
		}
		if n == 0 {
			c.Check("subcluster-walk", "subClusterBalance:subtract", fn.Pos(), false, "no cumulative weight walk found")
		}
		// single mode indexes with bal.avail: a success return of the element at an index read from a
		// field of the balancer must be subClusters[avail] under the single flag
		scF, _ := c.P.Obj(gslb, "BalanceGslb.subClusters").(*types.Var)
		avF, _ := c.P.Obj(gslb, "BalanceGslb.avail").(*types.Var)
		sgF, _ := c.P.Obj(gslb, "BalanceGslb.single").(*types.Var)
		for _, g := range balRegion(c.P, fn) {
			for _, r := range core.Returns(g) {
				rv := core.RetVals(r)
				if len(rv) != 2 || !isNilConst(rv[1]) {
					continue
				}
				list, index := balElemOfList(rv[0])
				if list == nil || balLoadOfField(list, scF) == nil {
					continue
				}
				iu, isLoad := core.StripConv(index).(*ssa.UnOp)
				if !isLoad || iu.Op != token.MUL {
					continue
				}
				if _, isFA := iu.X.(*ssa.FieldAddr); !isFA {
					continue // an index computed by the walk, not a stored one
				}
				okIdx := balLoadOfField(index, avF) != nil
				okFlag := false
				for _, f := range balFactsCtx(c.P, r.Block()) {
					if f.Pol && balLoadOfField(f.Cond, sgF) != nil {
						okFlag = true
					}
				}
				c.Check("subcluster-walk", "subClusterBalance:single", r.Pos(), okIdx && okFlag,
					"single-sub-cluster shortcut must return bal.subClusters[bal.avail] under bal.single; got "+core.Render(rv[0]))
			}
		}
	}

	// ---- bal.avail is an index into the sorted, published list ---------------
	if fld, ok := c.P.Obj(gslb, "BalanceGslb.avail").(*types.Var); !ok {
		c.Missing(gslb + ".BalanceGslb.avail")
	} else {
		for _, st := range core.FieldStores(c.P.SrcFuncs(gslb), fld) {
			fn := st.Fn
			c.Analysed(core.FuncKey(fn))
			// the stored index must come from a loop over a list L under weight>0 of the element; sort.Sort(L) must dominate the loop
			dominated, positive, why := balIndexOfSorted(c.P, st.Store.Val, balFactsAt(st.Store.Block()))
			c.Check("avail-index", availKey(c.P, fn), st.Store.Pos(), dominated && positive,
				fmt.Sprintf("bal.avail must be the index of a weight>0 sub-cluster in the list after sort.Sort (sort dominates the store: %v, index taken under weight>0: %v); otherwise single-sub-cluster mode selects the wrong (possibly zero-weight or blackhole) sub-cluster. %s", dominated, positive, why))
		}
		c.Min("avail-index", 2)
	}

	// ---- slow start: the provisional weight=1 of initSlowStart is corrected ----
	// initSlowStart sets weight/current to 1 unconditionally (also for a
	// configured weight of 0); updateSlowStart recomputes the weight from the
	// configured final weight. Every initSlowStart must therefore be followed
	// by updateSlowStart on the same element before the lock is released or
	// the next element is visited, else a weight-0 backend is selectable.
	{
		n := 0
		isUpdate := func(recv ssa.Value) func(x ssa.Instruction) bool {
			return func(x ssa.Instruction) bool {
				cc, ok := x.(ssa.CallInstruction)
				if !ok {
					return false
				}
				if _, isGo := x.(*ssa.Go); isGo {
					return false
				}
				if core.CallIs(cc.Common(), slb+".BackendRR.updateSlowStart") {
					return sameElem(cc.Common().Args[0], recv)
				}
				// a helper that is handed the element and updates it on every path
				h := cc.Common().StaticCallee()
				if h == nil || h.Blocks == nil || core.FuncPkgRel(h) != slb {
					return false
				}
				for i, a := range cc.Common().Args {
					if !sameElem(a, recv) || i >= len(h.Params) {
						continue
					}
					pa := h.Params[i]
					if core.AlwaysPasses(h, func(y ssa.Instruction) bool {
						c2, ok := y.(ssa.CallInstruction)
						return ok && core.CallIs(c2.Common(), slb+".BackendRR.updateSlowStart") && balAsParam(c2.Common().Args[0]) == pa
					}, 1) {
						return true
					}
				}
				return false
			}
		}
		for _, fn := range c.P.SrcFuncs(slb) {
			for _, ci := range core.Calls(fn, slb+".BackendRR.initSlowStart") {
				n++
				c.Analysed(core.FuncKey(fn))
				call := ci.(ssa.Instruction)
				recv := ci.Common().Args[0]
				bad := core.ReachAvoiding(fn, call, isUpdate(recv), func(x ssa.Instruction) bool {
					if core.IsReturn(x) {
						return true
					}
					b := x.Block()
					return b != call.Block() && b.Dominates(call.Block()) && b.Instrs[0] == x
				})
				ok := bad == nil
				if !ok && balAsParam(recv) != nil {
					// the call sits in a private helper that is handed the element: the update may follow at the helper's call site
					if s := balSingleSite(c.P, fn); s != nil {
						if i := balParamIndex(balAsParam(recv)); i >= 0 && i < len(s.Common().Args) {
							si := s.(ssa.Instruction)
							ok = core.ReachAvoiding(s.Parent(), si, isUpdate(s.Common().Args[i]), func(x ssa.Instruction) bool {
								if core.IsReturn(x) {
									return true
								}
								b := x.Block()
								return b != si.Block() && b.Dominates(si.Block()) && b.Instrs[0] == x
							}) == nil
						}
					}
				}
				c.Check("slowstart-pairing", core.FuncKey(fn), call.Pos(), ok,
					"initSlowStart (which sets weight=1 unconditionally) is not followed by updateSlowStart on the same backend before the next element/return; a backend configured with weight 0 stays selectable")
			}
		}
		c.Min("slowstart-pairing", 1)
		_ = n
	}

	// ---- writers of BackendRR.weight -----------------------------------------
	if fld, ok := c.P.Obj(slb, "BackendRR.weight").(*types.Var); ok {
		var roots []*ssa.Function
		for _, n := range []string{"BackendRR.Init", "BackendRR.UpdateWeight", "BackendRR.initSlowStart", "BackendRR.updateSlowStart"} {
			roots = append(roots, c.P.Func(slb, n))
		}
		for _, st := range core.FieldStores(c.P.SrcFuncs(""), fld) {
			k := core.FuncKey(st.Fn)
			c.Check("weight-writers", k, st.Store.Pos(), balInAnyRegion(c.P, st.Fn, roots) != nil, "BackendRR.weight (the eligibility input) is written outside the reviewed writers Init/UpdateWeight/initSlowStart/updateSlowStart (and their private helpers)")
		}
		c.Min("weight-writers", 3)
	} else {
		c.Missing(slb + ".BackendRR.weight")
	}
}

// availKey names the function a store to bal.avail belongs to: the exported
// anchor (Init / Reload) when the store sits in one of its private helpers.
func availKey(p *core.Prog, fn *ssa.Function) string {
	const gslb = "bfe_balance/bal_gslb"
	for _, n := range []string{"BalanceGslb.Init", "BalanceGslb.Reload"} {
		if r := p.Func(gslb, n); r != nil && r != fn && balInRegion(p, r, fn) {
			return core.FuncKey(r)
		}
	}
	return core.FuncKey(fn)
}

// balanceResult: v (a value of root's region) is result #0 of
// SubCluster.balance under a fact that its error result is nil; a private
// helper of root whose every success return is such a value counts too.
func balanceResult(p *core.Prog, root *ssa.Function, v ssa.Value, facts []balFact, depth int) bool {
	const gslb = "bfe_balance/bal_gslb"
	ex, isEx := core.StripConv(v).(*ssa.Extract)
	if !isEx || ex.Index != 0 {
		return false
	}
	call, isCall := ex.Tuple.(*ssa.Call)
	if !isCall || !errNilGuarded(v, facts) {
		return false
	}
	if core.CallIs(&call.Call, gslb+".SubCluster.balance") {
		return true
	}
	h := call.Call.StaticCallee()
	if h == nil || depth > 2 || !balInRegion(p, root, h) {
		return false
	}
	n := 0
	for _, r := range core.Returns(h) {
		rv := core.RetVals(r)
		if len(rv) != 2 {
			return false
		}
		if !isNilConst(rv[1]) {
			// `return sub.balance(...)`: both results of one call handed on; the caller tests err == nil
			if e0, ok0 := core.StripConv(rv[0]).(*ssa.Extract); ok0 && e0.Index == 0 {
				if e1, ok1 := core.StripConv(rv[1]).(*ssa.Extract); ok1 && e1.Index == 1 && e1.Tuple == e0.Tuple {
					if k, isK := e0.Tuple.(*ssa.Call); isK && core.CallIs(&k.Call, gslb+".SubCluster.balance") {
						n++
					}
				}
			}
			continue // the caller tests err == nil
		}
		n++
		if !balanceResult(p, root, rv[0], balFactsAt(r.Block()), depth+1) {
			return false
		}
	}
	return n > 0
}

func isZero(v ssa.Value) bool {
	k, ok := v.(*ssa.Const)
	return ok && k.Value != nil && k.Value.ExactString() == "0"
}

func isConstInt(v ssa.Value) bool {
	k, ok := v.(*ssa.Const)
	return ok && k.Value != nil
}

// subNotBlackhole: the sub-cluster value is known not to be a blackhole at block b.
func subNotBlackhole(c *core.Ctx, sub ssa.Value, b *ssa.BasicBlock, seen map[ssa.Value]bool) bool {
	sub = core.StripConv(sub)
	if seen[sub] {
		return true
	}
	seen[sub] = true
	bh := balConstOf(c.P, "bfe_balance/bal_gslb", "TypeGslbBlackhole")
	// direct guard: sub.sType == blackhole is false here (either spelling; also through a predicate helper)
	for _, f := range balFactsAt(b) {
		if x, _, op, other, ok := balFieldCmp(f, "sType"); ok && op == token.NEQ && balSame(f, x, sub) && (bh == "" || balConstIs(other, bh)) {
			return true
		}
	}
	switch x := sub.(type) {
	case *ssa.Extract:
		if call, ok := x.Tuple.(*ssa.Call); ok && core.CallIs(&call.Call, "bfe_balance/bal_gslb.BalanceGslb.randomSelectExclude") {
			// established by the exclude-predicate rule on its success return
			return true
		}
	case *ssa.Phi:
		for i, ed := range x.Edges {
			if !subNotBlackhole(c, ed, x.Block().Preds[i], seen) {
				return false
			}
		}
		return true
	}
	return false
}

// errKnownNonNil: the error value is certainly non-nil at block b.
func errKnownNonNil(v ssa.Value, b *ssa.BasicBlock) bool {
	v = core.StripConv(v)
	switch x := v.(type) {
	case *ssa.Call:
		return true // fmt.Errorf / errors.New style constructors
	case *ssa.UnOp:
		if _, ok := x.X.(*ssa.Global); ok {
			return true // package-level error value
		}
	case *ssa.Alloc:
		return true
	}
	return core.HasGuard(b, func(g core.Guard) bool {
		bo, ok := g.Cond.(*ssa.BinOp)
		if !ok || !isNilConst(bo.Y) || core.StripConv(bo.X) != v {
			return false
		}
		return (bo.Op == token.NEQ && g.Pol) || (bo.Op == token.EQL && !g.Pol)
	})
}

// checkExcludePredicate: in BalanceGslb.randomSelectExclude both the counting
// site and every success return are guarded by the three-conjunct predicate
// (!= exclude, weight >= 0, sType != blackhole). Shared by C03 (never an
// ineligible target) and C08 (a cross retry never returns to the assigned
// sub-cluster).
//
// The sites are found by role, in randomSelectExclude and its private
// helpers: a counting site is an increment that feeds the modulus of the
// random draw (`% n`, rand.Intn(n)); a selecting site is a return with a nil
// error. The conjuncts may be spelled in either operand order / polarity and
// may sit in a boolean predicate helper (its parameters are bound to the
// call's arguments); "exclude" is randomSelectExclude's own parameter.
func checkExcludePredicate(c *core.Ctx, rule string) {
	defer balAcquire(c.P)()
	const gslb = "bfe_balance/bal_gslb"
	fn := c.P.Func(gslb, "BalanceGslb.randomSelectExclude")
	if fn == nil {
		c.Missing(gslb + ".BalanceGslb.randomSelectExclude")
		return
	}
	c.Analysed(core.FuncKey(fn))
	bh := balConstOf(c.P, gslb, "TypeGslbBlackhole")
	want := []string{"!=exclude", "weight>=0", "sType!=blackhole"}
	sites := 0
	check := func(in ssa.Instruction, what string) {
		sites++
		got := map[string]bool{}
		for _, f := range balFactsCtx(c.P, in.Block()) {
			if _, _, op, other, ok := balFieldCmp(f, "weight"); ok && ((op == token.GEQ && isZero(other)) || (op == token.GTR && isZero(other)) || (op == token.GTR && balConstIs(other, "-1"))) {
				got["weight>=0"] = true
			}
			if _, _, op, other, ok := balFieldCmp(f, "sType"); ok && op == token.NEQ && bh != "" && balConstIs(other, bh) {
				got["sType!=blackhole"] = true
			}
			if op, x, y, ok := f.G().Cmp(); ok && op == token.NEQ {
				if balIsParam(c.P, f.res(x), fn, 1) || balIsParam(c.P, f.res(y), fn, 1) {
					got["!=exclude"] = true
				}
			}
		}
		var missing []string
		for _, w := range want {
			if !got[w] {
				missing = append(missing, w)
			}
		}
		c.Check(rule, "randomSelectExclude:"+what, in.Pos(), len(missing) == 0, "cross-retry candidate predicate lacks conjunct(s) "+strings.Join(missing, ", ")+" at the "+what)
	}
	// counting sites: additions reached backwards from the modulus of the random draw
	counted := map[ssa.Instruction]bool{}
	for _, in := range balRegionInstrs(c.P, fn) {
		var mod ssa.Value
		switch x := in.(type) {
		case *ssa.BinOp:
			if x.Op == token.REM {
				mod = x.Y
			}
		case *ssa.Call:
			k := core.CalleeKey(&x.Call)
			if strings.HasPrefix(k, "math/rand.") && len(x.Call.Args) > 0 && (strings.HasSuffix(k, "Intn") || strings.HasSuffix(k, "Int31n") || strings.HasSuffix(k, "Int63n")) {
				mod = x.Call.Args[len(x.Call.Args)-1]
			}
		}
		if mod == nil {
			continue
		}
		seen := map[ssa.Value]bool{}
		var walk func(v ssa.Value, d int)
		walk = func(v ssa.Value, d int) {
			v = core.StripConv(v)
			if v == nil || seen[v] || d > 10 {
				return
			}
			seen[v] = true
			switch x := v.(type) {
			case *ssa.Phi:
				for _, e := range x.Edges {
					walk(e, d+1)
				}
			case *ssa.BinOp:
				if x.Op == token.ADD {
					if _, isK := x.Y.(*ssa.Const); isK {
						counted[x] = true
						walk(x.X, d+1)
					} else if _, isK := x.X.(*ssa.Const); isK {
						counted[x] = true
						walk(x.Y, d+1)
					}
				}
			case *ssa.Call, *ssa.Extract:
				if _, h, idx := balCallee(x); h != nil && balInRegion(c.P, fn, h) {
					for _, r := range balResults(h, idx) {
						walk(r, d+1)
					}
				}
			case *ssa.Parameter:
				if u := balUp(c.P, x); u != ssa.Value(x) {
					walk(u, d+1)
				}
			}
		}
		walk(mod, 0)
	}
	for _, in := range balRegionInstrs(c.P, fn) {
		if counted[in] {
			check(in, "count")
		}
	}
	for _, r := range core.Returns(fn) {
		if rv := core.RetVals(r); len(rv) == 2 && isNilConst(rv[1]) {
			check(r, "selection")
		}
	}
	if sites < 2 || len(counted) == 0 {
		c.Check(rule, "randomSelectExclude:sites", fn.Pos(), false, fmt.Sprintf("expected a counting site (an increment feeding the modulus of the random draw) and a selecting site, found %d sites, %d of them counting", sites, len(counted)))
	}
}
