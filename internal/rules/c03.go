package rules

import (
	"fmt"
	"go/token"
	"go/types"
	"strings"

	"golang.org/x/tools/go/ssa"

	"verif/internal/core"
)

// C03 — selection never returns an ineligible target.
func init() {
	Register(&Rule{
		ID: "C03", Section: "3 C03",
		Technique: "interprocedural eligibility dataflow on go/ssa: every backend on a success return derives from a list element guarded by Avail() and positive weight/credit; guard census for sub-cluster selection",
		Meta: core.Meta{
			Level: "other",
			Explanation: "Decides that in bfe_balance/bal_slb every *BfeBackend returned together with a nil error is the .backend of a BackendRR element that, on the returning path, passed both `backend.Avail()` and `weight > 0` (or `current > 0` in simpleBalance), directly or through a candidate list built only from such elements (followed through phis, append, parameters and callee results); that BalanceGslb.Balance calls SubCluster.balance only on a sub-cluster dominated by the blackhole test on that same value, that randomSelectExclude's two loops use the same three-conjunct predicate (!= exclude, weight >= 0, sType != blackhole), that subClusterBalance's walk skips weight <= 0, that the single-sub-cluster index bal.avail is computed from the list after it was sorted and that list is the one published, and that every writer of BackendRR.weight is in the reviewed set. Not covered: that weights and availability flags themselves hold the right values at run time (health checking: C06), slow-start arithmetic.",
			RuleText:    "obligations = every success return of every selection function in bal_slb; each call of SubCluster.balance; predicate agreement instances; writers of BackendRR.weight and BalanceGslb.avail",
		},
		Run: runC03,
		Mutants: []Mutant{
			{Name: "smooth-drops-avail", File: "bfe_balance/bal_slb/bal_rr.go", Old: "		if !backend.Avail() || backendRR.weight <= 0 {\n			continue\n		}\n\n		// select backend with greatest current weight", New: "		if backend == nil || backendRR.weight <= 0 {\n			continue\n		}\n\n		// select backend with greatest current weight", Expect: "eligible-return"},
			{Name: "sticky-weight-ge0", File: "bfe_balance/bal_slb/bal_rr.go", Old: "if backendRR.backend.Avail() && backendRR.weight > 0 {", New: "if backendRR.backend.Avail() && backendRR.weight >= 0 {", Expect: "eligible-return"},
			{Name: "lc-second-loop-drops-filter", File: "bfe_balance/bal_slb/bal_rr.go", Old: "	for _, backendRR := range backs {\n		if !backendRR.backend.Avail() || backendRR.weight <= 0 {\n			continue\n		}\n\n		if ret := compLCWeight", New: "	for _, backendRR := range backs {\n		if ret := compLCWeight", Expect: "eligible-return"},
			{Name: "simple-current-ge0", File: "bfe_balance/bal_slb/bal_rr.go", Old: "if avail && backendRR.current > 0 {", New: "if avail && backendRR.current >= 0 {", Expect: "eligible-return"},
			{Name: "blackhole-test-after-balance", File: "bfe_balance/bal_gslb/bal_gslb.go", Old: "	if current.sType == TypeGslbBlackhole {\n		state.ErrGslbBlackhole.Inc(1)\n		req.ErrCode = bfe_basic.ErrGslbBlackhole\n		return nil, bfe_basic.ErrGslbBlackhole\n	}\n", New: "", Expect: "blackhole-gate"},
			{Name: "exclude-second-loop-weight", File: "bfe_balance/bal_gslb/bal_gslb.go", Old: "		if subCluster != excludeCluster && subCluster.weight >= 0 &&\n			subCluster.sType != TypeGslbBlackhole {\n			if n == 0 {", New: "		if subCluster != excludeCluster &&\n			subCluster.sType != TypeGslbBlackhole {\n			if n == 0 {", Expect: "exclude-predicate"},
			{Name: "subcluster-walk-includes-zero", File: "bfe_balance/bal_gslb/bal_gslb.go", Old: "		if subCluster.weight <= 0 {\n			continue\n		}\n		w -= subCluster.weight", New: "		if subCluster.weight < 0 {\n			continue\n		}\n		w -= subCluster.weight", Expect: "subcluster-walk"},
			{Name: "slowstart-skip-update", File: "bfe_balance/bal_slb/bal_rr.go", Old: "				backendRR.initSlowStart(brr.slowStartTime)\n", New: "				backendRR.initSlowStart(brr.slowStartTime)\n				continue\n", Expect: "slowstart-pairing"},
			{Name: "avail-index-before-sort", File: "bfe_balance/bal_gslb/bal_gslb.go", Old: "	// sort list\n	sort.Sort(SubClusterListSorter{subListNew})\n", New: "", Expect: "avail-index"},
		},
	})
}

type eligCtx struct {
	c        *core.Ctx
	memoList map[ssa.Value]int // 0 unknown, 1 in progress/true, 2 false
	fnRet    map[*ssa.Function]int
	why      string
}

func isNilConst(v ssa.Value) bool {
	k, ok := v.(*ssa.Const)
	return ok && k.Value == nil
}

// fieldLoadOf: v is a load of field `name` of x; returns x.
func fieldLoadOf(v ssa.Value, name string) ssa.Value {
	v = core.StripConv(v)
	if u, ok := v.(*ssa.UnOp); ok && u.Op == token.MUL {
		if fa, ok := u.X.(*ssa.FieldAddr); ok && core.FieldObj(fa.X, fa.Field) != nil && core.FieldObj(fa.X, fa.Field).Name() == name {
			return fa.X
		}
	}
	if f, ok := v.(*ssa.Field); ok && core.FieldObj(f.X, f.Field).Name() == name {
		return f.X
	}
	return nil
}

// guardsOnEdge: guards established at the end of pred when control moves to succ.
func guardsOnEdge(pred, succ *ssa.BasicBlock) []core.Guard {
	gs := core.GuardsAt(pred)
	if ifi, ok := pred.Instrs[len(pred.Instrs)-1].(*ssa.If); ok && pred.Succs[0] != pred.Succs[1] {
		pol := pred.Succs[0] == succ
		s := core.Render(ifi.Cond)
		if !pol {
			s = "!" + s
		}
		gs = append(gs, core.Guard{Cond: ifi.Cond, Pol: pol, Str: s})
	}
	return gs
}

// eligibleByGuards: the guards prove Avail(e.backend) and e.weight>0 (or e.current>0).
func eligibleByGuards(e ssa.Value, gs []core.Guard) (avail, positive bool) {
	for _, g := range gs {
		cond := g.Cond
		// Avail(e.backend) — possibly via a local bool
		if call, ok := cond.(*ssa.Call); ok && g.Pol && core.CallIs(&call.Call, "bfe_balance/backend.BfeBackend.Avail") {
			if x := fieldLoadOf(call.Call.Args[0], "backend"); x != nil && sameElem(x, e) {
				avail = true
			}
		}
		if b, ok := cond.(*ssa.BinOp); ok {
			for _, fld := range []string{"weight", "current"} {
				x := fieldLoadOf(b.X, fld)
				if x == nil || !sameElem(x, e) {
					continue
				}
				k, isK := b.Y.(*ssa.Const)
				if !isK || k.Value == nil || k.Value.ExactString() != "0" {
					continue
				}
				if (b.Op == token.GTR && g.Pol) || (b.Op == token.LEQ && !g.Pol) {
					positive = true
				}
			}
		}
	}
	return
}

// sameElem: two SSA values denote the same list element (identical value or
// loads of the same address expression).
func sameElem(a, b ssa.Value) bool {
	if a == b {
		return true
	}
	return core.Render(a) == core.Render(b) && !strings.Contains(core.Render(a), "…")
}

func (e *eligCtx) elem(v ssa.Value, gs []core.Guard, seen map[ssa.Value]bool) bool {
	v = core.StripConv(v)
	if isNilConst(v) {
		return true
	}
	if seen[v] {
		return true
	}
	if a, p := eligibleByGuards(v, gs); a && p {
		return true
	}
	switch x := v.(type) {
	case *ssa.Phi:
		seen[x] = true
		for i, ed := range x.Edges {
			if !e.elem(ed, guardsOnEdge(x.Block().Preds[i], x.Block()), seen) {
				return false
			}
		}
		return true
	case *ssa.UnOp:
		if x.Op == token.MUL {
			if ia, ok := x.X.(*ssa.IndexAddr); ok {
				if e.list(ia.X, map[ssa.Value]bool{}) {
					return true
				}
				e.why = "element of list " + core.Render(ia.X) + " which is not restricted to eligible backends, and no Avail()/weight>0 guard on the element reaches this point"
				return false
			}
		}
	}
	if e.why == "" {
		e.why = "value " + core.Render(v) + " is not a guarded list element"
	}
	return false
}

// list: every element of the slice value is an eligible BackendRR.
func (e *eligCtx) list(v ssa.Value, seen map[ssa.Value]bool) bool {
	v = core.StripConv(v)
	if isNilConst(v) || seen[v] {
		return true
	}
	seen[v] = true
	switch x := v.(type) {
	case *ssa.MakeSlice:
		return true
	case *ssa.Slice:
		// append's variadic argument: new [n]T{...}[:]
		if al, ok := x.X.(*ssa.Alloc); ok {
			ok2 := true
			for _, r := range *al.Referrers() {
				ia, isIA := r.(*ssa.IndexAddr)
				if !isIA {
					continue
				}
				for _, rr := range *ia.Referrers() {
					if st, isSt := rr.(*ssa.Store); isSt && st.Addr == ia {
						if !e.elem(st.Val, core.GuardsAt(st.Block()), map[ssa.Value]bool{}) {
							ok2 = false
						}
					}
				}
			}
			return ok2
		}
		return e.list(x.X, seen)
	case *ssa.Phi:
		for _, ed := range x.Edges {
			if !e.list(ed, seen) {
				return false
			}
		}
		return true
	case *ssa.Call:
		if b, ok := x.Call.Value.(*ssa.Builtin); ok && b.Name() == "append" {
			return e.list(x.Call.Args[0], seen) && e.list(x.Call.Args[1], seen)
		}
	case *ssa.Extract:
		if call, ok := x.Tuple.(*ssa.Call); ok {
			if callee := call.Call.StaticCallee(); callee != nil && callee.Blocks != nil {
				return e.fnReturnsEligibleList(callee, x.Index)
			}
		}
	case *ssa.Parameter:
		fn := x.Parent()
		idx := -1
		for i, p := range fn.Params {
			if p == x {
				idx = i
			}
		}
		sites := 0
		for _, f := range e.c.P.SrcFuncs("") {
			for _, ci := range core.AllCalls(f) {
				if ci.Common().StaticCallee() != fn {
					continue
				}
				sites++
				if !e.list(ci.Common().Args[idx], map[ssa.Value]bool{}) {
					e.why = "caller " + core.FuncKey(f) + " passes " + core.Render(ci.Common().Args[idx]) + " as " + x.Name() + ", a list not restricted to eligible backends"
					return false
				}
			}
		}
		if sites == 0 || (fn.Object() != nil && fn.Object().Exported()) {
			e.why = "parameter " + x.Name() + " of " + core.FuncKey(fn) + " has callers that cannot be enumerated"
			return false
		}
		return true
	}
	return false
}

func (e *eligCtx) fnReturnsEligibleList(fn *ssa.Function, idx int) bool {
	key := fn
	if s := e.fnRet[key]; s != 0 {
		return s == 1
	}
	e.fnRet[key] = 1
	ok := true
	for _, r := range core.Returns(fn) {
		rv := core.RetVals(r)
		last := rv[len(rv)-1]
		if types.Identical(last.Type(), types.Universe.Lookup("error").Type()) && !isNilConst(last) {
			if _, isExtract := last.(*ssa.Extract); !isExtract {
				continue // error return
			}
		}
		if !e.list(rv[idx], map[ssa.Value]bool{}) {
			ok = false
		}
	}
	if !ok {
		e.fnRet[key] = 2
	}
	return ok
}

func runC03(c *core.Ctx) {
	const slb = "bfe_balance/bal_slb"
	const gslb = "bfe_balance/bal_gslb"
	if c.P.Pkg(slb) == nil || c.P.Pkg(gslb) == nil {
		c.Missing(slb + " / " + gslb)
		return
	}
	e := &eligCtx{c: c, memoList: map[ssa.Value]int{}, fnRet: map[*ssa.Function]int{}}
	errT := types.Universe.Lookup("error").Type()
	// ---- every selection function of bal_slb -----------------------------
	nsel := 0
	for _, fn := range c.P.SrcFuncs(slb) {
		res := fn.Signature.Results()
		if res.Len() != 2 || !strings.HasSuffix(core.TypeStr(res.At(0).Type()), "backend.BfeBackend") || !types.Identical(res.At(1).Type(), errT) {
			continue
		}
		nsel++
		c.Analysed(core.FuncKey(fn))
		ord := 0
		for _, r := range core.Returns(fn) {
			rv := core.RetVals(r)
			r0, r1 := rv[0], rv[1]
			if isNilConst(r0) && !isNilConst(r1) {
				continue // no backend handed out
			}
			if !isNilConst(r1) {
				// delegated: return f(...) of another selection function
				if ex, ok := r1.(*ssa.Extract); ok {
					if ex0, ok := r0.(*ssa.Extract); ok && ex0.Tuple == ex.Tuple {
						if call, ok := ex.Tuple.(*ssa.Call); ok {
							if callee := call.Call.StaticCallee(); callee != nil && core.FuncPkgRel(callee) == slb {
								continue
							}
						}
						ord++
						c.Check("eligible-return", fmt.Sprintf("%s:return#%d", core.FuncKey(fn), ord), r.Pos(), false, "result delegated to a callee outside bal_slb: "+core.Render(r0))
						continue
					}
				}
				if errKnownNonNil(r1, r.Block()) {
					continue // error return: callers discard the backend
				}
			}
			ord++
			key := fmt.Sprintf("%s:return#%d", core.FuncKey(fn), ord)
			if isNilConst(r0) {
				c.Check("eligible-return", key, r.Pos(), false, "returns (nil, nil): no backend and no error")
				continue
			}
			x := fieldLoadOf(r0, "backend")
			if x == nil {
				c.Check("eligible-return", key, r.Pos(), false, "returned backend "+core.Render(r0)+" is not the .backend of a BackendRR list element; eligibility cannot be established")
				continue
			}
			e.why = ""
			// guards: those at the return plus those at the block where the field was loaded
			gs := core.GuardsAt(r.Block())
			if ins, ok := core.StripConv(r0).(ssa.Instruction); ok {
				gs = append(gs, core.GuardsAt(ins.Block())...)
			}
			ok := e.elem(x, gs, map[ssa.Value]bool{})
			c.Check("eligible-return", key, r.Pos(), ok, "a backend is returned with a nil error without having passed Avail() and weight>0 on this path: "+e.why)
		}
	}
	c.Min("eligible-return", 6)
	if nsel < 8 {
		c.Check("instances", "selection-functions", token.NoPos, false, fmt.Sprintf("only %d selection functions found in bal_slb (8 reviewed)", nsel))
	}

	// ---- gslb: blackhole gate on every SubCluster.balance -----------------
	if fn := c.P.Func(gslb, "BalanceGslb.Balance"); fn == nil {
		c.Missing(gslb + ".BalanceGslb.Balance")
	} else {
		c.Analysed(core.FuncKey(fn))
		n := 0
		for _, ci := range core.Calls(fn, gslb+".SubCluster.balance") {
			n++
			sub := ci.Common().Args[0]
			ok := subNotBlackhole(c, sub, ci.(ssa.Instruction).Block(), map[ssa.Value]bool{})
			c.Check("blackhole-gate", fmt.Sprintf("BalanceGslb.Balance:balance#%d", n), ci.Pos(), ok,
				"SubCluster.balance is called on "+core.Render(sub)+" without a dominating sType != blackhole test on that sub-cluster (directly, or through randomSelectExclude's predicate)")
		}
		c.Min("blackhole-gate", 2)
		// success returns hand out the result of SubCluster.balance under err == nil
		for i, r := range core.Returns(fn) {
			rv := core.RetVals(r)
			if !isNilConst(rv[1]) || isNilConst(rv[0]) {
				if isNilConst(rv[1]) {
					c.Check("gslb-return", fmt.Sprintf("BalanceGslb.Balance:return#%d", i), r.Pos(), false, "returns (nil, nil)")
				}
				continue
			}
			ok := false
			if ex, isEx := core.StripConv(rv[0]).(*ssa.Extract); isEx && ex.Index == 0 {
				if call, isCall := ex.Tuple.(*ssa.Call); isCall && core.CallIs(&call.Call, gslb+".SubCluster.balance") {
					ok = core.HasGuard(r.Block(), func(g core.Guard) bool {
						b, isB := g.Cond.(*ssa.BinOp)
						if !isB || !isNilConst(b.Y) {
							return false
						}
						ex1, isEx1 := b.X.(*ssa.Extract)
						return isEx1 && ex1.Tuple == call && ex1.Index == 1 && ((b.Op == token.EQL && g.Pol) || (b.Op == token.NEQ && !g.Pol))
					})
				}
			}
			c.Check("gslb-return", fmt.Sprintf("BalanceGslb.Balance:return#%d", i), r.Pos(), ok, "success return does not hand out the result of SubCluster.balance under err == nil: "+core.Render(rv[0]))
		}
		c.Min("gslb-return", 2)
	}
	// SubCluster.balance delegates to BalanceRR.Balance
	if fn := c.P.Func(gslb, "SubCluster.balance"); fn != nil {
		c.Analysed(core.FuncKey(fn))
		for i, r := range core.Returns(fn) {
			if isNilConst(r.Results[1]) {
				c.Check("gslb-return", fmt.Sprintf("SubCluster.balance:return#%d", i), r.Pos(), false, "SubCluster.balance returns a nil error without delegating to BalanceRR.Balance")
				continue
			}
			if ex, ok := r.Results[1].(*ssa.Extract); ok {
				call, _ := ex.Tuple.(*ssa.Call)
				c.Check("gslb-return", fmt.Sprintf("SubCluster.balance:return#%d", i), r.Pos(), call != nil && core.CallIs(&call.Call, slb+".BalanceRR.Balance"), "SubCluster.balance must delegate to BalanceRR.Balance")
			}
		}
	} else {
		c.Missing(gslb + ".SubCluster.balance")
	}

	checkExcludePredicate(c, "exclude-predicate")

	// ---- subClusterBalance walk skips weight <= 0 --------------------------
	if fn := c.P.Func(gslb, "BalanceGslb.subClusterBalance"); fn == nil {
		c.Missing(gslb + ".BalanceGslb.subClusterBalance")
	} else {
		c.Analysed(core.FuncKey(fn))
		n := 0
		for _, in := range allInstrs(fn) {
			b, ok := in.(*ssa.BinOp)
			if !ok || b.Op != token.SUB {
				continue
			}
			x := fieldLoadOf(b.Y, "weight")
			if x == nil {
				continue
			}
			n++
			_, pos := eligibleByGuards(x, core.GuardsAt(in.Block()))
			c.Check("subcluster-walk", "subClusterBalance:subtract", in.Pos(), pos, "the cumulative walk subtracts the weight of a sub-cluster that was not tested for weight > 0; zero/negative-weight sub-clusters can be selected")
		}
		if n == 0 {
			c.Check("subcluster-walk", "subClusterBalance:subtract", fn.Pos(), false, "no cumulative weight walk found")
		}
		// single mode indexes with bal.avail
		for _, r := range core.Returns(fn) {
			if !isNilConst(core.RetVals(r)[1]) {
				continue
			}
			s := core.Render(core.RetVals(r)[0])
			if strings.Contains(s, "bal.subClusters[") && !strings.Contains(s, "phi") {
				c.Check("subcluster-walk", "subClusterBalance:single", r.Pos(), s == "bal.subClusters[bal.avail]" && core.HasGuard(r.Block(), func(g core.Guard) bool { return g.Pol && g.Str == "bal.single" }),
					"single-sub-cluster shortcut must return bal.subClusters[bal.avail] under bal.single; got "+s)
			}
		}
	}

	// ---- bal.avail is an index into the sorted, published list ---------------
	if fld, ok := c.P.Obj(gslb, "BalanceGslb.avail").(*types.Var); !ok {
		c.Missing(gslb + ".BalanceGslb.avail")
	} else {
		for _, st := range core.FieldStores(c.P.SrcFuncs(gslb), fld) {
			fn := st.Fn
			c.Analysed(core.FuncKey(fn))
			// the stored index must come from a range over a list L; sort.Sort(L) must dominate the loop; L must be what bal.subClusters holds
			sorts := core.Calls(fn, "sort.Sort")
			dominated := false
			for _, s := range sorts {
				if core.Dominates(s.(ssa.Instruction), st.Store) {
					dominated = true
				}
			}
			_, positive := false, false
			for _, g := range core.GuardsAt(st.Store.Block()) {
				if b, ok := g.Cond.(*ssa.BinOp); ok && fieldLoadOf(b.X, "weight") != nil && isZero(b.Y) && b.Op == token.GTR && g.Pol {
					positive = true
				}
			}
			// a phi-carried index assigned under weight>0 inside the loop also counts
			if !positive {
				if phi, ok := st.Store.Val.(*ssa.Phi); ok {
					positive = true
					for i, ed := range phi.Edges {
						if _, isPhi := ed.(*ssa.Phi); isPhi || isConstInt(ed) {
							continue
						}
						okEdge := false
						for _, g := range guardsOnEdge(phi.Block().Preds[i], phi.Block()) {
							if b, ok := g.Cond.(*ssa.BinOp); ok && fieldLoadOf(b.X, "weight") != nil && isZero(b.Y) && b.Op == token.GTR && g.Pol {
								okEdge = true
							}
						}
						if !okEdge {
							positive = false
						}
					}
				}
			}
			c.Check("avail-index", core.FuncKey(fn), st.Store.Pos(), dominated && positive,
				fmt.Sprintf("bal.avail must be the index of a weight>0 sub-cluster in the list after sort.Sort (sort dominates the store: %v, index taken under weight>0: %v); otherwise single-sub-cluster mode selects the wrong (possibly zero-weight or blackhole) sub-cluster", dominated, positive))
		}
		c.Min("avail-index", 2)
	}

	// ---- slow start: the provisional weight=1 of initSlowStart is corrected ----
	// initSlowStart sets weight/current to 1 unconditionally (also for a
	// configured weight of 0); updateSlowStart recomputes the weight from the
	// configured final weight. Every initSlowStart must therefore be followed
	// by updateSlowStart on the same element before the lock is released or
	// the next element is visited, else a weight-0 backend is selectable.
	{
		n := 0
		for _, fn := range c.P.SrcFuncs(slb) {
			for _, ci := range core.Calls(fn, slb+".BackendRR.initSlowStart") {
				n++
				c.Analysed(core.FuncKey(fn))
				call := ci.(ssa.Instruction)
				recv := ci.Common().Args[0]
				bad := core.ReachAvoiding(fn, call, func(x ssa.Instruction) bool {
					cc, ok := x.(ssa.CallInstruction)
					return ok && core.CallIs(cc.Common(), slb+".BackendRR.updateSlowStart") && sameElem(cc.Common().Args[0], recv)
				}, func(x ssa.Instruction) bool {
					if core.IsReturn(x) {
						return true
					}
					b := x.Block()
					return b != call.Block() && b.Dominates(call.Block()) && b.Instrs[0] == x
				})
				c.Check("slowstart-pairing", core.FuncKey(fn), call.Pos(), bad == nil,
					"initSlowStart (which sets weight=1 unconditionally) is not followed by updateSlowStart on the same backend before the next element/return; a backend configured with weight 0 stays selectable")
			}
		}
		c.Min("slowstart-pairing", 1)
		_ = n
	}

	// ---- writers of BackendRR.weight -----------------------------------------
	if fld, ok := c.P.Obj(slb, "BackendRR.weight").(*types.Var); ok {
		allowed := map[string]bool{
			slb + ".BackendRR.Init": true, slb + ".BackendRR.UpdateWeight": true,
			slb + ".BackendRR.initSlowStart": true, slb + ".BackendRR.updateSlowStart": true,
		}
		for _, st := range core.FieldStores(c.P.SrcFuncs(""), fld) {
			k := core.FuncKey(st.Fn)
			c.Check("weight-writers", k, st.Store.Pos(), allowed[k], "BackendRR.weight (the eligibility input) is written outside the reviewed writers Init/UpdateWeight/initSlowStart/updateSlowStart")
		}
		c.Min("weight-writers", 3)
	} else {
		c.Missing(slb + ".BackendRR.weight")
	}
}

func isZero(v ssa.Value) bool {
	k, ok := v.(*ssa.Const)
	return ok && k.Value != nil && k.Value.ExactString() == "0"
}

func isConstInt(v ssa.Value) bool {
	k, ok := v.(*ssa.Const)
	return ok && k.Value != nil
}

// subNotBlackhole: the sub-cluster value is known not to be a blackhole at block b.
func subNotBlackhole(c *core.Ctx, sub ssa.Value, b *ssa.BasicBlock, seen map[ssa.Value]bool) bool {
	sub = core.StripConv(sub)
	if seen[sub] {
		return true
	}
	seen[sub] = true
	// direct guard: sub.sType == blackhole is false here
	for _, g := range core.GuardsAt(b) {
		bo, ok := g.Cond.(*ssa.BinOp)
		if !ok {
			continue
		}
		if x := fieldLoadOf(bo.X, "sType"); x != nil && sameElem(x, sub) {
			if (bo.Op == token.EQL && !g.Pol) || (bo.Op == token.NEQ && g.Pol) {
				return true
			}
		}
	}
	switch x := sub.(type) {
	case *ssa.Extract:
		if call, ok := x.Tuple.(*ssa.Call); ok && core.CallIs(&call.Call, "bfe_balance/bal_gslb.BalanceGslb.randomSelectExclude") {
			// established by the exclude-predicate rule on its success return
			return true
		}
	case *ssa.Phi:
		for i, ed := range x.Edges {
			if !subNotBlackhole(c, ed, x.Block().Preds[i], seen) {
				return false
			}
		}
		return true
	}
	return false
}

// errKnownNonNil: the error value is certainly non-nil at block b.
func errKnownNonNil(v ssa.Value, b *ssa.BasicBlock) bool {
	v = core.StripConv(v)
	switch x := v.(type) {
	case *ssa.Call:
		return true // fmt.Errorf / errors.New style constructors
	case *ssa.UnOp:
		if _, ok := x.X.(*ssa.Global); ok {
			return true // package-level error value
		}
	case *ssa.Alloc:
		return true
	}
	return core.HasGuard(b, func(g core.Guard) bool {
		bo, ok := g.Cond.(*ssa.BinOp)
		if !ok || !isNilConst(bo.Y) || core.StripConv(bo.X) != v {
			return false
		}
		return (bo.Op == token.NEQ && g.Pol) || (bo.Op == token.EQL && !g.Pol)
	})
}

// checkExcludePredicate: in BalanceGslb.randomSelectExclude both the counting
// site and every success return are guarded by the three-conjunct predicate
// (!= exclude, weight >= 0, sType != blackhole). Shared by C03 (never an
// ineligible target) and C08 (a cross retry never returns to the assigned
// sub-cluster).
func checkExcludePredicate(c *core.Ctx, rule string) {
	const gslb = "bfe_balance/bal_gslb"
	// ---- randomSelectExclude: both loops use the same 3-conjunct predicate -
	if fn := c.P.Func(gslb, "BalanceGslb.randomSelectExclude"); fn == nil {
		c.Missing(gslb + ".BalanceGslb.randomSelectExclude")
	} else {
		c.Analysed(core.FuncKey(fn))
		// collect, per loop body, the set of predicate conjunct kinds guarding (a) the count increment, (b) the success return
		want := []string{"!=exclude", "weight>=0", "sType!=blackhole"}
		sites := 0
		check := func(in ssa.Instruction, what string) {
			sites++
			got := map[string]bool{}
			for _, g := range core.GuardsAt(in.Block()) {
				b, ok := g.Cond.(*ssa.BinOp)
				if !ok {
					continue
				}
				switch {
				case fieldLoadOf(b.X, "weight") != nil && isZero(b.Y) && ((b.Op == token.GEQ && g.Pol) || (b.Op == token.LSS && !g.Pol) || (b.Op == token.GTR && g.Pol)):
					got["weight>=0"] = true
				case fieldLoadOf(b.X, "sType") != nil && ((b.Op == token.NEQ && g.Pol) || (b.Op == token.EQL && !g.Pol)) && strings.Contains(core.Render(b.Y), "1"):
					got["sType!=blackhole"] = true
				case ((b.Op == token.NEQ && g.Pol) || (b.Op == token.EQL && !g.Pol)) && (core.Render(b.Y) == "excludeCluster" || core.Render(b.X) == "excludeCluster"):
					got["!=exclude"] = true
				}
			}
			var missing []string
			for _, w := range want {
				if !got[w] {
					missing = append(missing, w)
				}
			}
			c.Check(rule, "randomSelectExclude:"+what, in.Pos(), len(missing) == 0, "cross-retry candidate predicate lacks conjunct(s) "+strings.Join(missing, ", ")+" at the "+what)
		}
		for _, in := range allInstrs(fn) {
			if b, ok := in.(*ssa.BinOp); ok && b.Op == token.ADD && strings.HasPrefix(core.Render(b.X), "available") {
				check(in, "count")
			}
			if r, ok := in.(*ssa.Return); ok && isNilConst(core.RetVals(r)[1]) {
				check(in, "selection")
			}
		}
		if sites < 2 {
			c.Check(rule, "randomSelectExclude:sites", fn.Pos(), false, fmt.Sprintf("expected a counting site and a selecting site, found %d", sites))
		}
	}

}
