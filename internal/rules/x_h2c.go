package rules

// Shared helpers of the HPACK / HTTP/2 frame rules (C31, C32): relational
// reading of guards (bounds on integers, a <= b facts), error-value
// classification, affine forms of index expressions, table extraction from
// composite literals. Everything here is prefixed hx to keep the package
// namespace clean.

import (
	"fmt"
	"go/ast"
	"go/constant"
	"go/token"
	"go/types"
	"sort"
	"strings"

	"golang.org/x/tools/go/ssa"

	"verif/internal/core"
)

// hxResolve strips conversions and looks through a load of a local Alloc
// (named results spilled because of a defer, `var x T` locals) to the value
// last stored into it in the same block before the load, and through a
// parameter of a private helper with a single call site to the argument
// passed there (x_hpack_r.go).
func hxResolve(v ssa.Value) ssa.Value {
	for i := 0; i < 12; i++ {
		v = core.StripConv(v)
		if a, isP := hxParamArg(v); isP {
			// parameter of a private helper with a single call site: the argument
			v = a
			continue
		}
		u, ok := v.(*ssa.UnOp)
		if !ok || u.Op != token.MUL {
			return v
		}
		a, ok := u.X.(*ssa.Alloc)
		if !ok {
			return v
		}
		b := u.Block()
		var last ssa.Value
		for _, in := range b.Instrs {
			if in == ssa.Instruction(u) {
				break
			}
			if st, ok := in.(*ssa.Store); ok && st.Addr == a {
				last = st.Val
			}
		}
		if last == nil {
			last = hxDominatingStore(a, u)
		}
		if last == nil {
			return v
		}
		v = last
	}
	return v
}

// hxSame: two SSA values denote the same storage/value (identity after
// stripping conversions, or the same canonical access path).
func hxSame(a, b ssa.Value) bool {
	if a == nil || b == nil {
		return false
	}
	a, b = hxResolve(a), hxResolve(b)
	if a == b {
		return true
	}
	ra, rb := core.Render(a), core.Render(b)
	return ra == rb && !strings.Contains(ra, "…")
}

// hxLenArg returns x when v is len(x).
func hxLenArg(v ssa.Value) ssa.Value {
	c, ok := hxResolve(v).(*ssa.Call)
	if !ok {
		return nil
	}
	if b, ok := c.Call.Value.(*ssa.Builtin); ok && b.Name() == "len" && len(c.Call.Args) == 1 {
		return c.Call.Args[0]
	}
	return nil
}

// hxIsLenOf: v is len(x) for the given x.
func hxIsLenOf(v, x ssa.Value) bool {
	a := hxLenArg(v)
	return a != nil && hxSame(a, x)
}

// hxConstInt returns the integer value of a constant.
func hxConstInt(v ssa.Value) (int64, bool) {
	c, ok := core.StripConv(v).(*ssa.Const)
	if !ok || c.Value == nil || c.Value.Kind() != constant.Int {
		return 0, false
	}
	n, exact := constant.Int64Val(c.Value)
	if !exact {
		if u, ok := constant.Uint64Val(c.Value); ok {
			return int64(u), true
		}
		return 0, false
	}
	return n, true
}

func hxIsNil(v ssa.Value) bool {
	c, ok := v.(*ssa.Const)
	return ok && c.Value == nil
}

// hxRel is a relation L Op R known to hold.
type hxRel struct {
	L, R ssa.Value
	Op   token.Token
}

func (r hxRel) String() string {
	return "(" + core.Render(r.L) + " " + r.Op.String() + " " + core.Render(r.R) + ")"
}

func hxNegOp(op token.Token) token.Token {
	switch op {
	case token.EQL:
		return token.NEQ
	case token.NEQ:
		return token.EQL
	case token.LSS:
		return token.GEQ
	case token.GEQ:
		return token.LSS
	case token.GTR:
		return token.LEQ
	case token.LEQ:
		return token.GTR
	}
	return token.ILLEGAL
}

func hxFlipOp(op token.Token) token.Token {
	switch op {
	case token.LSS:
		return token.GTR
	case token.GTR:
		return token.LSS
	case token.LEQ:
		return token.GEQ
	case token.GEQ:
		return token.LEQ
	}
	return op
}

func hxSigned(v ssa.Value) bool {
	b, ok := v.Type().Underlying().(*types.Basic)
	return ok && b.Info()&types.IsInteger != 0 && b.Info()&types.IsUnsigned == 0
}

// hxRelOf reads a branch condition with polarity as a relation. `a - b REL 0`
// over signed integers is rewritten to `a REL b`; `!x` flips polarity.
func hxRelOf(cond ssa.Value, pol bool) (hxRel, bool) {
	for {
		u, ok := cond.(*ssa.UnOp)
		if !ok || u.Op != token.NOT {
			break
		}
		cond, pol = u.X, !pol
	}
	b, ok := cond.(*ssa.BinOp)
	if !ok {
		return hxRel{}, false
	}
	op := b.Op
	switch op {
	case token.EQL, token.NEQ, token.LSS, token.LEQ, token.GTR, token.GEQ:
	default:
		return hxRel{}, false
	}
	if !pol {
		op = hxNegOp(op)
	}
	r := hxRel{b.X, b.Y, op}
	// constants (and nil) go to the right: `5 != n` reads as `n != 5`
	if _, lk := r.L.(*ssa.Const); lk {
		if _, rk := r.R.(*ssa.Const); !rk {
			r = hxRel{r.R, r.L, hxFlipOp(op)}
		}
	}
	if k, isK := hxConstInt(r.R); isK && k == 0 {
		if s, ok := hxResolve(r.L).(*ssa.BinOp); ok && s.Op == token.SUB && hxSigned(s) {
			r.L, r.R = s.X, s.Y
		}
	}
	return r, true
}

// hxRelsAt lists the relations established on every path to b: the guards in
// b's function (named booleans built with && / || read back into the facts
// they stand for) and, when that function is a private helper with a single
// call site, the guards at the site (hxGuardsAt).
func hxRelsAt(b *ssa.BasicBlock) []hxRel { return hxRelsOf(hxGuardsAt(b)) }

// hxRelsOnEdge lists the relations established when control moves pred->succ.
func hxRelsOnEdge(pred, succ *ssa.BasicBlock) []hxRel { return hxRelsOf(hxGuardsOnEdge(pred, succ)) }

func hxRelStrs(rs []hxRel) string {
	var s []string
	for _, r := range rs {
		s = append(s, r.String())
	}
	if len(s) == 0 {
		return "none"
	}
	return strings.Join(s, " && ")
}

func hxNonNeg(v ssa.Value) bool {
	if hxLenArg(v) != nil {
		return true
	}
	if c, ok := hxResolve(v).(*ssa.Call); ok {
		// lengths reported by the standard library and cap() are never negative
		if core.CallIs(&c.Call, "bytes.Buffer.Len", "bytes.Buffer.Cap", "strings.Builder.Len", "bytes.Reader.Len", "strings.Reader.Len") {
			return true
		}
		if b, isB := c.Call.Value.(*ssa.Builtin); isB && b.Name() == "cap" {
			return true
		}
	}
	b, ok := v.Type().Underlying().(*types.Basic)
	return ok && b.Info()&types.IsUnsigned != 0
}

// hxLower returns the best constant lower bound that the relations establish
// for a value accepted by isX.
func hxLower(rels []hxRel, isX func(ssa.Value) bool) (int64, bool) {
	best, found := int64(0), false
	upd := func(n int64) {
		if !found || n > best {
			best, found = n, true
		}
	}
	for _, r := range rels {
		l, rr, op := r.L, r.R, r.Op
		if k, ok := hxConstInt(l); ok && isX(rr) {
			_ = k
			l, rr, op = rr, l, hxFlipOp(op)
		}
		k, ok := hxConstInt(rr)
		if !ok || !isX(l) {
			continue
		}
		switch op {
		case token.GTR:
			upd(k + 1)
		case token.GEQ, token.EQL:
			upd(k)
		case token.NEQ:
			if k == 0 && hxNonNeg(hxResolve(l)) {
				upd(1)
			}
		}
	}
	return best, found
}

// hxUpper returns the best constant upper bound established for isX values.
func hxUpper(rels []hxRel, isX func(ssa.Value) bool) (int64, bool) {
	best, found := int64(0), false
	upd := func(n int64) {
		if !found || n < best {
			best, found = n, true
		}
	}
	for _, r := range rels {
		l, rr, op := r.L, r.R, r.Op
		if _, ok := hxConstInt(l); ok && isX(rr) {
			l, rr, op = rr, l, hxFlipOp(op)
		}
		k, ok := hxConstInt(rr)
		if !ok || !isX(l) {
			continue
		}
		switch op {
		case token.LSS:
			upd(k - 1)
		case token.LEQ, token.EQL:
			upd(k)
		}
	}
	return best, found
}

// hxEq: the relations establish x == k.
func hxEq(rels []hxRel, isX func(ssa.Value) bool, k int64) bool {
	lo, ok1 := hxLower(rels, isX)
	hi, ok2 := hxUpper(rels, isX)
	return ok1 && ok2 && lo == k && hi == k
}

// hxLE: the relations establish a <= b (ok) or even a < b (strict) for values
// accepted by isA / isB.
func hxLE(rels []hxRel, isA, isB func(ssa.Value) bool) (strict, ok bool) {
	for _, r := range rels {
		l, rr, op := r.L, r.R, r.Op
		if isB(l) && isA(rr) && !(isA(l) && isB(rr)) {
			l, rr, op = rr, l, hxFlipOp(op)
		}
		if !isA(l) || !isB(rr) {
			continue
		}
		switch op {
		case token.LSS:
			strict, ok = true, true
		case token.LEQ, token.EQL:
			ok = true
		}
	}
	return
}

// hxErr classifies an error-typed result value.
type hxErr struct {
	Nil     bool   // the nil constant
	NonNil  bool   // certainly non-nil (boxed concrete value or package error variable)
	Type    string // concrete type name when boxed ("ConnectionError", "connError", "StreamError", "DecodingError")
	Global  string // name of the package-level error variable loaded
	Code    int64  // value stored into the .Code field of a boxed composite literal
	HasCode bool
	From    ssa.Value // for pass-through: the underlying value (call result, extract)
}

func hxErrOf(v ssa.Value) hxErr {
	if v == nil {
		return hxErr{}
	}
	if hxIsNil(v) {
		return hxErr{Nil: true}
	}
	v0 := v
	if u, ok := v.(*ssa.UnOp); ok && u.Op == token.MUL {
		if _, isAlloc := u.X.(*ssa.Alloc); isAlloc {
			r := hxResolve(v)
			if r != v {
				return hxErrOf(r)
			}
		}
	}
	switch x := v.(type) {
	case *ssa.MakeInterface:
		e := hxErr{NonNil: true, From: v0}
		t := x.X.Type()
		if n, ok := t.(*types.Named); ok {
			e.Type = n.Obj().Name()
		} else if p, ok := t.(*types.Pointer); ok {
			if n, ok := p.Elem().(*types.Named); ok {
				e.Type = "*" + n.Obj().Name()
			}
		}
		if u, ok := x.X.(*ssa.UnOp); ok && u.Op == token.MUL {
			switch a := u.X.(type) {
			case *ssa.Alloc:
				if a.Referrers() != nil {
					for _, r := range *a.Referrers() {
						fa, ok := r.(*ssa.FieldAddr)
						if !ok || fa.Referrers() == nil {
							continue
						}
						fo := core.FieldObj(fa.X, fa.Field)
						if fo == nil || fo.Name() != "Code" {
							continue
						}
						for _, rr := range *fa.Referrers() {
							if st, ok := rr.(*ssa.Store); ok && st.Addr == fa {
								if k, ok := hxConstInt(st.Val); ok {
									e.Code, e.HasCode = k, true
								}
							}
						}
					}
				}
			case *ssa.Global:
				e.Global = a.Name()
			}
		}
		return e
	case *ssa.UnOp:
		if g, ok := x.X.(*ssa.Global); ok && x.Op == token.MUL {
			return hxErr{NonNil: true, Global: g.Name(), From: v0}
		}
	case *ssa.Call:
		if core.CallIs(&x.Call, "errors.New", "fmt.Errorf") {
			return hxErr{NonNil: true, Type: "error", From: v0}
		}
		// a constructor whose every return is a boxed value (one level)
		if sc := x.Call.StaticCallee(); sc != nil && sc.Blocks != nil && sc.Signature.Results().Len() == 1 {
			var first hxErr
			all, n := true, 0
			for _, r := range core.Returns(sc) {
				if _, isCall := r.Results[0].(*ssa.Call); isCall {
					all = false
					break
				}
				e := hxErrOf(r.Results[0])
				if !e.NonNil {
					all = false
				}
				if n == 0 {
					first = e
				}
				n++
			}
			if all && n > 0 {
				first.From = v0
				first.HasCode = false
				return first
			}
		}
	}
	return hxErr{From: v0}
}

// hxErrResult returns the last result (the error) of a return, looking
// through defer spills.
func hxErrResult(r *ssa.Return) ssa.Value {
	rv := core.RetVals(r)
	if len(rv) == 0 {
		return nil
	}
	return rv[len(rv)-1]
}

// hxErrNonNilAt: the error value v is known to be non-nil at block b: it is
// a boxed value / package error, or b is guarded by `v != nil`.
func hxErrNonNilAt(v ssa.Value, b *ssa.BasicBlock) bool {
	e := hxErrOf(v)
	if e.NonNil {
		return true
	}
	if e.Nil {
		return false
	}
	src := hxResolve(v)
	for _, r := range hxRelsAt(b) {
		if r.Op == token.NEQ && hxIsNil(r.R) && hxSame(hxResolve(r.L), src) {
			return true
		}
		if r.Op == token.NEQ && hxIsNil(r.L) && hxSame(hxResolve(r.R), src) {
			return true
		}
	}
	return false
}

// hxAffine computes v as sum(coef*atom)+c over +,-,conversions and constants;
// atoms are canonical access paths of everything else.
func hxAffine(v ssa.Value) (map[string]int64, int64) {
	terms := map[string]int64{}
	var c int64
	var walk func(v ssa.Value, sign int64, d int)
	walk = func(v ssa.Value, sign int64, d int) {
		v = hxResolve(v)
		if k, ok := hxConstInt(v); ok {
			c += sign * k
			return
		}
		if b, ok := v.(*ssa.BinOp); ok && d < 12 {
			switch b.Op {
			case token.ADD:
				walk(b.X, sign, d+1)
				walk(b.Y, sign, d+1)
				return
			case token.SUB:
				walk(b.X, sign, d+1)
				walk(b.Y, -sign, d+1)
				return
			}
		}
		terms[core.Render(v)] += sign
	}
	walk(v, 1, 0)
	for k, n := range terms {
		if n == 0 {
			delete(terms, k)
		}
	}
	return terms, c
}

func hxAffineStr(t map[string]int64, c int64) string {
	var ks []string
	for k := range t {
		ks = append(ks, k)
	}
	sort.Strings(ks)
	var sb strings.Builder
	for _, k := range ks {
		sb.WriteString(strings.TrimSpace(strings.Join([]string{itoa64(t[k]), "*", k, " "}, "")))
		sb.WriteString(" + ")
	}
	sb.WriteString(itoa64(c))
	return sb.String()
}

func itoa64(n int64) string { return constant.MakeInt64(n).ExactString() }

// hxSlice reports whether the backward slice of v (through phis, arithmetic,
// conversions) contains a value satisfying pred.
func hxSliceHas(v ssa.Value, pred func(ssa.Value) bool) bool {
	seen := map[ssa.Value]bool{}
	var walk func(v ssa.Value, d int) bool
	walk = func(v ssa.Value, d int) bool {
		if v == nil || seen[v] || d > 40 {
			return false
		}
		seen[v] = true
		if pred(v) {
			return true
		}
		switch x := v.(type) {
		case *ssa.Parameter:
			if a, ok := hxParamArg(x); ok {
				return walk(a, d+1)
			}
		case *ssa.Phi:
			for _, e := range x.Edges {
				if walk(e, d+1) {
					return true
				}
			}
		case *ssa.BinOp:
			return walk(x.X, d+1) || walk(x.Y, d+1)
		case *ssa.UnOp:
			if x.Op != token.MUL {
				return walk(x.X, d+1)
			}
		case *ssa.Convert:
			return walk(x.X, d+1)
		case *ssa.ChangeType:
			return walk(x.X, d+1)
		}
		return false
	}
	return walk(v, 0)
}

// hxReach returns the set of blocks reachable from b (b included).
func hxReach(b *ssa.BasicBlock) map[*ssa.BasicBlock]bool {
	seen := map[*ssa.BasicBlock]bool{b: true}
	work := []*ssa.BasicBlock{b}
	for len(work) > 0 {
		x := work[len(work)-1]
		work = work[:len(work)-1]
		for _, s := range x.Succs {
			if !seen[s] {
				seen[s] = true
				work = append(work, s)
			}
		}
	}
	return seen
}

// hxInstrs lists the instructions of fn.
func hxInstrs(fn *ssa.Function) []ssa.Instruction {
	var out []ssa.Instruction
	if fn == nil {
		return nil
	}
	core.Instrs(fn, func(in ssa.Instruction) { out = append(out, in) })
	return out
}

// hxFieldOf: v is (a load of) field `name` of some struct; returns the field
// object and the struct operand.
func hxFieldOf(v ssa.Value) (*types.Var, ssa.Value) {
	v = hxResolve(v)
	switch x := v.(type) {
	case *ssa.Field:
		return core.FieldObj(x.X, x.Field), x.X
	case *ssa.FieldAddr:
		return core.FieldObj(x.X, x.Field), x.X
	case *ssa.UnOp:
		if fa, ok := x.X.(*ssa.FieldAddr); ok && x.Op == token.MUL {
			return core.FieldObj(fa.X, fa.Field), fa.X
		}
	}
	return nil, nil
}

// hxIsField: v reads the given field object.
func hxIsField(v ssa.Value, f *types.Var) bool {
	if f == nil {
		return false
	}
	fo, _ := hxFieldOf(v)
	return fo == f
}

// hxCallOf returns the call instruction v is (an extract of) and the index.
func hxCallOf(v ssa.Value) (*ssa.Call, int) {
	v = hxResolve(v)
	switch x := v.(type) {
	case *ssa.Call:
		return x, -1
	case *ssa.Extract:
		if c, ok := x.Tuple.(*ssa.Call); ok {
			return c, x.Index
		}
	}
	return nil, -1
}

// hxExtract returns the Extract #i of a tuple-valued call (nil if unused).
func hxExtract(call *ssa.Call, i int) ssa.Value {
	if call.Referrers() == nil {
		return nil
	}
	for _, r := range *call.Referrers() {
		if e, ok := r.(*ssa.Extract); ok && e.Index == i {
			return e
		}
	}
	return nil
}

// hxErrChecked decides, for a call whose last result is an error: every path
// from the call to a return or to an instruction satisfying effect passes a
// branch on `err != nil` (or == nil) of this call's error, and on the error
// branch no effect is reachable and every return carries a non-nil error.
// It returns a description of what is wrong, "" when the obligation holds.
func hxErrChecked(fn *ssa.Function, call *ssa.Call, effect func(ssa.Instruction) bool) string {
	fn = call.Parent() // the obligation is decided in the frame of the call (a region helper or the anchor)
	sig := call.Call.Signature()
	n := sig.Results().Len()
	if n == 0 {
		return "callee has no results"
	}
	var errv ssa.Value = call
	if n > 1 {
		errv = hxExtract(call, n-1)
		if errv == nil {
			return "the error result is discarded"
		}
	}
	// the If that tests it
	var test *ssa.If
	var errSucc *ssa.BasicBlock
	for _, in := range hxInstrs(fn) {
		ifi, ok := in.(*ssa.If)
		if !ok {
			continue
		}
		r, ok := hxRelOf(ifi.Cond, true)
		if !ok || (r.Op != token.NEQ && r.Op != token.EQL) {
			continue
		}
		var other ssa.Value
		switch {
		case hxIsNil(r.R):
			other = r.L
		case hxIsNil(r.L):
			other = r.R
		default:
			continue
		}
		if hxResolve(other) != errv {
			continue
		}
		test = ifi
		if r.Op == token.NEQ {
			errSucc = ifi.Block().Succs[0]
		} else {
			errSucc = ifi.Block().Succs[1]
		}
		break
	}
	if test == nil {
		// `return f()`: every path from the call ends in a return of this very error, before any effect
		handed := false
		bad := core.ReachAvoiding(fn, call, nil, func(in ssa.Instruction) bool {
			if r, isRet := in.(*ssa.Return); isRet {
				if hxResolve(hxErrResult(r)) == errv {
					handed = true
					return false
				}
				return true
			}
			return effect != nil && effect(in)
		})
		if handed && bad == nil && fn.Signature.Results().Len() > 0 {
			return ""
		}
		return "the error result is never compared with nil"
	}
	isTest := func(in ssa.Instruction) bool { return in == ssa.Instruction(test) }
	if bad := core.ReachAvoiding(fn, call, isTest, func(in ssa.Instruction) bool {
		if r, isRet := in.(*ssa.Return); isRet {
			// a return that hands the untested error on to the caller is the
			// `return f()` idiom: the caller's test is a separate obligation
			return hxResolve(hxErrResult(r)) != errv
		}
		return effect != nil && effect(in)
	}); bad != nil {
		return "a path from the call reaches " + hxDescribe(bad) + " before the error is tested"
	}
	// error branch: only non-nil error returns, no effects
	if len(errSucc.Preds) != 1 {
		return "the error branch is shared with other paths"
	}
	for b := range hxReach(errSucc) {
		for _, in := range b.Instrs {
			if effect != nil && effect(in) {
				return "the error branch reaches " + hxDescribe(in)
			}
			if r, ok := in.(*ssa.Return); ok {
				ev := hxErrResult(r)
				if ev == nil {
					return "the error branch returns no error"
				}
				if hxResolve(ev) == errv || hxErrOf(ev).NonNil {
					continue
				}
				return "the error branch returns " + core.Render(ev) + ", not the error"
			}
		}
	}
	return ""
}

func hxDescribe(in ssa.Instruction) string {
	switch x := in.(type) {
	case *ssa.Return:
		return "a return"
	case *ssa.Store:
		return "the store to " + core.Render(x.Addr)
	case ssa.CallInstruction:
		return "the call of " + core.CalleeKey(x.Common())
	}
	return "an effect"
}

// hxVarLit finds the composite literal initialising package-level variable
// name of package rel, with the package's type info.
func hxVarLit(p *core.Prog, rel, name string) (*ast.CompositeLit, *types.Info) {
	pk := p.Pkg(rel)
	if pk == nil {
		return nil, nil
	}
	obj := pk.Types.Scope().Lookup(name)
	if obj == nil {
		return nil, nil
	}
	for _, f := range pk.Syntax {
		for _, d := range f.Decls {
			gd, ok := d.(*ast.GenDecl)
			if !ok {
				continue
			}
			for _, s := range gd.Specs {
				vs, ok := s.(*ast.ValueSpec)
				if !ok {
					continue
				}
				for i, id := range vs.Names {
					if pk.TypesInfo.Defs[id] == obj && i < len(vs.Values) {
						if cl, ok := vs.Values[i].(*ast.CompositeLit); ok {
							return cl, pk.TypesInfo
						}
					}
				}
			}
		}
	}
	return nil, nil
}

// hxConstOf returns the constant value the type checker computed for e.
func hxConstOf(info *types.Info, e ast.Expr) constant.Value {
	if tv, ok := info.Types[e]; ok {
		return tv.Value
	}
	return nil
}

// hxUniq removes duplicates from a sorted slice.
func hxUniq(s []string) []string {
	var out []string
	for i, x := range s {
		if i == 0 || x != s[i-1] {
			out = append(out, x)
		}
	}
	return out
}

// hxDominatingStore: the value of the unique store to alloc a that dominates
// the load u with no other store to a able to intervene (named results that
// are assigned in one block and returned from a later one).
func hxDominatingStore(a *ssa.Alloc, u *ssa.UnOp) ssa.Value {
	if a.Referrers() == nil {
		return nil
	}
	var stores []*ssa.Store
	for _, r := range *a.Referrers() {
		switch x := r.(type) {
		case *ssa.Store:
			if x.Addr == ssa.Value(a) {
				stores = append(stores, x)
			}
		case *ssa.UnOp, *ssa.DebugRef:
		case *ssa.FieldAddr:
			if x.Referrers() != nil {
				for _, rr := range *x.Referrers() {
					switch rr.(type) {
					case *ssa.UnOp, *ssa.DebugRef:
					default:
						return nil // a field is written or its address escapes
					}
				}
			}
		default:
			return nil // address escapes
		}
	}
	var found *ssa.Store
	for b := u.Block().Idom(); b != nil && found == nil; b = b.Idom() {
		for _, in := range b.Instrs {
			if st, ok := in.(*ssa.Store); ok && st.Addr == ssa.Value(a) {
				found = st
			}
		}
	}
	if found == nil {
		return nil
	}
	after := hxReach(found.Block())
	for _, st := range stores {
		if st == found || st.Block() == found.Block() {
			continue
		}
		if st.Block() == u.Block() {
			continue // stores in the load's block before the load were handled by the caller; later ones do not matter
		}
		if after[st.Block()] && hxReach(st.Block())[u.Block()] {
			return nil
		}
	}
	return found.Val
}

// hxIndexBounds: constant indexes / slice bounds of slices in a wire reader
// are below a lower bound on len() established by the guards.
func hxIndexBounds(c *core.Ctx, rule string, fn *ssa.Function) {
	n := 0
	for _, in := range hxInstrs(fn) {
		var x ssa.Value
		need := int64(-1)
		switch v := in.(type) {
		case *ssa.IndexAddr:
			if _, isSlice := v.X.Type().Underlying().(*types.Slice); !isSlice {
				continue
			}
			k, ok := hxConstInt(v.Index)
			if !ok {
				continue
			}
			x, need = v.X, k+1
		case *ssa.Slice:
			if _, isSlice := v.X.Type().Underlying().(*types.Slice); !isSlice {
				continue
			}
			for _, bnd := range []ssa.Value{v.Low, v.High} {
				if bnd == nil {
					continue
				}
				if k, ok := hxConstInt(bnd); ok && k > need {
					need = k
				}
			}
			if need <= 0 {
				continue
			}
			x = v.X
		default:
			continue
		}
		lo, has := hxLower(hxRelsAt(in.Block()), func(v ssa.Value) bool { return hxIsLenOf(v, x) })
		c.Check(rule, fmt.Sprintf("%s:access#%d", core.FuncKey(fn), n), in.Pos(), has && lo >= need,
			fmt.Sprintf("%s is indexed/sliced up to %d but the guards only establish len >= %d (found=%v): %s", core.Render(x), need, lo, has, hxRelStrs(hxRelsAt(in.Block()))))
		n++
	}
}

// hxDisjGuard: some dominator D of b (b included) is entered only through
// edges that establish a guard accepted by match. Guards are SSA values, so a
// fact established on every way into a dominator still describes the values
// it was computed from when b runs.
func hxDisjGuard(b *ssa.BasicBlock, match func(g core.Guard) bool) bool {
	for depth := 0; depth < 5 && b != nil; depth++ {
		for d := b; d != nil; d = d.Idom() {
			if hxAllEdgesGuarded(d, match) {
				return true
			}
		}
		s, ok := hxSiteOf.Load(b.Parent())
		if !ok {
			break
		}
		b = s.(*ssa.Call).Block()
	}
	return false
}

// hxIsFirstByteOf: v is <struct>.f[0] for the slice-typed field f.
func hxIsFirstByteOf(v ssa.Value, f *types.Var) bool {
	u, ok := hxResolve(v).(*ssa.UnOp)
	if !ok || u.Op != token.MUL {
		return false
	}
	ia, ok := u.X.(*ssa.IndexAddr)
	if !ok {
		return false
	}
	k, isK := hxConstInt(ia.Index)
	return isK && k == 0 && hxIsField(ia.X, f)
}
