package rules

import (
	"fmt"
	"go/token"
	"go/types"
	"sort"
	"strings"

	"golang.org/x/tools/go/ssa"

	"verif/internal/core"
)

// C19 — IP dictionaries report exact membership.
//
// Typestate of an *ipdict.IPItems value inside one function:
//
//	none -> new (NewIPItems) -> dirty (Insert*) -> sorted (Sort) [-> published (IPTable.Update)]
const (
	c19None = 1 << iota
	c19New
	c19Dirty
	c19Sorted
	c19Pub
)

func c19State(s uint32) string {
	var p []string
	for i, n := range []string{"not-created", "new", "inserted-unsorted", "sorted", "published"} {
		if s&(1<<i) != 0 {
			p = append(p, n)
		}
	}
	return "{" + strings.Join(p, ",") + "}"
}

func init() {
	Register(&Rule{
		ID: "C19", Section: "5 C19",
		Technique: "typestate dataflow over *ipdict.IPItems (new/inserted/sorted/published) in every function on the producer chain of IPTable.Update, dominance rules inside IPItems.Sort, sibling agreement between ipPairs.Less, the sort.Search predicate and the end-of-range test (evaluated on the three outcomes of bytes.Compare), normaliser agreement (net.IP.To16) between insert and lookup, lock-set on IPTable.ipItems, who-may-write census of IPItems.items, operand provenance and guard/store agreement in the merge step (checkMerge/mergeItems and helpers), tombstone write/test agreement, natural-loop analysis of the merge step (single exit, induction variable, reviewed scan ranges, skip-edge classification)",
		Meta: core.Meta{
			Level:       "other",
			Explanation: "Decides: (a) every *IPItems handed to IPTable.Update comes from a producer (ipItemsMake, GlobalIPTableLoad -> TxtFileLoader.CheckAndLoad) that returns it only in state sorted (no InsertPair/InsertSingle or other mutator after the last Sort() on any path), Update is reached only when the producer's error is nil, and nothing mutates the value after it was published; the errors of InsertPair/InsertSingle are looked at by the producers, and a loader uses InsertSingle only under start == end; (b) IPItems.Sort sorts before mergeItems, sorts again on every path after it, and truncates items to len-mergedNum after that second sort; (c) ipPairs.Less orders by startIP descending and the sort.Search predicate in IPTable.Search is `items[i].startIP <= probe` (non-strict, same field, same direction), a hit is reported only for a set hit (HashSet.Exist(probe)) or under index < len && items[index].endIP >= probe with index the result of that sort.Search, on the items snapshot read under the lock; (d) stored bounds, stored singles and the probe are all net.IP.To16 values, InsertPair appends only after checkIPPair succeeded and checkIPPair accepts exactly start <= end; (e) IPTable.ipItems is read and written under t.lock; IPItems.items is written only by NewIPItems/InsertPair/Sort and its elements only by checkMerge/Swap.; (f) in the merge step (every in-package function reachable from IPItems.Sort): every bytes.Compare / Equal compares stored bounds (ipPair.startIP/endIP, possibly passed through a helper parameter) or net.IPv6zero/IPv4zero, never a value computed from a bound (address arithmetic wraps at the ends of the address space); a bound of one element is overwritten with the same bound of another element only under a guard that compares the absorbed element's endIP with the overwritten bound and holds for '>' and not for '<'; a merged entry gets both bounds set to net.IPv6zero; every 'already merged' test reads endIP (a startIP test only in conjunction with an endIP test on the same pair), and the value written as tombstone is one the tests compare endIP with.; (g) the pair scan of the merge step is exhaustive: every loop of mergeItems/checkMerge (and helpers) is an index scan that is left only through its own condition `index < bound` (no break/return/panic inside), advances by exactly one, and covers one of the reviewed complete ranges ([0,len(items)), [0,len(items)-1) with a nested scan of the rest, [outer index+1,len(items)), or all indices strictly between two index parameters); the merge helper is called with (absorbing, absorbed) = (outer index, index of the scan that starts right after it), the roles being read off the helper's `items[a].startIP = items[b].startIP`; on the way from the loop head to that call a pair is skipped only by an 'already merged' test (Equal with net.IPv6zero/IPv4zero on a stored bound, also through a helper) or by `absorbed.endIP < absorbing.startIP` (provably disjoint). Refactoring-robust reading: a reviewed writer / the merge helper is taken together with its private helpers (unexported functions whose every call site lies inside it), index and pair arguments are followed through helper parameters to the call sites, a tombstone written by a private helper that receives the entry through its parameters is one instance per call site of that helper, conditions evaluated into named booleans (`merged := a || b; if merged`, early returns, inverted tests) are read through their phi with the branch polarity folded in, a helper that receives two indices but never joins two ranges (it only marks the entries between them) is not a pair call, and the truncation bound may be clamped at 0 under `bound < 0`. Not covered: that the list is really in descending start order when the scan runs beyond what (b) states, the degenerate range ::-:: (it equals a tombstone), the odd index in mergeItems' inner IPv4zero test (items[i] instead of items[j]; harmless: tombstones are written as IPv6zero), the non-strict ipPairs.Less, hash-set behaviour (C20), parsing of the dictionary files. A correct saturating 'merge adjacent ranges' extension would be reported by merge-operands as a form the rule cannot follow.",
			RuleText:    "obligations = each return / Update / mutator event of the functions on the producer chain with the abstract state reaching it; the ordering facts of Sort; the comparison shapes of Less, the Search predicate, the range-end test and checkIPPair; each To16 normalisation site; each access of IPTable.ipItems; each writer of IPItems.items; each comparison, each bound-overwriting store, each tombstone write and each zero test of the merge step; each loop of the merge step (single exit, scan range), each call that receives a pair of indices (order, skip filters)",
			Assumptions: []string{"sort.Sort leaves the slice ordered by Less; sort.Search returns the first index for which the predicate holds", "functions outside bfe_util/ipdict can reach IPItems.items only through the exported methods (the field is unexported)"},
		},
		Run: runC19,
		Mutants: []Mutant{
			{Name: "trust-sort-dropped", File: "bfe_modules/mod_trust_clientip/mod_trust_clientip.go", Old: "	// Load succ, sort dict\n	ipItems.Sort()\n", New: "	// Load succ, sort dict\n", Expect: "sorted-at-sink|mod_trust_clientip.ipItemsMake"},
			{Name: "txt-sort-dropped-on-maxline", File: "bfe_util/ipdict/txt_load/txt_load.go", Old: "		if singleIPCounter > singleIPNum || pairIPCounter > pairIPNum {\n			//sort dict\n			ipItems.Sort()\n", New: "		if singleIPCounter > singleIPNum || pairIPCounter > pairIPNum {\n			//sort dict\n", Expect: "sorted-at-sink|txt_load.TxtFileLoader.CheckAndLoad"},
			{Name: "txt-insert-after-sort", File: "bfe_util/ipdict/txt_load/txt_load.go", Old: "	// Load succ, sort dict\n	ipItems.Sort()\n	ipItems.Version = newVersion\n", New: "	// Load succ, sort dict\n	ipItems.Sort()\n	ipItems.Version = newVersion\n	ipItems.InsertPair(startIP, endIP)\n", Expect: "sorted-at-sink|txt_load.TxtFileLoader.CheckAndLoad"},
			{Name: "less-ascending", File: "bfe_util/ipdict/ipdict.go", Old: "	return bytes.Compare(items[i].startIP, items[j].startIP) >= 0", New: "	return bytes.Compare(items[i].startIP, items[j].startIP) <= 0", Expect: "search-direction"},
			{Name: "search-pred-strict", File: "bfe_util/ipdict/iptable.go", Old: "bytes.Compare(items[i].startIP, ip16) <= 0 })", New: "bytes.Compare(items[i].startIP, ip16) < 0 })", Expect: "search-direction"},
			{Name: "search-end-strict", File: "bfe_util/ipdict/iptable.go", Old: "		if bytes.Compare(items[i].endIP, ip16) >= 0 {", New: "		if bytes.Compare(items[i].endIP, ip16) > 0 {", Expect: "search-hit"},
			{Name: "search-bound-check-dropped", File: "bfe_util/ipdict/iptable.go", Old: "	if i < itemsLen {\n		if bytes.Compare(items[i].endIP, ip16) >= 0 {", New: "	if i <= itemsLen {\n		if bytes.Compare(items[i].endIP, ip16) >= 0 {", Expect: "search-hit"},
			{Name: "second-sort-dropped", File: "bfe_util/ipdict/ipdict.go", Old: "	length := len(ipItems.items) - mergedNum\n\n	// Sort items according startIP by descending order\n	sort.Sort(ipItems.items)\n", New: "	length := len(ipItems.items) - mergedNum\n", Expect: "sort-structure"},
			{Name: "truncate-dropped", File: "bfe_util/ipdict/ipdict.go", Old: "	ipItems.items = ipItems.items[0:length]", New: "	_ = length", Expect: "sort-structure"},
			{Name: "insert-not-normalised", File: "bfe_util/ipdict/ipdict.go", Old: "	ipItems.items = append(ipItems.items, ipPair{startIP16, endIP16})", New: "	_, _ = startIP16, endIP16\n	ipItems.items = append(ipItems.items, ipPair{startIP, endIP})", Expect: "norm16"},
			{Name: "update-before-error-check", File: "bfe_modules/mod_block/mod_block.go", Old: "	items, err := GlobalIPTableLoad(path)\n	if err != nil {", New: "	items, err := GlobalIPTableLoad(path)\n	m.ipTable.Update(items)\n	if err != nil {", Expect: "update-guard"},
			{Name: "search-unlocked", File: "bfe_util/ipdict/iptable.go", Old: "	var hit bool\n	t.lock.Lock()\n	ipItems := t.ipItems\n	t.lock.Unlock()", New: "	var hit bool\n	ipItems := t.ipItems", Expect: "table-lock"},
			{Name: "pair-order-check-inverted", File: "bfe_util/ipdict/ipdict_util.go", Old: "	if bytes.Compare(startIP16, endIP16) == 1 {", New: "	if bytes.Compare(startIP16, endIP16) == -1 {", Expect: "pair-order"},
			{Name: "single-pair-dispatch-inverted", File: "bfe_util/ipdict/txt_load/txt_load.go", Old: "		if bytes.Compare(startIP, endIP) == 0 {\n			// startIp == endIP insert single", New: "		if bytes.Compare(startIP, endIP) != 0 {\n			// startIp == endIP insert single", Expect: "single-dispatch"},
			{Name: "merge-compares-derived-bound", File: "bfe_util/ipdict/ipdict.go", Old: "		if bytes.Compare(items[j].endIP, items[i].endIP) >= 0 {", New: "		if bytes.Compare(items[j].endIP.Mask(net.CIDRMask(120, 128)), items[i].endIP) >= 0 {", Expect: "merge-operands|IPItems.checkMerge"},
			{Name: "merge-end-shrinks", File: "bfe_util/ipdict/ipdict.go", Old: "		if bytes.Compare(items[j].endIP, items[i].endIP) >= 0 {", New: "		if bytes.Compare(items[j].endIP, items[i].endIP) <= 0 {", Expect: "merge-guard|IPItems.checkMerge:absorb-end"},
			{Name: "merge-trigger-reads-own-end", File: "bfe_util/ipdict/ipdict.go", Old: "	if bytes.Compare(items[j].endIP, items[i].startIP) >= 0 {", New: "	if bytes.Compare(items[i].endIP, items[i].startIP) >= 0 {", Expect: "merge-guard|IPItems.checkMerge:absorb-start"},
			{Name: "tombstone-test-on-start-outer-loop", File: "bfe_util/ipdict/ipdict.go", Old: "		if items[i].endIP.Equal(net.IPv6zero) || items[i].endIP.Equal(net.IPv4zero) {", New: "		if items[i].startIP.Equal(net.IPv6zero) || items[i].startIP.Equal(net.IPv4zero) {", Expect: "tombstone-test|IPItems.mergeItems"},
			{Name: "tombstone-keeps-start", File: "bfe_util/ipdict/ipdict.go", Old: "		items[j].startIP = net.IPv6zero\n", New: "", Expect: "tombstone-write|IPItems.checkMerge"},
			{Name: "tombstone-written-as-v4-zero", File: "bfe_util/ipdict/ipdict.go", Old: "			items[k].startIP = net.IPv6zero\n			items[k].endIP = net.IPv6zero", New: "			items[k].startIP = net.IPv4zero\n			items[k].endIP = net.IPv4zero", Expect: "tombstone-write|IPItems.checkMerge"},
			{Name: "scan-tombstone-loop-breaks-at-merged-entry", File: "bfe_util/ipdict/ipdict.go", Old: "			if items[k].endIP.Equal(net.IPv6zero) || items[k].endIP.Equal(net.IPv4zero) {\n				continue\n			}", New: "			if items[k].endIP.Equal(net.IPv6zero) || items[k].endIP.Equal(net.IPv4zero) {\n				break\n			}", Expect: "merge-scan|IPItems.checkMerge:loop#1:single-exit"},
			{Name: "scan-stops-at-first-disjoint-after-merge", File: "bfe_util/ipdict/ipdict.go", Old: "			mergedNum += ipItems.checkMerge(i, j)\n", New: "			n := ipItems.checkMerge(i, j)\n			if n == 0 && mergedNum > 0 {\n				break\n			}\n			mergedNum += n\n", Expect: "merge-scan|IPItems.mergeItems:loop#2:single-exit"},
			{Name: "scan-inner-starts-late", File: "bfe_util/ipdict/ipdict.go", Old: "		for j := i + 1; j < length; j++ {", New: "		for j := i + 2; j < length; j++ {", Expect: "merge-scan|IPItems.mergeItems:loop#2:range"},
			{Name: "scan-outer-stops-short", File: "bfe_util/ipdict/ipdict.go", Old: "	for i := 0; i < length-1; i++ {", New: "	for i := 0; i < length-2; i++ {", Expect: "merge-scan|IPItems.mergeItems:loop#1:range"},
			{Name: "scan-pair-swapped", File: "bfe_util/ipdict/ipdict.go", Old: "			mergedNum += ipItems.checkMerge(i, j)\n", New: "			mergedNum += ipItems.checkMerge(j, i)\n", Expect: "merge-scan|IPItems.mergeItems:pair-call#1:order"},
			{Name: "scan-skips-pairs-ending-below", File: "bfe_util/ipdict/ipdict.go", Old: "			mergedNum += ipItems.checkMerge(i, j)\n", New: "			if bytes.Compare(items[j].endIP, items[i].endIP) < 0 {\n				continue\n			}\n			mergedNum += ipItems.checkMerge(i, j)\n", Expect: "merge-scan|IPItems.mergeItems:pair-call#1:filters"},
			{Name: "silent-scan-disjoint-prefilter", File: "bfe_util/ipdict/ipdict.go", Old: "			mergedNum += ipItems.checkMerge(i, j)\n", New: "			if bytes.Compare(items[j].endIP, items[i].startIP) < 0 {\n				continue\n			}\n			mergedNum += ipItems.checkMerge(i, j)\n", Silent: true},
			{Name: "silent-scan-outer-range-loop", File: "bfe_util/ipdict/ipdict.go", Old: "	for i := 0; i < length-1; i++ {", New: "	for i := range items {", Silent: true},
			{Name: "silent-scan-count-separately", File: "bfe_util/ipdict/ipdict.go", Old: "			mergedNum += ipItems.checkMerge(i, j)\n", New: "			n := ipItems.checkMerge(i, j)\n			if n > 0 {\n				mergedNum += n\n			}\n", Silent: true},
			{Name: "silent-merged-helper-on-end", File: "bfe_util/ipdict/ipdict.go", Old: "			if items[k].endIP.Equal(net.IPv6zero) || items[k].endIP.Equal(net.IPv4zero) {\n				continue\n			}\n\n			items[k].startIP = net.IPv6zero\n			items[k].endIP = net.IPv6zero\n			mergedNum++\n		}\n	}\n\n	return mergedNum\n}\n", New: "			if items[k].merged() {\n				continue\n			}\n\n			items[k].startIP = net.IPv6zero\n			items[k].endIP = net.IPv6zero\n			mergedNum++\n		}\n	}\n\n	return mergedNum\n}\n\nfunc (p ipPair) merged() bool {\n	return p.endIP.Equal(net.IPv6zero) || p.endIP.Equal(net.IPv4zero)\n}\n", Silent: true},
			{Name: "silent-overlap-helper", File: "bfe_util/ipdict/ipdict.go", Old: "	if bytes.Compare(items[j].endIP, items[i].startIP) >= 0 {\n		items[i].startIP = items[j].startIP\n		if bytes.Compare(items[j].endIP, items[i].endIP) >= 0 {", New: "	lower, upper := items[j], items[i]\n	_ = upper\n	if bytes.Compare(items[j].endIP, items[i].startIP) >= 0 {\n		items[i].startIP = lower.startIP\n		if bytes.Compare(items[j].endIP, items[i].endIP) >= 0 {", Silent: true},
			{Name: "silent-tombstone-helper", File: "bfe_util/ipdict/ipdict.go", Old: "		items[j].startIP = net.IPv6zero\n		items[j].endIP = net.IPv6zero\n\n		mergedNum++\n", New: "		func(p *ipPair) {\n			p.startIP = net.IPv6zero\n			p.endIP = net.IPv6zero\n		}(&items[j])\n\n		mergedNum++\n", Silent: true},
			{Name: "silent-search-returns-comparison", File: "bfe_util/ipdict/iptable.go", Old: "	if i < itemsLen {\n		if bytes.Compare(items[i].endIP, ip16) >= 0 {\n			hit = true\n		}\n	}\n\n	return hit", New: "	if i >= itemsLen {\n		return hit\n	}\n	return bytes.Compare(items[i].endIP, ip16) >= 0", Silent: true},
			{Name: "silent-shared-tombstone-helper", File: "bfe_util/ipdict/ipdict.go", Old: "		items[j].startIP = net.IPv6zero\n		items[j].endIP = net.IPv6zero\n\n		mergedNum++\n\n		// Merge items [i+1, j)\n		for k := i + 1; k < j; k++ {\n			if items[k].endIP.Equal(net.IPv6zero) || items[k].endIP.Equal(net.IPv4zero) {\n				continue\n			}\n\n			items[k].startIP = net.IPv6zero\n			items[k].endIP = net.IPv6zero\n			mergedNum++\n		}\n	}\n\n	return mergedNum\n}\n", New: "		markMerged(items, j)\n\n		mergedNum++\n\n		// Merge items [i+1, j)\n		mergedNum += markBetween(items, i, j)\n	}\n\n	return mergedNum\n}\n\nfunc markMerged(ps ipPairs, at int) {\n	ps[at].endIP = net.IPv6zero\n	ps[at].startIP = net.IPv6zero\n}\n\nfunc markBetween(ps ipPairs, lo, hi int) int {\n	n := 0\n	for at := lo + 1; at < hi; at++ {\n		if ps[at].endIP.Equal(net.IPv6zero) || ps[at].endIP.Equal(net.IPv4zero) {\n			continue\n		}\n		markMerged(ps, at)\n		n++\n	}\n	return n\n}\n", Silent: true},
			{Name: "silent-sort-clamps-length", File: "bfe_util/ipdict/ipdict.go", Old: "	length := len(ipItems.items) - mergedNum\n", New: "	length := len(ipItems.items) - mergedNum\n	if length < 0 {\n		length = 0\n	}\n", Silent: true},
			{Name: "silent-scan-named-merged-flag", File: "bfe_util/ipdict/ipdict.go", Old: "			if items[j].endIP.Equal(net.IPv6zero) || items[i].endIP.Equal(net.IPv4zero) {\n				continue\n			}\n", New: "			lowerGone := items[j].endIP.Equal(net.IPv6zero)\n			skip := lowerGone || items[i].endIP.Equal(net.IPv4zero)\n			if skip {\n				continue\n			}\n", Silent: true},
			{Name: "silent-merge-early-return", File: "bfe_util/ipdict/ipdict.go", Old: "	if bytes.Compare(items[j].endIP, items[i].startIP) >= 0 {\n		items[i].startIP = items[j].startIP\n", New: "	disjoint := bytes.Compare(items[j].endIP, items[i].startIP) < 0\n	if !disjoint {\n		items[i].startIP = items[j].startIP\n", Silent: true},
			{Name: "silent-sort-in-finishing-helper", File: "bfe_modules/mod_trust_clientip/mod_trust_clientip.go", Old: "	// Load succ, sort dict\n	ipItems.Sort()\n	ipItems.Version = conf.Version\n\n	return ipItems, nil", New: "	// Load succ, sort dict\n	finishDict(ipItems, conf.Version)\n\n	return ipItems, nil\n}\n\nfunc finishDict(d *ipdict.IPItems, version string) {\n	d.Sort()\n	d.Version = version", Silent: true},
			{Name: "finishing-helper-inserts-after-sort", File: "bfe_modules/mod_trust_clientip/mod_trust_clientip.go", Old: "	// Load succ, sort dict\n	ipItems.Sort()\n	ipItems.Version = conf.Version\n\n	return ipItems, nil", New: "	// Load succ, sort dict\n	finishDict(ipItems, conf.Version)\n\n	return ipItems, nil\n}\n\nfunc finishDict(d *ipdict.IPItems, version string) {\n	d.Sort()\n	d.Version = version\n	if err := d.InsertSingle(nil); err != nil {\n		return\n	}", Expect: "sorted-at-sink|mod_trust_clientip.ipItemsMake"},
			{Name: "silent-rename-and-log", File: "bfe_modules/mod_trust_clientip/mod_trust_clientip.go", Old: "	// Load succ, sort dict\n	ipItems.Sort()\n	ipItems.Version = conf.Version\n\n	return ipItems, nil", New: "	// Load succ, sort dict\n	ipItems.Version = conf.Version\n	result := ipItems\n	result.Sort()\n	_ = fmt.Sprintf(\"%d items\", result.Length())\n\n	return result, nil", Silent: true},
		},
	})
}

type c19ctx struct {
	c        *core.Ctx
	mutators map[*ssa.Function]bool
	sortFn   *ssa.Function
	newFn    *ssa.Function
	updFn    *ssa.Function
	reach    map[*ssa.Function]bool // memo: may reach a mutator
	verified map[*ssa.Function]int  // 0 unknown, 1 in progress, 2 ok, 3 bad
	itemsT   types.Type             // *ipdict.IPItems
	insSeen  map[ssa.Instruction]bool
}

const c19pkg = "bfe_util/ipdict"

func runC19(c *core.Ctx) {
	defer uuShapeGuard(c)
	p := c.P
	if p.Pkg(c19pkg) == nil {
		c.Missing(c19pkg)
		return
	}
	itemsFld, _ := p.Obj(c19pkg, "IPItems.items").(*types.Var)
	setFld, _ := p.Obj(c19pkg, "IPItems.ipSet").(*types.Var)
	tblFld, _ := p.Obj(c19pkg, "IPTable.ipItems").(*types.Var)
	startFld, _ := p.Obj(c19pkg, "ipPair.startIP").(*types.Var)
	endFld, _ := p.Obj(c19pkg, "ipPair.endIP").(*types.Var)
	for n, f := range map[string]*types.Var{"IPItems.items": itemsFld, "IPItems.ipSet": setFld, "IPTable.ipItems": tblFld, "ipPair.startIP": startFld, "ipPair.endIP": endFld} {
		if f == nil {
			c.Missing(c19pkg + "." + n)
		}
	}
	x := &c19ctx{c: c, mutators: map[*ssa.Function]bool{}, reach: map[*ssa.Function]bool{}, verified: map[*ssa.Function]int{}}
	x.sortFn = p.Func(c19pkg, "IPItems.Sort")
	x.newFn = p.Func(c19pkg, "NewIPItems")
	x.updFn = p.Func(c19pkg, "IPTable.Update")
	searchFn := p.Func(c19pkg, "IPTable.Search")
	lessFn := p.Func(c19pkg, "ipPairs.Less")
	for n, f := range map[string]*ssa.Function{"IPItems.Sort": x.sortFn, "NewIPItems": x.newFn, "IPTable.Update": x.updFn, "IPTable.Search": searchFn, "ipPairs.Less": lessFn} {
		if f == nil {
			c.Missing(c19pkg + "." + n)
		}
	}
	if itemsFld == nil || setFld == nil || tblFld == nil || startFld == nil || endFld == nil || x.sortFn == nil || x.newFn == nil || x.updFn == nil || searchFn == nil || lessFn == nil {
		return
	}
	if tn, ok := p.Obj(c19pkg, "IPItems").(*types.TypeName); ok {
		x.itemsT = types.NewPointer(tn.Type())
	}

	// ---- mutators of an IPItems and the who-may-write census ---------------
	var pkgFns []*ssa.Function
	for _, fn := range p.SrcFuncs(c19pkg) {
		if core.FuncPkgRel(fn) == c19pkg {
			pkgFns = append(pkgFns, fn)
		}
	}
	isPairsElem := func(addr ssa.Value) bool {
		for i := 0; i < 4 && addr != nil; i++ {
			switch a := addr.(type) {
			case *ssa.FieldAddr:
				addr = a.X
			case *ssa.IndexAddr:
				return strings.HasSuffix(core.TypeStr(a.X.Type()), "ipdict.ipPairs")
			default:
				return false
			}
		}
		return false
	}
	// reviewed writers, each with its private helpers (a helper extracted from a
	// reviewed writer, called from nowhere else, is part of that writer)
	writers := map[*ssa.Function]bool{}
	allowedItems, allowedElems := map[string]bool{}, map[string]bool{}
	for _, n := range []string{"NewIPItems", "IPItems.InsertPair", "IPItems.Sort"} {
		allowedItems[c19pkg+"."+n] = true
		for _, h := range p.Region(p.Func(c19pkg, n)) {
			allowedItems[core.FuncKey(h)] = true
		}
	}
	for _, n := range []string{"IPItems.checkMerge", "ipPairs.Swap"} {
		allowedElems[c19pkg+"."+n] = true
		for _, h := range p.Region(p.Func(c19pkg, n)) {
			allowedElems[core.FuncKey(h)] = true
		}
	}
	for _, fn := range p.SrcFuncs("") {
		inPkg := core.FuncPkgRel(fn) == c19pkg
		wItems, wElem, wSet := false, false, false
		var pos token.Pos
		core.Instrs(fn, func(in ssa.Instruction) {
			switch v := in.(type) {
			case *ssa.Store:
				if f, _ := uuFieldAddr(v.Addr); f == itemsFld {
					wItems, pos = true, v.Pos()
				} else if isPairsElem(v.Addr) {
					wElem, pos = true, v.Pos()
				}
			case ssa.CallInstruction:
				if inPkg && core.CallIs(v.Common(), "bfe_util/hash_set.HashSet.Add", "bfe_util/hash_set.HashSet.Remove") {
					if f, _ := uuFieldLoad(v.Common().Args[0]); f == setFld {
						wSet = true
					}
				}
			}
		})
		k := core.FuncKey(fn)
		if wItems {
			c.Check("items-writers", k+":items", pos, allowedItems[k], "IPItems.items is assigned in "+k+"; reviewed writers are NewIPItems (allocation), InsertPair (append) and Sort (truncate after merge) — any other writer can leave a published table unsorted")
		}
		if wElem {
			c.Check("items-writers", k+":elements", pos, allowedElems[k], "elements of an ipPairs slice are overwritten in "+k+"; reviewed writers are checkMerge (merge + tombstone) and ipPairs.Swap")
		}
		if inPkg && (wItems || wElem || wSet) && fn != x.newFn {
			writers[fn] = true
		}
	}
	c.Min("items-writers", 5)
	// functions calling a writer are writers (mergeItems -> checkMerge -> a
	// receiver-less helper that does the stores); the mutators of an IPItems
	// are the methods among them
	for changed := true; changed; {
		changed = false
		for _, fn := range pkgFns {
			if writers[fn] || fn == x.newFn {
				continue
			}
			for _, call := range core.AllCalls(fn) {
				if sc := call.Common().StaticCallee(); sc != nil && writers[sc] {
					writers[fn], changed = true, true
				}
			}
		}
	}
	for fn := range writers {
		if fn.Signature.Recv() != nil {
			x.mutators[fn] = true
		}
	}
	var mnames []string
	for fn := range x.mutators {
		mnames = append(mnames, uuShort(fn))
	}
	sort.Strings(mnames)
	c.Note("mutators of an IPItems derived from the code: %s", strings.Join(mnames, ", "))
	for _, want := range []string{"IPItems.InsertPair", "IPItems.InsertSingle", "IPItems.Sort"} {
		if fn := p.Func(c19pkg, want); fn == nil || !x.mutators[fn] {
			c.Missing(c19pkg + "." + want + " (as a mutator of IPItems)")
		}
	}

	// ---- (a) producer chain of every IPTable.Update ------------------------
	nUpd := 0
	for _, fn := range p.SrcFuncs("") {
		calls := uuCallsIn(fn, c19pkg+".IPTable.Update")
		if len(calls) == 0 {
			continue
		}
		c.Analysed(core.FuncKey(fn))
		nUpd += len(calls)
		x.flow(fn, true)
	}
	c.Min("update-arg", 2)
	c.Min("update-guard", 2)
	c.Min("sorted-at-sink", 6)
	c.Min("insert-error", 3)
	c.Min("single-dispatch", 2)
	_ = nUpd

	// ---- (b) IPItems.Sort ---------------------------------------------------
	x.sortStructure(itemsFld)

	// ---- (c) Less / Search agreement -----------------------------------------
	x.searchRules(searchFn, lessFn, itemsFld, setFld, tblFld, startFld, endFld)

	// ---- (d) normalisation and pair order ------------------------------------
	x.normRules(itemsFld, setFld, startFld, endFld)

	// ---- (f) the merge step between the two sorts -----------------------------
	x.mergeRules(startFld, endFld)
	x.mergeScanRules(itemsFld, startFld, endFld)

	// ---- (e) IPTable.ipItems under t.lock -------------------------------------
	for _, fn := range pkgFns {
		var ls *core.LockSets
		ok, n := true, 0
		var pos token.Pos
		var lockName string
		core.Instrs(fn, func(in ssa.Instruction) {
			fa, isFA := in.(*ssa.FieldAddr)
			if !isFA || core.FieldObj(fa.X, fa.Field) != tblFld || fa.Referrers() == nil {
				return
			}
			if a, isAlloc := fa.X.(*ssa.Alloc); isAlloc && a.Heap {
				return // object under construction
			}
			if ls == nil {
				ls = core.ComputeLockSets(fn)
			}
			lockName = core.Render(fa.X) + ".lock"
			for _, r := range *fa.Referrers() {
				n++
				pos = r.Pos()
				if !ls.Holds(r, lockName, "W") {
					ok = false
				}
			}
		})
		if n > 0 {
			c.Analysed(core.FuncKey(fn))
			c.Check("table-lock", uuShort(fn), pos, ok, "IPTable.ipItems is accessed in "+uuShort(fn)+" without holding "+lockName+": a reload can race with a lookup")
		}
	}
	c.Min("table-lock", 3)
}

// origins of fn: results #0 of calls that yield an *IPItems.
func (x *c19ctx) origins(fn *ssa.Function) []*ssa.Extract {
	var out []*ssa.Extract
	core.Instrs(fn, func(in ssa.Instruction) {
		ex, ok := in.(*ssa.Extract)
		if !ok || x.itemsT == nil || !types.Identical(ex.Type(), x.itemsT) {
			return
		}
		if _, isCall := ex.Tuple.(*ssa.Call); isCall {
			out = append(out, ex)
		}
	})
	return out
}

func (x *c19ctx) mayMutate(fn *ssa.Function) bool {
	if fn == nil {
		return false
	}
	if v, ok := x.reach[fn]; ok {
		return v
	}
	r := false
	for _, f := range core.TransitiveCallees(fn, 3) {
		if x.mutators[f] {
			r = true
		}
	}
	x.reach[fn] = r
	return r
}

// verify decides (once) whether fn hands out only sorted IPItems.
func (x *c19ctx) verify(fn *ssa.Function) bool {
	switch x.verified[fn] {
	case 1:
		return false // recursion: undecided
	case 2:
		return true
	case 3:
		return false
	}
	x.verified[fn] = 1
	ok := x.flow(fn, false)
	if ok {
		x.verified[fn] = 2
	} else {
		x.verified[fn] = 3
	}
	return ok
}

// flow runs the typestate for every *IPItems origin of fn. Sinks are returns
// of the value and IPTable.Update calls. Returns whether every sink was fed a
// sorted value.
func (x *c19ctx) flow(fn *ssa.Function, publisher bool) bool {
	c := x.c
	c.Analysed(core.FuncKey(fn))
	short := uuShort(fn)
	allOK := true
	retIdx := uuRetIndex(fn)
	resIdx := -1
	for i := 0; i < fn.Signature.Results().Len(); i++ {
		if x.itemsT != nil && types.Identical(fn.Signature.Results().At(i).Type(), x.itemsT) {
			resIdx = i
		}
	}
	origins := x.origins(fn)
	isOrigin := func(v ssa.Value, o *ssa.Extract) bool { return uuResolve(v) == ssa.Value(o) }
	// sinks fed by something that is not an origin
	if resIdx >= 0 {
		for _, r := range core.Returns(fn) {
			rv := core.RetVals(r)
			if resIdx >= len(rv) || uuIsNil(rv[resIdx]) {
				continue
			}
			known := false
			for _, o := range origins {
				if isOrigin(rv[resIdx], o) {
					known = true
				}
			}
			if !known {
				allOK = false
				c.Check("sorted-at-sink", fmt.Sprintf("%s:return#%d", short, retIdx[r]), r.Pos(), false, "returns an *IPItems of unknown provenance ("+core.Render(rv[resIdx])+"): neither nil nor the result of NewIPItems / a verified producer in this function")
			}
		}
	}
	for _, call := range uuCallsIn(fn, c19pkg+".IPTable.Update") {
		args := call.Common().Args
		known := false
		for _, o := range origins {
			if len(args) > 1 && isOrigin(args[1], o) {
				known = true
				prod := o.Tuple.(*ssa.Call)
				guarded := uuHasRel(call.(ssa.Instruction).Block(), func(r uuRel) bool {
					return uuNilTest(r, true, func(v ssa.Value) bool {
						ex, ok := uuResolve(v).(*ssa.Extract)
						return ok && ex.Tuple == ssa.Value(prod) && types.Identical(ex.Type(), uuErrorType)
					})
				})
				c.Check("update-guard", short, call.Pos(), guarded, "IPTable.Update is reached although the error of "+core.CalleeKey(&prod.Call)+" was not tested to be nil: a failed load would replace the table with a nil/partial dictionary")
			}
		}
		c.Check("update-arg", short, call.Pos(), known, "the dictionary passed to IPTable.Update ("+core.Render(args[len(args)-1])+") is not the result of NewIPItems or of a producer call in this function; its sortedness cannot be established")
		if !known {
			allOK = false
		}
	}
	for oi, o := range origins {
		prod := o.Tuple.(*ssa.Call)
		init := uint32(c19Dirty)
		callee := prod.Call.StaticCallee()
		switch {
		case callee == x.newFn:
			init = c19New
		case callee != nil && callee.Blocks != nil && core.FuncPkgRel(callee) != "":
			ok := x.verify(callee)
			c.Check("producer-chain", fmt.Sprintf("%s<-%s", short, uuShort(callee)), prod.Pos(), ok, short+" takes its dictionary from "+uuShort(callee)+", which does not return a sorted dictionary on every path (see its sorted-at-sink obligations)")
			if ok {
				init = c19Sorted
			}
		}
		ord := uuOrd{}
		tag := short
		if len(origins) > 1 {
			tag = fmt.Sprintf("%s@%d", short, oi+1)
		}
		step := func(in ssa.Instruction, s uint32, report bool) uint32 {
			if in == ssa.Instruction(o) {
				return init
			}
			switch v := in.(type) {
			case ssa.CallInstruction:
				cc := v.Common()
				sc := cc.StaticCallee()
				for i, a := range cc.Args {
					if !isOrigin(a, o) {
						continue
					}
					switch {
					case sc == x.sortFn && i == 0:
						return c19Sorted | s&c19Pub
					case sc == x.updFn && i == 1:
						if report {
							ok := s&^uint32(c19New|c19Sorted|c19Pub) == 0
							if !ok {
								allOK = false
							}
							c.Check("sorted-at-sink", ord.key(tag, "update"), in.Pos(), ok, "the dictionary is published with IPTable.Update in state "+c19State(s)+": an Insert* happened after the last Sort(), so the binary search of IPTable.Search runs on unsorted/unmerged ranges")
						}
						return s | c19Pub
					case sc != nil && (x.mutators[sc] || x.mayMutate(sc)):
						if report {
							x.insertObligations(in, tag, ord)
							if s&c19Pub != 0 {
								allOK = false
								c.Check("mutate-after-publish", ord.key(tag, sc.Name()), in.Pos(), false, uuShort(sc)+" may modify the dictionary after it was published with IPTable.Update (lookups run concurrently on it)")
							}
						}
						// a helper of the module that receives the dictionary: what it
						// leaves behind is computed from its own body (a helper that
						// inserts and then sorts hands back a sorted dictionary)
						if !x.mutators[sc] {
							if s2, ok := x.effect(sc, i, s, 0, report); ok {
								return s2 | s&c19Pub
							}
						}
						return c19Dirty | s&c19Pub
					}
				}
			case *ssa.Return:
				if !report || resIdx < 0 {
					return s
				}
				rv := core.RetVals(v)
				if resIdx < len(rv) && isOrigin(rv[resIdx], o) {
					ok := s&^uint32(c19New|c19Sorted|c19Pub) == 0
					if !ok {
						allOK = false
					}
					c.Check("sorted-at-sink", fmt.Sprintf("%s:return#%d", tag, retIdx[v]), v.Pos(), ok, short+" returns the dictionary in state "+c19State(s)+": an Insert* (or another mutator) can follow the last Sort() on a path to this return")
				}
			}
			return s
		}
		core.Typestate(fn, c19None, step, nil)
	}
	if publisher && len(origins) == 0 {
		allOK = false
	}
	return allOK
}

// insertObligations records, for a call of InsertPair / InsertSingle, that its
// error is looked at and that a single address is stored only under start ==
// end (the guard may be established at the single call site of a private
// helper the call sits in). Each call instruction is recorded once.
func (x *c19ctx) insertObligations(in ssa.Instruction, tag string, ord uuOrd) {
	c := x.c
	ci, ok := in.(ssa.CallInstruction)
	if !ok {
		return
	}
	cc := ci.Common()
	sc := cc.StaticCallee()
	if sc == nil || !x.mutators[sc] || (sc.Name() != "InsertPair" && sc.Name() != "InsertSingle") {
		return
	}
	if x.insSeen == nil {
		x.insSeen = map[ssa.Instruction]bool{}
	}
	if x.insSeen[in] {
		return
	}
	x.insSeen[in] = true
	if val, isVal := in.(ssa.Value); isVal {
		c.Check("insert-error", ord.key(tag, sc.Name()), in.Pos(), uuErrUsed(val), "the error returned by "+sc.Name()+" is dropped: a rejected pair/single would silently be missing from the dictionary")
	}
	if sc.Name() == "InsertSingle" && len(cc.Args) == 2 {
		// a range may be stored as a single address only when start == end
		same := func(a, b ssa.Value) bool {
			return uuResolve(a) == uuResolve(b) || core.Render(uuResolve(a)) == core.Render(uuResolve(b))
		}
		okEq := false
		for _, g := range uuGuardsAtCtx(c.P, in.Block()) {
			cmp, set, isCmp := uuCmpSet(g.Cond, g.Pol)
			if !isCmp || set != [3]bool{false, true, false} {
				continue
			}
			if same(cmp.Call.Args[0], cc.Args[1]) || same(cmp.Call.Args[1], cc.Args[1]) {
				okEq = true
			}
		}
		c.Check("single-dispatch", ord.key(tag, "single"), in.Pos(), okEq, "a loader stores an entry as a single address (InsertSingle) although start == end (bytes.Compare(start, end) == 0 on the inserted value) is not established: the rest of the range would be lost")
	}
}

// effect computes the states an *IPItems can be in when fn returns, given that
// fn receives it as parameter #pi in state s (typestate of the helper's own
// body: Sort sorts, Insert* and other mutators dirty, Update publishes, nested
// helpers recursively). ok is false when fn cannot be followed.
func (x *c19ctx) effect(fn *ssa.Function, pi int, s uint32, depth int, report bool) (uint32, bool) {
	if fn == nil || fn.Blocks == nil || depth > 2 || pi >= len(fn.Params) || core.FuncPkgRel(fn) == "" {
		return 0, false
	}
	prm := ssa.Value(fn.Params[pi])
	isP := func(v ssa.Value) bool { return uuResolve(v) == prm }
	out := uint32(0)
	ord := uuOrd{}
	step := func(in ssa.Instruction, st uint32, final bool) uint32 {
		switch v := in.(type) {
		case ssa.CallInstruction:
			cc := v.Common()
			sc := cc.StaticCallee()
			for i, a := range cc.Args {
				if !isP(a) {
					continue
				}
				switch {
				case sc == x.sortFn && i == 0:
					return c19Sorted | st&c19Pub
				case sc == x.updFn && i == 1:
					return st | c19Pub
				case sc != nil && x.mutators[sc]:
					if final && report {
						x.insertObligations(in, uuShort(fn), ord)
					}
					return c19Dirty | st&c19Pub
				case sc != nil && x.mayMutate(sc):
					if s2, ok := x.effect(sc, i, st, depth+1, final && report); ok {
						return s2 | st&c19Pub
					}
					return c19Dirty | st&c19Pub
				}
			}
		case *ssa.Return:
			if final {
				out |= st
			}
		}
		return st
	}
	core.Typestate(fn, s, step, nil)
	return out, out != 0
}

func (x *c19ctx) sortStructure(itemsFld *types.Var) {
	c, fn := x.c, x.sortFn
	c.Analysed(core.FuncKey(fn))
	isSortOfItems := func(in ssa.Instruction) bool {
		if !uuIsCallTo(in, "sort.Sort", "sort.Stable") {
			return false
		}
		f, base := uuFieldLoad(in.(ssa.CallInstruction).Common().Args[0])
		return f == itemsFld && uuResolve(base) == ssa.Value(fn.Params[0])
	}
	merges := uuCallsIn(fn, c19pkg+".IPItems.mergeItems")
	if len(merges) != 1 {
		c.Check("sort-structure", "Sort:merge-call", fn.Pos(), false, fmt.Sprintf("expected one mergeItems call in IPItems.Sort, found %d", len(merges)))
		return
	}
	merge := merges[0].(ssa.Instruction)
	var before ssa.Instruction
	for _, in := range uuInstrs(fn) {
		if isSortOfItems(in) && core.Dominates(in, merge) {
			before = in
		}
	}
	c.Check("sort-structure", "Sort:sorted-before-merge", merge.Pos(), before != nil, "mergeItems (which merges each range only with ranges at higher indices, assuming descending start order) is not dominated by sort.Sort(ipItems.items)")
	bad := core.MustPass(fn, merge, isSortOfItems)
	c.Check("sort-structure", "Sort:sorted-after-merge", merge.Pos(), bad == nil, "a path from mergeItems to the end of Sort does not sort again: tombstoned (::) entries stay in the middle of the slice and the truncation cuts live ranges")
	// truncation: items = items[0 : len(items)-mergedNum], after the second sort
	found := false
	for _, in := range uuInstrs(fn) {
		st, ok := in.(*ssa.Store)
		if !ok {
			continue
		}
		if f, _ := uuFieldAddr(st.Addr); f != itemsFld {
			continue
		}
		found = true
		sl, isSlice := uuResolve(st.Val).(*ssa.Slice)
		okShape := false
		// len(items) - mergedNum
		isCut := func(v ssa.Value) bool {
			sub, ok := uuResolve(v).(*ssa.BinOp)
			if !ok || sub.Op != token.SUB || uuResolve(sub.Y) != ssa.Value(merge.(*ssa.Call)) {
				return false
			}
			lc, ok := uuResolve(sub.X).(*ssa.Call)
			if !ok {
				return false
			}
			b, ok := lc.Call.Value.(*ssa.Builtin)
			if !ok || b.Name() != "len" {
				return false
			}
			f, _ := uuFieldLoad(lc.Call.Args[0])
			return f == itemsFld
		}
		// … possibly clamped at 0 (`if length < 0 { length = 0 }`: the
		// alternative is taken only where the plain cut would be negative,
		// i.e. where slicing would panic)
		isCutOrClamp := func(v ssa.Value) bool {
			if isCut(v) {
				return true
			}
			phi, ok := uuResolve(v).(*ssa.Phi)
			if !ok {
				return false
			}
			n := 0
			for j, e := range phi.Edges {
				if isCut(e) {
					n++
					continue
				}
				if !uuConstIs(e, 0) {
					return false
				}
				guarded := false
				for _, g := range uuGuardsOnEdge(phi.Block().Preds[j], phi.Block()) {
					if r, isRel := uuRelOf(g.Cond, g.Pol); isRel {
						if r.Op == token.GTR || r.Op == token.GEQ {
							r = uuRel{uuFlip(r.Op), r.Y, r.X}
						}
						if isCut(r.X) && ((r.Op == token.LSS && uuConstIs(r.Y, 0)) || (r.Op == token.LEQ && uuConstIs(r.Y, -1))) {
							guarded = true
						}
					}
				}
				if !guarded {
					return false
				}
			}
			return n > 0
		}
		if isSlice && (sl.Low == nil || func() bool { k, ok := uuConstInt(sl.Low); return ok && k == 0 }()) && sl.High != nil {
			if f, _ := uuFieldLoad(sl.X); f == itemsFld {
				okShape = isCutOrClamp(sl.High)
			}
		}
		c.Check("sort-structure", "Sort:truncate-shape", st.Pos(), okShape, "Sort stores "+core.Render(st.Val)+" into items; expected items[0 : len(items)-mergedNum] with mergedNum the result of mergeItems, so that exactly the tombstones sorted to the end are cut")
		// the store comes after a sort that follows the merge
		afterSecond := false
		for _, s2 := range uuInstrs(fn) {
			if isSortOfItems(s2) && core.Dominates(merge, s2) && core.Dominates(s2, st) {
				afterSecond = true
			}
		}
		c.Check("sort-structure", "Sort:truncate-after-resort", st.Pos(), afterSecond, "the truncation of items is not dominated by the re-sort that follows mergeItems")
	}
	if !found {
		c.Check("sort-structure", "Sort:truncate-shape", fn.Pos(), false, "IPItems.Sort never truncates items after merging: tombstoned (::) entries stay in the searchable table")
	}
	c.Min("sort-structure", 4)
}

// c19elem: v is a load of field fld of an element items[idx]; returns the
// slice base (resolved) and the index value.
func c19elem(v ssa.Value, fld *types.Var) (base, idx ssa.Value, ok bool) {
	u, isLoad := uuResolve(v).(*ssa.UnOp)
	if !isLoad || u.Op != token.MUL {
		return nil, nil, false
	}
	fa, isFA := u.X.(*ssa.FieldAddr)
	if !isFA || core.FieldObj(fa.X, fa.Field) != fld {
		return nil, nil, false
	}
	ia, isIA := fa.X.(*ssa.IndexAddr)
	if !isIA {
		return nil, nil, false
	}
	return uuResolve(ia.X), ia.Index, true
}

func (x *c19ctx) searchRules(searchFn, lessFn *ssa.Function, itemsFld, setFld, tblFld, startFld, endFld *types.Var) {
	c := x.c
	c.Analysed(core.FuncKey(searchFn), core.FuncKey(lessFn))
	// direction of Less
	dir := "" // "desc" / "asc"
	lessDetail := "ipPairs.Less does not return a comparison of bytes.Compare(items[i].startIP, items[j].startIP) with a constant"
	if rets := core.Returns(lessFn); len(rets) == 1 && len(rets[0].Results) == 1 && len(lessFn.Params) == 3 {
		if call, set, ok := uuCmpSet(rets[0].Results[0], true); ok {
			_, ia, okA := c19elem(call.Call.Args[0], startFld)
			_, ib, okB := c19elem(call.Call.Args[1], startFld)
			if okA && okB {
				i, j := ssa.Value(lessFn.Params[1]), ssa.Value(lessFn.Params[2])
				if ia == j && ib == i {
					set[0], set[2] = set[2], set[0]
					ia, ib = i, j
				}
				if ia == i && ib == j {
					switch {
					case set[2] && !set[0]:
						dir = "desc"
					case set[0] && !set[2]:
						dir = "asc"
					}
					lessDetail = "ipPairs.Less holds for compare outcomes " + uuSetStr(set) + ": neither ascending nor descending by startIP"
				}
			}
		}
	}
	c.Check("search-direction", "ipPairs.Less:orders-by-startIP", lessFn.Pos(), dir != "", lessDetail)

	// the sort.Search call and its predicate
	var sc *ssa.Call
	for _, ci := range uuCallsIn(searchFn, "sort.Search") {
		if v, ok := ci.(*ssa.Call); ok {
			sc = v
		}
	}
	if sc == nil {
		c.Missing("IPTable.Search: call of sort.Search")
		return
	}
	isProbe := func(v ssa.Value) bool {
		call := uuStaticCall(v, "net.IP.To16")
		return call != nil && len(call.Call.Args) == 1 && uuResolve(call.Call.Args[0]) == ssa.Value(searchFn.Params[1])
	}
	// snapshot: the *IPItems loaded from t.ipItems
	isSnapshotItems := func(base ssa.Value) bool {
		f, b := uuFieldLoad(base)
		if f != itemsFld {
			return false
		}
		f2, b2 := uuFieldLoad(b)
		return f2 == tblFld && b2 == ssa.Value(searchFn.Params[0])
	}
	var predBase ssa.Value
	predOK, predDetail := false, "the predicate passed to sort.Search is not a closure returning a comparison of bytes.Compare(items[i].startIP, probe) with a constant"
	if mc, ok := uuResolve(sc.Call.Args[1]).(*ssa.MakeClosure); ok {
		pf := mc.Fn.(*ssa.Function)
		c.Analysed(core.FuncKey(pf))
		if rets := core.Returns(pf); len(rets) == 1 && len(rets[0].Results) == 1 && len(pf.Params) == 1 {
			if call, set, ok := uuCmpSet(rets[0].Results[0], true); ok {
				a, b := call.Call.Args[0], call.Call.Args[1]
				base, idx, okE := c19elem(a, startFld)
				probe := b
				if !okE {
					base, idx, okE = c19elem(b, startFld)
					probe = a
					set[0], set[2] = set[2], set[0]
				}
				switch {
				case !okE || idx != ssa.Value(pf.Params[0]):
					predDetail = "the sort.Search predicate does not compare items[i].startIP (the field ipPairs.Less sorts by) of the probed index"
				case !isProbe(probe):
					predDetail = "the sort.Search predicate compares startIP with " + core.Render(probe) + ", not with the To16 form of the address being looked up"
				default:
					predBase = base
					want := [3]bool{true, true, false} // start <= probe
					if dir == "asc" {
						want = [3]bool{false, true, true}
					}
					predOK = dir != "" && set == want
					predDetail = fmt.Sprintf("slice is sorted %s by startIP but the sort.Search predicate holds for compare(startIP, probe) in %s; it must be exactly %s (first range whose start is not beyond the probe, start bound included)", dir, uuSetStr(set), uuSetStr(want))
				}
			}
		}
	}
	c.Check("search-direction", "IPTable.Search:predicate", sc.Pos(), predOK, predDetail)
	c.Check("search-direction", "IPTable.Search:length", sc.Pos(), func() bool {
		lc, ok := uuResolve(sc.Call.Args[0]).(*ssa.Call)
		if !ok {
			return false
		}
		b, ok := lc.Call.Value.(*ssa.Builtin)
		return ok && b.Name() == "len" && isSnapshotItems(uuResolve(lc.Call.Args[0]))
	}(), "sort.Search must range over len(items) of the dictionary snapshot read from t.ipItems; it ranges over "+core.Render(sc.Call.Args[0]))
	if predBase != nil {
		c.Check("search-direction", "IPTable.Search:predicate-snapshot", sc.Pos(), isSnapshotItems(predBase), "the predicate indexes "+core.Render(predBase)+", not the items of the dictionary snapshot read under the lock")
	}
	c.Min("search-direction", 4)

	// ways of returning true
	type trueSite struct {
		b     *ssa.BasicBlock
		pos   token.Pos
		extra ssa.Value // a comparison returned directly (`return cmp >= 0`): it holds where true is returned
	}
	var sites []trueSite
	var visit func(v ssa.Value, from *ssa.BasicBlock, pos token.Pos, seen map[ssa.Value]bool)
	visit = func(v ssa.Value, from *ssa.BasicBlock, pos token.Pos, seen map[ssa.Value]bool) {
		if seen[v] {
			return
		}
		seen[v] = true
		if phi, ok := v.(*ssa.Phi); ok {
			for i, e := range phi.Edges {
				visit(e, phi.Block().Preds[i], phi.Pos(), seen)
			}
			return
		}
		if val, ok := uuConstBool(v); ok {
			if val {
				sites = append(sites, trueSite{from, pos, nil})
			}
			return
		}
		if _, isRel := uuRelOf(v, true); isRel && from != nil {
			sites = append(sites, trueSite{from, pos, v})
			return
		}
		// any other computed boolean cannot be classified
		sites = append(sites, trueSite{nil, pos, nil})
	}
	for _, r := range core.Returns(searchFn) {
		if len(r.Results) == 1 {
			visit(r.Results[0], r.Block(), r.Pos(), map[ssa.Value]bool{})
		}
	}
	ord := uuOrd{}
	for _, s := range sites {
		if s.b == nil {
			c.Check("search-hit", ord.key("IPTable.Search", "computed"), s.pos, false, "IPTable.Search returns a computed boolean; the rule only certifies constant true under the set-hit or range-hit guards")
			continue
		}
		setHit := uuBoolGuard(s.b, true, func(v ssa.Value) bool {
			call := uuStaticCall(v, "bfe_util/hash_set.HashSet.Exist")
			if call == nil {
				return false
			}
			f, _ := uuFieldLoad(call.Call.Args[0])
			return f == setFld && isProbe(call.Call.Args[1])
		})
		if setHit {
			c.Check("search-hit", "IPTable.Search:set", s.pos, true, "")
			continue
		}
		// range hit
		var endOK, idxOK bool
		var why []string
		guards := uuGuardsAt(s.b)
		if s.extra != nil {
			guards = append(guards, core.Guard{Cond: s.extra, Pol: true, Str: core.Render(s.extra)})
		}
		for _, g := range guards {
			if call, set, ok := uuCmpSet(g.Cond, g.Pol); ok {
				a, b := call.Call.Args[0], call.Call.Args[1]
				base, idx, okE := c19elem(a, endFld)
				probe := b
				if !okE {
					base, idx, okE = c19elem(b, endFld)
					probe = a
					set[0], set[2] = set[2], set[0]
				}
				if okE && uuResolve(idx) == ssa.Value(sc) && isProbe(probe) && isSnapshotItems(base) {
					if set == [3]bool{false, true, true} {
						endOK = true
					} else {
						why = append(why, "end test holds for compare(endIP, probe) in "+uuSetStr(set)+", must be {=>} (end bound included)")
					}
				}
				continue
			}
			if r, ok := uuRelOf(g.Cond, g.Pol); ok {
				// index < len(items)
				lt := r
				if lt.Op == token.GTR {
					lt = uuRel{token.LSS, r.Y, r.X}
				}
				if lt.Op == token.LSS && uuResolve(lt.X) == ssa.Value(sc) && uuResolve(lt.Y) == uuResolve(sc.Call.Args[0]) {
					idxOK = true
				}
			}
		}
		if !endOK && len(why) == 0 {
			why = append(why, "no guard compares items[index].endIP with the probe")
		}
		if !idxOK {
			why = append(why, "no guard index < len(items) (index = result of sort.Search, which is len when no start qualifies)")
		}
		c.Check("search-hit", "IPTable.Search:range", s.pos, endOK && idxOK, "IPTable.Search reports a hit here although: "+strings.Join(why, "; "))
	}
	c.Min("search-hit", 2)
}

func (x *c19ctx) normRules(itemsFld, setFld, startFld, endFld *types.Var) {
	c, p := x.c, x.c.P
	isTo16Of := func(v ssa.Value, fn *ssa.Function) (int, bool) {
		call := uuStaticCall(v, "net.IP.To16")
		if call == nil {
			return 0, false
		}
		for i, prm := range fn.Params {
			if uuResolve(call.Call.Args[0]) == ssa.Value(prm) {
				return i, true
			}
		}
		return 0, false
	}
	if fn := p.Func(c19pkg, "IPItems.InsertPair"); fn == nil {
		c.Missing(c19pkg + ".IPItems.InsertPair")
	} else {
		c.Analysed(core.FuncKey(fn))
		n := 0
		var itemsStore *ssa.Store
		for _, in := range uuInstrs(fn) {
			st, ok := in.(*ssa.Store)
			if !ok {
				continue
			}
			f, base := uuFieldAddr(st.Addr)
			if f == itemsFld {
				itemsStore = st
			}
			if f != startFld && f != endFld {
				continue
			}
			if _, isAlloc := base.(*ssa.Alloc); !isAlloc {
				continue
			}
			n++
			pi, ok16 := isTo16Of(st.Val, fn)
			want := 1
			if f == endFld {
				want = 2
			}
			c.Check("norm16", "IPItems.InsertPair:"+f.Name(), st.Pos(), ok16 && pi == want, "InsertPair stores "+core.Render(st.Val)+" as "+f.Name()+"; it must be the To16 form of the corresponding argument, because IPTable.Search compares 16-byte probes bytewise (a 4-byte form never matches)")
		}
		if n < 2 {
			c.Check("norm16", "IPItems.InsertPair:pair-literal", fn.Pos(), false, "InsertPair does not build the appended ipPair from two field stores the rule can follow")
		}
		if itemsStore != nil {
			guarded := uuHasRel(itemsStore.Block(), func(r uuRel) bool {
				return uuNilTest(r, true, func(v ssa.Value) bool {
					call := uuStaticCall(v, c19pkg+".checkIPPair")
					return call != nil && uuResolve(call.Call.Args[0]) == ssa.Value(fn.Params[1]) && uuResolve(call.Call.Args[1]) == ssa.Value(fn.Params[2])
				})
			})
			c.Check("pair-order", "IPItems.InsertPair:validated", itemsStore.Pos(), guarded, "InsertPair appends the pair without checkIPPair(startIP, endIP) having returned nil")
		} else {
			c.Check("pair-order", "IPItems.InsertPair:validated", fn.Pos(), false, "InsertPair does not store into items")
		}
	}
	if fn := p.Func(c19pkg, "IPItems.InsertSingle"); fn == nil {
		c.Missing(c19pkg + ".IPItems.InsertSingle")
	} else {
		c.Analysed(core.FuncKey(fn))
		adds := uuCallsIn(fn, "bfe_util/hash_set.HashSet.Add")
		for _, a := range adds {
			pi, ok16 := isTo16Of(a.Common().Args[1], fn)
			f, _ := uuFieldLoad(a.Common().Args[0])
			c.Check("norm16", "IPItems.InsertSingle:key", a.Pos(), ok16 && pi == 1 && f == setFld, "InsertSingle adds "+core.Render(a.Common().Args[1])+" to the set; it must be the To16 form of the argument")
			if v, ok := a.(ssa.Value); ok {
				c.Check("insert-error", "IPItems.InsertSingle:set-add", a.Pos(), uuErrUsed(v), "InsertSingle drops the error of HashSet.Add (full set / invalid key): the address would silently be missing")
			}
		}
		if len(adds) == 0 {
			c.Check("norm16", "IPItems.InsertSingle:key", fn.Pos(), false, "InsertSingle does not add to ipSet")
		}
	}
	c.Min("norm16", 3)
	if fn := p.Func(c19pkg, "checkIPPair"); fn == nil {
		c.Missing(c19pkg + ".checkIPPair")
	} else {
		c.Analysed(core.FuncKey(fn))
		n := 0
		for _, r := range core.Returns(fn) {
			if len(r.Results) != 1 || !uuIsNil(r.Results[0]) {
				continue
			}
			n++
			ok, detail := false, "no guard compares the To16 forms of startIP and endIP"
			for _, g := range uuGuardsAt(r.Block()) {
				call, set, isCmp := uuCmpSet(g.Cond, g.Pol)
				if !isCmp {
					continue
				}
				a, okA := isTo16Of(call.Call.Args[0], fn)
				b, okB := isTo16Of(call.Call.Args[1], fn)
				if !okA || !okB {
					continue
				}
				if a == 1 && b == 0 {
					set[0], set[2] = set[2], set[0]
					a, b = 0, 1
				}
				if a == 0 && b == 1 {
					ok = set == [3]bool{true, true, false}
					detail = "checkIPPair accepts compare(start, end) in " + uuSetStr(set) + "; it must accept exactly start <= end {<=}"
				}
			}
			c.Check("pair-order", fmt.Sprintf("checkIPPair:accept#%d", n), r.Pos(), ok, detail)
		}
		c.Min("pair-order", 2)
	}
}
