package rules

import (
	"fmt"
	"go/token"
	"go/types"
	"sort"
	"strings"

	"golang.org/x/tools/go/ssa"

	"verif/internal/core"
)

// C08 — retries are safe and bounded.
func init() {
	Register(&Rule{
		ID: "C08", Section: "3 C08",
		Technique: "value-flow of the retry flag through phis with type-switch arm resolution, guard census on checkAllowRetry/checkRequestWithoutBody, who-may-write census of Request.RetryTime, dominance of the retry bound in BalanceGslb.Balance",
		Meta: core.Meta{
			Level: "other",
			Explanation: "Decides: (a) in ReverseProxy.clusterInvoke the flag tested by `if !allowRetry` is, on every incoming path, false, the result of checkAllowRetry(cluster.RetryLevel(), outreq), or the constant true only inside the type-switch arm for {bfe_http.ConnectError, bfe_fcgi.ConnectError}; (b) checkAllowRetry returns true only under retryLevel == RetryGet && Method == \"GET\" && checkRequestWithoutBody, and checkRequestWithoutBody returns true only for Body == nil, Body == EofReader, or an SPDY body's Eof(); (c) every path from one bal.Balance call back to it passes an increment of request.RetryTime, the only other writer of RetryTime is BalanceGslb.Balance raising it to retryMax under RetryTime <= retryMax, and Balance returns ErrBkRetryTooMany before any selection when RetryTime > retryMax+crossRetry; (d) in-cluster selection happens only under RetryTime <= retryMax, the cross-retry target is randomSelectExclude(first-choice sub-cluster) and is reached only when crossRetry > 0; (e) no unchecked type assertion inside a type-switch arm asserts a type the arm does not imply. Not covered: the transport's classification of failures into those error types; whether a write error happened before or after bytes reached the backend.",
			RuleText:    "obligations = each phi edge of the retry flag, each `return true` of the two predicates, each writer of Request.RetryTime, the loop back path, the gates in BalanceGslb.Balance, each unchecked type assertion in clusterInvoke",
		},
		Run: runC08,
		Mutants: []Mutant{
			{Name: "retry-on-write-error", File: "bfe_server/reverseproxy.go", Old: "			p.proxyState.ErrBkWriteRequest.Inc(1)\n			allowRetry = checkAllowRetry(cluster.RetryLevel(), outreq)", New: "			p.proxyState.ErrBkWriteRequest.Inc(1)\n			allowRetry = outreq.State.BodySize == 0 || checkAllowRetry(cluster.RetryLevel(), outreq)", Expect: "retry-flag"},
			{Name: "retry-on-broken-transport", File: "bfe_server/reverseproxy.go", Old: "			p.proxyState.ErrBkTransportBroken.Inc(1)\n			allowRetry = checkAllowRetry(cluster.RetryLevel(), outreq)", New: "			p.proxyState.ErrBkTransportBroken.Inc(1)\n			allowRetry = true", Expect: "retry-flag"},
			{Name: "retry-any-method", File: "bfe_server/reverseproxy.go", Old: "		if outreq.Method == \"GET\" && checkRequestWithoutBody(outreq) {", New: "		if checkRequestWithoutBody(outreq) {", Expect: "allow-retry-guard"},
			{Name: "body-check-inverted-default", File: "bfe_server/reverseproxy.go", Old: "		return body.Eof()\n	}\n	return false", New: "		return body.Eof()\n	}\n	return req.ContentLength == 0", Expect: "no-body-guard"},
			{Name: "retry-count-not-incremented", File: "bfe_server/reverseproxy.go", Old: "		if err == bfe_basic.ErrBkCrossRetryBalance {\n			request.RetryTime += 1\n			continue", New: "		if err == bfe_basic.ErrBkCrossRetryBalance {\n			continue", Expect: "retry-increment"},
			{Name: "bound-check-dropped", File: "bfe_balance/bal_gslb/bal_gslb.go", Old: "	if req.RetryTime > (bal.retryMax + bal.crossRetry) {", New: "	if req.RetryTime > (bal.retryMax+bal.crossRetry) && bal.crossRetry < 0 {", Expect: "retry-bound"},
			{Name: "cross-exclude-wrong-target", File: "bfe_balance/bal_gslb/bal_gslb.go", Old: "	current, err = bal.randomSelectExclude(current)", New: "	current, err = bal.randomSelectExclude(nil)", Expect: "cross-exclude"},
			{Name: "stale-conn-as-connect-error", File: "bfe_http/transport.go", Old: "	resp, err = pconn.roundTrip(treq)\n	if err == nil {\n		state.HttpBackendReqSucc.Inc(1)\n	}", New: "	resp, err = pconn.roundTrip(treq)\n	if err == nil {\n		state.HttpBackendReqSucc.Inc(1)\n	} else if _, ok := err.(ReadRespHeaderError); ok {\n		err = ConnectError{Err: err, Addr: cm.addr()}\n	}", Expect: "connect-error-origin"},
			{Name: "retrytime-reset", File: "bfe_balance/bal_gslb/bal_gslb.go", Old: "			req.RetryTime = bal.retryMax\n", New: "			req.RetryTime = 0\n", Expect: "retrytime-writers"},
		},
	})
}

// armTypes: if every edge into b is the true edge of a comma-ok type
// assertion, return the asserted types (a type-switch arm entry).
func armTypes(b *ssa.BasicBlock) []types.Type {
	if len(b.Preds) == 0 {
		return nil
	}
	var out []types.Type
	for _, p := range b.Preds {
		ifi, ok := p.Instrs[len(p.Instrs)-1].(*ssa.If)
		if !ok || p.Succs[0] != b || p.Succs[1] == b {
			return nil
		}
		ex, ok := ifi.Cond.(*ssa.Extract)
		if !ok || ex.Index != 1 {
			return nil
		}
		ta, ok := ex.Tuple.(*ssa.TypeAssert)
		if !ok || !ta.CommaOk {
			return nil
		}
		out = append(out, ta.AssertedType)
	}
	return out
}

// enclosingArm walks the dominator chain from b to the nearest type-switch arm entry.
func enclosingArm(b *ssa.BasicBlock) (*ssa.BasicBlock, []types.Type) {
	for x := b; x != nil; x = x.Idom() {
		if ts := armTypes(x); ts != nil {
			return x, ts
		}
	}
	return nil, nil
}

func typeNames(ts []types.Type) []string {
	var s []string
	for _, t := range ts {
		s = append(s, core.TypeStr(t))
	}
	sort.Strings(s)
	return s
}

func runC08(c *core.Ctx) {
	const srv = "bfe_server"
	const gslb = "bfe_balance/bal_gslb"
	ci := c.P.Func(srv, "ReverseProxy.clusterInvoke")
	if ci == nil {
		c.Missing(srv + ".ReverseProxy.clusterInvoke")
		return
	}
	c.Analysed(core.FuncKey(ci))
	// (a) the retry flag
	var flag ssa.Value
	for _, in := range allInstrs(ci) {
		ifi, ok := in.(*ssa.If)
		if !ok {
			continue
		}
		if phi, ok := ifi.Cond.(*ssa.Phi); ok && phi.Comment == "allowRetry" {
			flag = phi
		}
	}
	if flag == nil {
		c.Missing("clusterInvoke: the branch on the retry flag (allowRetry)")
	} else {
		// the false edge of the flag test must leave the loop (reach return without another RoundTrip)
		n := 0
		var visit func(v ssa.Value, from *ssa.BasicBlock, seen map[ssa.Value]bool)
		visit = func(v ssa.Value, from *ssa.BasicBlock, seen map[ssa.Value]bool) {
			if seen[v] {
				return
			}
			seen[v] = true
			switch x := v.(type) {
			case *ssa.Phi:
				for i, e := range x.Edges {
					visit(e, x.Block().Preds[i], seen)
				}
				return
			case *ssa.Const:
				n++
				_, ts := enclosingArm(from)
				names := typeNames(ts)
				if x.Value != nil && x.Value.ExactString() == "true" {
					ok := len(names) > 0
					for _, t := range names {
						if t != "bfe_http.ConnectError" && t != "bfe_fcgi.ConnectError" {
							ok = false
						}
					}
					c.Check("retry-flag", "clusterInvoke:true@"+strings.Join(names, ","), x.Pos(), ok,
						"retry is unconditionally allowed outside the connect-error arm (arm types: "+strings.Join(names, ",")+"); a request that may already have reached a backend would be replayed")
				} else {
					c.Check("retry-flag", "clusterInvoke:false@"+strings.Join(names, ","), from.Instrs[0].Pos(), true, "")
				}
				return
			case *ssa.Call:
				n++
				_, ts := enclosingArm(from)
				names := typeNames(ts)
				ok := core.CallIs(&x.Call, srv+".checkAllowRetry") && len(x.Call.Args) == 2 &&
					strings.HasSuffix(core.Render(x.Call.Args[0]), "BfeCluster.RetryLevel(cluster)") && core.Render(x.Call.Args[1]) == "request.OutRequest"
				c.Check("retry-flag", "clusterInvoke:call@"+strings.Join(names, ","), x.Pos(), ok,
					"retry flag is computed by "+core.Render(x)+", expected checkAllowRetry(cluster.RetryLevel(), outreq)")
				return
			}
			n++
			_, ts := enclosingArm(from)
			c.Check("retry-flag", "clusterInvoke:other@"+strings.Join(typeNames(ts), ","), v.Pos(), false,
				"retry flag is "+core.Render(v)+": neither false, the connect-error constant true, nor checkAllowRetry(...)")
		}
		visit(flag, nil, map[ssa.Value]bool{})
		c.Min("retry-flag", 6)
	}
	// (e) unchecked type assertions inside arms
	for _, in := range allInstrs(ci) {
		ta, ok := in.(*ssa.TypeAssert)
		if !ok || ta.CommaOk {
			continue
		}
		_, ts := enclosingArm(ta.Block())
		ok2 := len(ts) > 0
		for _, t := range ts {
			if types.IsInterface(ta.AssertedType) {
				if !types.Implements(t, ta.AssertedType.Underlying().(*types.Interface)) {
					ok2 = false
				}
			} else if !types.Identical(t, ta.AssertedType) {
				ok2 = false
			}
		}
		c.Check("assert-in-arm", "clusterInvoke:"+core.TypeStr(ta.AssertedType), ta.Pos(), ok2,
			"unchecked type assertion to "+core.TypeStr(ta.AssertedType)+" inside a type-switch arm for {"+strings.Join(typeNames(ts), ", ")+"}: panics for the other member(s) of the arm")
	}
	// (c) loop: Balance -> ... -> Balance passes an increment of RetryTime
	balCalls := core.Calls(ci, gslb+".BalanceGslb.Balance")
	if len(balCalls) != 1 {
		c.Check("retry-increment", "clusterInvoke:balance-call", ci.Pos(), false, fmt.Sprintf("expected exactly one bal.Balance call in the retry loop, found %d", len(balCalls)))
	} else {
		bc := balCalls[0].(ssa.Instruction)
		isInc := func(x ssa.Instruction) bool {
			st, ok := x.(*ssa.Store)
			if !ok || core.Render(st.Addr) != "request.RetryTime" {
				return false
			}
			b, ok := st.Val.(*ssa.BinOp)
			if !ok || b.Op != token.ADD || core.Render(b.X) != "request.RetryTime" {
				return false
			}
			k, ok := b.Y.(*ssa.Const)
			return ok && k.Value != nil && k.Value.ExactString() != "0" && !strings.HasPrefix(k.Value.ExactString(), "-")
		}
		bad := core.ReachAvoiding(ci, bc, isInc, func(x ssa.Instruction) bool { return x == bc })
		c.Check("retry-increment", "clusterInvoke:loop", bc.Pos(), bad == nil, "a path leads from one bal.Balance call to the next without incrementing request.RetryTime: the retry budget is not consumed")
		// the loop itself is counted
		rts := core.Calls(ci, "invoke:bfe_http.RoundTripper.RoundTrip")
		c.Check("retry-increment", "clusterInvoke:roundtrip-sites", ci.Pos(), len(rts) == 1, fmt.Sprintf("expected one RoundTrip call site, found %d", len(rts)))
		if len(rts) == 1 {
			// false edge of the flag leaves the loop: from `if !allowRetry` true-branch no path back to RoundTrip
			for _, in := range allInstrs(ci) {
				ifi, ok := in.(*ssa.If)
				if !ok || ifi.Cond != flag {
					continue
				}
				noRetry := ifi.Block().Succs[1]
				back := core.ReachAvoiding(ci, noRetry.Instrs[0], nil, func(x ssa.Instruction) bool { return x == rts[0].(ssa.Instruction) })
				c.Check("retry-flag", "clusterInvoke:false-leaves-loop", ifi.Pos(), back == nil && noRetry.Instrs[0] != rts[0].(ssa.Instruction), "when retry is not allowed the loop is not left: RoundTrip is reachable again")
			}
		}
	}
	// RetryTime writers
	if fld, ok := c.P.Obj("bfe_basic", "Request.RetryTime").(*types.Var); !ok {
		c.Missing("bfe_basic.Request.RetryTime")
	} else {
		for _, st := range core.FieldStores(c.P.SrcFuncs(""), fld) {
			k := core.FuncKey(st.Fn)
			val := core.Render(st.Store.Val)
			ok := false
			switch k {
			case srv + ".ReverseProxy.clusterInvoke":
				ok = val == "(request.RetryTime + 1)"
			case gslb + ".BalanceGslb.Balance":
				ok = val == "bal.retryMax" && core.HasGuard(st.Store.Block(), func(g core.Guard) bool {
					return (g.Pol && g.Str == "(req.RetryTime <= bal.retryMax)") || (!g.Pol && g.Str == "!(req.RetryTime > bal.retryMax)")
				})
			}
			c.Check("retrytime-writers", k+":="+val, st.Store.Pos(), ok, "Request.RetryTime is written with "+val+" in "+k+"; only `+= 1` in clusterInvoke and `= bal.retryMax` under RetryTime <= retryMax (non-decreasing) are reviewed")
		}
		c.Min("retrytime-writers", 3)
	}
	// (b) predicates
	if fn := c.P.Func(srv, "checkAllowRetry"); fn == nil {
		c.Missing(srv + ".checkAllowRetry")
	} else {
		c.Analysed(core.FuncKey(fn))
		for i, r := range core.Returns(fn) {
			if core.Render(r.Results[0]) == "false" {
				continue
			}
			gs := core.GuardStrs(r.Block())
			has := func(s string) bool {
				for _, g := range gs {
					if g == s {
						return true
					}
				}
				return false
			}
			ok := core.Render(r.Results[0]) == "true" && has("(retryLevel == 1)") && has("(outreq.Method == \"GET\")") && has("bfe_server.checkRequestWithoutBody(outreq)")
			c.Check("allow-retry-guard", fmt.Sprintf("checkAllowRetry:return#%d", i), r.Pos(), ok,
				"checkAllowRetry returns "+core.Render(r.Results[0])+" under {"+strings.Join(gs, " && ")+"}; required: retryLevel == RetryGet && Method == GET && checkRequestWithoutBody")
		}
		c.Min("allow-retry-guard", 1)
		if k, ok := c.P.Obj("bfe_config/bfe_cluster_conf/cluster_conf", "RetryGet").(*types.Const); !ok || k.Val().ExactString() != "1" {
			c.Check("allow-retry-guard", "RetryGet", token.NoPos, false, "cluster_conf.RetryGet is not the constant 1 the rule was reviewed with")
		}
	}
	if fn := c.P.Func(srv, "checkRequestWithoutBody"); fn == nil {
		c.Missing(srv + ".checkRequestWithoutBody")
	} else {
		c.Analysed(core.FuncKey(fn))
		for i, r := range core.Returns(fn) {
			v := core.Render(r.Results[0])
			if v == "false" {
				continue
			}
			gs := core.GuardStrs(r.Block())
			ok := false
			switch {
			case v == "true":
				ok = core.AllEdgesGuarded(r.Block(), func(g core.Guard) bool {
					return g.Pol && (g.Str == "(req.Body == nil)" || g.Str == "(req.Body == bfe_http.EofReader)")
				})
			case strings.HasPrefix(v, "bfe_spdy.RequestBody.Eof("):
				ok = true
			}
			c.Check("no-body-guard", fmt.Sprintf("checkRequestWithoutBody:return#%d", i), r.Pos(), ok,
				"checkRequestWithoutBody reports `no body` as "+v+" under {"+strings.Join(gs, " && ")+"}; accepted: true under Body == nil / Body == EofReader, or RequestBody.Eof()")
		}
		c.Min("no-body-guard", 2)
	}
	// (d') the cross-retry selector itself never hands back the excluded sub-cluster
	checkExcludePredicate(c, "cross-exclude-predicate")
	// (a') who may classify a failure as a connect error: ConnectError is constructed only on the
	// error branch of the call that acquires the backend connection, before any request byte is
	// written; everything clusterInvoke treats as "always safe to retry" rests on that.
	nCE := 0
	for _, fn := range c.P.SrcFuncs("bfe_http", "bfe_fcgi") {
		core.Instrs(fn, func(in ssa.Instruction) {
			mi, ok := in.(*ssa.MakeInterface)
			if !ok {
				return
			}
			ts := core.TypeStr(mi.X.Type())
			if ts != "bfe_http.ConnectError" && ts != "bfe_fcgi.ConnectError" {
				return
			}
			nCE++
			ok2 := core.HasGuard(in.Block(), func(g core.Guard) bool {
				v, nonNil, isNil := nilTestOf(g)
				if !isNil || !nonNil {
					return false
				}
				ex, isEx := v.(*ssa.Extract)
				if !isEx {
					return false
				}
				call, isCall := ex.Tuple.(*ssa.Call)
				if !isCall {
					return false
				}
				k := core.CalleeKey(&call.Call)
				return k == "bfe_http.Transport.getConn" || k == "bfe_fcgi.Dial" || k == "bfe_fcgi.DialTimeout"
			})
			c.Check("connect-error-origin", core.FuncKey(fn)+":"+ts, in.Pos(), ok2, "a "+ts+" (which clusterInvoke always retries) is produced outside the error branch of the connection-acquiring call: a failure after request bytes were written could be replayed")
		})
	}
	if nCE < 2 {
		c.Check("connect-error-origin", "sites", token.NoPos, false, fmt.Sprintf("expected the two ConnectError construction sites (http, fcgi transports), found %d", nCE))
	}
	// (c,d) BalanceGslb.Balance gates
	if fn := c.P.Func(gslb, "BalanceGslb.Balance"); fn == nil {
		c.Missing(gslb + ".BalanceGslb.Balance")
	} else {
		c.Analysed(core.FuncKey(fn))
		hasG := func(b *ssa.BasicBlock, want string) bool {
			for _, g := range core.GuardStrs(b) {
				if g == want {
					return true
				}
			}
			return false
		}
		for i, call := range append(core.Calls(fn, gslb+".BalanceGslb.subClusterBalance"), append(core.Calls(fn, gslb+".SubCluster.balance"), core.Calls(fn, gslb+".BalanceGslb.randomSelectExclude")...)...) {
			b := call.(ssa.Instruction).Block()
			c.Check("retry-bound", fmt.Sprintf("BalanceGslb.Balance:select#%d", i), call.Pos(), hasG(b, "!(req.RetryTime > (bal.retryMax + bal.crossRetry))"),
				"a selection step is reachable although req.RetryTime > retryMax + crossRetry was not excluded first")
		}
		c.Min("retry-bound", 4)
		// the exceeded branch returns ErrBkRetryTooMany
		found := false
		for _, r := range core.Returns(fn) {
			rv := core.RetVals(r)
			if hasG(r.Block(), "(req.RetryTime > (bal.retryMax + bal.crossRetry))") {
				found = true
				c.Check("retry-bound", "BalanceGslb.Balance:exceeded-return", r.Pos(), isNilConst(rv[0]) && core.Render(rv[1]) == "bfe_basic.ErrBkRetryTooMany", "the retry-exceeded branch must return (nil, ErrBkRetryTooMany); returns "+core.Render(rv[0])+", "+core.Render(rv[1]))
			}
		}
		if !found {
			c.Check("retry-bound", "BalanceGslb.Balance:exceeded-return", fn.Pos(), false, "no return guarded by req.RetryTime > retryMax + crossRetry")
		}
		sb := core.Calls(fn, gslb+".SubCluster.balance")
		rse := core.Calls(fn, gslb+".BalanceGslb.randomSelectExclude")
		if len(sb) == 2 && len(rse) == 1 {
			first := sb[0].(ssa.Instruction)
			c.Check("in-cluster-gate", "BalanceGslb.Balance", first.Pos(), hasG(first.Block(), "(req.RetryTime <= bal.retryMax)"), "in-cluster selection must be limited to req.RetryTime <= retryMax")
			ex := rse[0].(ssa.Instruction)
			arg := rse[0].Common().Args[1]
			okArg := false
			if e, ok := core.StripConv(arg).(*ssa.Extract); ok && e.Index == 0 {
				if call, ok := e.Tuple.(*ssa.Call); ok && core.CallIs(&call.Call, gslb+".BalanceGslb.subClusterBalance") {
					okArg = true
				}
			}
			c.Check("cross-exclude", "BalanceGslb.Balance:exclude-arg", ex.Pos(), okArg, "cross-cluster retry must exclude the request's first-choice sub-cluster (result of subClusterBalance); excludes "+core.Render(arg))
			c.Check("cross-exclude", "BalanceGslb.Balance:cross-enabled", ex.Pos(), hasG(ex.Block(), "!(bal.crossRetry <= 0)"), "cross-cluster selection reachable with crossRetry <= 0")
			second := sb[1]
			okT := false
			if e, ok := core.StripConv(second.Common().Args[0]).(*ssa.Extract); ok && e.Index == 0 && e.Tuple == rse[0].(*ssa.Call) {
				okT = true
			}
			c.Check("cross-exclude", "BalanceGslb.Balance:cross-target", second.Pos(), okT, "the cross-retry selection must run on the sub-cluster returned by randomSelectExclude; runs on "+core.Render(second.Common().Args[0]))
		} else {
			c.Check("cross-exclude", "BalanceGslb.Balance:shape", fn.Pos(), false, fmt.Sprintf("expected 2 SubCluster.balance calls and 1 randomSelectExclude call, found %d and %d", len(sb), len(rse)))
		}
	}
}
