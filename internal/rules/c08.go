package rules

import (
	"fmt"
	"go/constant"
	"go/token"
	"go/types"
	"sort"
	"strings"

	"golang.org/x/tools/go/ssa"

	"verif/internal/core"
)

// C08 — retries are safe and bounded.
func init() {
	Register(&Rule{
		ID: "C08", Section: "3 C08",
		Technique: "value-flow of the retry flag through phis with type-switch arm resolution, guard census on checkAllowRetry/checkRequestWithoutBody, who-may-write census of Request.RetryTime, dominance of the retry bound in BalanceGslb.Balance",
		Meta: core.Meta{
			Level:       "other",
			Explanation: "Decides: (a) in ReverseProxy.clusterInvoke (with its private helpers) every branch whose condition is computed from checkAllowRetry and that chooses between another RoundTrip and leaving the loop has, on every incoming value path (through phis, negations, results and parameters of private helpers), the value false, the result of checkAllowRetry(cluster.RetryLevel(), request.OutRequest) of the cluster and request being invoked, or the constant true only inside the type-switch arm for {bfe_http.ConnectError, bfe_fcgi.ConnectError}; the no-retry edge cannot reach RoundTrip again; (b) checkAllowRetry can return true only under retryLevel == RetryGet && Method == \"GET\" && checkRequestWithoutBody (any spelling: nested ifs, early returns, named booleans, returning the last conjunct), and checkRequestWithoutBody only for Body == nil, Body == EofReader, or an SPDY body's Eof(); (c) every path from one bal.Balance call back to it passes an increment of the invoked request's RetryTime (directly or in a helper that always increments), the only other writer of RetryTime is BalanceGslb.Balance raising it to retryMax under RetryTime <= retryMax, and Balance returns ErrBkRetryTooMany before any selection when RetryTime > retryMax+crossRetry; (d) in-cluster selection (SubCluster.balance on the result of subClusterBalance) happens only under RetryTime <= retryMax, the cross-retry target is the result of randomSelectExclude(first-choice sub-cluster) and is reached only when crossRetry > 0; (e) no unchecked type assertion inside a type-switch arm asserts a type the arm does not imply. Operands are identified by field object, parameter and constant, not by local names. Not covered: the transport's classification of failures into those error types; whether a write error happened before or after bytes reached the backend; a retry decision that is not computed from checkAllowRetry at all (e.g. a second, independent `continue` path around the flag test) is only caught through the RetryTime budget rules; a retry flag returned by a helper through control flow only (`if !flag { return true }`) is reported as unresolved.",
			RuleText:    "obligations = each value source of each retry decision, each `return true` of the two predicates, each writer of Request.RetryTime, the loop back path, the gates in BalanceGslb.Balance, each unchecked type assertion in clusterInvoke",
		},
		Run: runC08,
		Mutants: []Mutant{
			{Name: "retry-on-write-error", File: "bfe_server/reverseproxy.go", Old: "			p.proxyState.ErrBkWriteRequest.Inc(1)\n			allowRetry = checkAllowRetry(cluster.RetryLevel(), outreq)", New: "			p.proxyState.ErrBkWriteRequest.Inc(1)\n			allowRetry = outreq.State.BodySize == 0 || checkAllowRetry(cluster.RetryLevel(), outreq)", Expect: "retry-flag"},
			{Name: "retry-on-broken-transport", File: "bfe_server/reverseproxy.go", Old: "			p.proxyState.ErrBkTransportBroken.Inc(1)\n			allowRetry = checkAllowRetry(cluster.RetryLevel(), outreq)", New: "			p.proxyState.ErrBkTransportBroken.Inc(1)\n			allowRetry = true", Expect: "retry-flag"},
			{Name: "retry-any-method", File: "bfe_server/reverseproxy.go", Old: "		if outreq.Method == \"GET\" && checkRequestWithoutBody(outreq) {", New: "		if checkRequestWithoutBody(outreq) {", Expect: "allow-retry-guard"},
			{Name: "body-check-inverted-default", File: "bfe_server/reverseproxy.go", Old: "		return body.Eof()\n	}\n	return false", New: "		return body.Eof()\n	}\n	return req.ContentLength == 0", Expect: "no-body-guard"},
			{Name: "retry-count-not-incremented", File: "bfe_server/reverseproxy.go", Old: "		if err == bfe_basic.ErrBkCrossRetryBalance {\n			request.RetryTime += 1\n			continue", New: "		if err == bfe_basic.ErrBkCrossRetryBalance {\n			continue", Expect: "retry-increment"},
			{Name: "bound-check-dropped", File: "bfe_balance/bal_gslb/bal_gslb.go", Old: "	if req.RetryTime > (bal.retryMax + bal.crossRetry) {", New: "	if req.RetryTime > (bal.retryMax+bal.crossRetry) && bal.crossRetry < 0 {", Expect: "retry-bound"},
			{Name: "cross-exclude-wrong-target", File: "bfe_balance/bal_gslb/bal_gslb.go", Old: "	current, err = bal.randomSelectExclude(current)", New: "	current, err = bal.randomSelectExclude(nil)", Expect: "cross-exclude"},
			{Name: "stale-conn-as-connect-error", File: "bfe_http/transport.go", Old: "	resp, err = pconn.roundTrip(treq)\n	if err == nil {\n		state.HttpBackendReqSucc.Inc(1)\n	}", New: "	resp, err = pconn.roundTrip(treq)\n	if err == nil {\n		state.HttpBackendReqSucc.Inc(1)\n	} else if _, ok := err.(ReadRespHeaderError); ok {\n		err = ConnectError{Err: err, Addr: cm.addr()}\n	}", Expect: "connect-error-origin"},
			{Name: "retrytime-reset", File: "bfe_balance/bal_gslb/bal_gslb.go", Old: "			req.RetryTime = bal.retryMax\n", New: "			req.RetryTime = 0\n", Expect: "retrytime-writers"},
			// behaviour-preserving edits: the verdict must not change
			{Name: "silent-extract-retry-bookkeeping", Silent: true, File: "bfe_server/reverseproxy.go",
				Old: "		request.RetryTime += 1\n	}\n\n	// have retry?\n	if request.RetryTime > 0 {\n		p.proxyState.ClientReqWithRetry.Inc(1)\n	}\n	// have cross-cluster retry?\n	if request.Stat.IsCrossCluster {\n		p.proxyState.ClientReqWithCrossRetry.Inc(1)\n	}\n\n	log.Logger.Debug(\"clusterInvoke %v %v\", res, err)\n	return\n}\n",
				New: "		consumeRetry(request)\n	}\n\n	// have retry?\n	if request.RetryTime > 0 {\n		p.proxyState.ClientReqWithRetry.Inc(1)\n	}\n	// have cross-cluster retry?\n	if request.Stat.IsCrossCluster {\n		p.proxyState.ClientReqWithCrossRetry.Inc(1)\n	}\n\n	log.Logger.Debug(\"clusterInvoke %v %v\", res, err)\n	return\n}\n\n// consumeRetry accounts one more try of the request.\nfunc consumeRetry(request *bfe_basic.Request) {\n	request.RetryTime += 1\n}\n"},
			{Name: "silent-body-check-early-return", Silent: true, File: "bfe_server/reverseproxy.go",
				Old: "	if body, ok := req.Body.(*bfe_spdy.RequestBody); ok {\n		return body.Eof()\n	}\n	return false",
				New: "	body, ok := req.Body.(*bfe_spdy.RequestBody)\n	if !ok {\n		return false\n	}\n	return body.Eof()"},
			{Name: "silent-allow-retry-renamed-flat", Silent: true, File: "bfe_server/reverseproxy.go",
				Old: "func checkAllowRetry(retryLevel int, outreq *bfe_http.Request) bool {\n	if retryLevel == cluster_conf.RetryGet {\n		// if forward GET request error (eg. backend restart)\n		if outreq.Method == \"GET\" && checkRequestWithoutBody(outreq) {\n			return true\n		}\n	}\n	return false\n}",
				New: "func checkAllowRetry(level int, r *bfe_http.Request) bool {\n	getOnly := cluster_conf.RetryGet == level\n	isGet := \"GET\" == r.Method\n	allowed := getOnly && isGet && checkRequestWithoutBody(r)\n	return allowed\n}"},
			{Name: "silent-bound-mirrored", Silent: true, File: "bfe_balance/bal_gslb/bal_gslb.go",
				Old: "	if req.RetryTime > (bal.retryMax + bal.crossRetry) {",
				New: "	budget := bal.crossRetry + bal.retryMax\n	if !(budget >= req.RetryTime) {"},
			{Name: "silent-retry-debug-log", Silent: true, File: "bfe_server/reverseproxy.go",
				Old: "		if err == bfe_basic.ErrBkCrossRetryBalance {\n			request.RetryTime += 1\n			continue",
				New: "		if err == bfe_basic.ErrBkCrossRetryBalance {\n			log.Logger.Debug(\"cross retry: no backend in sub cluster, retry=%d\", request.RetryTime)\n			if request.RetryTime < 0 {\n				// never here\n				break\n			}\n			request.RetryTime++\n			continue"},
		},
	})
}

// armTypes: if every edge into b is the true edge of a comma-ok type
// assertion, return the asserted types (a type-switch arm entry).
func armTypes(b *ssa.BasicBlock) []types.Type {
	if len(b.Preds) == 0 {
		return nil
	}
	var out []types.Type
	for _, p := range b.Preds {
		ifi, ok := p.Instrs[len(p.Instrs)-1].(*ssa.If)
		if !ok || p.Succs[0] != b || p.Succs[1] == b {
			return nil
		}
		ex, ok := ifi.Cond.(*ssa.Extract)
		if !ok || ex.Index != 1 {
			return nil
		}
		ta, ok := ex.Tuple.(*ssa.TypeAssert)
		if !ok || !ta.CommaOk {
			return nil
		}
		out = append(out, ta.AssertedType)
	}
	return out
}

// enclosingArm walks the dominator chain from b to the nearest type-switch arm entry.
func enclosingArm(b *ssa.BasicBlock) (*ssa.BasicBlock, []types.Type) {
	for x := b; x != nil; x = x.Idom() {
		if ts := armTypes(x); ts != nil {
			return x, ts
		}
	}
	return nil, nil
}

func typeNames(ts []types.Type) []string {
	var s []string
	for _, t := range ts {
		s = append(s, core.TypeStr(t))
	}
	sort.Strings(s)
	return s
}

// armCtx: the type-switch arm (or comma-ok assertion branch) that encloses b;
// inside a private helper of the region without an arm of its own, the arms
// enclosing all of its call sites.
func armCtx(rg *rRegion, b *ssa.BasicBlock, depth int) []types.Type {
	if b == nil {
		return nil
	}
	if _, ts := enclosingArm(b); ts != nil {
		return ts
	}
	f := b.Parent()
	if depth <= 0 || f == rg.root || !rg.in[f] || len(rg.sites[f]) == 0 {
		return nil
	}
	var out []types.Type
	for _, s := range rg.sites[f] {
		ts := armCtx(rg, s.Block(), depth-1)
		if ts == nil {
			return nil
		}
		out = append(out, ts...)
	}
	return out
}

// reachBlocks: blocks reachable from the start of b (b included).
func reachBlocks(b *ssa.BasicBlock) map[*ssa.BasicBlock]bool {
	seen := map[*ssa.BasicBlock]bool{b: true}
	work := []*ssa.BasicBlock{b}
	for len(work) > 0 {
		x := work[len(work)-1]
		work = work[:len(work)-1]
		for _, s := range x.Succs {
			if !seen[s] {
				seen[s] = true
				work = append(work, s)
			}
		}
	}
	return seen
}

func runC08(c *core.Ctx) {
	const srv = "bfe_server"
	const gslb = "bfe_balance/bal_gslb"
	ci := c.P.Func(srv, "ReverseProxy.clusterInvoke")
	if ci == nil {
		c.Missing(srv + ".ReverseProxy.clusterInvoke")
		return
	}
	c.Analysed(core.FuncKey(ci))
	rg := rNewRegion(c.P, ci)
	reqPar := rg.rootParam("*bfe_basic.Request")
	var cluPar *ssa.Parameter
	for _, q := range ci.Params {
		if strings.HasSuffix(core.TypeStr(q.Type()), ".BfeCluster") {
			cluPar = q
		}
	}
	if reqPar == nil || cluPar == nil {
		c.Missing("clusterInvoke: parameters of type *bfe_basic.Request and *BfeCluster")
		return
	}
	retryTime, _ := c.P.Obj("bfe_basic", "Request.RetryTime").(*types.Var)
	outReq, _ := c.P.Obj("bfe_basic", "Request.OutRequest").(*types.Var)
	if retryTime == nil || outReq == nil {
		c.Missing("bfe_basic.Request.RetryTime / OutRequest")
		return
	}
	// attempt sites: a RoundTrip (resp. Balance) call, or a call of a region helper that contains one
	lift := func(names ...string) func(ssa.Instruction) bool {
		has := map[*ssa.Function]bool{}
		direct := func(in ssa.Instruction) bool {
			cc, ok := in.(ssa.CallInstruction)
			return ok && core.CallIs(cc.Common(), names...)
		}
		for changed := true; changed; {
			changed = false
			for _, f := range rg.fns {
				if has[f] {
					continue
				}
				core.Instrs(f, func(in ssa.Instruction) {
					if has[f] {
						return
					}
					if direct(in) {
						has[f] = true
					} else if cc, ok := in.(ssa.CallInstruction); ok {
						if h := cc.Common().StaticCallee(); h != nil && rg.in[h] && has[h] {
							has[f] = true
						}
					}
				})
				if has[f] {
					changed = true
				}
			}
		}
		return func(in ssa.Instruction) bool {
			if direct(in) {
				return true
			}
			if _, isGo := in.(*ssa.Go); isGo {
				return false
			}
			cc, ok := in.(ssa.CallInstruction)
			if !ok {
				return false
			}
			h := cc.Common().StaticCallee()
			return h != nil && rg.in[h] && has[h]
		}
	}
	isAttempt := lift("invoke:bfe_http.RoundTripper.RoundTrip")
	isSelect := lift(gslb + ".BalanceGslb.Balance")
	// (a) the retry decision: every branch of the region whose condition is computed from
	// checkAllowRetry and that decides between another attempt and leaving the loop
	allowCalls := rg.calls(srv + ".checkAllowRetry")
	if len(allowCalls) == 0 {
		c.Missing("clusterInvoke: no call of checkAllowRetry in clusterInvoke or its private helpers (the retry decision)")
	}
	dep := map[ssa.Value]bool{}
	{
		var work []ssa.Value
		add := func(v ssa.Value) {
			if v != nil && !dep[v] {
				dep[v] = true
				work = append(work, v)
			}
		}
		for _, ac := range allowCalls {
			if v, ok := ac.(*ssa.Call); ok {
				add(v)
			}
		}
		for len(work) > 0 {
			v := work[len(work)-1]
			work = work[:len(work)-1]
			if v.Referrers() == nil {
				continue
			}
			for _, u := range *v.Referrers() {
				switch x := u.(type) {
				case *ssa.Phi:
					add(x)
				case *ssa.UnOp:
					if x.Op == token.NOT {
						add(x)
					}
				case *ssa.BinOp:
					add(x)
				case *ssa.Store:
					// result slot of a function with defer: the reload before return carries the value
					if a, ok := x.Addr.(*ssa.Alloc); ok && x.Val == v && a.Referrers() != nil {
						for _, ld := range *a.Referrers() {
							if l, ok := ld.(*ssa.UnOp); ok && l.Op == token.MUL {
								add(l)
							}
						}
					}
				case *ssa.Return:
					f := x.Parent()
					for ri, res := range x.Results {
						if res != v {
							continue
						}
						for _, s := range rg.sites[f] {
							call, ok := s.(*ssa.Call)
							if !ok {
								continue
							}
							if len(x.Results) == 1 {
								add(call)
							} else if call.Referrers() != nil {
								for _, e := range *call.Referrers() {
									if ex, ok := e.(*ssa.Extract); ok && ex.Index == ri {
										add(ex)
									}
								}
							}
						}
					}
				case ssa.CallInstruction:
					if h := x.Common().StaticCallee(); h != nil && h != ci && rg.in[h] && h.Parent() == nil {
						for ai, a := range x.Common().Args {
							if a == v && ai < len(h.Params) {
								add(h.Params[ai])
							}
						}
					}
				}
			}
		}
	}
	nDecisions := 0
	rg.instrs(func(in ssa.Instruction) {
		ifi, ok := in.(*ssa.If)
		if !ok || !dep[ifi.Cond] {
			return
		}
		blk := ifi.Block()
		if blk.Succs[0] == blk.Succs[1] {
			return
		}
		// which edge leads to another attempt?
		again := [2]bool{}
		for e := 0; e < 2; e++ {
			for b := range reachBlocks(blk.Succs[e]) {
				for _, x := range b.Instrs {
					if isAttempt(x) {
						again[e] = true
					}
				}
			}
		}
		if !again[0] && !again[1] {
			return // not a loop decision in this function (e.g. inside a helper computing the flag)
		}
		nDecisions++
		ifPos := ifi.Cond.Pos()
		if !ifPos.IsValid() && len(blk.Instrs) > 0 {
			ifPos = blk.Instrs[0].Pos()
		}
		c.Check("retry-flag", "clusterInvoke:false-leaves-loop", ifPos, again[0] != again[1], "when retry is not allowed the loop is not left: RoundTrip is reachable again on both edges of the retry decision")
		if again[0] == again[1] {
			return
		}
		// value flow of the decision; neg: the condition being true means "do not retry"
		seen := map[ssa.Value]bool{}
		var visit func(v ssa.Value, from *ssa.BasicBlock, neg bool, pos token.Pos)
		visit = func(v ssa.Value, from *ssa.BasicBlock, neg bool, pos token.Pos) {
			if _, isConst := v.(*ssa.Const); !isConst {
				if seen[v] {
					return
				}
				seen[v] = true
			}
			names := typeNames(armCtx(rg, from, 3))
			at := strings.Join(names, ",")
			if v.Pos().IsValid() {
				pos = v.Pos()
			}
			switch x := v.(type) {
			case *ssa.Phi:
				for i, e := range x.Edges {
					p := x.Block().Preds[i]
					epos := pos
					if len(p.Instrs) > 0 && p.Instrs[0].Pos().IsValid() {
						epos = p.Instrs[0].Pos()
					}
					visit(e, p, neg, epos)
				}
				return
			case *ssa.UnOp:
				if x.Op == token.NOT {
					visit(x.X, from, !neg, pos)
					return
				}
				if x.Op == token.MUL {
					// result slot reloaded after rundefers
					if a, ok := x.X.(*ssa.Alloc); ok && a.Referrers() != nil {
						n := 0
						for _, r := range *a.Referrers() {
							if st, ok := r.(*ssa.Store); ok && st.Addr == a {
								n++
								visit(st.Val, st.Block(), neg, pos)
							}
						}
						if n > 0 {
							return
						}
					}
				}
			case *ssa.Parameter:
				h := x.Parent()
				if h != ci && rg.in[h] && len(rg.sites[h]) > 0 {
					i := paramIndex(x)
					for _, s := range rg.sites[h] {
						visit(s.Common().Args[i], s.Block(), neg, s.Pos())
					}
					return
				}
			case *ssa.Extract:
				if call, ok := x.Tuple.(*ssa.Call); ok {
					if h := call.Call.StaticCallee(); h != nil && h != ci && rg.in[h] && h.Blocks != nil {
						for _, r := range core.Returns(h) {
							visit(core.RetVals(r)[x.Index], r.Block(), neg, r.Pos())
						}
						return
					}
				}
			case *ssa.Const:
				val, isBool := rBoolConst(x)
				allow := isBool && (val != neg)
				if allow {
					ok := len(names) > 0
					for _, t := range names {
						if t != "bfe_http.ConnectError" && t != "bfe_fcgi.ConnectError" {
							ok = false
						}
					}
					c.Check("retry-flag", "clusterInvoke:true@"+at, pos, ok,
						"retry is unconditionally allowed outside the connect-error arm (arm types: "+at+"); a request that may already have reached a backend would be replayed")
				} else {
					c.Check("retry-flag", "clusterInvoke:false@"+at, pos, isBool, "the retry decision is a non-boolean constant")
				}
				return
			case *ssa.Call:
				if h := x.Call.StaticCallee(); h != nil && h != ci && rg.in[h] && h.Blocks != nil && !core.CallIs(&x.Call, srv+".checkAllowRetry") {
					for _, r := range core.Returns(h) {
						visit(core.RetVals(r)[0], r.Block(), neg, r.Pos())
					}
					return
				}
				ok := !neg && core.CallIs(&x.Call, srv+".checkAllowRetry") && len(x.Call.Args) == 2
				if ok {
					// first argument: RetryLevel() of the cluster being invoked
					ok = false
					if lv, isCall := core.StripConv(x.Call.Args[0]).(*ssa.Call); isCall && strings.HasSuffix(core.CalleeKey(&lv.Call), ".BfeCluster.RetryLevel") && len(lv.Call.Args) == 1 {
						ok = rg.isRootParam(lv.Call.Args[0], cluPar)
					}
					// second argument: the request's OutRequest
					okReq := true
					for _, o := range rg.origins(x.Call.Args[1]) {
						base := rFieldLoad(o, outReq)
						if base == nil || !rg.isRootParam(base, reqPar) {
							okReq = false
						}
					}
					ok = ok && okReq
				}
				c.Check("retry-flag", "clusterInvoke:call@"+at, x.Pos(), ok,
					"retry flag is computed by "+core.Render(x)+", expected checkAllowRetry(cluster.RetryLevel(), outreq) of the cluster and request being invoked")
				return
			}
			c.Check("retry-flag", "clusterInvoke:other@"+at, pos, false,
				"retry flag is "+core.Render(v)+": neither false, the connect-error constant true, nor checkAllowRetry(...)")
		}
		visit(ifi.Cond, blk, again[1], ifPos)
	})
	if len(allowCalls) > 0 && nDecisions == 0 {
		c.Missing("clusterInvoke: the branch on the retry flag (no branch computed from checkAllowRetry decides between another RoundTrip and leaving the loop)")
	}
	if nDecisions > 0 {
		c.Min("retry-flag", 6)
	}
	// every way from one attempt to the next passes a retry decision on its retry edge: covered by
	// (c) for the budget; here: a RoundTrip can only be repeated through one of the decisions above
	// (e) unchecked type assertions inside arms
	rg.instrs(func(in ssa.Instruction) {
		ta, ok := in.(*ssa.TypeAssert)
		if !ok || ta.CommaOk {
			return
		}
		ts := armCtx(rg, ta.Block(), 3)
		ok2 := len(ts) > 0
		for _, t := range ts {
			if types.IsInterface(ta.AssertedType) {
				if !types.Implements(t, ta.AssertedType.Underlying().(*types.Interface)) {
					ok2 = false
				}
			} else if !types.Identical(t, ta.AssertedType) {
				ok2 = false
			}
		}
		c.Check("assert-in-arm", "clusterInvoke:"+core.TypeStr(ta.AssertedType), ta.Pos(), ok2,
			"unchecked type assertion to "+core.TypeStr(ta.AssertedType)+" inside a type-switch arm for {"+strings.Join(typeNames(ts), ", ")+"}: panics for the other member(s) of the arm")
	})
	// (c) loop: Balance -> ... -> Balance passes an increment of RetryTime
	isRetryTimeOfReq := func(v ssa.Value) bool {
		base := rFieldLoad(v, retryTime)
		return base != nil && rg.isRootParam(base, reqPar)
	}
	posConst := func(v ssa.Value) bool {
		k, ok := v.(*ssa.Const)
		return ok && k.Value != nil && k.Value.Kind() == constant.Int && constant.Sign(k.Value) > 0
	}
	isInc := func(x ssa.Instruction) bool {
		st, ok := x.(*ssa.Store)
		if !ok {
			return false
		}
		base := rFieldAddr(st.Addr, retryTime)
		if base == nil || !rg.in[st.Parent()] || !rg.isRootParam(base, reqPar) {
			return false
		}
		b, ok := st.Val.(*ssa.BinOp)
		if !ok || b.Op != token.ADD {
			return false
		}
		return (isRetryTimeOfReq(b.X) && posConst(b.Y)) || (isRetryTimeOfReq(b.Y) && posConst(b.X))
	}
	mustInc := core.LiftMust(isInc, 2)
	nLoop := 0
	rg.instrs(func(in ssa.Instruction) {
		if !isSelect(in) {
			return
		}
		f := in.Parent()
		if core.ReachAvoiding(f, in, nil, func(x ssa.Instruction) bool { return x == in }) == nil {
			return // not in a loop of this function
		}
		nLoop++
		bad := core.ReachAvoiding(f, in, mustInc, func(x ssa.Instruction) bool { return x == in })
		c.Check("retry-increment", "clusterInvoke:loop", in.Pos(), bad == nil, "a path leads from one bal.Balance call to the next without incrementing request.RetryTime: the retry budget is not consumed")
	})
	if nLoop == 0 {
		c.Check("retry-increment", "clusterInvoke:balance-call", ci.Pos(), false, "no bal.Balance call inside a loop of clusterInvoke (or of a private helper): the retry loop the rule was reviewed with is gone")
	}
	nRT := 0
	rg.instrs(func(in ssa.Instruction) {
		if cc, ok := in.(ssa.CallInstruction); ok && core.CallIs(cc.Common(), "invoke:bfe_http.RoundTripper.RoundTrip") {
			nRT++
		}
	})
	c.Check("retry-increment", "clusterInvoke:roundtrip-sites", ci.Pos(), nRT >= 1, fmt.Sprintf("expected a RoundTrip call site in clusterInvoke, found %d", nRT))
	// RetryTime writers
	balFn := c.P.Func(gslb, "BalanceGslb.Balance")
	var balRg *rRegion
	if balFn != nil {
		balRg = rNewRegion(c.P, balFn)
	}
	retryMax, _ := c.P.Obj(gslb, "BalanceGslb.retryMax").(*types.Var)
	crossRetry, _ := c.P.Obj(gslb, "BalanceGslb.crossRetry").(*types.Var)
	isRetryTime := func(v ssa.Value) bool { return rFieldLoad(v, retryTime) != nil }
	isRetryMax := func(v ssa.Value) bool { return retryMax != nil && rFieldLoad(v, retryMax) != nil }
	isCrossRetry := func(v ssa.Value) bool { return crossRetry != nil && rFieldLoad(v, crossRetry) != nil }
	isBudget := func(v ssa.Value) bool {
		b, ok := core.StripConv(v).(*ssa.BinOp)
		if !ok || b.Op != token.ADD {
			return false
		}
		return (isRetryMax(b.X) && isCrossRetry(b.Y)) || (isRetryMax(b.Y) && isCrossRetry(b.X))
	}
	for _, st := range core.FieldStores(c.P.SrcFuncs(""), retryTime) {
		k := core.FuncKey(st.Fn)
		val := core.Render(st.Store.Val)
		ok := false
		form := "=" + val
		switch {
		case rg.in[st.Fn]:
			ok = isInc(st.Store)
			if ok {
				form = "+=const"
			}
		case balRg != nil && balRg.in[st.Fn]:
			if isRetryMax(st.Store.Val) {
				form = "=retryMax"
				ok = rHolds(c.P, st.Store.Block(), rCmp(token.LEQ, isRetryTime, isRetryMax))
			}
		}
		c.Check("retrytime-writers", k+":"+form, st.Store.Pos(), ok, "Request.RetryTime is written with "+val+" in "+k+"; only `+= 1` in clusterInvoke and `= bal.retryMax` under RetryTime <= retryMax (non-decreasing) are reviewed")
	}
	c.Min("retrytime-writers", 3)
	// (b) predicates
	if fn := c.P.Func(srv, "checkAllowRetry"); fn == nil {
		c.Missing(srv + ".checkAllowRetry")
	} else {
		c.Analysed(core.FuncKey(fn))
		retryGet := "1"
		if k, ok := c.P.Obj("bfe_config/bfe_cluster_conf/cluster_conf", "RetryGet").(*types.Const); !ok || k.Val().ExactString() != "1" {
			c.Check("allow-retry-guard", "RetryGet", token.NoPos, false, "cluster_conf.RetryGet is not the constant 1 the rule was reviewed with")
		}
		method, _ := c.P.Obj("bfe_http", "Request.Method").(*types.Var)
		isParam := func(v ssa.Value) bool { p := rParamOf(core.StripConv(v)); return p != nil && p.Parent() == fn }
		mLevel := rCmp(token.EQL, func(v ssa.Value) bool {
			p := rParamOf(core.StripConv(v))
			return p != nil && p.Parent() == fn && types.Identical(p.Type().Underlying(), types.Typ[types.Int])
		}, rIsIntConst(retryGet))
		mGet := rCmp(token.EQL, func(v ssa.Value) bool {
			base := rFieldLoad(v, method)
			return base != nil && isParam(base)
		}, func(v ssa.Value) bool { s, ok := core.ConstString(v); return ok && s == "GET" })
		mNoBody := func(g core.Guard) bool {
			call, ok := g.Cond.(*ssa.Call)
			return ok && g.Pol && core.CallIs(&call.Call, srv+".checkRequestWithoutBody") && len(call.Call.Args) == 1 && isParam(call.Call.Args[0])
		}
		for i, r := range core.Returns(fn) {
			v := core.RetVals(r)[0]
			if k, isK := rBoolConst(v); isK && !k {
				continue
			}
			ok := true
			var why []string
			n := 0
			for _, base := range rBlockAlts(c.P, r.Block()) {
				for _, a := range rTrueAlts(v, base, true, 4) {
					n++
					if !(a.has(mLevel) && a.has(mGet) && a.has(mNoBody)) {
						ok = false
						var gs []string
						for _, g := range a {
							gs = append(gs, g.Str)
						}
						why = append(why, "{"+strings.Join(gs, " && ")+"}")
					}
				}
			}
			if n == 0 {
				continue // cannot be true
			}
			c.Check("allow-retry-guard", fmt.Sprintf("checkAllowRetry:return#%d", i), r.Pos(), ok,
				"checkAllowRetry returns true under "+strings.Join(why, " or ")+"; required: retryLevel == RetryGet && Method == GET && checkRequestWithoutBody")
		}
		c.Min("allow-retry-guard", 1)
	}
	if fn := c.P.Func(srv, "checkRequestWithoutBody"); fn == nil {
		c.Missing(srv + ".checkRequestWithoutBody")
	} else {
		c.Analysed(core.FuncKey(fn))
		body, _ := c.P.Obj("bfe_http", "Request.Body").(*types.Var)
		isBody := func(v ssa.Value) bool {
			base := rFieldLoad(v, body)
			p := rParamOf(base)
			return base != nil && p != nil && p.Parent() == fn
		}
		isEofReader := func(v ssa.Value) bool {
			u, ok := core.StripConv(v).(*ssa.UnOp)
			if !ok || u.Op != token.MUL {
				return false
			}
			g, ok := u.X.(*ssa.Global)
			return ok && g.Name() == "EofReader" && g.Pkg != nil && strings.HasSuffix(g.Pkg.Pkg.Path(), "/bfe_http")
		}
		mNil := rCmp(token.EQL, isBody, isNilConst)
		mEof := rCmp(token.EQL, isBody, isEofReader)
		mSpdy := func(g core.Guard) bool {
			call, ok := g.Cond.(*ssa.Call)
			return ok && g.Pol && core.CallIs(&call.Call, "bfe_spdy.RequestBody.Eof")
		}
		for i, r := range core.Returns(fn) {
			v := core.RetVals(r)[0]
			if k, isK := rBoolConst(v); isK && !k {
				continue
			}
			ok := true
			var why []string
			n := 0
			for _, base := range rBlockAlts(c.P, r.Block()) {
				for _, a := range rTrueAlts(v, base, true, 4) {
					n++
					if !(a.has(mNil) || a.has(mEof) || a.has(mSpdy)) {
						ok = false
						var gs []string
						for _, g := range a {
							gs = append(gs, g.Str)
						}
						why = append(why, "{"+strings.Join(gs, " && ")+"}")
					}
				}
			}
			if n == 0 {
				continue
			}
			c.Check("no-body-guard", fmt.Sprintf("checkRequestWithoutBody:return#%d", i), r.Pos(), ok,
				"checkRequestWithoutBody reports `no body` under "+strings.Join(why, " or ")+"; accepted: true under Body == nil / Body == EofReader, or RequestBody.Eof()")
		}
		c.Min("no-body-guard", 2)
	}
	// (d') the cross-retry selector itself never hands back the excluded sub-cluster
	checkExcludePredicateR(c, "cross-exclude-predicate")
	// (a') who may classify a failure as a connect error: ConnectError is constructed only on the
	// error branch of the call that acquires the backend connection, before any request byte is
	// written; everything clusterInvoke treats as "always safe to retry" rests on that.
	nCE := 0
	isDialErr := func(v ssa.Value) bool {
		ex, isEx := core.StripConv(v).(*ssa.Extract)
		if !isEx {
			return false
		}
		call, isCall := ex.Tuple.(*ssa.Call)
		if !isCall {
			return false
		}
		k := core.CalleeKey(&call.Call)
		return k == "bfe_http.Transport.getConn" || k == "bfe_fcgi.Dial" || k == "bfe_fcgi.DialTimeout"
	}
	for _, fn := range c.P.SrcFuncs("bfe_http", "bfe_fcgi") {
		core.Instrs(fn, func(in ssa.Instruction) {
			mi, ok := in.(*ssa.MakeInterface)
			if !ok {
				return
			}
			ts := core.TypeStr(mi.X.Type())
			if ts != "bfe_http.ConnectError" && ts != "bfe_fcgi.ConnectError" {
				return
			}
			nCE++
			ok2 := rHolds(c.P, in.Block(), rNonNil(isDialErr))
			c.Check("connect-error-origin", core.FuncKey(fn)+":"+ts, in.Pos(), ok2, "a "+ts+" (which clusterInvoke always retries) is produced outside the error branch of the connection-acquiring call: a failure after request bytes were written could be replayed")
		})
	}
	if nCE < 2 {
		c.Check("connect-error-origin", "sites", token.NoPos, false, fmt.Sprintf("expected the two ConnectError construction sites (http, fcgi transports), found %d", nCE))
	}
	// (c,d) BalanceGslb.Balance gates
	if balFn == nil {
		c.Missing(gslb + ".BalanceGslb.Balance")
	} else {
		fn := balFn
		c.Analysed(core.FuncKey(fn))
		within := rCmp(token.LEQ, isRetryTime, isBudget)
		exceeded := rCmp(token.GTR, isRetryTime, isBudget)
		sel := balRg.calls(gslb+".BalanceGslb.subClusterBalance", gslb+".SubCluster.balance", gslb+".BalanceGslb.randomSelectExclude")
		for i, call := range sel {
			b := call.(ssa.Instruction).Block()
			c.Check("retry-bound", fmt.Sprintf("BalanceGslb.Balance:select#%d", i), call.Pos(), rHolds(c.P, b, within),
				"a selection step is reachable although req.RetryTime > retryMax + crossRetry was not excluded first")
		}
		c.Min("retry-bound", 4)
		// the exceeded branch returns ErrBkRetryTooMany
		found := false
		for _, r := range core.Returns(fn) {
			rv := core.RetVals(r)
			if rHolds(c.P, r.Block(), exceeded) {
				found = true
				c.Check("retry-bound", "BalanceGslb.Balance:exceeded-return", r.Pos(), isNilConst(rv[0]) && core.Render(rv[1]) == "bfe_basic.ErrBkRetryTooMany", "the retry-exceeded branch must return (nil, ErrBkRetryTooMany); returns "+core.Render(rv[0])+", "+core.Render(rv[1]))
			}
		}
		if !found {
			c.Check("retry-bound", "BalanceGslb.Balance:exceeded-return", fn.Pos(), false, "no return guarded by req.RetryTime > retryMax + crossRetry")
		}
		// in-cluster selections run on the request's assigned sub-cluster under RetryTime <= retryMax;
		// cross selections run on the result of randomSelectExclude(assigned sub-cluster) under crossRetry > 0
		resultOf := func(v ssa.Value, callee string) *ssa.Call {
			if e, ok := core.StripConv(v).(*ssa.Extract); ok && e.Index == 0 {
				if call, ok := e.Tuple.(*ssa.Call); ok && core.CallIs(&call.Call, callee) {
					return call
				}
			}
			return nil
		}
		sb := balRg.calls(gslb + ".SubCluster.balance")
		rse := balRg.calls(gslb + ".BalanceGslb.randomSelectExclude")
		nIn, nCross := 0, 0
		for _, call := range sb {
			in := call.(ssa.Instruction)
			var recvs []ssa.Value
			recvs = balRg.origins(call.Common().Args[0])
			inCluster, cross := len(recvs) > 0, len(recvs) > 0
			for _, rv := range recvs {
				if resultOf(rv, gslb+".BalanceGslb.subClusterBalance") == nil {
					inCluster = false
				}
				if resultOf(rv, gslb+".BalanceGslb.randomSelectExclude") == nil {
					cross = false
				}
			}
			switch {
			case inCluster:
				nIn++
				c.Check("in-cluster-gate", "BalanceGslb.Balance", in.Pos(), rHolds(c.P, in.Block(), rCmp(token.LEQ, isRetryTime, isRetryMax)), "in-cluster selection must be limited to req.RetryTime <= retryMax")
			case cross:
				nCross++
				c.Check("cross-exclude", "BalanceGslb.Balance:cross-target", in.Pos(), true, "")
			default:
				nCross++
				c.Check("cross-exclude", "BalanceGslb.Balance:cross-target", in.Pos(), false, "a backend selection must run on the request's assigned sub-cluster or, for a cross retry, on the sub-cluster returned by randomSelectExclude; runs on "+core.Render(call.Common().Args[0]))
			}
		}
		for _, call := range rse {
			ex := call.(ssa.Instruction)
			okArg := len(call.Common().Args) == 2
			if okArg {
				os := balRg.origins(call.Common().Args[1])
				okArg = len(os) > 0
				for _, o := range os {
					if resultOf(o, gslb+".BalanceGslb.subClusterBalance") == nil {
						okArg = false
					}
				}
			}
			arg := "?"
			if len(call.Common().Args) == 2 {
				arg = core.Render(call.Common().Args[1])
			}
			c.Check("cross-exclude", "BalanceGslb.Balance:exclude-arg", ex.Pos(), okArg, "cross-cluster retry must exclude the request's first-choice sub-cluster (result of subClusterBalance); excludes "+arg)
			c.Check("cross-exclude", "BalanceGslb.Balance:cross-enabled", ex.Pos(), rHolds(c.P, ex.Block(), rCmp(token.GTR, isCrossRetry, rIsIntConst("0"))), "cross-cluster selection reachable with crossRetry <= 0")
		}
		if nIn == 0 || nCross == 0 || len(rse) == 0 {
			c.Check("cross-exclude", "BalanceGslb.Balance:shape", fn.Pos(), false, fmt.Sprintf("expected an in-cluster SubCluster.balance call, a cross-cluster one and a randomSelectExclude call, found %d, %d and %d", nIn, nCross, len(rse)))
		}
	}
}
