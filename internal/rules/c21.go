package rules

import (
	"fmt"
	"go/token"
	"go/types"
	"sort"
	"strings"

	"golang.org/x/tools/go/ssa"

	"verif/internal/core"
)

// C21 — body pipes deliver data in order exactly once.
func init() {
	Register(&Rule{
		ID: "C21", Section: "5 C21",
		Technique: "must-held lock sets (guarded-by p.mu) over every Pipe field access incl. dereferences of the *error handed to closeWithError, condition-variable rules (Wait inside a cycle that re-tests every predicate, Signal on every path after a predicate change, Locker initialised before use), guard/dominance rules for the order of the three tests in Pipe.Read, error forwarding of PipeBuffer.Write, nil-buffer guards, cursor/copy agreement in FixedBuffer incl. the slide copy, forward value slices of guarded-field reads against paths from Cond.Wait (stale snapshot), pool hand-back discipline (reset, no use after Put, reference cleared), census of Release callers",
		Meta: core.Meta{
			Level:       "other",
			Explanation: "Decides: (a) every access of Pipe.b/err/breakErr/donec/readFn/c.L in package pipe (including `*dst` inside closeWithError, whose callers pass &p.err / &p.breakErr) happens with p.mu held, closeDoneLocked is only called with p.mu held, objects under construction exempt; (b) Cond.Wait is called with the lock held, inside a cycle on which the breakErr test, the buffered-data test and the err test all lie, and no return is reachable from Wait without re-testing breakErr; c.L is set to &p.mu before any Wait/Signal; every function that writes err/breakErr (via dst) or writes into the buffer signals the condition on every path to its exit; (c) in Pipe.Read the buffered data is returned only when breakErr is nil, p.err is returned only when breakErr is nil and the buffer is nil or empty, the break return yields (0, breakErr), the data return forwards PipeBuffer.Read, Wait is reached only with err == nil, breakErr == nil and no data; Err() prefers breakErr; (d) Pipe.Write writes only when err == nil and b != nil, forwards both results of PipeBuffer.Write unchanged, every other return is (0, non-nil error); FixedBuffer.Write reports errWriteFull unless copy took all of p; (e) every method call on p.b outside Release is guarded by p.b != nil; every caller of Pipe.Release closes the pipe (CloseWithError/BreakWithError on the same pipe) first; closeWithError stores only a non-nil error, only over nil or io.EOF, and CloseWithError/BreakWithError target err/breakErr respectively; donec is closed only in closeDoneLocked under a nil check; (f) FixedBuffer.Read/Write advance r/w by exactly the copy count, copy from buf[r:w] / into buf[w:], return that count, Len is w-r, and r is reset to 0 only together with w (w = 0 or w -= r).; (g) every slide (w -= r together with r = 0) is preceded by a copy within buf whose source is buf[r:] / buf[r:w] and whose destination starts at buf[0] and is not capped (no upper bound, or len(buf), w, w-r); (h) forward dataflow per function and guarded field: at a point where p.mu is given up and taken again (Cond.Wait, an Unlock from which a Lock is reachable, a call of a package function that does so) every value computed so far from a read of b/err/breakErr/readFn/donec becomes stale, it is fresh again once the field was read again on the path (phis take the state of the edge they are entered over), and no instruction may use a stale value (no stale snapshot of the buffer or of the close state across Wait); after a final explicit Unlock (no Lock reachable) a snapshot taken under the lock may be compared and returned — exactly what a deferred Unlock allows — but not acted through (no call on or with it, no store to shared memory, no send); (i) a buffer put into a sync.Pool was Reset() before, Pipe.b is set to nil on every path after the Put and nothing touches the buffer between Put and that store. Refactoring-robust reading: returns are classified through private helper methods called on the same pipe (a helper all of whose returns yield p.err counts as p.err), named results assigned before the return are followed to the store that reaches the return on every path, conditions evaluated into a value (tagless switch case `a && b`, named booleans) are read through their phi in both polarities (conjunction when true, disjunction when false), the c.L initialisation is recognised in either spelling and inside a helper called first. Not covered: when a slide is triggered (the `r > 0 && len(p) > free` condition only affects whether a fitting write is refused), exactly-once delivery over histories, a second Release on the same pipe (p.b is nil then and Release dereferences it — callers are checked to release once per close path only by dominance, not by history), fairness of Signal (one waiter assumed).",
			RuleText:    "obligations = each (function, Pipe field) access set, each Wait/Signal site, each return of Pipe.Read/Write/Err, each store through closeWithError's dst, each buffer method call, each Release call site in the module, the cursor updates and slides of FixedBuffer, each (function with a Wait, guarded field) pair, each sync.Pool.Put of the pipe buffer",
			Assumptions: []string{"at most one goroutine waits in Pipe.Read per pipe (Signal, not Broadcast)", "sync.Mutex/sync.Cond semantics"},
		},
		Run: runC21,
		Mutants: []Mutant{
			{Name: "read-data-before-break", File: "bfe_util/pipe/pipe.go", Old: "		if p.breakErr != nil {\n			return 0, p.breakErr\n		}\n		if p.b != nil && p.b.Len() > 0 {\n			return p.b.Read(d)\n		}\n", New: "		if p.b != nil && p.b.Len() > 0 {\n			return p.b.Read(d)\n		}\n		if p.breakErr != nil {\n			return 0, p.breakErr\n		}\n", Expect: "read-order|Pipe.Read:data-return"},
			{Name: "read-close-before-data", File: "bfe_util/pipe/pipe.go", Old: "		if p.b != nil && p.b.Len() > 0 {\n			return p.b.Read(d)\n		}\n		if p.err != nil {\n			if p.readFn != nil {\n				p.readFn()     // e.g. copy trailers\n				p.readFn = nil // not sticky like p.err\n			}\n			return 0, p.err\n		}\n", New: "		if p.err != nil {\n			if p.readFn != nil {\n				p.readFn()     // e.g. copy trailers\n				p.readFn = nil // not sticky like p.err\n			}\n			return 0, p.err\n		}\n		if p.b != nil && p.b.Len() > 0 {\n			return p.b.Read(d)\n		}\n", Expect: "read-order|Pipe.Read:close-return"},
			{Name: "wait-without-retest", File: "bfe_util/pipe/pipe.go", Old: "		p.c.Wait()\n	}\n}", New: "		p.c.Wait()\n		return 0, p.err\n	}\n}", Expect: "wait-loop"},
			{Name: "write-signal-dropped", File: "bfe_util/pipe/pipe.go", Old: "	defer p.c.Signal()\n	if p.err != nil {\n		return 0, errClosedPipeWrite", New: "	if p.err != nil {\n		return 0, errClosedPipeWrite", Expect: "signal|Pipe.Write"},
			{Name: "close-signal-dropped", File: "bfe_util/pipe/pipe.go", Old: "	defer p.c.Signal()\n	if *dst != nil {", New: "	if *dst != nil {", Expect: "signal|Pipe.closeWithError"},
			{Name: "err-unlocked", File: "bfe_util/pipe/pipe.go", Old: "func (p *Pipe) Err() error {\n	p.mu.Lock()\n	defer p.mu.Unlock()\n", New: "func (p *Pipe) Err() error {\n", Expect: "guarded-by|Pipe.Err"},
			{Name: "close-unlock-before-store", File: "bfe_util/pipe/pipe.go", Old: "	p.readFn = fn\n	*dst = err\n	p.closeDoneLocked()", New: "	p.readFn = fn\n	p.mu.Unlock()\n	*dst = err\n	p.mu.Lock()\n	p.closeDoneLocked()", Expect: "guarded-by|Pipe.closeWithError"},
			{Name: "write-nil-buffer-check-dropped", File: "bfe_util/pipe/pipe.go", Old: "	if p.b == nil {\n		return 0, errClosedPipeWrite\n	}\n", New: "", Expect: "buffer-nil-guard|Pipe.Write"},
			{Name: "write-after-close-accepted", File: "bfe_util/pipe/pipe.go", Old: "	if p.err != nil {\n		return 0, errClosedPipeWrite\n	}\n	if p.b == nil {", New: "	if p.b == nil {", Expect: "write-refuse|Pipe.Write:open-only"},
			{Name: "write-error-swallowed", File: "bfe_util/pipe/pipe.go", Old: "	return p.b.Write(d)\n}", New: "	n, _ = p.b.Write(d)\n	return n, nil\n}", Expect: "write-refuse|Pipe.Write"},
			{Name: "short-write-silent", File: "bfe_util/pipe/fixed_buffer.go", Old: "	if n < len(p) {\n		err = errWriteFull\n	}\n", New: "", Expect: "short-write"},
			{Name: "short-write-off-by-one", File: "bfe_util/pipe/fixed_buffer.go", Old: "	if n < len(p) {\n		err = errWriteFull", New: "	if n < len(p)-1 {\n		err = errWriteFull", Expect: "short-write"},
			{Name: "fixed-read-cursor-wrong", File: "bfe_util/pipe/fixed_buffer.go", Old: "	n = copy(p, b.buf[b.r:b.w])\n	b.r += n", New: "	n = copy(p, b.buf[b.r:b.w])\n	b.r += len(p)", Expect: "fb-cursor|FixedBuffer.Read"},
			{Name: "fixed-read-reset-forgets-w", File: "bfe_util/pipe/fixed_buffer.go", Old: "	if b.r == b.w {\n		b.r = 0\n		b.w = 0\n	}", New: "	if b.r == b.w {\n		b.r = 0\n	}", Expect: "fb-rebase|FixedBuffer.Read"},
			{Name: "release-before-close-spdy", File: "bfe_spdy/server_conn.go", Old: "		p.CloseWithError(err)\n		p.Release(&fixBufferPool)", New: "		p.Release(&fixBufferPool)\n		p.CloseWithError(err)", Expect: "release-after-close"},
			{Name: "break-targets-err", File: "bfe_util/pipe/pipe.go", Old: "func (p *Pipe) BreakWithError(err error) { p.closeWithError(&p.breakErr, err, nil) }", New: "func (p *Pipe) BreakWithError(err error) { p.closeWithError(&p.err, err, nil) }", Expect: "close-target|Pipe.BreakWithError"},
			{Name: "close-overwrites-first-error", File: "bfe_util/pipe/pipe.go", Old: "		if *dst == io.EOF {\n			*dst = err\n		}", New: "		*dst = err", Expect: "close-store"},
			{Name: "cond-locker-init-dropped", File: "bfe_util/pipe/pipe.go", Old: "	if p.c.L == nil {\n		p.c.L = &p.mu\n	}\n	for {", New: "	for {", Expect: "cond-locker|Pipe.Read"},
			{Name: "slide-copy-dropped", File: "bfe_util/pipe/fixed_buffer.go", Old: "		copy(b.buf, b.buf[b.r:b.w])\n", New: "", Expect: "fb-slide|FixedBuffer.Write"},
			{Name: "slide-source-from-zero", File: "bfe_util/pipe/fixed_buffer.go", Old: "		copy(b.buf, b.buf[b.r:b.w])\n", New: "		copy(b.buf, b.buf[:b.w])\n", Expect: "fb-slide|FixedBuffer.Write"},
			{Name: "slide-destination-capped-at-free-space", File: "bfe_util/pipe/fixed_buffer.go", Old: "		copy(b.buf, b.buf[b.r:b.w])\n", New: "		copy(b.buf[:len(b.buf)-b.w], b.buf[b.r:b.w])\n", Expect: "fb-slide|FixedBuffer.Write"},
			{Name: "read-caches-err-before-wait", File: "bfe_util/pipe/pipe.go", Old: "	for {\n		if p.breakErr != nil {\n			return 0, p.breakErr\n		}\n		if p.b != nil && p.b.Len() > 0 {\n			return p.b.Read(d)\n		}\n		if p.err != nil {\n			if p.readFn != nil {", New: "	closed := p.err\n	for {\n		if p.breakErr != nil {\n			return 0, p.breakErr\n		}\n		if p.b != nil && p.b.Len() > 0 {\n			return p.b.Read(d)\n		}\n		if closed != nil {\n			if p.readFn != nil {", Expect: "fresh-after-wait|Pipe.Read:err"},
			{Name: "read-caches-buffer-length-before-wait", File: "bfe_util/pipe/pipe.go", Old: "	for {\n		if p.breakErr != nil {\n			return 0, p.breakErr\n		}\n		if p.b != nil && p.b.Len() > 0 {\n			return p.b.Read(d)\n		}\n", New: "	pending := p.b != nil && p.b.Len() > 0\n	for {\n		if p.breakErr != nil {\n			return 0, p.breakErr\n		}\n		if p.b != nil && (pending || p.b.Len() > 0) {\n			return p.b.Read(d)\n		}\n", Expect: "fresh-after-wait|Pipe.Read:b"},
			{Name: "release-resets-after-put", File: "bfe_util/pipe/pipe.go", Old: "	p.b.Reset()\n	pool.Put(p.b)\n	p.b = nil", New: "	pool.Put(p.b)\n	p.b.Reset()\n	p.b = nil", Expect: "pool-release|Pipe.Release:put#1:no-use-after-put"},
			{Name: "release-keeps-buffer-reference", File: "bfe_util/pipe/pipe.go", Old: "	p.b.Reset()\n	pool.Put(p.b)\n	p.b = nil", New: "	p.b.Reset()\n	pool.Put(p.b)", Expect: "pool-release|Pipe.Release:put#1:cleared"},
			{Name: "silent-read-close-helper", File: "bfe_util/pipe/pipe.go", Old: "		if p.err != nil {\n			if p.readFn != nil {\n				p.readFn()     // e.g. copy trailers\n				p.readFn = nil // not sticky like p.err\n			}\n			return 0, p.err\n		}\n		p.c.Wait()\n	}\n}\n", New: "		if p.err != nil {\n			return 0, p.drainedLocked()\n		}\n		p.c.Wait()\n	}\n}\n\nfunc (p *Pipe) drainedLocked() error {\n	if p.readFn != nil {\n		p.readFn()\n		p.readFn = nil\n	}\n	return p.err\n}\n", Silent: true},
			{Name: "silent-read-tagless-switch", File: "bfe_util/pipe/pipe.go", Old: "		if p.breakErr != nil {\n			return 0, p.breakErr\n		}\n		if p.b != nil && p.b.Len() > 0 {\n			return p.b.Read(d)\n		}\n		if p.err != nil {\n			if p.readFn != nil {\n				p.readFn()     // e.g. copy trailers\n				p.readFn = nil // not sticky like p.err\n			}\n			return 0, p.err\n		}\n		p.c.Wait()\n	}\n}\n", New: "		switch {\n		case p.breakErr != nil:\n			return 0, p.breakErr\n		case p.b != nil && p.b.Len() > 0:\n			return p.b.Read(d)\n		case p.err != nil:\n			if p.readFn != nil {\n				p.readFn()\n				p.readFn = nil\n			}\n			return 0, p.err\n		default:\n			p.c.Wait()\n		}\n	}\n}\n", Silent: true},
			{Name: "silent-err-snapshot-explicit-unlock", File: "bfe_util/pipe/pipe.go", Old: "func (p *Pipe) Err() error {\n	p.mu.Lock()\n	defer p.mu.Unlock()\n	if p.breakErr != nil {\n		return p.breakErr\n	}\n	return p.err\n}", New: "func (p *Pipe) Err() error {\n	p.mu.Lock()\n	first, second := p.breakErr, p.err\n	p.mu.Unlock()\n	if first != nil {\n		return first\n	}\n	return second\n}", Silent: true},
			{Name: "write-acts-on-snapshot-after-unlock", File: "bfe_util/pipe/pipe.go", Old: "func (p *Pipe) Write(d []byte) (n int, err error) {\n	p.mu.Lock()\n	defer p.mu.Unlock()\n	if p.c.L == nil {\n		p.c.L = &p.mu\n	}\n	defer p.c.Signal()\n	if p.err != nil {\n		return 0, errClosedPipeWrite\n	}\n	if p.b == nil {\n		return 0, errClosedPipeWrite\n	}\n	return p.b.Write(d)\n}", New: "func (p *Pipe) Write(d []byte) (n int, err error) {\n	p.mu.Lock()\n	if p.c.L == nil {\n		p.c.L = &p.mu\n	}\n	defer p.c.Signal()\n	buf, closed := p.b, p.err != nil\n	p.mu.Unlock()\n	if closed || buf == nil {\n		return 0, errClosedPipeWrite\n	}\n	return buf.Write(d)\n}", Expect: "fresh-after-wait|Pipe.Write:b"},
			{Name: "silent-write-named-results-then-return", File: "bfe_util/pipe/pipe.go", Old: "	return p.b.Write(d)\n}", New: "	n, err = p.b.Write(d)\n	if n > 0 {\n		_ = n\n	}\n	return n, err\n}", Silent: true},
			{Name: "silent-close-switch-on-dst", File: "bfe_util/pipe/pipe.go", Old: "	if *dst != nil {\n		// Note: Here we do not consider the existing io.EOF(i.e. *dst) as a real error\n		// and replace it if necessary. The error handling policy allows us to release\n		// underlying resource(eg. PipeBuffer) as soon as possible.\n		if *dst == io.EOF {\n			*dst = err\n		}\n		// Already been done.\n		return\n	}\n	p.readFn = fn\n	*dst = err\n	p.closeDoneLocked()\n}", New: "	switch *dst {\n	case nil:\n		p.readFn = fn\n		*dst = err\n		p.closeDoneLocked()\n	case io.EOF:\n		*dst = err\n	default:\n	}\n}", Silent: true},
			{Name: "silent-buffer-local-inside-loop", File: "bfe_util/pipe/pipe.go", Old: "		if p.b != nil && p.b.Len() > 0 {\n			return p.b.Read(d)\n		}\n		if p.err != nil {", New: "		buf := p.b\n		if buf != nil && buf.Len() > 0 {\n			return buf.Read(d)\n		}\n		if p.err != nil {", Silent: true},
			{Name: "silent-slide-explicit-bounds", File: "bfe_util/pipe/fixed_buffer.go", Old: "		copy(b.buf, b.buf[b.r:b.w])\n", New: "		unread := b.buf[b.r:b.w]\n		copy(b.buf[0:], unread)\n", Silent: true},
			{Name: "silent-locker-helper", File: "bfe_util/pipe/pipe.go", Old: "\tif p.c.L == nil {\n\t\tp.c.L = &p.mu\n\t}\n\tfor {\n\t\tif p.breakErr != nil {\n\t\t\treturn 0, p.breakErr\n\t\t}\n\t\tif p.b != nil && p.b.Len() > 0 {\n\t\t\treturn p.b.Read(d)\n\t\t}\n\t\tif p.err != nil {\n\t\t\tif p.readFn != nil {\n\t\t\t\tp.readFn()     // e.g. copy trailers\n\t\t\t\tp.readFn = nil // not sticky like p.err\n\t\t\t}\n\t\t\treturn 0, p.err\n\t\t}\n\t\tp.c.Wait()\n\t}\n}\n", New: "\tp.initCond()\n\tfor {\n\t\tif p.breakErr != nil {\n\t\t\treturn 0, p.breakErr\n\t\t}\n\t\tif p.b != nil && p.b.Len() > 0 {\n\t\t\treturn p.b.Read(d)\n\t\t}\n\t\tif p.err != nil {\n\t\t\tif p.readFn != nil {\n\t\t\t\tp.readFn()     // e.g. copy trailers\n\t\t\t\tp.readFn = nil // not sticky like p.err\n\t\t\t}\n\t\t\treturn 0, p.err\n\t\t}\n\t\tp.c.Wait()\n\t}\n}\n\nfunc (p *Pipe) initCond() {\n\tif p.c.L == nil {\n\t\tp.c.L = &p.mu\n\t}\n}\n", Silent: true},
			{Name: "silent-extract-helper", File: "bfe_util/pipe/pipe.go", Old: "func (p *Pipe) Err() error {\n	p.mu.Lock()\n	defer p.mu.Unlock()\n	if p.breakErr != nil {\n		return p.breakErr\n	}\n	return p.err\n}", New: "func (p *Pipe) Err() error {\n	p.mu.Lock()\n	defer p.mu.Unlock()\n	first := p.breakErr\n	if first != nil {\n		return first\n	}\n	closed := p.err\n	return closed\n}", Silent: true},
		},
	})
}

const c21pkg = "bfe_util/pipe"

// uuDomEdgesRel: some block on the dominator chain of b (b included) is
// entered only over edges that establish a comparison accepted by match.
func uuDomEdgesRel(b *ssa.BasicBlock, match func(r uuRel) bool) bool {
	for x := b; x != nil; x = x.Idom() {
		if uuAllEdgesRel(x, match) {
			return true
		}
	}
	return false
}

func runC21(c *core.Ctx) {
	defer uuShapeGuard(c)
	p := c.P
	if p.Pkg(c21pkg) == nil {
		c.Missing(c21pkg)
		return
	}
	fld := func(name string) *types.Var {
		v, _ := p.Obj(c21pkg, name).(*types.Var)
		if v == nil {
			c.Missing(c21pkg + "." + name)
		}
		return v
	}
	get := func(name string) *ssa.Function {
		fn := p.Func(c21pkg, name)
		if fn == nil {
			c.Missing(c21pkg + "." + name)
		} else {
			c.Analysed(core.FuncKey(fn))
		}
		return fn
	}
	muF, cF, bF, errF, brkF, doneF, fnF := fld("Pipe.mu"), fld("Pipe.c"), fld("Pipe.b"), fld("Pipe.err"), fld("Pipe.breakErr"), fld("Pipe.donec"), fld("Pipe.readFn")
	readFn, writeFn, cweFn, errFn, relFn, cdlFn := get("Pipe.Read"), get("Pipe.Write"), get("Pipe.closeWithError"), get("Pipe.Err"), get("Pipe.Release"), get("Pipe.closeDoneLocked")
	for _, f := range []*types.Var{muF, cF, bF, errF, brkF, doneF, fnF} {
		if f == nil {
			return
		}
	}
	for _, f := range []*ssa.Function{readFn, writeFn, cweFn, errFn, relFn, cdlFn} {
		if f == nil {
			return
		}
	}
	var pkgFns []*ssa.Function
	for _, fn := range p.SrcFuncs(c21pkg) {
		if core.FuncPkgRel(fn) == c21pkg {
			pkgFns = append(pkgFns, fn)
		}
	}
	short := func(fn *ssa.Function) string { return strings.TrimPrefix(uuShort(fn), "pipe.") }
	isLoadOf := func(v ssa.Value, f *types.Var) bool { g, _ := uuFieldLoad(v); return g == f }
	// rel helpers
	nilRel := func(f *types.Var, isNil bool) func(r uuRel) bool {
		return func(r uuRel) bool {
			return uuNilTest(r, isNil, func(v ssa.Value) bool { return isLoadOf(v, f) })
		}
	}
	isLenOfB := func(v ssa.Value) bool {
		call, ok := uuResolve(v).(*ssa.Call)
		return ok && call.Call.IsInvoke() && call.Call.Method.Name() == "Len" && isLoadOf(call.Call.Value, bF)
	}
	emptyRel := func(r uuRel) bool { // b == nil  or  b.Len() <= 0
		if nilRel(bF, true)(r) {
			return true
		}
		k, isK := uuConstInt(r.Y)
		if isK && isLenOfB(r.X) {
			return (r.Op == token.LEQ && k == 0) || (r.Op == token.LSS && k == 1) || (r.Op == token.EQL && k == 0)
		}
		return false
	}
	dataRel := func(r uuRel) bool { // b.Len() > 0
		k, isK := uuConstInt(r.Y)
		return isK && isLenOfB(r.X) && ((r.Op == token.GTR && k == 0) || (r.Op == token.GEQ && k == 1) || (r.Op == token.NEQ && k == 0))
	}
	bufCall := func(in ssa.Instruction, method string) *ssa.Call {
		call, ok := in.(*ssa.Call)
		if !ok || !call.Call.IsInvoke() || !isLoadOf(call.Call.Value, bF) {
			return nil
		}
		if method != "" && call.Call.Method.Name() != method {
			return nil
		}
		return call
	}
	condCall := func(in ssa.Instruction, names ...string) bool {
		ci, ok := in.(ssa.CallInstruction)
		if !ok {
			return false
		}
		for _, n := range names {
			if core.CallIs(ci.Common(), "sync.Cond."+n) {
				if f, _ := uuFieldAddr(ci.Common().Args[0]); f == cF {
					return true
				}
			}
		}
		return false
	}

	// ------------------------------------------------------------ (a) guarded-by p.mu
	// parameters through which closeWithError-like helpers receive the address of a guarded field
	type acc struct {
		ok  bool
		n   int
		pos token.Pos
		bad string
	}
	dstParams := map[*ssa.Parameter]bool{}
	for _, fn := range pkgFns {
		for _, call := range core.AllCalls(fn) {
			sc := call.Common().StaticCallee()
			if sc == nil || core.FuncPkgRel(sc) != c21pkg {
				continue
			}
			for i, a := range call.Common().Args {
				if f, _ := uuFieldAddr(a); (f == errF || f == brkF) && i < len(sc.Params) {
					dstParams[sc.Params[i]] = true
				}
			}
		}
	}
	// unexported Pipe methods that every caller in the package enters with p.mu
	// held ("…Locked" helpers): the lock is assumed on their entry (fixpoint,
	// because such helpers may call each other).
	entryLocked := map[*ssa.Function]bool{}
	entryOf := func(fn *ssa.Function) []string {
		if (fn == cdlFn || entryLocked[fn]) && len(fn.Params) > 0 {
			return []string{fn.Params[0].Name() + ".mu:W"}
		}
		return nil
	}
	for round := 0; round < 3; round++ {
		for _, callee := range pkgFns {
			if callee.Signature.Recv() == nil || c21TypeName(callee.Signature.Recv().Type()) != "Pipe" || callee.Object() == nil || callee.Object().Exported() || callee.Parent() != nil {
				continue
			}
			sites, held := 0, true
			for _, fn := range pkgFns {
				var ls *core.LockSets
				for _, call := range uuCallsIn(fn, core.FuncKey(callee)) {
					if ls == nil {
						ls = core.ComputeLockSets(fn, entryOf(fn)...)
					}
					sites++
					if _, isCall := call.(*ssa.Call); !isCall || !ls.Holds(call.(ssa.Instruction), core.Render(call.Common().Args[0])+".mu", "W") {
						held = false
					}
				}
			}
			entryLocked[callee] = sites > 0 && held
		}
	}
	nGuarded := 0
	for _, fn := range pkgFns {
		ls := core.ComputeLockSets(fn, entryOf(fn)...)
		accs := map[string]*acc{}
		note := func(field string, in ssa.Instruction, lock string) {
			a := accs[field]
			if a == nil {
				a = &acc{ok: true}
				accs[field] = a
			}
			a.n++
			if a.pos == token.NoPos {
				a.pos = in.Pos()
			}
			if !ls.Holds(in, lock, "W") {
				a.ok = false
				a.pos = in.Pos()
				a.bad = lock
			}
		}
		var visit func(addr ssa.Value, field, lock string, depth int)
		visit = func(addr ssa.Value, field, lock string, depth int) {
			refs := addr.Referrers()
			if refs == nil || depth > 3 {
				return
			}
			for _, r := range *refs {
				switch v := r.(type) {
				case *ssa.UnOp:
					note(field, v, lock)
				case *ssa.Store:
					if v.Addr == addr {
						note(field, v, lock)
					}
				case *ssa.FieldAddr:
					visit(v, field, lock, depth+1)
				case ssa.CallInstruction:
					cc := v.Common()
					switch {
					case core.CallIs(cc, "sync.Cond.Wait"):
						note(field, v, lock) // Wait unlocks c.L: it must be held
					case core.CallIs(cc, "sync.Cond.Signal", "sync.Cond.Broadcast"):
						// may be called with or without the lock
					default:
						sc := cc.StaticCallee()
						okPass := false
						if sc != nil {
							for i, a := range cc.Args {
								if a == addr && i < len(sc.Params) && dstParams[sc.Params[i]] {
									okPass = true
								}
							}
						}
						if !okPass {
							a := accs[field]
							if a == nil {
								a = &acc{ok: true}
								accs[field] = a
							}
							a.n++
							a.ok, a.pos, a.bad = false, v.Pos(), "(address escapes to "+core.CalleeKey(cc)+")"
						}
					}
				}
			}
		}
		core.Instrs(fn, func(in ssa.Instruction) {
			fa, ok := in.(*ssa.FieldAddr)
			if !ok {
				return
			}
			f := core.FieldObj(fa.X, fa.Field)
			if f != cF && f != bF && f != errF && f != brkF && f != doneF && f != fnF {
				return
			}
			if a, isAlloc := fa.X.(*ssa.Alloc); isAlloc && a.Heap {
				return // under construction, not yet shared
			}
			visit(fa, f.Name(), core.Render(fa.X)+".mu", 0)
		})
		// dereferences of a dst parameter
		for _, prm := range fn.Params {
			if !dstParams[prm] || prm.Referrers() == nil || len(fn.Params) == 0 {
				continue
			}
			lock := fn.Params[0].Name() + ".mu"
			for _, r := range *prm.Referrers() {
				switch v := r.(type) {
				case *ssa.UnOp:
					note("*"+prm.Name(), v, lock)
				case *ssa.Store:
					if v.Addr == ssa.Value(prm) {
						note("*"+prm.Name(), v, lock)
					}
				}
			}
		}
		var names []string
		for k := range accs {
			names = append(names, k)
		}
		sort.Strings(names)
		for _, k := range names {
			a := accs[k]
			nGuarded++
			c.Check("guarded-by", short(fn)+":"+k, a.pos, a.ok, fmt.Sprintf("Pipe.%s is accessed in %s without %s held: reader and writer goroutines race on the pipe state", k, short(fn), a.bad))
		}
	}
	c.Min("guarded-by", 14)
	// closeDoneLocked callers hold the lock
	nCdl := 0
	for _, fn := range pkgFns {
		calls := uuCallsIn(fn, c21pkg+".Pipe.closeDoneLocked")
		if len(calls) == 0 {
			continue
		}
		ls := core.ComputeLockSets(fn, entryOf(fn)...)
		for _, call := range calls {
			nCdl++
			lock := core.Render(call.Common().Args[0]) + ".mu"
			c.Check("locked-callee", short(fn)+"->closeDoneLocked", call.Pos(), ls.Holds(call.(ssa.Instruction), lock, "W"), "closeDoneLocked requires p.mu but is called from "+short(fn)+" without it")
		}
	}
	c.Min("locked-callee", 2)

	// ------------------------------------------------------------ (b) condition variable
	isTestOf := func(in ssa.Instruction, match func(r uuRel) bool) bool {
		ifi, ok := in.(*ssa.If)
		if !ok {
			return false
		}
		if r, ok := uuRelOf(ifi.Cond, true); ok && match(r) {
			return true
		}
		if r, ok := uuRelOf(ifi.Cond, false); ok && match(r) {
			return true
		}
		return false
	}
	var waits []ssa.Instruction
	for _, fn := range pkgFns {
		for _, in := range uuInstrs(fn) {
			if condCall(in, "Wait") {
				if _, isCall := in.(*ssa.Call); isCall {
					waits = append(waits, in)
				}
			}
		}
	}
	for i, w := range waits {
		fn := w.Parent()
		key := fmt.Sprintf("%s:wait#%d", short(fn), i+1)
		isW := func(in ssa.Instruction) bool { return in == w }
		cyc := core.ReachAvoiding(fn, w, nil, isW) != nil
		c.Check("wait-loop", key+":in-loop", w.Pos(), cyc, "Cond.Wait is not inside a loop: a woken reader must re-test the predicate (wake-ups are not tied to a particular change)")
		tests := []struct {
			name  string
			match func(r uuRel) bool
		}{
			{"breakErr", func(r uuRel) bool { return nilRel(brkF, true)(r) || nilRel(brkF, false)(r) }},
			{"data", func(r uuRel) bool { return dataRel(r) || emptyRel(r) || nilRel(bF, false)(r) }},
			{"err", func(r uuRel) bool { return nilRel(errF, true)(r) || nilRel(errF, false)(r) }},
		}
		for _, t := range tests {
			m := t.match
			skip := core.ReachAvoiding(fn, w, func(in ssa.Instruction) bool { return isTestOf(in, m) }, isW)
			c.Check("wait-loop", key+":retests-"+t.name, w.Pos(), cyc && skip == nil, "after Cond.Wait the loop can come back to Wait without re-testing the "+t.name+" predicate of Pipe.Read")
		}
		brk := tests[0].match
		early := core.ReachAvoiding(fn, w, func(in ssa.Instruction) bool { return isTestOf(in, brk) }, core.IsReturn)
		c.Check("wait-loop", key+":no-return-before-retest", w.Pos(), early == nil, "a return is reachable from Cond.Wait without re-testing breakErr: the woken reader would report stale state")
	}
	c.Min("wait-loop", 5)
	// Locker initialised before Wait/Signal
	// lockerInit: the `if p.c.L == nil { p.c.L = &p.mu }` test of fn, if it has one
	// (the instruction after which c.L is set on every path: the branch that
	// tests c.L == nil in either spelling, or an unconditional store)
	lockerInit := func(fn *ssa.Function) ssa.Instruction {
		var init ssa.Instruction
		for _, in := range uuInstrs(fn) {
			st, ok := in.(*ssa.Store)
			if !ok {
				continue
			}
			fa, ok := st.Addr.(*ssa.FieldAddr)
			if !ok {
				continue
			}
			if f, _ := uuFieldAddr(fa.X); f != cF || c21FieldName(fa) != "L" {
				continue
			}
			if f, _ := uuFieldAddr(uuResolve(st.Val)); f != muF {
				continue
			}
			init = st
			for _, g := range uuGuardsAt(st.Block()) {
				r, isRel := uuRelOf(g.Cond, g.Pol)
				if !isRel || g.If == nil || r.Op != token.EQL {
					continue
				}
				x := r.X
				if uuIsNil(r.X) {
					x = r.Y
				} else if !uuIsNil(r.Y) {
					continue
				}
				if u, isU := uuResolve(x).(*ssa.UnOp); isU && u.Op == token.MUL {
					if la, isFA := u.X.(*ssa.FieldAddr); isFA && c21FieldName(la) == "L" {
						if f, _ := uuFieldAddr(la.X); f == cF {
							init = g.If
						}
					}
				}
			}
		}
		return init
	}
	for _, fn := range pkgFns {
		var uses []ssa.Instruction
		for _, in := range uuInstrs(fn) {
			if condCall(in, "Wait", "Signal", "Broadcast") {
				uses = append(uses, in)
			}
		}
		if len(uses) == 0 {
			continue
		}
		// either in this function, or in a helper method called on the same pipe before the uses
		var inits []ssa.Instruction
		if ini := lockerInit(fn); ini != nil {
			inits = append(inits, ini)
		}
		for _, call := range core.AllCalls(fn) {
			sc := call.Common().StaticCallee()
			if _, isCall := call.(*ssa.Call); !isCall || sc == nil || sc == fn || core.FuncPkgRel(sc) != c21pkg || len(call.Common().Args) == 0 || len(fn.Params) == 0 {
				continue
			}
			if uuResolve(call.Common().Args[0]) == ssa.Value(fn.Params[0]) && lockerInit(sc) != nil {
				inits = append(inits, call.(ssa.Instruction))
			}
		}
		ok := true
		for _, u := range uses {
			dominated := false
			for _, i := range inits {
				if core.Dominates(i, u) {
					dominated = true
				}
			}
			if !dominated {
				ok = false
			}
		}
		c.Check("cond-locker", short(fn), uses[0].Pos(), ok, short(fn)+" uses p.c (Wait/Signal) on a path where c.L was not set to &p.mu first: Wait on a Cond without Locker panics")
	}
	c.Min("cond-locker", 3)
	// Signal after every predicate change
	nSig := 0
	for _, fn := range pkgFns {
		var muts []ssa.Instruction
		kinds := map[ssa.Instruction]string{}
		for _, in := range uuInstrs(fn) {
			switch v := in.(type) {
			case *ssa.Store:
				if f, base := uuFieldAddr(v.Addr); f == errF || f == brkF {
					if a, isAlloc := base.(*ssa.Alloc); isAlloc && a.Heap {
						continue
					}
					muts = append(muts, in)
					kinds[in] = f.Name()
				} else if prm, ok := v.Addr.(*ssa.Parameter); ok && dstParams[prm] {
					muts = append(muts, in)
					kinds[in] = "*" + prm.Name()
				}
			case *ssa.Call:
				if bufCall(in, "Write") != nil {
					muts = append(muts, in)
					kinds[in] = "buffer-write"
				}
			}
		}
		if len(muts) == 0 {
			continue
		}
		ok := true
		var pos token.Pos
		what := ""
		for _, m := range muts {
			pos = m.Pos()
			deferred := false
			for _, in := range uuInstrs(fn) {
				if d, isD := in.(*ssa.Defer); isD && condCall(d, "Signal", "Broadcast") && core.Dominates(in, m) {
					deferred = true
				}
			}
			if deferred {
				continue
			}
			if core.MustPass(fn, m, func(in ssa.Instruction) bool {
				_, isCall := in.(*ssa.Call)
				return isCall && condCall(in, "Signal", "Broadcast")
			}) != nil {
				ok = false
				what = kinds[m]
			}
		}
		nSig++
		c.Check("signal", short(fn), pos, ok, short(fn)+" changes what Pipe.Read waits for ("+what+") but a path to its exit does not Signal the condition: a blocked reader is never woken (deadlock)")
	}
	c.Min("signal", 2)

	// ------------------------------------------------------------ (c) order of the tests in Read
	{
		var dr *ssa.Call
		for _, in := range uuInstrs(readFn) {
			if call := bufCall(in, "Read"); call != nil {
				dr = call
			}
		}
		n := 0
		for _, r := range core.Returns(readFn) {
			rv := core.RetVals(r)
			if len(rv) != 2 {
				continue
			}
			n++
			b := r.Block()
			zero := func() bool { k, ok := uuConstInt(rv[0]); return ok && k == 0 }
			recv := ssa.Value(readFn.Params[0])
			switch {
			case uuFieldLoadVia(rv[1], brkF, recv, 0):
				ok := uuHasRel(b, nilRel(brkF, false)) && zero()
				c.Check("read-order", "Pipe.Read:break-return", r.Pos(), ok, "the return of breakErr must be (0, p.breakErr) under p.breakErr != nil")
			case uuFieldLoadVia(rv[1], errF, recv, 0):
				noBreak := uuHasRel(b, nilRel(brkF, true))
				empty := uuDomEdgesRel(b, emptyRel)
				closed := uuHasRel(b, nilRel(errF, false))
				var why []string
				if !noBreak {
					why = append(why, "breakErr == nil is not established")
				}
				if !empty {
					why = append(why, "the buffer is not known to be nil or empty (buffered data would be lost: close must be reported only after all data was read)")
				}
				if !closed {
					why = append(why, "p.err != nil is not established (a nil error would end the stream silently)")
				}
				if !zero() {
					why = append(why, "n is not 0")
				}
				c.Check("read-order", "Pipe.Read:close-return", r.Pos(), noBreak && empty && closed && zero(), "Pipe.Read returns p.err although "+strings.Join(why, "; "))
			case dr != nil && uuExtractOf(rv[1], dr, 1):
				noBreak := uuHasRel(b, nilRel(brkF, true))
				fwd := uuExtractOf(rv[0], dr, 0)
				hasData := uuHasRel(b, dataRel)
				var why []string
				if !noBreak {
					why = append(why, "breakErr == nil is not established first (a break must be reported immediately, before buffered data)")
				}
				if !fwd {
					why = append(why, "the byte count of PipeBuffer.Read is not forwarded")
				}
				if !hasData {
					why = append(why, "b.Len() > 0 is not established (FixedBuffer.Read on an empty buffer is an error, not a block)")
				}
				c.Check("read-order", "Pipe.Read:data-return", r.Pos(), noBreak && fwd && hasData, "Pipe.Read returns buffered data although "+strings.Join(why, "; "))
			default:
				c.Check("read-order", fmt.Sprintf("Pipe.Read:other-return#%d", n), r.Pos(), false, "Pipe.Read returns ("+core.Render(rv[0])+", "+core.Render(rv[1])+"), which is none of: break (0, breakErr), data (PipeBuffer.Read), close (0, err)")
			}
		}
		for i, w := range waits {
			if w.Parent() != readFn {
				continue
			}
			b := w.Block()
			ok := uuHasRel(b, nilRel(brkF, true)) && uuHasRel(b, nilRel(errF, true)) && uuDomEdgesRel(b, emptyRel)
			c.Check("read-order", fmt.Sprintf("Pipe.Read:blocks-only-when-idle#%d", i+1), w.Pos(), ok, "Pipe.Read waits although breakErr == nil, err == nil and an empty buffer are not all established: it would block with data or an error pending")
		}
		c.Min("read-order", 4)
		// Err(): breakErr first
		nE := 0
		for _, r := range core.Returns(errFn) {
			rv := core.RetVals(r)
			if len(rv) != 1 {
				continue
			}
			recv := ssa.Value(errFn.Params[0])
			switch {
			case uuFieldLoadVia(rv[0], brkF, recv, 0):
				nE++
				c.Check("err-order", "Pipe.Err:break", r.Pos(), true, "")
			case uuFieldLoadVia(rv[0], errF, recv, 0):
				nE++
				c.Check("err-order", "Pipe.Err:close", r.Pos(), uuHasRel(r.Block(), nilRel(brkF, true)), "Pipe.Err returns p.err although breakErr == nil is not established: the break error takes precedence")
			default:
				nE++
				c.Check("err-order", fmt.Sprintf("Pipe.Err:other#%d", nE), r.Pos(), false, "Pipe.Err returns "+core.Render(rv[0])+", neither p.breakErr nor p.err")
			}
		}
		c.Min("err-order", 2)
	}

	// ------------------------------------------------------------ (d) Write refuses
	{
		var wr *ssa.Call
		for _, in := range uuInstrs(writeFn) {
			if call := bufCall(in, "Write"); call != nil {
				wr = call
			}
		}
		if wr == nil {
			c.Check("write-refuse", "Pipe.Write:buffer-write", writeFn.Pos(), false, "Pipe.Write never calls PipeBuffer.Write on p.b")
		} else {
			c.Check("write-refuse", "Pipe.Write:open-only", wr.Pos(), uuHasRel(wr.Block(), nilRel(errF, true)), "Pipe.Write writes into the buffer although p.err == nil is not established: data written after close would be delivered after the close error was due")
			c.Check("write-refuse", "Pipe.Write:argument", wr.Pos(), len(wr.Call.Args) == 1 && uuResolve(wr.Call.Args[0]) == ssa.Value(writeFn.Params[1]), "Pipe.Write does not pass its argument unchanged to PipeBuffer.Write")
		}
		n := 0
		for _, r := range core.Returns(writeFn) {
			rv := core.RetVals(r)
			if len(rv) != 2 {
				continue
			}
			n++
			if wr != nil && (uuExtractOf(rv[0], wr, 0) || uuExtractOf(rv[1], wr, 1)) {
				c.Check("write-refuse", "Pipe.Write:forwards-buffer-result", r.Pos(), uuExtractOf(rv[0], wr, 0) && uuExtractOf(rv[1], wr, 1), "Pipe.Write must return the count and the error of PipeBuffer.Write unchanged (a short write is reported by the buffer's error); it returns ("+core.Render(rv[0])+", "+core.Render(rv[1])+")")
				continue
			}
			k, isZero := uuConstInt(rv[0])
			_, isGlobal := func() (*ssa.Global, bool) {
				u, ok := uuResolve(rv[1]).(*ssa.UnOp)
				if !ok || u.Op != token.MUL {
					return nil, false
				}
				g, ok := u.X.(*ssa.Global)
				return g, ok
			}()
			c.Check("write-refuse", fmt.Sprintf("Pipe.Write:refusal#%d", n), r.Pos(), isZero && k == 0 && isGlobal, "a return of Pipe.Write that does not come from PipeBuffer.Write must be (0, <package-level error>); it returns ("+core.Render(rv[0])+", "+core.Render(rv[1])+")")
		}
		c.Min("write-refuse", 4)
	}
	// FixedBuffer.Write: errWriteFull unless everything was copied
	if fw := get("FixedBuffer.Write"); fw != nil {
		isCopy := func(v ssa.Value) *ssa.Call {
			call, ok := uuResolve(v).(*ssa.Call)
			if !ok {
				return nil
			}
			if b, isB := call.Call.Value.(*ssa.Builtin); isB && b.Name() == "copy" {
				return call
			}
			return nil
		}
		complete := func(n ssa.Value) func(r uuRel) bool {
			return func(r uuRel) bool { // n >= len(p)  (or ==)
				if r.Op == token.LEQ {
					r = uuRel{token.GEQ, r.Y, r.X}
				}
				return (r.Op == token.GEQ || r.Op == token.EQL) && uuResolve(r.X) == uuResolve(n) && c20LenOf(r.Y, fw.Params[1])
			}
		}
		for i, r := range core.Returns(fw) {
			rv := core.RetVals(r)
			if len(rv) != 2 {
				continue
			}
			cp := isCopy(rv[0])
			ok, detail := false, "the returned count is not the result of copy"
			if cp != nil && uuResolve(cp.Call.Args[1]) == ssa.Value(fw.Params[1]) {
				ok, detail = true, ""
				check := func(v ssa.Value, rels func(match func(uuRel) bool) bool) {
					if uuIsNil(v) && !rels(complete(cp)) {
						ok, detail = false, "a nil error is returned on a path where copy's count >= len(p) is not established: a write that does not fit is silently truncated"
					}
				}
				if phi, isPhi := rv[1].(*ssa.Phi); isPhi {
					for j, e := range phi.Edges {
						pred := phi.Block().Preds[j]
						check(e, func(match func(uuRel) bool) bool {
							for _, g := range uuGuardsOnEdge(pred, phi.Block()) {
								if rel, isRel := uuRelOf(g.Cond, g.Pol); isRel && match(rel) {
									return true
								}
							}
							return false
						})
					}
				} else {
					check(rv[1], func(match func(uuRel) bool) bool { return uuHasRel(r.Block(), match) })
				}
			}
			c.Check("short-write", fmt.Sprintf("FixedBuffer.Write:return#%d", i+1), r.Pos(), ok, detail)
		}
		c.Min("short-write", 1)
	}

	// ------------------------------------------------------------ (e) nil buffer, Release, closeWithError
	for _, fn := range pkgFns {
		if fn == relFn {
			continue
		}
		n, ok := 0, true
		var pos token.Pos
		for _, in := range uuInstrs(fn) {
			if call := bufCall(in, ""); call != nil {
				n++
				pos = call.Pos()
				if !uuHasRel(call.Block(), nilRel(bF, false)) {
					ok = false
				}
			}
		}
		if n > 0 {
			c.Check("buffer-nil-guard", short(fn), pos, ok, short(fn)+" calls a method of p.b although p.b != nil is not established: after Release the buffer is nil")
		}
	}
	c.Min("buffer-nil-guard", 2)
	nRel := 0
	for _, fn := range p.SrcFuncs("") {
		ord := uuOrd{}
		for _, call := range uuCallsIn(fn, c21pkg+".Pipe.Release") {
			nRel++
			recv := uuResolve(call.Common().Args[0])
			closed := false
			for _, in := range uuInstrs(fn) {
				if uuIsCallTo(in, c21pkg+".Pipe.CloseWithError", c21pkg+".Pipe.BreakWithError", c21pkg+".Pipe.CloseWithErrorAndCode") {
					if uuResolve(in.(ssa.CallInstruction).Common().Args[0]) == recv && core.Dominates(in, call.(ssa.Instruction)) {
						closed = true
					}
				}
			}
			c.Check("release-after-close", ord.key(uuShort(fn), "release"), call.Pos(), closed, "Pipe.Release is called in "+uuShort(fn)+" on a pipe that was not closed (CloseWithError/BreakWithError on the same pipe) first: a reader blocked in Read finds b == nil and err == nil and waits forever")
		}
	}
	c.Min("release-after-close", 2)
	{ // closeWithError
		var dst, errP *ssa.Parameter
		for _, prm := range cweFn.Params {
			if dstParams[prm] {
				dst = prm
			}
			if types.Identical(prm.Type(), uuErrorType) {
				errP = prm
			}
		}
		if dst == nil || errP == nil {
			c.Missing("Pipe.closeWithError(dst *error, err error, …) parameters")
		} else {
			isDstLoad := func(v ssa.Value) bool {
				u, ok := uuResolve(v).(*ssa.UnOp)
				return ok && u.Op == token.MUL && u.X == ssa.Value(dst)
			}
			n := 0
			for _, in := range uuInstrs(cweFn) {
				st, ok := in.(*ssa.Store)
				if !ok || st.Addr != ssa.Value(dst) {
					continue
				}
				n++
				nonNil := uuHasRel(st.Block(), func(r uuRel) bool {
					return uuNilTest(r, false, func(v ssa.Value) bool { return uuResolve(v) == ssa.Value(errP) })
				})
				first := uuAllEdgesRel(st.Block(), func(r uuRel) bool {
					if uuNilTest(r, true, isDstLoad) {
						return true
					}
					if r.Op != token.EQL {
						return false
					}
					isEOF := func(v ssa.Value) bool {
						u, ok := uuResolve(v).(*ssa.UnOp)
						if !ok {
							return false
						}
						g, ok := u.X.(*ssa.Global)
						return ok && g.Pkg != nil && g.Pkg.Pkg.Path() == "io" && g.Name() == "EOF"
					}
					return (isDstLoad(r.X) && isEOF(r.Y)) || (isDstLoad(r.Y) && isEOF(r.X))
				})
				val := uuResolve(st.Val) == ssa.Value(errP)
				c.Check("close-store", fmt.Sprintf("Pipe.closeWithError:store#%d", n), st.Pos(), nonNil && first && val, "closeWithError must store its non-nil err argument, and only over nil or io.EOF (the first real error sticks); non-nil established: "+fmt.Sprint(nonNil)+", first-or-EOF established: "+fmt.Sprint(first)+", value is err: "+fmt.Sprint(val))
			}
			c.Min("close-store", 2)
		}
		for name, want := range map[string]*types.Var{"Pipe.CloseWithError": errF, "Pipe.BreakWithError": brkF, "Pipe.CloseWithErrorAndCode": errF} {
			fn := get(name)
			if fn == nil {
				continue
			}
			ok := false
			for _, call := range uuCallsIn(fn, c21pkg+".Pipe.closeWithError") {
				a := call.Common().Args
				if len(a) >= 3 {
					f, base := uuFieldAddr(a[1])
					ok = f == want && uuResolve(base) == ssa.Value(fn.Params[0]) && uuResolve(a[2]) == ssa.Value(fn.Params[1])
				}
			}
			c.Check("close-target", name, fn.Pos(), ok, name+" must call closeWithError(&p."+want.Name()+", err, …): close is reported after buffered data (err), break immediately (breakErr)")
		}
		c.Min("close-target", 3)
	}
	// donec closed only in closeDoneLocked
	for _, fn := range pkgFns {
		for _, in := range uuInstrs(fn) {
			call, ok := in.(*ssa.Call)
			if !ok {
				continue
			}
			if b, isB := call.Call.Value.(*ssa.Builtin); !isB || b.Name() != "close" {
				continue
			}
			if !isLoadOf(call.Call.Args[0], doneF) {
				continue
			}
			guarded := uuHasRel(call.Block(), nilRel(doneF, false))
			c.Check("donec-close", short(fn), call.Pos(), fn == cdlFn && guarded, "Pipe.donec is closed in "+short(fn)+"; only closeDoneLocked (under donec != nil, inside the non-blocking receive that detects an earlier close) may close it")
		}
	}
	c.Min("donec-close", 1)

	// ------------------------------------------------------------ (f) FixedBuffer cursors
	bufF, rF, wF := fld("FixedBuffer.buf"), fld("FixedBuffer.r"), fld("FixedBuffer.w")
	if bufF != nil && rF != nil && wF != nil {
		cursor := func(name string, cur *types.Var, dataIsSrc bool) {
			fn := get(name)
			if fn == nil {
				return
			}
			// the copy that moves user data
			var cp *ssa.Call
			for _, in := range uuInstrs(fn) {
				call, ok := in.(*ssa.Call)
				if !ok {
					continue
				}
				if b, isB := call.Call.Value.(*ssa.Builtin); !isB || b.Name() != "copy" {
					continue
				}
				user := call.Call.Args[0] // Read: copy(p, buf[r:w])
				if dataIsSrc {
					user = call.Call.Args[1] // Write: copy(buf[w:], p)
				}
				if uuResolve(user) == ssa.Value(fn.Params[1]) {
					cp = call
				}
			}
			if cp == nil {
				c.Check("fb-cursor", name, fn.Pos(), false, name+" has no copy between the caller's slice and the buffer")
				return
			}
			// buffer side of the copy
			side := cp.Call.Args[1]
			if dataIsSrc {
				side = cp.Call.Args[0]
			}
			sl, _ := uuResolve(side).(*ssa.Slice)
			okSlice := sl != nil && isLoadOf(sl.X, bufF) && sl.Low != nil && isLoadOf(sl.Low, cur)
			if okSlice && !dataIsSrc { // reading: buf[r:w]
				okSlice = sl.High != nil && isLoadOf(sl.High, wF)
			}
			// cursor += copy count, somewhere after the copy
			adv := false
			for _, in := range uuInstrs(fn) {
				st, ok := in.(*ssa.Store)
				if !ok {
					continue
				}
				if f, _ := uuFieldAddr(st.Addr); f != cur {
					continue
				}
				if b, isB := st.Val.(*ssa.BinOp); isB && b.Op == token.ADD && isLoadOf(b.X, cur) && uuResolve(b.Y) == ssa.Value(cp) && core.Dominates(cp, st) {
					adv = true
				}
			}
			// every return that follows the copy yields its count
			ret := true
			for _, r := range core.Returns(fn) {
				if core.Dominates(cp, r) && (len(r.Results) < 1 || uuResolve(r.Results[0]) != ssa.Value(cp)) {
					ret = false
				}
			}
			var why []string
			if !okSlice {
				if dataIsSrc {
					why = append(why, "the copy destination is not buf[w:]")
				} else {
					why = append(why, "the copy source is not buf[r:w]")
				}
			}
			if !adv {
				why = append(why, "the cursor "+cur.Name()+" is not advanced by exactly the copy count")
			}
			if !ret {
				why = append(why, "the returned count is not the copy count")
			}
			c.Check("fb-cursor", name, cp.Pos(), okSlice && adv && ret, name+": "+strings.Join(why, "; ")+" — bytes would be delivered twice, skipped or overwritten")
		}
		cursor("FixedBuffer.Read", rF, false)
		cursor("FixedBuffer.Write", wF, true)
		if fn := get("FixedBuffer.Len"); fn != nil {
			ok := false
			for _, r := range core.Returns(fn) {
				if b, isB := uuResolve(r.Results[0]).(*ssa.BinOp); isB && b.Op == token.SUB && isLoadOf(b.X, wF) && isLoadOf(b.Y, rF) {
					ok = true
				}
			}
			c.Check("fb-cursor", "FixedBuffer.Len", fn.Pos(), ok, "FixedBuffer.Len must be w - r: Pipe.Read decides between data and close/wait by Len() > 0")
		}
		c.Min("fb-cursor", 3)
		// rebasing: r is only ever reset to 0 together with w := 0 or w := w - r (computed from the old r)
		for _, fn := range pkgFns {
			if fn.Signature.Recv() == nil || c21TypeName(fn.Signature.Recv().Type()) != "FixedBuffer" {
				continue
			}
			for _, in := range uuInstrs(fn) {
				st, ok := in.(*ssa.Store)
				if !ok {
					continue
				}
				if f, _ := uuFieldAddr(st.Addr); f != rF {
					continue
				}
				k, isK := uuConstInt(st.Val)
				if !isK || k != 0 {
					continue
				}
				paired := false
				for _, in2 := range st.Block().Instrs {
					st2, ok := in2.(*ssa.Store)
					if !ok {
						continue
					}
					if f, _ := uuFieldAddr(st2.Addr); f != wF {
						continue
					}
					if k2, isK2 := uuConstInt(st2.Val); isK2 && k2 == 0 {
						paired = true
					}
					if b, isB := st2.Val.(*ssa.BinOp); isB && b.Op == token.SUB && isLoadOf(b.X, wF) && isLoadOf(b.Y, rF) {
						// the r that is subtracted must be read before r is zeroed
						if ld, isLd := b.Y.(*ssa.UnOp); isLd && core.Dominates(ld, st) {
							paired = true
						}
					}
				}
				c.Check("fb-rebase", short(fn), st.Pos(), paired, short(fn)+" resets the read cursor r to 0 without rebasing w in the same step (w = 0 when empty, w -= r when sliding): Len() = w - r would report bytes that were already delivered, or lose unread ones")
			}
		}
		c.Min("fb-rebase", 3)
		// sliding: the unread region is moved as a whole before the cursors are rebased
		for _, fn := range pkgFns {
			if fn.Signature.Recv() == nil || c21TypeName(fn.Signature.Recv().Type()) != "FixedBuffer" {
				continue
			}
			for i, s := range uuSlideChecks(fn, bufF, rF, wF) {
				c.Check("fb-slide", fmt.Sprintf("%s:slide#%d", short(fn), i+1), s.pos, s.ok, short(fn)+" rebases the cursors (w -= r, r = 0) but "+s.detail+": the pipe would deliver bytes twice / out of order and lose others")
			}
		}
		c.Min("fb-slide", 1)
	}

	// ------------------------------------------------------------ (g) no stale snapshot across Wait, pool discipline
	// points where p.mu is given up in the middle of a function: Cond.Wait, an
	// explicit (not deferred) Unlock, and calls of package functions that do so.
	// 1 = the lock is taken again afterwards (Wait; an Unlock from which a Lock
	// of p.mu is reachable), 2 = it is given up for good.
	isMuCall := func(in ssa.Instruction, name string) bool {
		call, ok := in.(*ssa.Call)
		if !ok || !core.CallIs(&call.Call, "sync.Mutex."+name) || len(call.Call.Args) != 1 {
			return false
		}
		f, _ := uuFieldAddr(call.Call.Args[0])
		return f == muF
	}
	relKind := map[*ssa.Function]int{} // strongest release kind inside a package function
	var classify func(in ssa.Instruction) int
	classify = func(in ssa.Instruction) int {
		call, ok := in.(*ssa.Call)
		if !ok {
			return 0
		}
		if condCall(in, "Wait") {
			return 1
		}
		unlocks := isMuCall(in, "Unlock")
		if sc := call.Call.StaticCallee(); sc != nil && relKind[sc] != 0 {
			if relKind[sc] == 1 {
				return 1
			}
			unlocks = true
		}
		if !unlocks {
			return 0
		}
		relock := core.ReachAvoiding(in.Parent(), in, nil, func(x ssa.Instruction) bool {
			if isMuCall(x, "Lock") {
				return true
			}
			if c2, isCall := x.(*ssa.Call); isCall {
				if sc := c2.Call.StaticCallee(); sc != nil && core.FuncPkgRel(sc) == c21pkg && sc.Blocks != nil {
					return core.MayPass(sc, func(y ssa.Instruction) bool { return isMuCall(y, "Lock") }, 1)
				}
			}
			return false
		})
		if relock != nil {
			return 1
		}
		return 2
	}
	for changed := true; changed; {
		changed = false
		for _, fn := range pkgFns {
			for _, in := range uuInstrs(fn) {
				if k := classify(in); k != 0 && (relKind[fn] == 0 || k < relKind[fn]) {
					relKind[fn], changed = k, true
				}
			}
		}
	}
	c21FreshAfterWait(c, pkgFns, []*types.Var{bF, errF, brkF, fnF, doneF}, classify, short)
	c.Min("fresh-after-wait", 3)
	c21PoolRelease(c, pkgFns, bF, short)
	c.Min("pool-release", 3)
	_, _, _ = nGuarded, nCdl, nSig
	_ = nRel
}

// c21TypeName: "*pkg.T" -> "T".
func c21TypeName(t types.Type) string {
	if p, ok := t.(*types.Pointer); ok {
		t = p.Elem()
	}
	if n, ok := t.(*types.Named); ok {
		return n.Obj().Name()
	}
	return t.String()
}

// c21FieldName names the field addressed by fa.
func c21FieldName(fa *ssa.FieldAddr) string {
	if f := core.FieldObj(fa.X, fa.Field); f != nil {
		return f.Name()
	}
	return ""
}
