package rules

// Robustness helpers of the condition-language properties (C16, C17, C18).
//
// The rules of these properties used to recognise one spelling of the code
// (a switch with `return a && b`, an early-return chain, a guard written as
// `x == nil || y == nil`). The helpers below decide the same facts from the
// meaning of the code instead:
//
//   - cxInterp: a small concrete interpreter over SSA with an oracle for the
//     abstract inputs (the truth value of an operand, the order of a value
//     relative to a bound). A rule enumerates the abstract inputs and compares
//     the function's result with the documented truth table; switch, if-chain,
//     short-circuit operators, early returns, named booleans and private
//     helpers all evaluate to the same table.
//   - cxFacts*: branch conditions established at a block, closed under what
//     they imply: `!c`, a boolean assembled with && / || (a phi of constants
//     and conditions) and named booleans are unfolded into the comparisons
//     they stand for.
//   - value-flow conveniences (loads of fields, parameter/argument binding at
//     the call sites of private helpers).

import (
	"fmt"
	"go/constant"
	"go/token"
	"go/types"
	"strings"

	"golang.org/x/tools/go/ssa"

	"verif/internal/core"
)

// ---------------------------------------------------------------- interpreter

// cxVal is a value of the interpreter: bool, int64, string, cxSym, cxNilV,
// cxTuple; the Go nil interface stands for "unknown".
type cxVal interface{}

// cxSym is an opaque non-constant value identified by its access path
// ("recv.lc", "req") or by the instruction that produced it.
type cxSym struct{ Key string }

// cxNilV is the nil constant.
type cxNilV struct{}

type cxTuple []cxVal

type cxFrame struct {
	fn   *ssa.Function
	env  map[ssa.Value]cxVal
	mem  map[ssa.Value]cxVal
	up   *cxFrame
	site ssa.CallInstruction
}

type cxInterp struct {
	// Oracle is asked first for every value instruction (and for loads); it
	// returns ok=false to let the interpreter evaluate the instruction itself.
	Oracle func(it *cxInterp, fr *cxFrame, v ssa.Value) (cxVal, bool)
	// NonNil: symbolic values are objects that exist (comparison with nil is false).
	NonNil bool
	// Callable limits the static callees that are interpreted (nil: functions
	// with a body in the package of the root function).
	Callable func(*ssa.Function) bool
	fuel     int
	forks    int
	Why      string // why the run was undecided
	root     *ssa.Function
}

func (it *cxInterp) fail(format string, a ...interface{}) {
	if it.Why == "" {
		it.Why = fmt.Sprintf(format, a...)
	}
}

// Run interprets fn on the given arguments; ok is false when the result could
// not be decided (a branch on an unknown value, unsupported instruction on the
// path, fuel exhausted); Why then names the reason.
func (it *cxInterp) Run(fn *ssa.Function, args []cxVal) (cxTuple, bool) {
	it.fuel = 20000
	it.forks = 0
	it.Why = ""
	it.root = fn
	return it.call(fn, args, nil, nil, 0)
}

func (it *cxInterp) get(fr *cxFrame, v ssa.Value) cxVal {
	switch x := v.(type) {
	case *ssa.Const:
		if x.Value == nil {
			return cxNilV{}
		}
		switch x.Value.Kind() {
		case constant.Bool:
			return constant.BoolVal(x.Value)
		case constant.Int:
			if n, ok := constant.Int64Val(x.Value); ok {
				return n
			}
		case constant.String:
			return constant.StringVal(x.Value)
		}
		return nil
	case *ssa.Global:
		return cxSym{core.Render(x)}
	case *ssa.Function:
		return cxSym{"func:" + core.FuncKey(x)}
	case *ssa.FreeVar:
		return nil
	}
	if r, ok := fr.env[v]; ok {
		return r
	}
	return nil
}

func cxSymKey(v cxVal) (string, bool) {
	s, ok := v.(cxSym)
	return s.Key, ok
}

func cxZeroOf(t types.Type) cxVal {
	switch u := t.Underlying().(type) {
	case *types.Basic:
		switch {
		case u.Info()&types.IsBoolean != 0:
			return false
		case u.Info()&types.IsInteger != 0:
			return int64(0)
		case u.Info()&types.IsString != 0:
			return ""
		}
	case *types.Pointer, *types.Interface, *types.Slice, *types.Map, *types.Signature, *types.Chan:
		return cxNilV{}
	}
	return nil
}

func (it *cxInterp) call(fn *ssa.Function, args []cxVal, up *cxFrame, site ssa.CallInstruction, depth int) (cxTuple, bool) {
	if fn == nil || len(fn.Blocks) == 0 {
		it.fail("no body")
		return nil, false
	}
	fr := &cxFrame{fn: fn, env: map[ssa.Value]cxVal{}, mem: map[ssa.Value]cxVal{}, up: up, site: site}
	for i, p := range fn.Params {
		if i < len(args) {
			fr.env[p] = args[i]
		}
	}
	outs, ok := it.exec(fr, fn.Blocks[0], nil, depth)
	if !ok || len(outs) == 0 {
		return nil, false
	}
	// the value of the call: what all explored paths agree on
	res := append(cxTuple(nil), outs[0]...)
	for _, o := range outs[1:] {
		for i := range res {
			if i >= len(o) || res[i] == nil || o[i] == nil || !cxSameVal(res[i], o[i]) {
				res[i] = nil
			}
		}
	}
	return res, true
}

func cxSameVal(a, b cxVal) bool {
	switch x := a.(type) {
	case bool:
		y, ok := b.(bool)
		return ok && x == y
	case int64:
		y, ok := b.(int64)
		return ok && x == y
	case string:
		y, ok := b.(string)
		return ok && x == y
	case cxSym:
		y, ok := b.(cxSym)
		return ok && x == y
	case cxNilV:
		_, ok := b.(cxNilV)
		return ok
	}
	return false
}

func (fr *cxFrame) clone() *cxFrame {
	n := &cxFrame{fn: fr.fn, env: make(map[ssa.Value]cxVal, len(fr.env)), mem: make(map[ssa.Value]cxVal, len(fr.mem)), up: fr.up, site: fr.site}
	for k, v := range fr.env {
		n.env[k] = v
	}
	for k, v := range fr.mem {
		n.mem[k] = v
	}
	return n
}

// exec runs the frame from block b (entered from prev) to the returns. A
// branch whose condition is unknown is explored both ways (the number of such
// forks is bounded): the outcomes of all explored paths are returned, and the
// caller accepts a result only where they agree. A branch on data the abstract
// inputs do not determine (a debug switch, a fix-up of an intermediate value)
// therefore does not make the result undecided unless the result depends on it.
func (it *cxInterp) exec(fr *cxFrame, b, prev *ssa.BasicBlock, depth int) ([]cxTuple, bool) {
	for {
		// phis
		pi := -1
		for i, p := range b.Preds {
			if p == prev {
				pi = i
			}
		}
		var phis []*ssa.Phi
		var vals []cxVal
		for _, in := range b.Instrs {
			phi, ok := in.(*ssa.Phi)
			if !ok {
				break
			}
			var v cxVal
			if pi >= 0 {
				v = it.get(fr, phi.Edges[pi])
			}
			phis = append(phis, phi)
			vals = append(vals, v)
		}
		for i, phi := range phis {
			fr.env[phi] = vals[i]
		}
		for _, in := range b.Instrs[len(phis):] {
			it.fuel--
			if it.fuel < 0 {
				it.fail("evaluation does not terminate within the step budget (loop?)")
				return nil, false
			}
			switch x := in.(type) {
			case *ssa.If:
				c, ok := it.get(fr, x.Cond).(bool)
				if !ok {
					it.forks++
					if it.forks > 24 {
						it.fail("the branch on %s in %s cannot be decided from the abstract inputs", cxTrim(core.Render(x.Cond), 120), core.FuncKey(fr.fn))
						return nil, false
					}
					var all []cxTuple
					for _, s := range b.Succs {
						outs, ok := it.exec(fr.clone(), s, b, depth)
						if !ok {
							if it.Why == "" || strings.HasPrefix(it.Why, "evaluation does not terminate") {
								it.Why = fmt.Sprintf("the branch on %s in %s cannot be decided from the abstract inputs", cxTrim(core.Render(x.Cond), 120), core.FuncKey(fr.fn))
							}
							return nil, false
						}
						all = append(all, outs...)
					}
					return all, true
				}
				prev = b
				if c {
					b = b.Succs[0]
				} else {
					b = b.Succs[1]
				}
			case *ssa.Jump:
				prev = b
				b = b.Succs[0]
			case *ssa.Return:
				out := make(cxTuple, len(x.Results))
				for i, r := range x.Results {
					out[i] = it.get(fr, r)
				}
				return []cxTuple{out}, true
			case *ssa.Panic:
				it.fail("reaches a panic in %s", core.FuncKey(fr.fn))
				return nil, false
			case *ssa.Store:
				if a, ok := x.Addr.(*ssa.Alloc); ok {
					fr.mem[a] = it.get(fr, x.Val)
				}
			case *ssa.Defer, *ssa.Go, *ssa.RunDefers, *ssa.Send, *ssa.MapUpdate, *ssa.DebugRef:
				// effects are not part of the value computed
			case ssa.Value:
				fr.env[x] = it.evalInstr(fr, x, depth)
			}
		}
		if it.fuel < 0 {
			return nil, false
		}
	}
}

func (it *cxInterp) evalInstr(fr *cxFrame, v ssa.Value, depth int) cxVal {
	if it.Oracle != nil {
		if r, ok := it.Oracle(it, fr, v); ok {
			return r
		}
	}
	switch x := v.(type) {
	case *ssa.Alloc:
		if pt, ok := x.Type().Underlying().(*types.Pointer); ok {
			fr.mem[x] = cxZeroOf(pt.Elem())
		}
		return cxSym{fmt.Sprintf("alloc#%p", x)}
	case *ssa.UnOp:
		switch x.Op {
		case token.MUL:
			if a, ok := x.X.(*ssa.Alloc); ok {
				return fr.mem[a]
			}
			if k, ok := cxSymKey(it.get(fr, x.X)); ok {
				return cxSym{strings.TrimPrefix(k, "&")}
			}
			return nil
		case token.NOT:
			if b, ok := it.get(fr, x.X).(bool); ok {
				return !b
			}
		case token.SUB:
			if n, ok := it.get(fr, x.X).(int64); ok {
				return -n
			}
		}
		return nil
	case *ssa.FieldAddr:
		if k, ok := cxSymKey(it.get(fr, x.X)); ok {
			if f := core.FieldObj(x.X, x.Field); f != nil {
				return cxSym{"&" + strings.TrimPrefix(k, "&") + "." + f.Name()}
			}
		}
		return nil
	case *ssa.Field:
		if k, ok := cxSymKey(it.get(fr, x.X)); ok {
			if f := core.FieldObj(x.X, x.Field); f != nil {
				return cxSym{k + "." + f.Name()}
			}
		}
		return nil
	case *ssa.BinOp:
		return cxBinOp(x.Op, it.get(fr, x.X), it.get(fr, x.Y), it.NonNil)
	case *ssa.MakeInterface:
		return it.get(fr, x.X)
	case *ssa.ChangeInterface:
		return it.get(fr, x.X)
	case *ssa.ChangeType:
		return it.get(fr, x.X)
	case *ssa.Convert:
		r := it.get(fr, x.X)
		if _, isInt := r.(int64); isInt {
			if b, ok := x.Type().Underlying().(*types.Basic); ok && b.Info()&types.IsInteger != 0 {
				return r
			}
			return nil
		}
		if _, isSym := r.(cxSym); isSym {
			return r
		}
		return nil
	case *ssa.TypeAssert:
		if !x.CommaOk {
			return it.get(fr, x.X)
		}
		return nil
	case *ssa.Extract:
		if t, ok := it.get(fr, x.Tuple).(cxTuple); ok && x.Index < len(t) {
			return t[x.Index]
		}
		return nil
	case *ssa.Call:
		callee := x.Call.StaticCallee()
		if callee == nil || callee.Blocks == nil || depth >= 3 {
			return nil
		}
		if it.Callable != nil {
			if !it.Callable(callee) {
				return nil
			}
		} else if callee.Pkg == nil || it.root == nil || callee.Pkg != it.root.Pkg {
			return nil
		}
		args := make([]cxVal, len(x.Call.Args))
		for i, a := range x.Call.Args {
			args[i] = it.get(fr, a)
		}
		res, ok := it.call(callee, args, fr, x, depth+1)
		if !ok {
			// the callee's value is undecided; the caller may not need it
			if it.fuel < 0 {
				return nil
			}
			it.Why = ""
			return nil
		}
		if len(res) == 1 {
			return res[0]
		}
		return res
	}
	return nil
}

func cxBinOp(op token.Token, a, b cxVal, nonNil bool) cxVal {
	switch x := a.(type) {
	case int64:
		y, ok := b.(int64)
		if !ok {
			return nil
		}
		switch op {
		case token.ADD:
			return x + y
		case token.SUB:
			return x - y
		case token.MUL:
			return x * y
		case token.EQL:
			return x == y
		case token.NEQ:
			return x != y
		case token.LSS:
			return x < y
		case token.LEQ:
			return x <= y
		case token.GTR:
			return x > y
		case token.GEQ:
			return x >= y
		}
		return nil
	case bool:
		y, ok := b.(bool)
		if !ok {
			return nil
		}
		switch op {
		case token.EQL:
			return x == y
		case token.NEQ:
			return x != y
		case token.AND:
			return x && y
		case token.OR:
			return x || y
		}
		return nil
	case string:
		y, ok := b.(string)
		if !ok {
			return nil
		}
		switch op {
		case token.EQL:
			return x == y
		case token.NEQ:
			return x != y
		}
		return nil
	}
	_, an := a.(cxNilV)
	_, bn := b.(cxNilV)
	as, aIsSym := a.(cxSym)
	bs, bIsSym := b.(cxSym)
	eq, known := false, false
	switch {
	case an && bn:
		eq, known = true, true
	case an && bIsSym || bn && aIsSym:
		if nonNil {
			eq, known = false, true
		}
	case aIsSym && bIsSym && as.Key == bs.Key:
		eq, known = true, true
	}
	if !known {
		return nil
	}
	switch op {
	case token.EQL:
		return eq
	case token.NEQ:
		return !eq
	}
	return nil
}

// ---------------------------------------------------------------- facts (guards closed under implication)

// cxImplied unfolds a branch condition into the conditions it implies:
// `!c` established true means c false; a boolean assembled with && (a phi whose
// other edges are the constant false) established true means every conjunct on
// the way holds; dually for || established false. Named booleans are the same
// SSA values as the expressions they name.
func cxImplied(g core.Guard, depth int, out *[]core.Guard, seen map[ssa.Value]bool) {
	*out = append(*out, g)
	if depth > 6 {
		return
	}
	switch x := g.Cond.(type) {
	case *ssa.UnOp:
		if x.Op == token.NOT {
			cxImplied(cxMkGuard(x.X, !g.Pol, nil), depth+1, out, seen)
		}
	case *ssa.BinOp:
		// b == true, b != false, …
		if x.Op == token.EQL || x.Op == token.NEQ {
			for _, pr := range [][2]ssa.Value{{x.X, x.Y}, {x.Y, x.X}} {
				k, ok := pr[1].(*ssa.Const)
				if !ok || k.Value == nil || k.Value.Kind() != constant.Bool {
					continue
				}
				pol := constant.BoolVal(k.Value) == (x.Op == token.EQL)
				if !g.Pol {
					pol = !pol
				}
				cxImplied(cxMkGuard(pr[0], pol, nil), depth+1, out, seen)
			}
		}
	case *ssa.Phi:
		if seen[x] {
			return
		}
		seen[x] = true
		defer delete(seen, x)
		// edges that can produce the established truth value
		var live []int
		for i, e := range x.Edges {
			if k, ok := e.(*ssa.Const); ok && k.Value != nil && k.Value.Kind() == constant.Bool {
				if constant.BoolVal(k.Value) == g.Pol {
					live = append(live, i)
				}
				continue
			}
			live = append(live, i)
		}
		if len(live) == 0 {
			return
		}
		var common []core.Guard
		for n, i := range live {
			var gs []core.Guard
			pred := x.Block().Preds[i]
			for _, eg := range core.GuardsOnEdge(pred, x.Block()) {
				cxImplied(eg, depth+1, &gs, seen)
			}
			if _, isK := x.Edges[i].(*ssa.Const); !isK {
				cxImplied(cxMkGuard(x.Edges[i], g.Pol, nil), depth+1, &gs, seen)
			}
			if n == 0 {
				common = gs
				continue
			}
			var keep []core.Guard
			for _, a := range common {
				for _, b := range gs {
					if a.Cond == b.Cond && a.Pol == b.Pol {
						keep = append(keep, a)
						break
					}
				}
			}
			common = keep
		}
		*out = append(*out, common...)
	}
}

func cxMkGuard(c ssa.Value, pol bool, iff *ssa.If) core.Guard {
	s := core.Render(c)
	if !pol {
		s = "!" + s
	}
	return core.Guard{Cond: c, Pol: pol, Str: s, If: iff}
}

func cxExpand(gs []core.Guard) []core.Guard {
	var out []core.Guard
	for _, g := range gs {
		cxImplied(g, 0, &out, map[ssa.Value]bool{})
	}
	return out
}

// cxFactsAt: the guards established at b and everything they imply.
func cxFactsAt(b *ssa.BasicBlock) []core.Guard { return cxExpand(core.GuardsAt(b)) }

// cxFactsOnEdge: the same for the edge pred -> succ.
func cxFactsOnEdge(pred, succ *ssa.BasicBlock) []core.Guard {
	return cxExpand(core.GuardsOnEdge(pred, succ))
}

// cxHasFact is core.HasGuard over the implied facts.
func cxHasFact(b *ssa.BasicBlock, match func(core.Guard) bool) bool {
	for _, g := range cxFactsAt(b) {
		if match(g) {
			return true
		}
	}
	return false
}

// cxAllEdgesFact is core.AllEdgesGuarded over the implied facts.
func cxAllEdgesFact(b *ssa.BasicBlock, match func(core.Guard) bool) bool {
	if cxHasFact(b, match) {
		return true
	}
	if len(b.Preds) < 2 {
		return false
	}
	for _, p := range b.Preds {
		ok := false
		for _, g := range cxFactsOnEdge(p, b) {
			if match(g) {
				ok = true
				break
			}
		}
		if !ok {
			return false
		}
	}
	return true
}

// cxFactsAtCtx continues through the single call site of a private helper
// (core.Prog.GuardsAtCtx) and unfolds what the guards imply.
func cxFactsAtCtx(p *core.Prog, b *ssa.BasicBlock) []core.Guard {
	return cxExpand(p.GuardsAtCtx(b))
}

// ---------------------------------------------------------------- value flow

// cxLoadField: v is a load of field `name` of some base value; returns the base.
func cxLoadField(v ssa.Value, name string) (ssa.Value, bool) {
	v = core.StripConv(v)
	switch x := v.(type) {
	case *ssa.UnOp:
		if x.Op != token.MUL {
			return nil, false
		}
		if fa, ok := x.X.(*ssa.FieldAddr); ok {
			if f := core.FieldObj(fa.X, fa.Field); f != nil && f.Name() == name {
				return fa.X, true
			}
		}
	case *ssa.Field:
		if f := core.FieldObj(x.X, x.Field); f != nil && f.Name() == name {
			return x.X, true
		}
	}
	return nil, false
}

// cxBind maps the parameters of a callee to the argument values of one call
// site, resolved through an outer binding.
type cxBind map[*ssa.Parameter]ssa.Value

// resolve peels conversions and replaces bound parameters by their arguments.
func (e cxBind) resolve(v ssa.Value) ssa.Value {
	for i := 0; i < 8; i++ {
		v = core.StripConv(v)
		// a parameter spilled to an alloc (captured by a closure / defer)
		if u, ok := v.(*ssa.UnOp); ok && u.Op == token.MUL {
			if a, ok := u.X.(*ssa.Alloc); ok {
				if p := core.SpilledParam(a); p != nil {
					v = p
				}
			}
		}
		p, ok := v.(*ssa.Parameter)
		if !ok {
			return v
		}
		a, bound := e[p]
		if !bound {
			return v
		}
		v = a
	}
	return v
}

// enter builds the binding for a call of h at site, resolved through e; the
// bindings of the outer frames are kept.
func (e cxBind) enter(h *ssa.Function, site *ssa.CallCommon) cxBind {
	n := cxBind{}
	for p, a := range e { // outer frames stay resolvable (values of an outer frame flow inwards as arguments)
		n[p] = a
	}
	for i, p := range h.Params {
		if i < len(site.Args) {
			n[p] = e.resolve(site.Args[i])
		}
	}
	return n
}

// cxFieldStores: the values stored into each field of the object allocated at a.
func cxAllocFieldStores(a ssa.Value) map[string][]ssa.Value {
	out := map[string][]ssa.Value{}
	refs := a.Referrers()
	if refs == nil {
		return out
	}
	for _, r := range *refs {
		fa, ok := r.(*ssa.FieldAddr)
		if !ok || fa.Referrers() == nil {
			continue
		}
		f := core.FieldObj(fa.X, fa.Field)
		if f == nil {
			continue
		}
		for _, u := range *fa.Referrers() {
			if st, ok := u.(*ssa.Store); ok && st.Addr == fa {
				out[f.Name()] = append(out[f.Name()], st.Val)
			}
		}
	}
	return out
}

// cxNamedElem: the name of the named type T of a value of type *T or T.
func cxNamedElem(t types.Type) string {
	if p, ok := t.Underlying().(*types.Pointer); ok {
		t = p.Elem()
	}
	if n, ok := t.(*types.Named); ok {
		return n.Obj().Name()
	}
	return ""
}

// cxReachAvoidingEdges: starting just after `from`, is there a path to an
// instruction satisfying target that does not cross a branch edge establishing
// (directly or by implication, see cxImplied) a fact accepted by good? It
// returns such a target, or nil when every path crosses a good edge first.
func cxReachAvoidingEdges(from ssa.Instruction, good func(core.Guard) bool, target func(ssa.Instruction) bool) ssa.Instruction {
	seen := map[*ssa.BasicBlock]bool{}
	var work []*ssa.BasicBlock
	scan := func(b *ssa.BasicBlock, i int) ssa.Instruction {
		for ; i < len(b.Instrs); i++ {
			if target(b.Instrs[i]) {
				return b.Instrs[i]
			}
		}
		ifi, isIf := b.Instrs[len(b.Instrs)-1].(*ssa.If)
		for k, s := range b.Succs {
			if isIf && len(b.Succs) == 2 && b.Succs[0] != b.Succs[1] {
				var facts []core.Guard
				cxImplied(cxMkGuard(ifi.Cond, k == 0, ifi), 0, &facts, map[ssa.Value]bool{})
				crossed := false
				for _, g := range facts {
					if good(g) {
						crossed = true
						break
					}
				}
				if crossed {
					continue
				}
			}
			if !seen[s] {
				seen[s] = true
				work = append(work, s)
			}
		}
		return nil
	}
	start := 0
	for i, in := range from.Block().Instrs {
		if in == from {
			start = i + 1
		}
	}
	if r := scan(from.Block(), start); r != nil {
		return r
	}
	for len(work) > 0 {
		b := work[len(work)-1]
		work = work[:len(work)-1]
		if r := scan(b, 0); r != nil {
			return r
		}
	}
	return nil
}
