package rules

import (
	"fmt"
	"go/token"
	"go/types"
	"sort"
	"strings"

	"golang.org/x/tools/go/ssa"

	"verif/internal/core"
)

// C15 — hot reload is atomic and race-free.
func init() {
	Register(&Rule{
		ID: "C15", Section: "4 C15",
		Technique: "guarded-by lock-set analysis (type-based lock identity, held-on-entry fixpoint) over the reloadable tables, who-may-call census and call-graph reachability for the single-snapshot rule, value-flow of the published snapshot",
		Meta: core.Meta{
			Level:       "other",
			Explanation: "Decides: (a) guarded-by — BfeServer.ServerConf is read and written only under BfeServer.confLock (start-up InitDataLoad, reachable only from StartUp, exempt), ReverseProxy.transports only under tsMu, and in every module rule table (structs of bfe_modules/* with one mutex field and an Update method; count asserted) the fields Update replaces are accessed only under that table's lock; (b) single snapshot — GetServerConf and raw reads of ServerConf occur only in the reviewed set of entry functions (request construction, protocol handler, connection set-up, TLS-proxy helpers, health-check conf fetcher, reload and monitor handlers) and their private helpers, no reviewed function takes the live conf twice on one path, none of them is reachable through static calls from ReverseProxy.ServeHTTP or FinishReq, and the routing steps findProduct/findCluster look tables up only on values that flow from the SvrDataConf field of a request; (c) swap — the value stored into ServerConf is result 0 of LoadServerDataConf on the err == nil path of that call (fully built and checked before the locked store), each module table's Update replaces its fields under the write lock with no release of the lock between two replacing stores on any path, and code after the swap uses the local snapshot. A reviewed/exempt function stands for its region: unexported helpers that are never used as values and are called only from inside the region; Update stands for itself plus the methods it calls on its own receiver; a value stored or used in such a helper is followed through the helper's parameter to the argument at every call site; tests are matched as comparisons with polarity folded in, not by operand order or branch shape. Not covered: races through aliases (a table's inner maps mutated in place elsewhere), TLS reload internals, module filters reaching server state through closures (function values stored in container/list are not followed), helpers shared with code outside the reviewed set (their accesses are reported).",
			RuleText:    "obligations = each access to a guarded field, each caller/raw reader of the server conf, each function reachable from the request path, each module table Update",
			Assumptions: []string{"lock instances are identified by their containing type"},
		},
		Run: runC15,
		Mutants: []Mutant{
			{Name: "unlocked-conf-read-after-swap", File: "bfe_server/bfe_confdata_load.go", Old: "	srv.ReverseProxy.setTransports(newServerConf.ClusterTable.ClusterMap())", New: "	srv.ReverseProxy.setTransports(srv.ServerConf.ClusterTable.ClusterMap())", Expect: "guarded-by"},
			{Name: "findcluster-reads-live-conf", File: "bfe_server/find_location.go", Old: "	serverConf := req.SvrDataConf.(*bfe_route.ServerDataConf)\n\n	// look up clusterName", New: "	serverConf := srv.GetServerConf()\n\n	// look up clusterName", Expect: "snapshot"},
			{Name: "module-table-unlocked-search", File: "bfe_modules/mod_block/product_rule_table.go", Old: "	t.lock.RLock()\n	productRules := t.productRules\n	t.lock.RUnlock()\n", New: "	productRules := t.productRules\n", Expect: "guarded-by"},
			{Name: "module-table-split-update", File: "bfe_modules/mod_block/product_rule_table.go", Old: "	t.lock.Lock()\n	t.version = conf.Version\n	t.productRules = conf.Config\n	t.lock.Unlock()", New: "	t.lock.Lock()\n	t.version = conf.Version\n	t.lock.Unlock()\n	t.lock.Lock()\n	t.productRules = conf.Config\n	t.lock.Unlock()", Expect: "update-atomic"},
			{Name: "transport-timeout-in-place-2", File: "bfe_server/reverseproxy.go", Old: "			newTransports[cluster] = transport\n		default:", New: "			t.ResponseHeaderTimeout = time.Millisecond * time.Duration(*backendConf.TimeoutResponseHeader)\n			newTransports[cluster] = transport\n		default:", Expect: "published-immutable"},
			{Name: "tls-default-rule-after-unlock", File: "bfe_server/tls_server_rule.go", Old: "	m.lock.RLock()\n	defer m.lock.RUnlock()\n\n	// get tls rule conf by vip\n	if rule := m.getRuleByVip(c); rule != nil {\n		return rule\n	}\n\n	// get tls rule conf by sni (supported by modern browser)\n	if rule := m.getRuleBySni(c); rule != nil {\n		return rule\n	}\n", New: "	m.lock.RLock()\n	if rule := m.getRuleByVip(c); rule != nil {\n		m.lock.RUnlock()\n		return rule\n	}\n	if rule := m.getRuleBySni(c); rule != nil {\n		m.lock.RUnlock()\n		return rule\n	}\n	m.lock.RUnlock()\n", Expect: "guarded-by"},
			{Name: "module-table-merged-on-reload", File: "bfe_modules/mod_redirect/redirect_table.go", Old: "	t.productRules = conf.Config\n", New: "	for k, v := range conf.Config {\n		t.productRules[k] = v\n	}\n", Expect: "update-replaces"},
			{Name: "transports-unlocked", File: "bfe_server/reverseproxy.go", Old: "	p.tsMu.RLock()\n	transport, ok := p.transports[cluster.Name]\n	p.tsMu.RUnlock()", New: "	transport, ok := p.transports[cluster.Name]", Expect: "guarded-by"},
			{Name: "reload-mutates-snapshot-alias", File: "bfe_balance/bal_table.go", Old: "	t.lock.Lock()\n\n	var fails []string\n	bmNew := make(BalMap)\n	for clusterName, gslbConf := range *gslbConfs.Clusters {\n		bal, ok := t.balTable[clusterName]\n		if !ok {\n			// new one balance\n			bal = bal_gslb.NewBalanceGslb(clusterName)\n		} else {\n			delete(t.balTable, clusterName)\n		}", New: "	t.lock.RLock()\n	bmOld := t.balTable\n	t.lock.RUnlock()\n	t.lock.Lock()\n	t.lock.Unlock()\n\n	var fails []string\n	bmNew := make(BalMap)\n	for clusterName, gslbConf := range *gslbConfs.Clusters {\n		bal, ok := bmOld[clusterName]\n		if !ok {\n			// new one balance\n			bal = bal_gslb.NewBalanceGslb(clusterName)\n		} else {\n			delete(bmOld, clusterName)\n		}\n		t.lock.Lock()", Expect: "guarded-mutation"},
			{Name: "swap-unchecked-conf", File: "bfe_server/bfe_confdata_load.go", Old: "	srv.confLock.Lock()\n	srv.ServerConf = newServerConf\n	srv.confLock.Unlock()\n", New: "	srv.confLock.Lock()\n	srv.ServerConf = &bfe_route.ServerDataConf{HostTable: newServerConf.HostTable}\n	srv.ServerConf.ClusterTable = newServerConf.ClusterTable\n	srv.confLock.Unlock()\n", Expect: "swap-value"},
			// behaviour-preserving edits (one per class of refactoring the rules were made robust against): the verdict must not change
			{Name: "neutral-swap-helper-inverted-err", File: "bfe_server/bfe_confdata_load.go", Old: "	newServerConf, err := bfe_route.LoadServerDataConf(hostFile, vipFile, routeFile, clusterConfFile)\n	if err != nil {\n		log.Logger.Error(\"ServerDataConfReload():bfe_route.LoadServerDataConf: %s\", err)\n		return err\n	}\n\n	srv.confLock.Lock()\n	srv.ServerConf = newServerConf\n	srv.confLock.Unlock()\n\n	srv.ReverseProxy.setTransports(newServerConf.ClusterTable.ClusterMap())\n\n	// set gslb basic\n	srv.balTable.SetGslbBasic(newServerConf.ClusterTable)\n	// set slow_start config\n	srv.balTable.SetSlowStart(newServerConf.ClusterTable)\n\n	return nil\n}\n", New: "	loaded, loadErr := bfe_route.LoadServerDataConf(hostFile, vipFile, routeFile, clusterConfFile)\n	if nil == loadErr {\n		srv.installServerConf(loaded)\n		log.Logger.Debug(\"ServerDataConfReload():new server data conf installed\")\n\n		srv.ReverseProxy.setTransports(loaded.ClusterTable.ClusterMap())\n\n		// set gslb basic\n		srv.balTable.SetGslbBasic(loaded.ClusterTable)\n		// set slow_start config\n		srv.balTable.SetSlowStart(loaded.ClusterTable)\n\n		return nil\n	}\n	log.Logger.Error(\"ServerDataConfReload():bfe_route.LoadServerDataConf: %s\", loadErr)\n	return loadErr\n}\n\n// installServerConf publishes a fully loaded server data conf.\nfunc (srv *BfeServer) installServerConf(next *bfe_route.ServerDataConf) {\n	srv.confLock.Lock()\n	defer srv.confLock.Unlock()\n	srv.ServerConf = next\n}\n", Silent: true},
			{Name: "neutral-table-update-helper", File: "bfe_modules/mod_block/product_rule_table.go", Old: "func (t *ProductRuleTable) Update(conf productRuleConf) {\n	t.lock.Lock()\n	t.version = conf.Version\n	t.productRules = conf.Config\n	t.lock.Unlock()\n}\n", New: "func (t *ProductRuleTable) Update(conf productRuleConf) {\n	t.lock.Lock()\n	defer t.lock.Unlock()\n	t.replace(conf)\n}\n\n// replace swaps in the new generation; the caller holds t.lock.\nfunc (t *ProductRuleTable) replace(next productRuleConf) {\n	t.productRules = next.Config\n	t.version = next.Version\n}\n", Silent: true},
			{Name: "neutral-routing-renamed-helper", File: "bfe_server/find_location.go", Old: "func (srv *BfeServer) findCluster(req *bfe_basic.Request) error {\n	req.Stat.LocateStart = time.Now()\n	defer func() {\n		req.Stat.LocateEnd = time.Now()\n	}()\n\n	serverConf := req.SvrDataConf.(*bfe_route.ServerDataConf)\n\n	// look up clusterName\n	return serverConf.HostTable.LookupCluster(req)\n}\n", New: "func (srv *BfeServer) findCluster(request *bfe_basic.Request) error {\n	request.Stat.LocateStart = time.Now()\n	defer func() {\n		request.Stat.LocateEnd = time.Now()\n	}()\n\n	snapshot := request.SvrDataConf\n	return lookupClusterIn(snapshot.(*bfe_route.ServerDataConf), request)\n}\n\n// lookupClusterIn looks up clusterName in the given snapshot.\nfunc lookupClusterIn(snapshot *bfe_route.ServerDataConf, request *bfe_basic.Request) error {\n	hostTable := snapshot.HostTable\n	return hostTable.LookupCluster(request)\n}\n", Silent: true},
			{Name: "neutral-getter-private-helper", File: "bfe_server/find_location.go", Old: "func (srv *BfeServer) FindProduct(conn net.Conn) string {\n	sc := srv.GetServerConf()\n", New: "func (srv *BfeServer) confForProxiedConn() *bfe_route.ServerDataConf {\n	return srv.GetServerConf()\n}\n\nfunc (srv *BfeServer) FindProduct(conn net.Conn) string {\n	sc := srv.confForProxiedConn()\n", Silent: true},
		},
	})
}

func runC15(c *core.Ctx) {
	const srv = "bfe_server"
	if c.P.Pkg(srv) == nil {
		c.Missing(srv)
		return
	}
	pl := core.WholeProgramLocks(c.P)
	all := c.P.SrcFuncs("")
	ix := newConfIdx(c.P)
	byKey := map[string]*ssa.Function{}
	for _, f := range all {
		if f.Parent() == nil {
			byKey[core.FuncKey(f)] = f
		}
	}
	// regionOfKeys: the named functions plus their private helpers (unexported, never used as a
	// value, every call site inside the set): a statement moved from a reviewed function into
	// such a helper is still executed by the reviewed functions only.
	regionOfKeys := func(keys map[string]bool) map[*ssa.Function]bool {
		var seeds []*ssa.Function
		for k := range keys {
			if f := byKey[k]; f != nil {
				seeds = append(seeds, f)
			}
		}
		sort.Slice(seeds, func(i, j int) bool { return seeds[i].Pos() < seeds[j].Pos() })
		return ix.regionOf(seeds...)
	}
	confFld, ok1 := c.P.Obj(srv, "BfeServer.ServerConf").(*types.Var)
	trFld, ok2 := c.P.Obj(srv, "ReverseProxy.transports").(*types.Var)
	if !ok1 || !ok2 {
		c.Missing(srv + ".BfeServer.ServerConf / ReverseProxy.transports")
		return
	}
	type guardSpec struct {
		fld    *types.Var
		lock   string
		exempt map[string]bool
	}
	specs := []guardSpec{
		{confFld, srv + ".BfeServer.confLock", map[string]bool{srv + ".BfeServer.InitDataLoad": true}},
		{trFld, srv + ".ReverseProxy.tsMu", map[string]bool{srv + ".NewReverseProxy": true}},
	}
	for _, fname := range []string{"balTable", "versions"} {
		if fv, ok := c.P.Obj("bfe_balance", "BalTable."+fname).(*types.Var); ok {
			specs = append(specs, guardSpec{fv, "bfe_balance.BalTable.lock", map[string]bool{"bfe_balance.NewBalTable": true, "bfe_balance.BalTable.gslbInit": true, "bfe_balance.BalTable.backendInit": true}})
		} else {
			c.Missing("bfe_balance.BalTable." + fname)
		}
	}
	// start-up exemption is valid only while InitDataLoad is called from StartUp alone
	{
		var callers []string
		for _, f := range all {
			if len(core.Calls(f, srv+".BfeServer.InitDataLoad")) > 0 {
				callers = append(callers, core.FuncKey(f))
			}
		}
		c.Check("startup-only", "BfeServer.InitDataLoad", token.NoPos, len(callers) == 1 && callers[0] == srv+".StartUp", fmt.Sprintf("InitDataLoad writes ServerConf without confLock and is exempt only as a start-up step; callers: %v", callers))
	}
	// ---- module rule tables by shape ---------------------------------------------------------
	nTables := 0
	for _, pk := range c.P.Pkgs {
		rel := strings.TrimPrefix(pk.PkgPath, core.ModPath+"/")
		if rel == pk.PkgPath || strings.HasSuffix(rel, "_test") {
			continue
		}
		if strings.HasPrefix(rel, "bfe_balance/") {
			continue // balancer state nests under BalanceGslb.lock; its lock discipline is C05's subject
		}
		scope := pk.Types.Scope()
		for _, name := range scope.Names() {
			tn, ok := scope.Lookup(name).(*types.TypeName)
			if !ok {
				continue
			}
			st, ok := tn.Type().Underlying().(*types.Struct)
			if !ok {
				continue
			}
			var lockField *types.Var
			nLocks := 0
			for i := 0; i < st.NumFields(); i++ {
				ts := st.Field(i).Type().String()
				if ts == "sync.RWMutex" || ts == "sync.Mutex" {
					lockField = st.Field(i)
					nLocks++
				}
			}
			upd, _, _ := types.LookupFieldOrMethod(types.NewPointer(tn.Type()), true, pk.Types, "Update")
			updFn, isFn := upd.(*types.Func)
			if nLocks != 1 || !isFn {
				continue
			}
			ufn := c.P.SSA.FuncValue(updFn)
			if ufn == nil || ufn.Blocks == nil {
				continue
			}
			nTables++
			lock := rel + "." + name + "." + lockField.Name()
			c.Analysed(core.FuncKey(ufn))
			// fields replaced by Update: stores through the receiver in Update itself and in the
			// methods of the same table it calls on its receiver (an extracted `t.swap(conf)` is
			// part of Update)
			ufns := recvCallees(ufn, 2)
			isRepl := func(in ssa.Instruction) bool { return tableFieldStore(in, st, lockField) != nil }
			isUnlock := func(in ssa.Instruction) bool {
				call, ok := in.(*ssa.Call)
				if !ok {
					return false
				}
				k, l, ok := core.LockEventT(&call.Call)
				return ok && k == "Unlock" && l == lock
			}
			var replaced []*types.Var
			unlocked := 0
			for _, g := range ufns {
				core.Instrs(g, func(in ssa.Instruction) {
					if fv := tableFieldStore(in, st, lockField); fv != nil {
						replaced = append(replaced, fv)
						if !pl.HeldT(in, lock, "W") {
							unlocked++
						}
					}
				})
			}
			// one critical section: no path executes a replacing store, then releases the lock,
			// then executes another replacing store (decided on paths, so the position of the
			// Lock/Unlock calls, `defer Unlock` and the order of the stores do not matter)
			mayStore, mayUnlock := core.LiftMay(isRepl, 2), core.LiftMay(isUnlock, 2)
			split := false
			for _, g := range ufns {
				core.Instrs(g, func(a ssa.Instruction) {
					if split || !mayStore(a) {
						return
					}
					if _, isDefer := a.(*ssa.Defer); isDefer {
						return
					}
					for _, u := range reachAll(g, a, mayUnlock) {
						if _, isDefer := u.(*ssa.Defer); isDefer {
							continue
						}
						if core.ReachAvoiding(g, u, nil, mayStore) != nil {
							split = true
						}
					}
					if !isRepl(a) && mayUnlock(a) && core.ReachAvoiding(g, a, nil, mayStore) != nil {
						split = true
					}
				})
			}
			c.Check("update-atomic", rel+"."+name+".Update", ufn.Pos(), len(replaced) > 0 && unlocked == 0 && !split,
				fmt.Sprintf("%s.Update must replace its fields inside one critical section of %s (stores: %d, outside the write lock: %d, lock released between two stores: %v); a reader between two sections sees the new version with the old rules", name, lock, len(replaced), unlocked, split))
			for _, prob := range tableUpdateProblems(ufn, st, lockField) {
				c.Check("update-replaces", rel+"."+name+".Update:"+prob.key, prob.pos, false, name+".Update "+prob.msg)
			}
			c.Check("update-replaces", rel+"."+name+".Update", ufn.Pos(), true, "")
			for _, fv := range replaced {
				specs = append(specs, guardSpec{fv, lock, map[string]bool{rel + ".New" + name: true, rel + ".new" + name: true, rel + ".New" + strings.Title(name): true}})
			}
		}
	}
	if nTables < 18 {
		c.Check("instances", "module-tables", token.NoPos, false, fmt.Sprintf("found %d lock-carrying module tables with an Update method; 18 were reviewed", nTables))
	}
	c.Note("%d module rule tables found by shape", nTables)
	// ---- (a) guarded-by -----------------------------------------------------------------------------
	ord := map[string]int{}
	exemptRegions := map[string]map[*ssa.Function]bool{}
	exemptRegion := func(exempt map[string]bool) map[*ssa.Function]bool {
		var ks []string
		for k := range exempt {
			ks = append(ks, k)
		}
		sort.Strings(ks)
		id := strings.Join(ks, ",")
		if r, ok := exemptRegions[id]; ok {
			return r
		}
		r := regionOfKeys(exempt)
		exemptRegions[id] = r
		return r
	}
	for _, sp := range specs {
		exReg := exemptRegion(sp.exempt)
		for _, fn := range all {
			k := core.FuncKey(fn)
			root := k
			if i := strings.Index(k, "$"); i >= 0 {
				root = k[:i]
			}
			if sp.exempt[root] || exReg[fn] || strings.HasSuffix(root, ".New"+strings.TrimPrefix(sp.fld.Pkg().Name(), "")) {
				continue
			}
			core.Instrs(fn, func(in ssa.Instruction) {
				fa, ok := in.(*ssa.FieldAddr)
				if !ok || core.FieldObj(fa.X, fa.Field) != sp.fld {
					return
				}
				if al, isAl := fa.X.(*ssa.Alloc); isAl && al.Heap {
					return // freshly allocated, unpublished
				}
				write := false
				for _, r := range *fa.Referrers() {
					if st, isSt := r.(*ssa.Store); isSt && st.Addr == fa {
						write = true
					}
				}
				mode := "R"
				if write {
					mode = "W"
				}
				c.Analysed(k)
				ord[k+sp.fld.Name()+mode]++
				c.Check("guarded-by", fmt.Sprintf("%s:%s:%s#%d", k, sp.fld.Name(), mode, ord[k+sp.fld.Name()+mode]), in.Pos(), pl.HeldT(in, sp.lock, mode),
					fmt.Sprintf("%s is accessed (%s) without %s held (held: %v); a concurrent reload writes it", sp.fld.Name(), mode, sp.lock, pl.AllHeld(in)))
			})
		}
	}
	c.Min("guarded-by", 60)
	// ---- (a') no in-place mutation of a guarded container through an escaped reference -----------
	// Readers copy the map/slice reference under the read lock and use it after unlocking
	// (snapshot idiom); that is only race-free if a published container is never mutated in
	// place without the write lock - also not through a local alias taken earlier.
	nAlias := 0
	nElem := 0
	nElemFollowed := 0
	for _, sp := range specs {
		switch sp.fld.Type().Underlying().(type) {
		case *types.Map, *types.Slice:
		default:
			continue
		}
		exReg := exemptRegion(sp.exempt)
		for _, fn := range all {
			k := core.FuncKey(fn)
			root := k
			if i := strings.Index(k, "$"); i >= 0 {
				root = k[:i]
			}
			if sp.exempt[root] || exReg[fn] {
				continue
			}
			core.Instrs(fn, func(in ssa.Instruction) {
				fa, ok := in.(*ssa.FieldAddr)
				if !ok || core.FieldObj(fa.X, fa.Field) != sp.fld || fa.Referrers() == nil {
					return
				}
				for _, r := range *fa.Referrers() {
					ld, isLoad := r.(*ssa.UnOp)
					if !isLoad || ld.Referrers() == nil {
						continue
					}
					// follow the loaded reference through phis
					seen := map[ssa.Value]bool{}
					// visitElem follows an element taken out of the container (the published object
					// itself): request goroutines keep using such objects after the read lock is
					// released, so no lock makes a field store on them safe.
					var visitElem func(v ssa.Value)
					visitElem = func(v ssa.Value) {
						if seen[v] || v.Referrers() == nil {
							return
						}
						seen[v] = true
						nElemFollowed++
						for _, u := range *v.Referrers() {
							switch x := u.(type) {
							case *ssa.Extract, *ssa.TypeAssert, *ssa.Phi, *ssa.ChangeInterface, *ssa.ChangeType:
								visitElem(x.(ssa.Value))
							case *ssa.FieldAddr:
								if x.X != v || x.Referrers() == nil {
									continue
								}
								for _, rr := range *x.Referrers() {
									if st, isSt := rr.(*ssa.Store); isSt && st.Addr == x {
										nElem++
										fv := core.FieldObj(x.X, x.Field)
										fname := "?"
										if fv != nil {
											fname = fv.Name()
										}
										c.Check("published-immutable", fmt.Sprintf("%s:%s:%s", k, sp.fld.Name(), fname), st.Pos(), false,
											fmt.Sprintf("field %s of an object taken out of the published container %s is written in place; goroutines that fetched the object before the reload keep using it without any lock, so they observe the new generation's setting mid-request (build a new object and swap it in instead)", fname, sp.fld.Name()))
									}
								}
							}
						}
					}
					var visit func(v ssa.Value)
					visit = func(v ssa.Value) {
						if seen[v] || v.Referrers() == nil {
							return
						}
						seen[v] = true
						for _, u := range *v.Referrers() {
							mut := ""
							switch x := u.(type) {
							case *ssa.Phi:
								visit(x)
							case *ssa.MapUpdate:
								if x.Map == v {
									mut = "map store"
								}
							case *ssa.Call:
								if b, isB := x.Call.Value.(*ssa.Builtin); isB && b.Name() == "delete" && len(x.Call.Args) > 0 && x.Call.Args[0] == v {
									mut = "delete"
								}
							case *ssa.IndexAddr:
								if x.X == v && x.Referrers() != nil {
									for _, rr := range *x.Referrers() {
										if st, isSt := rr.(*ssa.Store); isSt && st.Addr == x {
											mut = "element store"
										}
										if eld, isLd := rr.(*ssa.UnOp); isLd && eld.Op == token.MUL {
											visitElem(eld)
										}
									}
								}
							case *ssa.Lookup:
								if x.X == v {
									visitElem(x)
								}
							case *ssa.Range:
								if x.X == v && x.Referrers() != nil {
									for _, nx := range *x.Referrers() {
										if n, isN := nx.(*ssa.Next); isN {
											visitElem(n)
										}
									}
								}
							}
							if mut == "" {
								continue
							}
							nAlias++
							ord[k+sp.fld.Name()+"alias"]++
							c.Check("guarded-mutation", fmt.Sprintf("%s:%s:%s#%d", k, sp.fld.Name(), strings.ReplaceAll(mut, " ", "-"), ord[k+sp.fld.Name()+"alias"]), u.Pos(), pl.HeldT(u, sp.lock, "W"),
								fmt.Sprintf("%s on the container read from %s happens without %s held in write mode (held: %v): readers use references to this container after releasing the read lock, so mutating it in place - also through a local alias taken under the lock - races with them", mut, sp.fld.Name(), sp.lock, pl.AllHeld(u)))
						}
					}
					visit(ld)
				}
			})
		}
	}
	if nElemFollowed < 20 {
		c.Check("published-immutable", "sites", token.NoPos, false, fmt.Sprintf("only %d element values taken out of guarded containers were followed; at least 20 were reviewed", nElemFollowed))
	}
	c.Note("published-immutable: %d element values followed", nElemFollowed)
	c.Note("published-immutable: %d in-place field stores on objects taken from guarded containers", nElem)
	if nAlias < 1 {
		c.Check("guarded-mutation", "sites", token.NoPos, false, "no in-place mutation of a guarded container found at all (BalTableReload deletes carried-over balancers from the old table under the lock)")
	}
	// ---- (b) single snapshot --------------------------------------------------------------------------
	allowedGetters := map[string]string{
		srv + ".conn.readRequest":          "request construction: takes the snapshot stored in the request",
		srv + ".ProtocolHandler.ServeHTTP": "request construction for h2/spdy streams",
		srv + ".newConn":                   "connection set-up (product by vip)",
		srv + ".BfeServer.FindProduct":     "TLS-proxy helper, one lookup",
		srv + ".BfeServer.Balance":         "TLS-proxy helper: takes one snapshot and passes it to the pseudo request",
		srv + ".BfeServer.GetCheckConf":    "health-check thresholds are read live by design",
	}
	// A private helper of the reviewed entry functions (unexported, never used as a value, every
	// call site inside the reviewed set or another such helper) is part of them: its callers are
	// still exactly the reviewed functions. The obligation is keyed by the function that
	// contains the call.
	getterKeys := map[string]bool{}
	for k := range allowedGetters {
		getterKeys[k] = true
	}
	getterRegion := regionOfKeys(getterKeys)
	isGetConf := func(in ssa.Instruction) bool {
		ci, ok := in.(ssa.CallInstruction)
		return ok && core.CallIs(ci.Common(), srv+".BfeServer.GetServerConf")
	}
	var got []string
	for _, f := range all {
		if n := len(core.Calls(f, srv+".BfeServer.GetServerConf")); n > 0 {
			k := core.FuncKey(f)
			got = append(got, k)
			_, ok := allowedGetters[k]
			ok = ok || getterRegion[f]
			c.Check("snapshot", "GetServerConf<-"+k, f.Pos(), ok, k+" reads the live server conf; per-request code must use the snapshot taken when the request was created (req.SvrDataConf), otherwise one request can mix two config generations")
		}
	}
	// no reviewed entry function takes the live conf twice on one path (directly or through the
	// helpers it calls): two call sites on exclusive branches are one snapshot per execution
	for k := range allowedGetters {
		f := byKey[k]
		if f == nil {
			continue
		}
		reg := ix.regionList(f)
		// members of the region that (transitively, inside the region) call GetServerConf
		gets := map[*ssa.Function]bool{}
		for changed := true; changed; {
			changed = false
			for _, g := range reg {
				if gets[g] {
					continue
				}
				core.Instrs(g, func(in ssa.Instruction) {
					if ci, isCall := in.(ssa.CallInstruction); isCall && !gets[g] && (isGetConf(in) || gets[ci.Common().StaticCallee()]) {
						gets[g] = true
						changed = true
					}
				})
			}
		}
		mayGet := func(in ssa.Instruction) bool {
			ci, isCall := in.(ssa.CallInstruction)
			return isCall && (isGetConf(in) || gets[ci.Common().StaticCallee()])
		}
		for _, g := range reg {
			twice := false
			core.Instrs(g, func(a ssa.Instruction) {
				if !twice && mayGet(a) && core.ReachAvoiding(g, a, nil, mayGet) != nil {
					twice = true
				}
			})
			if twice {
				c.Check("snapshot", "GetServerConf-twice<-"+core.FuncKey(g), g.Pos(), false, core.FuncKey(g)+" takes the live server conf more than once on one path")
			}
		}
	}
	sort.Strings(got)
	c.Min("snapshot", 6)
	rawAllowed := map[string]bool{
		srv + ".BfeServer.GetServerConf": true, srv + ".BfeServer.InitDataLoad": true, srv + ".BfeServer.serverDataConfReload": true, srv + ".BfeServer.gslbDataConfReload": true,
		srv + ".BfeServer.HostTableStatusGet": true, srv + ".BfeServer.HostTableVersionGet": true, srv + ".BfeServer.ClusterTableVersionGet": true,
	}
	rawRegion := regionOfKeys(rawAllowed)
	for _, in := range core.FieldReads(all, confFld) {
		k := core.FuncKey(in.Parent())
		c.Check("snapshot-raw", k, in.Pos(), rawAllowed[k] || rawRegion[in.Parent()], k+" reads BfeServer.ServerConf directly; only the accessor, the reload functions, the monitor handlers and their private helpers are reviewed")
	}
	// reachability from the request path
	for _, rootName := range []string{"ReverseProxy.ServeHTTP", "ReverseProxy.FinishReq"} {
		root := c.P.Func(srv, rootName)
		if root == nil {
			c.Missing(srv + "." + rootName)
			continue
		}
		reach := core.TransitiveCallees(root, 12)
		n := 0
		for _, f := range reach {
			if core.FuncPkgRel(f) == "" {
				continue
			}
			n++
			k := core.FuncKey(f)
			bad := ""
			if len(core.Calls(f, srv+".BfeServer.GetServerConf")) > 0 {
				bad = "calls GetServerConf"
			}
			for _, in := range core.FieldReads([]*ssa.Function{f}, confFld) {
				_ = in
				bad = "reads BfeServer.ServerConf"
			}
			if bad != "" {
				c.Check("snapshot-reach", rootName+"->"+k, f.Pos(), false, k+" is reachable from "+rootName+" and "+bad+": the request would observe a config generation other than its own snapshot")
			}
		}
		minReach := map[string]int{"ReverseProxy.ServeHTTP": 20, "ReverseProxy.FinishReq": 3}[rootName]
		c.Check("snapshot-reach", rootName, root.Pos(), n > minReach, fmt.Sprintf("%d module functions reachable from %s were inspected", n, rootName))
	}
	// routing reads the request's snapshot: every host/cluster table lookup of findProduct /
	// findCluster (and of their private helpers) is made on a table obtained from the
	// SvrDataConf field of a request (value flow, not the spelling of the receiver)
	snapFld, _ := c.P.Obj("bfe_basic", "Request.SvrDataConf").(*types.Var)
	if snapFld == nil {
		c.Missing("bfe_basic.Request.SvrDataConf")
	}
	for _, fname := range []string{"BfeServer.findProduct", "BfeServer.findCluster"} {
		fn := c.P.Func(srv, fname)
		if fn == nil {
			c.Missing(srv + "." + fname)
			continue
		}
		c.Analysed(core.FuncKey(fn))
		n := 0
		for _, g := range ix.regionList(fn) {
			for _, ci := range core.AllCalls(g) {
				k := core.CalleeKey(ci.Common())
				if !strings.HasPrefix(k, "bfe_route.HostTable.") && !strings.HasPrefix(k, "bfe_route.ClusterTable.") {
					continue
				}
				n++
				recv := core.Render(ci.Common().Args[0])
				ok := snapFld != nil && ix.derivesFromField(ci.Common().Args[0], snapFld, 0, map[ssa.Value]bool{})
				c.Check("snapshot-use", fmt.Sprintf("%s:%s", fname, k), ci.Pos(), ok, fname+" looks up "+k+" on "+recv+", not on the request's own snapshot req.SvrDataConf")
			}
		}
		if n == 0 {
			c.Check("snapshot-use", fname, fn.Pos(), false, "no table lookup found in "+fname)
		}
	}
	// ---- (c) swap value ----------------------------------------------------------------------------------
	for _, st := range core.FieldStores(all, confFld) {
		k := core.FuncKey(st.Fn)
		// the stored value is result 0 of LoadServerDataConf, seen on the err == nil path of that
		// call; when the store sits in a private helper the value is followed through the
		// helper's parameter to every call site
		ok := swapValueOK(ix, st.Store.Val, st.Store.Block(), 3)
		c.Check("swap-value", k, st.Store.Pos(), ok, "the value published as ServerConf must be exactly the result of LoadServerDataConf on its err == nil path (fully built and cross-checked before the swap); stores: "+core.Render(st.Store.Val))
	}
	c.Min("swap-value", 2)
	// stores through the published pointer (srv.ServerConf.X = …) would mutate the live snapshot
	for _, fn := range all {
		core.Instrs(fn, func(in ssa.Instruction) {
			st, ok := in.(*ssa.Store)
			if !ok {
				return
			}
			fa, ok := st.Addr.(*ssa.FieldAddr)
			if !ok {
				return
			}
			if strings.HasSuffix(core.TypeStr(fa.X.Type()), "bfe_route.ServerDataConf") && core.FuncPkgRel(fn) != "bfe_route" {
				c.Check("swap-value", core.FuncKey(fn)+":in-place", in.Pos(), false, "a field of a ServerDataConf is assigned outside bfe_route: the published snapshot must be immutable")
			}
		})
	}
}

// recvCallees returns fn followed by the methods of the same receiver type (same package,
// with a body) that fn calls statically on its own receiver, transitively up to depth: what
// such a method does to the receiver's fields is done by fn. Helper extraction from / inlining
// into Update therefore does not change what the rules about Update see.
func recvCallees(fn *ssa.Function, depth int) []*ssa.Function {
	out := []*ssa.Function{fn}
	if fn == nil || fn.Signature.Recv() == nil || len(fn.Params) == 0 {
		return out
	}
	rt := fn.Signature.Recv().Type()
	seen := map[*ssa.Function]bool{fn: true}
	frontier := []*ssa.Function{fn}
	for d := 0; d < depth; d++ {
		var next []*ssa.Function
		for _, f := range frontier {
			core.Instrs(f, func(in ssa.Instruction) {
				ci, ok := in.(ssa.CallInstruction)
				if !ok {
					return
				}
				if _, isGo := in.(*ssa.Go); isGo {
					return
				}
				h := ci.Common().StaticCallee()
				if h == nil || seen[h] || h.Blocks == nil || h.Signature.Recv() == nil || len(h.Params) == 0 || h.Pkg != fn.Pkg {
					return
				}
				if !types.Identical(h.Signature.Recv().Type(), rt) || len(ci.Common().Args) == 0 || ci.Common().Args[0] != ssa.Value(f.Params[0]) {
					return
				}
				seen[h] = true
				out = append(out, h)
				next = append(next, h)
			})
		}
		frontier = next
	}
	return out
}

// tableFieldStore: in is a store through the enclosing method's receiver into a field of the
// table struct st other than its lock -> that field.
func tableFieldStore(in ssa.Instruction, st *types.Struct, lockField *types.Var) *types.Var {
	s, ok := in.(*ssa.Store)
	if !ok {
		return nil
	}
	fa, ok := s.Addr.(*ssa.FieldAddr)
	if !ok {
		return nil
	}
	pr, isParam := fa.X.(*ssa.Parameter)
	if !isParam || len(pr.Parent().Params) == 0 || pr.Parent().Params[0] != pr || pr.Parent().Signature.Recv() == nil {
		return nil
	}
	fv := core.FieldObj(fa.X, fa.Field)
	if fv == nil || fv == lockField {
		return nil
	}
	for i := 0; i < st.NumFields(); i++ {
		if st.Field(i) == fv {
			return fv
		}
	}
	return nil
}

type tableProblem struct {
	key, msg string
	pos      token.Pos
}

// tableUpdateProblems: a reloadable table's Update must swap in the new generation as a whole:
// every map/slice field of the table is overwritten by Update (not merged into), and the old
// container is not mutated in place (readers hold references to it after releasing the lock, and
// entries dropped from the new file would survive the reload). Update means Update and the
// methods it calls on its own receiver (recvCallees).
func tableUpdateProblems(ufn *ssa.Function, st *types.Struct, lockField *types.Var) []tableProblem {
	var out []tableProblem
	if len(ufn.Params) == 0 {
		return out
	}
	stored := map[*types.Var]bool{}
	for _, g := range recvCallees(ufn, 2) {
		recv := g.Params[0]
		core.Instrs(g, func(in ssa.Instruction) {
			switch x := in.(type) {
			case *ssa.Store:
				if fa, ok := x.Addr.(*ssa.FieldAddr); ok && fa.X == ssa.Value(recv) {
					if fv := core.FieldObj(fa.X, fa.Field); fv != nil {
						stored[fv] = true
						// the stored value must not be the old container itself
						if fv2 := recvFieldLoad(x.Val, recv); fv2 == fv {
							out = append(out, tableProblem{fv.Name() + ":self-store", "stores the old value of " + fv.Name() + " back instead of the new generation", x.Pos()})
						}
					}
				}
			case *ssa.MapUpdate:
				if fv := recvFieldLoad(x.Map, recv); fv != nil {
					out = append(out, tableProblem{fv.Name() + ":merge", "writes entries into the existing " + fv.Name() + " map instead of replacing it: entries that the new file no longer contains survive the reload, and readers holding the old map see it change", x.Pos()})
				}
			case *ssa.Call:
				if b, ok := x.Call.Value.(*ssa.Builtin); ok && b.Name() == "delete" && len(x.Call.Args) > 0 {
					if fv := recvFieldLoad(x.Call.Args[0], recv); fv != nil {
						out = append(out, tableProblem{fv.Name() + ":delete", "deletes from the existing " + fv.Name() + " map in place", x.Pos()})
					}
				}
			}
		})
	}
	for i := 0; i < st.NumFields(); i++ {
		f := st.Field(i)
		if f == lockField {
			continue
		}
		switch f.Type().Underlying().(type) {
		case *types.Map, *types.Slice:
			if !stored[f] {
				out = append(out, tableProblem{f.Name() + ":not-replaced", "never overwrites the container field " + f.Name() + ": the previous generation's entries stay in force after a reload", ufn.Pos()})
			}
		}
	}
	return out
}

// recvFieldLoad: v is a load of a field of recv (possibly through a phi whose edges all load
// the same field: a named intermediate assigned in both branches) -> that field.
func recvFieldLoad(v ssa.Value, recv *ssa.Parameter) *types.Var {
	v = core.StripConv(v)
	if phi, ok := v.(*ssa.Phi); ok {
		var f *types.Var
		for i, e := range phi.Edges {
			if _, isPhi := core.StripConv(e).(*ssa.Phi); isPhi {
				return nil
			}
			g := recvFieldLoad(e, recv)
			if g == nil || (i > 0 && g != f) {
				return nil
			}
			f = g
		}
		return f
	}
	ld, ok := v.(*ssa.UnOp)
	if !ok || ld.Op != token.MUL {
		return nil
	}
	fa, ok := ld.X.(*ssa.FieldAddr)
	if !ok || fa.X != ssa.Value(recv) {
		return nil
	}
	return core.FieldObj(fa.X, fa.Field)
}

// swapValueOK: v, used in block b, is result 0 of a call of bfe_route.LoadServerDataConf whose
// error result is known to be nil at b (any spelling of the test: `err != nil { return }`,
// `if err == nil { ... }`, `nil == err`). A parameter of a private helper is followed to the
// argument at each of its call sites (the guard is then looked for at the call site).
func swapValueOK(ix *confIdx, v ssa.Value, b *ssa.BasicBlock, depth int) bool {
	v = core.StripConv(v)
	switch t := v.(type) {
	case *ssa.Extract:
		call, isCall := t.Tuple.(*ssa.Call)
		if !isCall || t.Index != 0 || !core.CallIs(&call.Call, "bfe_route.LoadServerDataConf") {
			return false
		}
		isErr := func(e ssa.Value) bool {
			x, isE := e.(*ssa.Extract)
			return isE && x.Tuple == ssa.Value(call) && x.Index == 1
		}
		return core.HasGuard(b, func(g core.Guard) bool { return g.CmpIs(token.EQL, isErr, isNilConst) })
	case *ssa.Parameter:
		if depth <= 0 {
			return false
		}
		args, blocks, ok := ix.argsFor(t)
		if !ok || len(args) == 0 {
			return false
		}
		for i, a := range args {
			if !swapValueOK(ix, a, blocks[i], depth-1) {
				return false
			}
		}
		return true
	case *ssa.Phi:
		if depth <= 0 {
			return false
		}
		for _, e := range t.Edges {
			if !swapValueOK(ix, e, b, depth-1) {
				return false
			}
		}
		return len(t.Edges) > 0
	}
	return false
}
