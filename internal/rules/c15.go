package rules

import (
	"fmt"
	"go/token"
	"go/types"
	"sort"
	"strings"

	"golang.org/x/tools/go/ssa"

	"verif/internal/core"
)

// C15 — hot reload is atomic and race-free.
func init() {
	Register(&Rule{
		ID: "C15", Section: "4 C15",
		Technique: "guarded-by lock-set analysis (type-based lock identity, held-on-entry fixpoint) over the reloadable tables, who-may-call census and call-graph reachability for the single-snapshot rule, value-flow of the published snapshot",
		Meta: core.Meta{
			Level:       "other",
			Explanation: "Decides: (a) guarded-by — BfeServer.ServerConf is read and written only under BfeServer.confLock (start-up InitDataLoad, reachable only from StartUp, exempt), ReverseProxy.transports only under tsMu, and in every module rule table (structs of bfe_modules/* with one mutex field and an Update method; count asserted) the fields Update replaces are accessed only under that table's lock; (b) single snapshot — GetServerConf and raw reads of ServerConf occur only in the reviewed set of entry functions (request construction, protocol handler, connection set-up, TLS-proxy helpers, health-check conf fetcher, reload and monitor handlers), none of them is reachable through static calls from ReverseProxy.ServeHTTP or FinishReq, and the routing steps findProduct/findCluster read the tables of req.SvrDataConf; (c) swap — the value stored into ServerConf is the result of LoadServerDataConf (fully built and checked before the locked store), each module table's Update replaces its fields inside one critical section, and code after the swap uses the local snapshot. Not covered: races through aliases (a table's inner maps mutated in place elsewhere), TLS reload internals, module filters reaching server state through closures (function values stored in container/list are not followed).",
			RuleText:    "obligations = each access to a guarded field, each caller/raw reader of the server conf, each function reachable from the request path, each module table Update",
			Assumptions: []string{"lock instances are identified by their containing type"},
		},
		Run: runC15,
		Mutants: []Mutant{
			{Name: "unlocked-conf-read-after-swap", File: "bfe_server/bfe_confdata_load.go", Old: "	srv.ReverseProxy.setTransports(newServerConf.ClusterTable.ClusterMap())", New: "	srv.ReverseProxy.setTransports(srv.ServerConf.ClusterTable.ClusterMap())", Expect: "guarded-by"},
			{Name: "findcluster-reads-live-conf", File: "bfe_server/find_location.go", Old: "	serverConf := req.SvrDataConf.(*bfe_route.ServerDataConf)\n\n	// look up clusterName", New: "	serverConf := srv.GetServerConf()\n\n	// look up clusterName", Expect: "snapshot"},
			{Name: "module-table-unlocked-search", File: "bfe_modules/mod_block/product_rule_table.go", Old: "	t.lock.RLock()\n	productRules := t.productRules\n	t.lock.RUnlock()\n", New: "	productRules := t.productRules\n", Expect: "guarded-by"},
			{Name: "module-table-split-update", File: "bfe_modules/mod_block/product_rule_table.go", Old: "	t.lock.Lock()\n	t.version = conf.Version\n	t.productRules = conf.Config\n	t.lock.Unlock()", New: "	t.lock.Lock()\n	t.version = conf.Version\n	t.lock.Unlock()\n	t.lock.Lock()\n	t.productRules = conf.Config\n	t.lock.Unlock()", Expect: "update-atomic"},
			{Name: "transport-timeout-in-place-2", File: "bfe_server/reverseproxy.go", Old: "			newTransports[cluster] = transport\n		default:", New: "			t.ResponseHeaderTimeout = time.Millisecond * time.Duration(*backendConf.TimeoutResponseHeader)\n			newTransports[cluster] = transport\n		default:", Expect: "published-immutable"},
			{Name: "tls-default-rule-after-unlock", File: "bfe_server/tls_server_rule.go", Old: "	m.lock.RLock()\n	defer m.lock.RUnlock()\n\n	// get tls rule conf by vip\n	if rule := m.getRuleByVip(c); rule != nil {\n		return rule\n	}\n\n	// get tls rule conf by sni (supported by modern browser)\n	if rule := m.getRuleBySni(c); rule != nil {\n		return rule\n	}\n", New: "	m.lock.RLock()\n	if rule := m.getRuleByVip(c); rule != nil {\n		m.lock.RUnlock()\n		return rule\n	}\n	if rule := m.getRuleBySni(c); rule != nil {\n		m.lock.RUnlock()\n		return rule\n	}\n	m.lock.RUnlock()\n", Expect: "guarded-by"},
			{Name: "module-table-merged-on-reload", File: "bfe_modules/mod_redirect/redirect_table.go", Old: "	t.productRules = conf.Config\n", New: "	for k, v := range conf.Config {\n		t.productRules[k] = v\n	}\n", Expect: "update-replaces"},
			{Name: "transports-unlocked", File: "bfe_server/reverseproxy.go", Old: "	p.tsMu.RLock()\n	transport, ok := p.transports[cluster.Name]\n	p.tsMu.RUnlock()", New: "	transport, ok := p.transports[cluster.Name]", Expect: "guarded-by"},
			{Name: "reload-mutates-snapshot-alias", File: "bfe_balance/bal_table.go", Old: "	t.lock.Lock()\n\n	var fails []string\n	bmNew := make(BalMap)\n	for clusterName, gslbConf := range *gslbConfs.Clusters {\n		bal, ok := t.balTable[clusterName]\n		if !ok {\n			// new one balance\n			bal = bal_gslb.NewBalanceGslb(clusterName)\n		} else {\n			delete(t.balTable, clusterName)\n		}", New: "	t.lock.RLock()\n	bmOld := t.balTable\n	t.lock.RUnlock()\n	t.lock.Lock()\n	t.lock.Unlock()\n\n	var fails []string\n	bmNew := make(BalMap)\n	for clusterName, gslbConf := range *gslbConfs.Clusters {\n		bal, ok := bmOld[clusterName]\n		if !ok {\n			// new one balance\n			bal = bal_gslb.NewBalanceGslb(clusterName)\n		} else {\n			delete(bmOld, clusterName)\n		}\n		t.lock.Lock()", Expect: "guarded-mutation"},
			{Name: "swap-unchecked-conf", File: "bfe_server/bfe_confdata_load.go", Old: "	srv.confLock.Lock()\n	srv.ServerConf = newServerConf\n	srv.confLock.Unlock()\n", New: "	srv.confLock.Lock()\n	srv.ServerConf = &bfe_route.ServerDataConf{HostTable: newServerConf.HostTable}\n	srv.ServerConf.ClusterTable = newServerConf.ClusterTable\n	srv.confLock.Unlock()\n", Expect: "swap-value"},
		},
	})
}

func runC15(c *core.Ctx) {
	const srv = "bfe_server"
	if c.P.Pkg(srv) == nil {
		c.Missing(srv)
		return
	}
	pl := core.WholeProgramLocks(c.P)
	all := c.P.SrcFuncs("")
	confFld, ok1 := c.P.Obj(srv, "BfeServer.ServerConf").(*types.Var)
	trFld, ok2 := c.P.Obj(srv, "ReverseProxy.transports").(*types.Var)
	if !ok1 || !ok2 {
		c.Missing(srv + ".BfeServer.ServerConf / ReverseProxy.transports")
		return
	}
	type guardSpec struct {
		fld    *types.Var
		lock   string
		exempt map[string]bool
	}
	specs := []guardSpec{
		{confFld, srv + ".BfeServer.confLock", map[string]bool{srv + ".BfeServer.InitDataLoad": true}},
		{trFld, srv + ".ReverseProxy.tsMu", map[string]bool{srv + ".NewReverseProxy": true}},
	}
	for _, fname := range []string{"balTable", "versions"} {
		if fv, ok := c.P.Obj("bfe_balance", "BalTable."+fname).(*types.Var); ok {
			specs = append(specs, guardSpec{fv, "bfe_balance.BalTable.lock", map[string]bool{"bfe_balance.NewBalTable": true, "bfe_balance.BalTable.gslbInit": true, "bfe_balance.BalTable.backendInit": true}})
		} else {
			c.Missing("bfe_balance.BalTable." + fname)
		}
	}
	// start-up exemption is valid only while InitDataLoad is called from StartUp alone
	{
		var callers []string
		for _, f := range all {
			if len(core.Calls(f, srv+".BfeServer.InitDataLoad")) > 0 {
				callers = append(callers, core.FuncKey(f))
			}
		}
		c.Check("startup-only", "BfeServer.InitDataLoad", token.NoPos, len(callers) == 1 && callers[0] == srv+".StartUp", fmt.Sprintf("InitDataLoad writes ServerConf without confLock and is exempt only as a start-up step; callers: %v", callers))
	}
	// ---- module rule tables by shape ---------------------------------------------------------
	nTables := 0
	for _, pk := range c.P.Pkgs {
		rel := strings.TrimPrefix(pk.PkgPath, core.ModPath+"/")
		if rel == pk.PkgPath || strings.HasSuffix(rel, "_test") {
			continue
		}
		if strings.HasPrefix(rel, "bfe_balance/") {
			continue // balancer state nests under BalanceGslb.lock; its lock discipline is C05's subject
		}
		scope := pk.Types.Scope()
		for _, name := range scope.Names() {
			tn, ok := scope.Lookup(name).(*types.TypeName)
			if !ok {
				continue
			}
			st, ok := tn.Type().Underlying().(*types.Struct)
			if !ok {
				continue
			}
			var lockField *types.Var
			nLocks := 0
			for i := 0; i < st.NumFields(); i++ {
				ts := st.Field(i).Type().String()
				if ts == "sync.RWMutex" || ts == "sync.Mutex" {
					lockField = st.Field(i)
					nLocks++
				}
			}
			upd, _, _ := types.LookupFieldOrMethod(types.NewPointer(tn.Type()), true, pk.Types, "Update")
			updFn, isFn := upd.(*types.Func)
			if nLocks != 1 || !isFn {
				continue
			}
			ufn := c.P.SSA.FuncValue(updFn)
			if ufn == nil || ufn.Blocks == nil {
				continue
			}
			nTables++
			lock := rel + "." + name + "." + lockField.Name()
			c.Analysed(core.FuncKey(ufn))
			// fields replaced by Update
			var replaced []*types.Var
			ls := core.ComputeLockSetsT(ufn)
			sections := map[string]bool{}
			core.Instrs(ufn, func(in ssa.Instruction) {
				s, ok := in.(*ssa.Store)
				if !ok {
					return
				}
				fa, ok := s.Addr.(*ssa.FieldAddr)
				if !ok {
					return
				}
				fv := core.FieldObj(fa.X, fa.Field)
				if fv == nil || fv == lockField {
					return
				}
				if _, isParam := fa.X.(*ssa.Parameter); !isParam {
					return
				}
				replaced = append(replaced, fv)
				// critical-section identity: the Lock call that dominates this store most closely
				var sec string
				core.Instrs(ufn, func(x ssa.Instruction) {
					if call, ok := x.(*ssa.Call); ok {
						if k, l, ok := core.LockEventT(&call.Call); ok && k == "Lock" && l == lock && core.Dominates(call, in) {
							sec = c.P.Pos(call.Pos())
						}
					}
				})
				if !ls.Holds(in, lock, "W") {
					sec = "unlocked"
				}
				sections[sec] = true
			})
			c.Check("update-atomic", rel+"."+name+".Update", ufn.Pos(), len(replaced) > 0 && len(sections) == 1 && !sections["unlocked"] && !sections[""],
				fmt.Sprintf("%s.Update must replace its fields inside one critical section of %s (stores: %d, distinct sections: %d); a reader between two sections sees the new version with the old rules", name, lock, len(replaced), len(sections)))
			for _, prob := range tableUpdateProblems(ufn, st, lockField) {
				c.Check("update-replaces", rel+"."+name+".Update:"+prob.key, prob.pos, false, name+".Update "+prob.msg)
			}
			c.Check("update-replaces", rel+"."+name+".Update", ufn.Pos(), true, "")
			for _, fv := range replaced {
				specs = append(specs, guardSpec{fv, lock, map[string]bool{rel + ".New" + name: true, rel + ".new" + name: true, rel + ".New" + strings.Title(name): true}})
			}
		}
	}
	if nTables < 18 {
		c.Check("instances", "module-tables", token.NoPos, false, fmt.Sprintf("found %d lock-carrying module tables with an Update method; 18 were reviewed", nTables))
	}
	c.Note("%d module rule tables found by shape", nTables)
	// ---- (a) guarded-by -----------------------------------------------------------------------------
	ord := map[string]int{}
	for _, sp := range specs {
		for _, fn := range all {
			k := core.FuncKey(fn)
			root := k
			if i := strings.Index(k, "$"); i >= 0 {
				root = k[:i]
			}
			if sp.exempt[root] || strings.HasSuffix(root, ".New"+strings.TrimPrefix(sp.fld.Pkg().Name(), "")) {
				continue
			}
			core.Instrs(fn, func(in ssa.Instruction) {
				fa, ok := in.(*ssa.FieldAddr)
				if !ok || core.FieldObj(fa.X, fa.Field) != sp.fld {
					return
				}
				if al, isAl := fa.X.(*ssa.Alloc); isAl && al.Heap {
					return // freshly allocated, unpublished
				}
				write := false
				for _, r := range *fa.Referrers() {
					if st, isSt := r.(*ssa.Store); isSt && st.Addr == fa {
						write = true
					}
				}
				mode := "R"
				if write {
					mode = "W"
				}
				c.Analysed(k)
				ord[k+sp.fld.Name()+mode]++
				c.Check("guarded-by", fmt.Sprintf("%s:%s:%s#%d", k, sp.fld.Name(), mode, ord[k+sp.fld.Name()+mode]), in.Pos(), pl.HeldT(in, sp.lock, mode),
					fmt.Sprintf("%s is accessed (%s) without %s held (held: %v); a concurrent reload writes it", sp.fld.Name(), mode, sp.lock, pl.AllHeld(in)))
			})
		}
	}
	c.Min("guarded-by", 60)
	// ---- (a') no in-place mutation of a guarded container through an escaped reference -----------
	// Readers copy the map/slice reference under the read lock and use it after unlocking
	// (snapshot idiom); that is only race-free if a published container is never mutated in
	// place without the write lock - also not through a local alias taken earlier.
	nAlias := 0
	nElem := 0
	nElemFollowed := 0
	for _, sp := range specs {
		switch sp.fld.Type().Underlying().(type) {
		case *types.Map, *types.Slice:
		default:
			continue
		}
		for _, fn := range all {
			k := core.FuncKey(fn)
			root := k
			if i := strings.Index(k, "$"); i >= 0 {
				root = k[:i]
			}
			if sp.exempt[root] {
				continue
			}
			core.Instrs(fn, func(in ssa.Instruction) {
				fa, ok := in.(*ssa.FieldAddr)
				if !ok || core.FieldObj(fa.X, fa.Field) != sp.fld || fa.Referrers() == nil {
					return
				}
				for _, r := range *fa.Referrers() {
					ld, isLoad := r.(*ssa.UnOp)
					if !isLoad || ld.Referrers() == nil {
						continue
					}
					// follow the loaded reference through phis
					seen := map[ssa.Value]bool{}
					// visitElem follows an element taken out of the container (the published object
					// itself): request goroutines keep using such objects after the read lock is
					// released, so no lock makes a field store on them safe.
					var visitElem func(v ssa.Value)
					visitElem = func(v ssa.Value) {
						if seen[v] || v.Referrers() == nil {
							return
						}
						seen[v] = true
						nElemFollowed++
						for _, u := range *v.Referrers() {
							switch x := u.(type) {
							case *ssa.Extract, *ssa.TypeAssert, *ssa.Phi, *ssa.ChangeInterface, *ssa.ChangeType:
								visitElem(x.(ssa.Value))
							case *ssa.FieldAddr:
								if x.X != v || x.Referrers() == nil {
									continue
								}
								for _, rr := range *x.Referrers() {
									if st, isSt := rr.(*ssa.Store); isSt && st.Addr == x {
										nElem++
										fv := core.FieldObj(x.X, x.Field)
										fname := "?"
										if fv != nil {
											fname = fv.Name()
										}
										c.Check("published-immutable", fmt.Sprintf("%s:%s:%s", k, sp.fld.Name(), fname), st.Pos(), false,
											fmt.Sprintf("field %s of an object taken out of the published container %s is written in place; goroutines that fetched the object before the reload keep using it without any lock, so they observe the new generation's setting mid-request (build a new object and swap it in instead)", fname, sp.fld.Name()))
									}
								}
							}
						}
					}
					var visit func(v ssa.Value)
					visit = func(v ssa.Value) {
						if seen[v] || v.Referrers() == nil {
							return
						}
						seen[v] = true
						for _, u := range *v.Referrers() {
							mut := ""
							switch x := u.(type) {
							case *ssa.Phi:
								visit(x)
							case *ssa.MapUpdate:
								if x.Map == v {
									mut = "map store"
								}
							case *ssa.Call:
								if b, isB := x.Call.Value.(*ssa.Builtin); isB && b.Name() == "delete" && len(x.Call.Args) > 0 && x.Call.Args[0] == v {
									mut = "delete"
								}
							case *ssa.IndexAddr:
								if x.X == v && x.Referrers() != nil {
									for _, rr := range *x.Referrers() {
										if st, isSt := rr.(*ssa.Store); isSt && st.Addr == x {
											mut = "element store"
										}
										if eld, isLd := rr.(*ssa.UnOp); isLd && eld.Op == token.MUL {
											visitElem(eld)
										}
									}
								}
							case *ssa.Lookup:
								if x.X == v {
									visitElem(x)
								}
							case *ssa.Range:
								if x.X == v && x.Referrers() != nil {
									for _, nx := range *x.Referrers() {
										if n, isN := nx.(*ssa.Next); isN {
											visitElem(n)
										}
									}
								}
							}
							if mut == "" {
								continue
							}
							nAlias++
							ord[k+sp.fld.Name()+"alias"]++
							c.Check("guarded-mutation", fmt.Sprintf("%s:%s:%s#%d", k, sp.fld.Name(), strings.ReplaceAll(mut, " ", "-"), ord[k+sp.fld.Name()+"alias"]), u.Pos(), pl.HeldT(u, sp.lock, "W"),
								fmt.Sprintf("%s on the container read from %s happens without %s held in write mode (held: %v): readers use references to this container after releasing the read lock, so mutating it in place - also through a local alias taken under the lock - races with them", mut, sp.fld.Name(), sp.lock, pl.AllHeld(u)))
						}
					}
					visit(ld)
				}
			})
		}
	}
	if nElemFollowed < 20 {
		c.Check("published-immutable", "sites", token.NoPos, false, fmt.Sprintf("only %d element values taken out of guarded containers were followed; at least 20 were reviewed", nElemFollowed))
	}
	c.Note("published-immutable: %d element values followed", nElemFollowed)
	c.Note("published-immutable: %d in-place field stores on objects taken from guarded containers", nElem)
	if nAlias < 1 {
		c.Check("guarded-mutation", "sites", token.NoPos, false, "no in-place mutation of a guarded container found at all (BalTableReload deletes carried-over balancers from the old table under the lock)")
	}
	// ---- (b) single snapshot --------------------------------------------------------------------------
	allowedGetters := map[string]string{
		srv + ".conn.readRequest":          "request construction: takes the snapshot stored in the request",
		srv + ".ProtocolHandler.ServeHTTP": "request construction for h2/spdy streams",
		srv + ".newConn":                   "connection set-up (product by vip)",
		srv + ".BfeServer.FindProduct":     "TLS-proxy helper, one lookup",
		srv + ".BfeServer.Balance":         "TLS-proxy helper: takes one snapshot and passes it to the pseudo request",
		srv + ".BfeServer.GetCheckConf":    "health-check thresholds are read live by design",
	}
	var got []string
	for _, f := range all {
		if n := len(core.Calls(f, srv+".BfeServer.GetServerConf")); n > 0 {
			k := core.FuncKey(f)
			got = append(got, k)
			_, ok := allowedGetters[k]
			c.Check("snapshot", "GetServerConf<-"+k, f.Pos(), ok, k+" reads the live server conf; per-request code must use the snapshot taken when the request was created (req.SvrDataConf), otherwise one request can mix two config generations")
			if n > 1 {
				c.Check("snapshot", "GetServerConf-twice<-"+k, f.Pos(), false, k+" takes the live server conf more than once")
			}
		}
	}
	sort.Strings(got)
	c.Min("snapshot", 6)
	rawAllowed := map[string]bool{
		srv + ".BfeServer.GetServerConf": true, srv + ".BfeServer.InitDataLoad": true, srv + ".BfeServer.serverDataConfReload": true, srv + ".BfeServer.gslbDataConfReload": true,
		srv + ".BfeServer.HostTableStatusGet": true, srv + ".BfeServer.HostTableVersionGet": true, srv + ".BfeServer.ClusterTableVersionGet": true,
	}
	for _, in := range core.FieldReads(all, confFld) {
		k := core.FuncKey(in.Parent())
		c.Check("snapshot-raw", k, in.Pos(), rawAllowed[k], k+" reads BfeServer.ServerConf directly; only the accessor, the reload functions and the monitor handlers are reviewed")
	}
	// reachability from the request path
	for _, rootName := range []string{"ReverseProxy.ServeHTTP", "ReverseProxy.FinishReq"} {
		root := c.P.Func(srv, rootName)
		if root == nil {
			c.Missing(srv + "." + rootName)
			continue
		}
		reach := core.TransitiveCallees(root, 12)
		n := 0
		for _, f := range reach {
			if core.FuncPkgRel(f) == "" {
				continue
			}
			n++
			k := core.FuncKey(f)
			bad := ""
			if len(core.Calls(f, srv+".BfeServer.GetServerConf")) > 0 {
				bad = "calls GetServerConf"
			}
			for _, in := range core.FieldReads([]*ssa.Function{f}, confFld) {
				_ = in
				bad = "reads BfeServer.ServerConf"
			}
			if bad != "" {
				c.Check("snapshot-reach", rootName+"->"+k, f.Pos(), false, k+" is reachable from "+rootName+" and "+bad+": the request would observe a config generation other than its own snapshot")
			}
		}
		minReach := map[string]int{"ReverseProxy.ServeHTTP": 20, "ReverseProxy.FinishReq": 3}[rootName]
		c.Check("snapshot-reach", rootName, root.Pos(), n > minReach, fmt.Sprintf("%d module functions reachable from %s were inspected", n, rootName))
	}
	// routing reads the request's snapshot
	for _, fname := range []string{"BfeServer.findProduct", "BfeServer.findCluster"} {
		fn := c.P.Func(srv, fname)
		if fn == nil {
			c.Missing(srv + "." + fname)
			continue
		}
		c.Analysed(core.FuncKey(fn))
		n := 0
		for _, ci := range core.AllCalls(fn) {
			k := core.CalleeKey(ci.Common())
			if !strings.HasPrefix(k, "bfe_route.HostTable.") && !strings.HasPrefix(k, "bfe_route.ClusterTable.") {
				continue
			}
			n++
			recv := core.Render(ci.Common().Args[0])
			c.Check("snapshot-use", fmt.Sprintf("%s:%s", fname, k), ci.Pos(), strings.Contains(recv, "req.SvrDataConf"), fname+" looks up "+k+" on "+recv+", not on the request's own snapshot req.SvrDataConf")
		}
		if n == 0 {
			c.Check("snapshot-use", fname, fn.Pos(), false, "no table lookup found in "+fname)
		}
	}
	// ---- (c) swap value ----------------------------------------------------------------------------------
	for _, st := range core.FieldStores(all, confFld) {
		k := core.FuncKey(st.Fn)
		ok := false
		if ex, isEx := core.StripConv(st.Store.Val).(*ssa.Extract); isEx && ex.Index == 0 {
			if call, isCall := ex.Tuple.(*ssa.Call); isCall && core.CallIs(&call.Call, "bfe_route.LoadServerDataConf") {
				// stored only on the err == nil path
				ok = core.HasGuard(st.Store.Block(), func(g core.Guard) bool {
					b, isB := g.Cond.(*ssa.BinOp)
					if !isB || !isNilConst(b.Y) {
						return false
					}
					e, isE := b.X.(*ssa.Extract)
					return isE && e.Tuple == ssa.Value(call) && e.Index == 1 && ((b.Op == token.NEQ && !g.Pol) || (b.Op == token.EQL && g.Pol))
				})
			}
		}
		c.Check("swap-value", k, st.Store.Pos(), ok, "the value published as ServerConf must be exactly the result of LoadServerDataConf on its err == nil path (fully built and cross-checked before the swap); stores: "+core.Render(st.Store.Val))
	}
	c.Min("swap-value", 2)
	// stores through the published pointer (srv.ServerConf.X = …) would mutate the live snapshot
	for _, fn := range all {
		core.Instrs(fn, func(in ssa.Instruction) {
			st, ok := in.(*ssa.Store)
			if !ok {
				return
			}
			fa, ok := st.Addr.(*ssa.FieldAddr)
			if !ok {
				return
			}
			if strings.HasSuffix(core.TypeStr(fa.X.Type()), "bfe_route.ServerDataConf") && core.FuncPkgRel(fn) != "bfe_route" {
				c.Check("swap-value", core.FuncKey(fn)+":in-place", in.Pos(), false, "a field of a ServerDataConf is assigned outside bfe_route: the published snapshot must be immutable")
			}
		})
	}
}

type tableProblem struct {
	key, msg string
	pos      token.Pos
}

// tableUpdateProblems: a reloadable table's Update must swap in the new generation as a whole:
// every map/slice field of the table is overwritten by Update (not merged into), and the old
// container is not mutated in place (readers hold references to it after releasing the lock, and
// entries dropped from the new file would survive the reload).
func tableUpdateProblems(ufn *ssa.Function, st *types.Struct, lockField *types.Var) []tableProblem {
	var out []tableProblem
	if len(ufn.Params) == 0 {
		return out
	}
	recv := ufn.Params[0]
	stored := map[*types.Var]bool{}
	core.Instrs(ufn, func(in ssa.Instruction) {
		switch x := in.(type) {
		case *ssa.Store:
			if fa, ok := x.Addr.(*ssa.FieldAddr); ok && fa.X == ssa.Value(recv) {
				if fv := core.FieldObj(fa.X, fa.Field); fv != nil {
					stored[fv] = true
					// the stored value must not be the old container itself
					if ld, isLd := core.StripConv(x.Val).(*ssa.UnOp); isLd && ld.Op == token.MUL {
						if fa2, isFA := ld.X.(*ssa.FieldAddr); isFA && fa2.X == ssa.Value(recv) && core.FieldObj(fa2.X, fa2.Field) == fv {
							out = append(out, tableProblem{fv.Name() + ":self-store", "stores the old value of " + fv.Name() + " back instead of the new generation", x.Pos()})
						}
					}
				}
			}
		case *ssa.MapUpdate:
			if fv := recvFieldLoad(x.Map, recv); fv != nil {
				out = append(out, tableProblem{fv.Name() + ":merge", "writes entries into the existing " + fv.Name() + " map instead of replacing it: entries that the new file no longer contains survive the reload, and readers holding the old map see it change", x.Pos()})
			}
		case *ssa.Call:
			if b, ok := x.Call.Value.(*ssa.Builtin); ok && b.Name() == "delete" && len(x.Call.Args) > 0 {
				if fv := recvFieldLoad(x.Call.Args[0], recv); fv != nil {
					out = append(out, tableProblem{fv.Name() + ":delete", "deletes from the existing " + fv.Name() + " map in place", x.Pos()})
				}
			}
		}
	})
	for i := 0; i < st.NumFields(); i++ {
		f := st.Field(i)
		if f == lockField {
			continue
		}
		switch f.Type().Underlying().(type) {
		case *types.Map, *types.Slice:
			if !stored[f] {
				out = append(out, tableProblem{f.Name() + ":not-replaced", "never overwrites the container field " + f.Name() + ": the previous generation's entries stay in force after a reload", ufn.Pos()})
			}
		}
	}
	return out
}

// recvFieldLoad: v is (a phi-free) load of a field of recv -> that field.
func recvFieldLoad(v ssa.Value, recv *ssa.Parameter) *types.Var {
	ld, ok := core.StripConv(v).(*ssa.UnOp)
	if !ok || ld.Op != token.MUL {
		return nil
	}
	fa, ok := ld.X.(*ssa.FieldAddr)
	if !ok || fa.X != ssa.Value(recv) {
		return nil
	}
	return core.FieldObj(fa.X, fa.Field)
}
