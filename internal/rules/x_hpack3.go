package rules

// Round-3 helpers of C31: totality rules. A validation that exists somewhere
// in a function is not enough; it has to lie on every path to the outcome it
// protects ("every early exit passes the test"), and an effect that the RFC
// makes unconditional has to lie on every path to the success outcome.

import (
	"fmt"
	"go/token"
	"go/types"

	"golang.org/x/tools/go/ssa"

	"verif/internal/core"
)

// hp3ErrOnly: control that enters b can only end in exits of the anchor that
// carry a certainly non-nil error (at least one), and cannot come back to
// `back`. Calls of private helpers are followed, and a `return helper()` exit
// is read with the error of the helper's own return.
func hp3ErrOnly(g *hxReg, b, back *ssa.BasicBlock) bool {
	n := 0
	bad := g.walk(b, 0, hxSt{}, func(in ssa.Instruction, st hxSt) (bool, bool) {
		if in.Block() == back {
			return false, true
		}
		if r, ok := in.(*ssa.Return); ok && r.Parent() == g.Root {
			if !g.errClass(r, st).NonNil {
				return false, true
			}
			n++
		}
		return false, false
	})
	return !bad && n > 0
}

// hp3Clauses finds the branches of the region, located after the byte loop
// (the loop body loopB reaches them but they do not reach it), one edge of
// which leads to error exits only and whose condition, read with the polarity
// of that edge, is accepted by match.
func hp3Clauses(g *hxReg, loopB *ssa.BasicBlock, match func(r hxRel) bool) []*ssa.If {
	var out []*ssa.If
	for _, in := range g.Instrs() {
		ifi, ok := in.(*ssa.If)
		if !ok {
			continue
		}
		b := ifi.Block()
		if len(b.Succs) != 2 || b.Succs[0] == b.Succs[1] {
			continue
		}
		matched := -1
		for i, pol := range []bool{true, false} {
			if rel, ok := hxRelOf(ifi.Cond, pol); ok && match(rel) {
				matched = i
				break
			}
		}
		if matched < 0 || !g.blockReaches(loopB, b) || g.blockReaches(b, loopB) {
			continue
		}
		if hp3ErrOnly(g, b.Succs[matched], loopB) {
			out = append(out, ifi)
		}
	}
	return out
}

// c31HuffmanTail decides the two padding clauses of RFC 7541 section 5.2 in
// huffmanDecode (and its private helpers). (1) existence: after the last
// input byte some branch to an error-only exit tests the number of undecoded
// bits against > 7, and some branch to an error-only exit tests the value of
// the undecoded bits. (2) totality: once an input byte has been read, no exit
// that may report success is reachable without passing those tests; an exit
// that the guards place under "no undecoded bits" (counter <= 0) needs no
// value test.
func c31HuffmanTail(c *core.Ctx, g *hxReg, byteLoad *ssa.UnOp, isCounter, isBitBuf func(ssa.Value) bool) {
	fn := g.Root
	loopB := byteLoad.Block()
	lenIfs := hp3Clauses(g, loopB, func(r hxRel) bool {
		lo, has := hxLower([]hxRel{r}, isCounter)
		return has && lo == 8
	})
	onesIfs := hp3Clauses(g, loopB, func(r hxRel) bool {
		return (r.Op == token.NEQ || r.Op == token.EQL) && (isBitBuf(r.L) || isBitBuf(r.R)) && !hxIsNil(r.R) && !hxIsNil(r.L)
	})
	rets := g.Returns()
	tailPos := fn.Pos()
	for _, r := range rets {
		if g.blockReaches(loopB, r.Block()) && !g.blockReaches(r.Block(), loopB) {
			tailPos = r.Pos()
		}
	}
	c.Check("huffman-tail", "huffmanDecode:padding-longer-than-7-bits", tailPos, len(lenIfs) > 0,
		"after the last input byte no error return depends on the number of undecoded bits being > 7: padding longer than 7 bits (or a truncated symbol) is accepted instead of being a decoding error (RFC 7541 section 5.2)")
	c.Check("huffman-tail", "huffmanDecode:padding-not-eos-prefix", tailPos, len(onesIfs) > 0,
		"after the last input byte no error return depends on the value of the undecoded bits: padding that is not the most-significant bits of EOS (all ones) is accepted instead of being a decoding error (RFC 7541 section 5.2)")
	isOneOf := func(set []*ssa.If) func(ssa.Instruction, hxSt) bool {
		return func(in ssa.Instruction, _ hxSt) bool {
			for _, x := range set {
				if in == ssa.Instruction(x) {
					return true
				}
			}
			return false
		}
	}
	k := 0
	for _, r := range rets {
		if hxErrOf(hxErrResult(r)).NonNil || hxErrNonNilAt(hxErrResult(r), r.Block()) {
			continue
		}
		ret := r
		// the exit of the anchor that this return stands for, reached with a result that may be success
		isRet := func(in ssa.Instruction, st hxSt) bool {
			if !g.isFinal(in, st, ret) {
				return false
			}
			return !g.errClass(in.(*ssa.Return), st).NonNil
		}
		if g.reach(byteLoad, nil, isRet) == nil {
			continue // not reachable once a byte has been read (empty-input exit)
		}
		key := fmt.Sprintf("huffmanDecode:success-return#%d", k)
		k++
		if len(lenIfs) > 0 {
			bad := g.reach(byteLoad, isOneOf(lenIfs), isRet)
			c.Check("huffman-tail", key+":passes-padding-length-test", r.Pos(), bad == nil,
				"after an input byte has been read this return is reachable without passing the test of the undecoded bit count against 7: on that path a truncated symbol or 8 and more bits of padding (for instance a symbol that ends on an octet boundary followed by ff, or the lone octet fe) are accepted instead of being a decoding error (RFC 7541 section 5.2); guards here: "+hxRelStrs(hxRelsAt(r.Block())))
		}
		if len(onesIfs) > 0 {
			bad := g.reach(byteLoad, isOneOf(onesIfs), isRet)
			if bad != nil {
				if ub, has := hxUpper(hxRelsAt(r.Block()), isCounter); has && ub <= 0 {
					bad = nil // no undecoded bits are left here
				}
			}
			c.Check("huffman-tail", key+":passes-padding-value-test", r.Pos(), bad == nil,
				"after an input byte has been read this return is reachable without passing the test of the undecoded bits against all ones: on that path padding that is not a prefix of EOS is accepted instead of being a decoding error (RFC 7541 section 5.2); guards here: "+hxRelStrs(hxRelsAt(r.Block())))
		}
	}
	if k == 0 {
		c.Check("huffman-tail", "huffmanDecode:success-return#0", fn.Pos(), false, "huffmanDecode has no return that reports success after reading input")
	}
	c.Min("huffman-tail", 4)
}

// c31IndexedImpliesAdd: RFC 7541 section 6.2.1 makes the insertion of an
// incrementally indexed literal unconditional (section 4.4: an entry larger
// than the table empties it, which is what dynamicTable.add+evict do). So a
// return of parseFieldLiteral that reports success may be reached without
// dynamicTable.add only over the false edge of an it.indexed() test.
func c31IndexedImpliesAdd(c *core.Ctx, lit *ssa.Function) {
	if len(lit.Blocks) == 0 {
		return
	}
	g := hxRegionOf(c.P, lit)
	// the it.indexed() branches: branch block -> successor taken when indexed
	indexedSucc := map[*ssa.BasicBlock]*ssa.BasicBlock{}
	for _, in := range g.Instrs() {
		ifi, ok := in.(*ssa.If)
		if !ok || len(ifi.Block().Succs) != 2 {
			continue
		}
		cond, pol := ifi.Cond, true
		for {
			u, ok := cond.(*ssa.UnOp)
			if !ok || u.Op != token.NOT {
				break
			}
			cond, pol = u.X, !pol
		}
		cc, _ := hxCallOf(cond)
		if cc == nil || !core.CallIs(&cc.Call, hxHpack+".indexType.indexed") {
			continue
		}
		if pol {
			indexedSucc[ifi.Block()] = ifi.Block().Succs[0]
		} else {
			indexedSucc[ifi.Block()] = ifi.Block().Succs[1]
		}
	}
	isAdd := func(in ssa.Instruction) bool {
		ci, ok := in.(ssa.CallInstruction)
		return ok && core.CallIs(ci.Common(), hxHpack+".dynamicTable.add")
	}
	// an exit of parseFieldLiteral that reports success: nil, or the result of callEmit (also when a private helper's return is handed on)
	isSuccess := func(in ssa.Instruction, st hxSt) bool {
		r, ok := in.(*ssa.Return)
		if !ok || r.Parent() != lit {
			return false
		}
		if st.ret != nil && hxPassesOn(r, st.call) {
			r = st.ret
		}
		ev := hxErrResult(r)
		cc, _ := hxCallOf(ev)
		return hxErrOf(ev).Nil || (cc != nil && core.CallIs(&cc.Call, hxHpack+".Decoder.callEmit"))
	}
	var bad ssa.Instruction
	g.walkE(lit.Blocks[0], 0, hxSt{}, func(in ssa.Instruction, st hxSt) (bool, bool) {
		if isSuccess(in, st) {
			bad = in
			return false, true
		}
		return isAdd(in), false
	}, func(b *ssa.BasicBlock) *ssa.BasicBlock { return indexedSucc[b] })
	pos := lit.Pos()
	if bad != nil {
		pos = bad.Pos()
	}
	c.Check("literal-indexing", "parseFieldLiteral:indexed-implies-add", pos, len(indexedSucc) > 0 && bad == nil,
		"a literal with incremental indexing (it.indexed()) can be emitted without passing dynamicTable.add: the insertion depends on more than the representation type. RFC 7541 sections 4.4/6.2.1 insert unconditionally (an entry larger than the table empties it); skipping the insert keeps stale entries alive and shifts every later dynamic index relative to the peer's table")
}

// c31AddUnconditional: dynamicTable.add performs the three steps of an
// insertion (append the entry, account its size, evict) on every path; an
// early exit, e.g. for an entry larger than the table, would keep the old
// entries instead of emptying the table (RFC 7541 section 4.4).
func c31AddUnconditional(c *core.Ctx, fn *ssa.Function) {
	entsF := hxField(c, hxHpack, "dynamicTable.ents")
	sizeF := hxField(c, hxHpack, "dynamicTable.size")
	if entsF == nil || sizeF == nil || len(fn.Params) != 2 {
		if len(fn.Params) != 2 {
			c.Missing("dynamicTable.add: (dt, f) parameters")
		}
		return
	}
	storeTo := func(f *types.Var, in ssa.Instruction) *ssa.Store {
		st, ok := in.(*ssa.Store)
		if !ok {
			return nil
		}
		fa, ok := st.Addr.(*ssa.FieldAddr)
		if !ok || core.FieldObj(fa.X, fa.Field) != f {
			return nil
		}
		return st
	}
	// the entry appended is the parameter
	isAppendOfParam := func(v ssa.Value) bool {
		call, ok := hxResolve(v).(*ssa.Call)
		if !ok || len(call.Call.Args) != 2 {
			return false
		}
		if b, ok := call.Call.Value.(*ssa.Builtin); !ok || b.Name() != "append" {
			return false
		}
		if !hxIsField(call.Call.Args[0], entsF) {
			return false
		}
		sl, ok := call.Call.Args[1].(*ssa.Slice)
		if !ok {
			return false
		}
		arr, ok := sl.X.(*ssa.Alloc)
		if !ok || arr.Referrers() == nil {
			return false
		}
		for _, r := range *arr.Referrers() {
			ia, ok := r.(*ssa.IndexAddr)
			if !ok || ia.Referrers() == nil {
				continue
			}
			for _, rr := range *ia.Referrers() {
				if st, ok := rr.(*ssa.Store); ok && st.Addr == ssa.Value(ia) && hxResolve(st.Val) == ssa.Value(fn.Params[1]) {
					return true
				}
			}
		}
		return false
	}
	steps := []struct {
		name string
		is   func(ssa.Instruction) bool
	}{
		{"appends the entry to ents", func(in ssa.Instruction) bool {
			st := storeTo(entsF, in)
			return st != nil && isAppendOfParam(st.Val)
		}},
		{"accounts the entry size", func(in ssa.Instruction) bool { return storeTo(sizeF, in) != nil }},
		{"evicts", func(in ssa.Instruction) bool {
			ci, ok := in.(ssa.CallInstruction)
			return ok && core.CallIs(ci.Common(), hxHpack+".dynamicTable.evict")
		}},
	}
	g := hxRegionOf(c.P, fn)
	isExit := func(in ssa.Instruction) bool { return core.IsReturn(in) && in.Parent() == fn }
	var why string
	for _, s := range steps {
		if bad := g.reachI(nil, s.is, isExit); bad != nil {
			if why != "" {
				why += "; "
			}
			why += "a return is reachable from the entry without the step that " + s.name
		}
	}
	c.Check("dyn-table", "dynamicTable.add:unconditional", fn.Pos(), why == "",
		"an insertion into the dynamic table must append the entry, add its size and evict on every path (an entry larger than the table thereby empties it, RFC 7541 section 4.4): "+why)
}

// c31EvictFits: every return of dynamicTable.evict is placed by the guards
// under size <= maxSize: the eviction loop has no other way out.
func c31EvictFits(c *core.Ctx, fn *ssa.Function) {
	sizeF := hxField(c, hxHpack, "dynamicTable.size")
	maxF := hxField(c, hxHpack, "dynamicTable.maxSize")
	if sizeF == nil || maxF == nil {
		return
	}
	n := 0
	for _, r := range hxRegionOf(c.P, fn).Returns() {
		rels := hxRelsAt(r.Block())
		_, le := hxLE(rels, func(v ssa.Value) bool { return hxIsField(v, sizeF) }, func(v ssa.Value) bool { return hxIsField(v, maxF) })
		pos := r.Pos()
		if !pos.IsValid() {
			pos = fn.Pos()
		}
		c.Check("dyn-table", fmt.Sprintf("dynamicTable.evict:return-fits#%d", n), pos, le,
			"evict returns where the guards do not establish size <= maxSize: the eviction loop can be left while the table is still larger than its limit (stale entries stay addressable); guards: "+hxRelStrs(rels))
		n++
	}
}
