package rules

// Helpers added for the second round of the HTTP/1 properties (C24-C29):
//   - free-list discipline: release sites of pooled objects (send on a
//     package-level channel of pointers, sync.Pool.Put, calls of helpers that do
//     so with one of their parameters), the set of SSA values that share storage
//     with the released object, and the search for a use after the release;
//   - input leaves of a value (parameters it depends on through data flow and
//     through the branch conditions that select phi edges), for memo-cache key
//     coverage;
//   - classification of header-deletion keys (constant, element of a constant
//     table, dynamic).

import (
	"go/token"
	"go/types"
	"sort"
	"strings"

	"golang.org/x/tools/go/ssa"

	"verif/internal/core"
)

// ---------------------------------------------------------------- free lists

func sh1IsRef(t types.Type) bool {
	switch t.Underlying().(type) {
	case *types.Pointer, *types.Slice, *types.Map, *types.Chan, *types.Interface:
		return true
	}
	return false
}

func sh1IsAppend(v ssa.Value) (*ssa.Call, bool) {
	call, ok := v.(*ssa.Call)
	if !ok {
		return nil, false
	}
	b, ok := call.Call.Value.(*ssa.Builtin)
	return call, ok && b.Name() == "append" && len(call.Call.Args) >= 1
}

// sh1Pool carries the per-program summaries of the free-list analysis.
type sh1Pool struct {
	scope    []*ssa.Function
	inScope  map[*ssa.Function]bool
	releases map[*ssa.Function]map[int]bool // fn -> parameter indices it hands to a free list
	alias    map[*ssa.Function]map[[2]int]bool
	busy     map[*ssa.Function]bool
}

// sh1Release is one release site.
type sh1Release struct {
	At    ssa.Instruction // the instruction after which the object belongs to the pool
	Val   ssa.Value       // the released value
	Where string          // description of the free list
}

func sh1NewPool(scope []*ssa.Function) *sh1Pool {
	p := &sh1Pool{scope: scope, inScope: map[*ssa.Function]bool{}, releases: map[*ssa.Function]map[int]bool{},
		alias: map[*ssa.Function]map[[2]int]bool{}, busy: map[*ssa.Function]bool{}}
	for _, f := range scope {
		p.inScope[f] = true
	}
	// which parameters does a function release (directly, or through a helper)? two rounds = helper depth 2
	for round := 0; round < 3; round++ {
		for _, f := range scope {
			for _, r := range p.Sites(f) {
				if prm, ok := core.StripConv(r.Val).(*ssa.Parameter); ok {
					for i, q := range f.Params {
						if q == prm {
							if p.releases[f] == nil {
								p.releases[f] = map[int]bool{}
							}
							p.releases[f][i] = true
						}
					}
				}
			}
		}
	}
	return p
}

func sh1GlobalFreeList(ch ssa.Value) (string, bool) {
	u, ok := core.StripConv(ch).(*ssa.UnOp)
	if !ok || u.Op != token.MUL {
		return "", false
	}
	g, ok := u.X.(*ssa.Global)
	if !ok {
		return "", false
	}
	ct, ok := u.Type().Underlying().(*types.Chan)
	if !ok || !sh1IsRef(ct.Elem()) {
		return "", false
	}
	return "channel " + g.Name(), true
}

// Sites lists the release sites of fn.
func (p *sh1Pool) Sites(fn *ssa.Function) []sh1Release {
	var out []sh1Release
	var runDefers []ssa.Instruction
	core.Instrs(fn, func(in ssa.Instruction) {
		if _, ok := in.(*ssa.RunDefers); ok {
			runDefers = append(runDefers, in)
		}
	})
	core.Instrs(fn, func(in ssa.Instruction) {
		switch x := in.(type) {
		case *ssa.Send:
			if w, ok := sh1GlobalFreeList(x.Chan); ok {
				out = append(out, sh1Release{x, x.X, w})
			}
		case *ssa.Select:
			for _, st := range x.States {
				if st.Dir == types.SendOnly {
					if w, ok := sh1GlobalFreeList(st.Chan); ok {
						out = append(out, sh1Release{x, st.Send, w})
					}
				}
			}
		case ssa.CallInstruction:
			cc := x.Common()
			var val ssa.Value
			where := ""
			if core.CallIs(cc, "sync.Pool.Put") && len(cc.Args) == 2 {
				val, where = core.StripConv(cc.Args[1]), "sync.Pool "+core.Render(cc.Args[0])
			} else if sc := cc.StaticCallee(); sc != nil && p.releases[sc] != nil {
				for i := range p.releases[sc] {
					if i < len(cc.Args) {
						val, where = cc.Args[i], "helper "+core.FuncKey(sc)
					}
				}
			}
			if val == nil {
				return
			}
			switch x.(type) {
			case *ssa.Call:
				out = append(out, sh1Release{in, val, where})
			case *ssa.Defer:
				for _, rd := range runDefers {
					out = append(out, sh1Release{rd, val, where + " (deferred)"})
				}
			}
		}
	})
	return out
}

// resultAlias: do results i and j of fn share storage on some return?
func (p *sh1Pool) resultAlias(fn *ssa.Function) map[[2]int]bool {
	if m, ok := p.alias[fn]; ok {
		return m
	}
	m := map[[2]int]bool{}
	p.alias[fn] = m
	if fn == nil || fn.Blocks == nil || p.busy[fn] {
		return m
	}
	p.busy[fn] = true
	defer delete(p.busy, fn)
	for _, r := range core.Returns(fn) {
		rv := core.RetVals(r)
		for i, a := range rv {
			if !sh1IsRef(a.Type()) {
				continue
			}
			set := p.Shares(a)
			for j, b := range rv {
				if i != j && set[h1aResolve(b)] {
					m[[2]int{i, j}], m[[2]int{j, i}] = true, true
				}
			}
		}
	}
	return m
}

// Shares computes the SSA values that (may) share storage with v: the value
// itself, what is loaded from or stored into its fields, slices / appends /
// phis / conversions of those in both directions, and the other results of
// the call that produced it when the callee returns storage-sharing results.
func (p *sh1Pool) Shares(v ssa.Value) map[ssa.Value]bool {
	set := map[ssa.Value]bool{}
	var work []ssa.Value
	add := func(x ssa.Value) {
		if x == nil || set[x] || !sh1IsRef(x.Type()) {
			return
		}
		if _, isK := x.(*ssa.Const); isK {
			return
		}
		if _, isG := x.(*ssa.Global); isG {
			return
		}
		set[x] = true
		work = append(work, x)
	}
	add(h1aResolve(v))
	add(v)
	for len(work) > 0 {
		x := work[len(work)-1]
		work = work[:len(work)-1]
		// where x comes from
		switch y := x.(type) {
		case *ssa.Slice:
			add(y.X)
		case *ssa.Phi:
			for _, e := range y.Edges {
				add(e)
			}
		case *ssa.ChangeType:
			add(y.X)
		case *ssa.MakeInterface:
			add(y.X)
		case *ssa.ChangeInterface:
			add(y.X)
		case *ssa.TypeAssert:
			add(y.X)
		case *ssa.Call:
			if call, ok := sh1IsAppend(y); ok {
				add(call.Call.Args[0])
			}
		case *ssa.Extract:
			if call, ok := y.Tuple.(*ssa.Call); ok {
				if sc := call.Call.StaticCallee(); sc != nil && p.inScope[sc] && call.Referrers() != nil {
					al := p.resultAlias(sc)
					for _, r := range *call.Referrers() {
						if ex, ok := r.(*ssa.Extract); ok && al[[2]int{y.Index, ex.Index}] {
							add(ex)
						}
					}
				}
			}
		}
		// where x goes
		refs := x.Referrers()
		if refs == nil {
			continue
		}
		for _, r := range *refs {
			switch y := r.(type) {
			case *ssa.Slice:
				if y.X == x {
					add(y)
				}
			case *ssa.Phi:
				add(y)
			case *ssa.ChangeType:
				add(y)
			case *ssa.MakeInterface:
				add(y)
			case *ssa.ChangeInterface:
				add(y)
			case *ssa.TypeAssert:
				add(y)
			case *ssa.Call:
				if call, ok := sh1IsAppend(y); ok && call.Call.Args[0] == x {
					add(y)
				}
			case *ssa.FieldAddr:
				if y.X != x || y.Referrers() == nil {
					continue
				}
				for _, rr := range *y.Referrers() {
					switch z := rr.(type) {
					case *ssa.UnOp:
						if z.Op == token.MUL {
							add(z)
						}
					case *ssa.Store:
						if z.Addr == ssa.Value(y) {
							add(z.Val)
						}
					}
				}
			}
		}
	}
	return set
}

// UseAfter returns the first instruction reachable after the release that
// still uses the released object or a value sharing its storage (nil if none).
// A path that re-executes the instruction defining the released value holds a
// new object and is not followed.
func (p *sh1Pool) UseAfter(fn *ssa.Function, r sh1Release) (ssa.Instruction, ssa.Value) {
	set := p.Shares(r.Val)
	def, _ := h1aResolve(core.StripConv(r.Val)).(ssa.Instruction)
	var hitVal ssa.Value
	hit := core.ReachAvoiding(fn, r.At, func(in ssa.Instruction) bool { return def != nil && in == def }, func(in ssa.Instruction) bool {
		if in == r.At {
			return false
		}
		if _, isPhi := in.(*ssa.Phi); isPhi {
			return false
		}
		if ret, ok := in.(*ssa.Return); ok {
			for _, v := range core.RetVals(ret) {
				if set[v] || set[h1aResolve(v)] {
					hitVal = v
					return true
				}
			}
			return false
		}
		for _, op := range in.Operands(nil) {
			if op != nil && *op != nil && set[*op] {
				hitVal = *op
				return true
			}
		}
		return false
	})
	return hit, hitVal
}

// ---------------------------------------------------------------- input leaves

// sh1ParamDeps collects the parameters of fn that v depends on: through data
// flow (operands, call arguments and receivers) and through the branch
// conditions that decide which edge of a phi is taken.
func sh1ParamDeps(v ssa.Value) map[*ssa.Parameter]bool {
	out := map[*ssa.Parameter]bool{}
	seen := map[ssa.Value]bool{}
	var walk func(v ssa.Value, d int)
	walk = func(v ssa.Value, d int) {
		if v == nil || seen[v] || d > 40 {
			return
		}
		seen[v] = true
		switch x := v.(type) {
		case *ssa.Parameter:
			out[x] = true
		case *ssa.Phi:
			for _, e := range x.Edges {
				walk(e, d+1)
			}
			b := x.Block()
			base := map[ssa.Value]bool{}
			for _, g := range core.GuardsAt(b) {
				base[g.Cond] = true
			}
			for _, pr := range b.Preds {
				for _, g := range core.GuardsOnEdge(pr, b) {
					if !base[g.Cond] {
						walk(g.Cond, d+1)
					}
				}
			}
		case *ssa.Call:
			if x.Call.IsInvoke() {
				walk(x.Call.Value, d+1)
			}
			for _, a := range x.Call.Args {
				walk(a, d+1)
			}
		case ssa.Instruction:
			for _, op := range x.Operands(nil) {
				if op != nil && *op != nil {
					walk(*op, d+1)
				}
			}
		}
	}
	walk(v, 0)
	return out
}

func sh1ParamNames(m map[*ssa.Parameter]bool) string {
	var s []string
	for p := range m {
		s = append(s, p.Name())
	}
	sort.Strings(s)
	return "{" + strings.Join(s, ", ") + "}"
}

// ---------------------------------------------------------------- deletion keys

// sh1GlobalElem: v is an element of a package-level slice/array variable
// (`for _, h := range pkg.Table`); returns the package path (module relative)
// and the variable name.
func sh1GlobalElem(v ssa.Value) (pkg, name string, ok bool) {
	u, isU := core.StripConv(v).(*ssa.UnOp)
	if !isU || u.Op != token.MUL {
		return "", "", false
	}
	ia, isIA := u.X.(*ssa.IndexAddr)
	if !isIA {
		return "", "", false
	}
	var g *ssa.Global
	switch x := ia.X.(type) {
	case *ssa.UnOp:
		if x.Op == token.MUL {
			g, _ = x.X.(*ssa.Global)
		}
	case *ssa.Global:
		g = x
	}
	if g == nil || g.Pkg == nil {
		return "", "", false
	}
	rel := strings.TrimPrefix(strings.TrimPrefix(g.Pkg.Pkg.Path(), core.ModPath), "/")
	return rel, g.Name(), true
}
