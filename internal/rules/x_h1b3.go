package rules

// Round-3 rules of the HTTP/1 proxy-side properties (C26-C28):
//
//   - request-not-refilled (C26): a bfe_http.Request that already exists is
//     never overwritten as a whole, and its Header map is never replaced by a
//     map that is not fresh: the outgoing request keeps the header it was given
//     by hopByHopHeaderRemove;
//   - table-immutable (C26): the package-level tables the removal relies on are
//     read-only after package initialisation (no store, no element write, no
//     append / in-place filter over their backing array, no escape);
//   - flush-joined (C27): the goroutine that flushes the client response
//     periodically is joined before its starter returns (the stop signal is a
//     rendezvous, it is sent on every exit, and nothing is flushed after it);
//   - reply-flushed (C28): response.finishRequest puts the whole reply on the
//     wire (connection buffer flushed after the chunk writer was closed) on
//     every path;
//   - method-independent (C28): the request body reader is chosen from the
//     framing headers alone (shared with C24).

import (
	"fmt"
	"go/token"
	"go/types"
	"sort"
	"strings"

	"golang.org/x/tools/go/ssa"

	"verif/internal/core"
)

// ---------------------------------------------------------------- C26: request-not-refilled

// h1bFreshObject: v certainly denotes an object allocated by the function
// under analysis: an Alloc, a local variable cell that only ever holds such
// allocations, a phi of them. Parameters and field loads are never fresh: the
// object existed before the function ran.
func h1bFreshObject(v ssa.Value) bool {
	seen := map[ssa.Value]bool{}
	var walk func(v ssa.Value, d int) bool
	walk = func(v ssa.Value, d int) bool {
		v = core.StripConv(v)
		if v == nil || d > 6 {
			return false
		}
		if seen[v] {
			return true
		}
		seen[v] = true
		switch x := v.(type) {
		case *ssa.Alloc:
			return true
		case *ssa.Phi:
			for _, e := range x.Edges {
				if !walk(e, d+1) {
					return false
				}
			}
			return len(x.Edges) > 0
		case *ssa.UnOp:
			// load of a local variable cell: every value stored into it is fresh
			cell, ok := x.X.(*ssa.Alloc)
			if !ok || x.Op != token.MUL || cell.Referrers() == nil {
				return false
			}
			n := 0
			for _, r := range *cell.Referrers() {
				switch y := r.(type) {
				case *ssa.Store:
					if y.Addr != ssa.Value(cell) {
						return false // the cell's address is stored somewhere
					}
					if k, isK := y.Val.(*ssa.Const); isK && k.Value == nil {
						continue
					}
					if !walk(y.Val, d+1) {
						return false
					}
					n++
				case *ssa.UnOp, *ssa.DebugRef:
				default:
					return false // captured / passed on
				}
			}
			return n > 0
		}
		return false
	}
	return walk(v, 0)
}

// h1bFreshMap: v is a map made on the spot (make / literal), or the result of a
// module function that returns nothing but such maps (a clone helper).
func h1bFreshMap(v ssa.Value) bool {
	v = core.StripConv(v)
	if _, ok := v.(*ssa.MakeMap); ok {
		return true
	}
	idx := 0
	if ex, ok := v.(*ssa.Extract); ok {
		v, idx = ex.Tuple, ex.Index
	}
	call, ok := v.(*ssa.Call)
	if !ok {
		return false
	}
	sc := call.Call.StaticCallee()
	if sc == nil || sc.Blocks == nil || core.FuncPkgRel(sc) == "" {
		return false
	}
	rets := core.Returns(sc)
	for _, r := range rets {
		vals := core.RetVals(r)
		if idx >= len(vals) {
			return false
		}
		if _, isMk := core.StripConv(vals[idx]).(*ssa.MakeMap); !isMk {
			return false
		}
	}
	return len(rets) > 0
}

// c26RequestNotRefilled: who-may-overwrite census of bfe_http.Request objects.
// hopByHopHeaderRemove gives the outgoing request a header map of its own; the
// cleaned object then travels through clusterInvoke, the retry loop, the
// forward callbacks and the transports. Wherever a Request that the function
// did not allocate itself is overwritten as a whole (`*r = *other`) or gets its
// Header field replaced by a map that is not a fresh `make`, the object may be
// the cleaned outgoing request and the copy brings the client's header map -
// with every hop-by-hop field - back.
func c26RequestNotRefilled(c *core.Ctx, reqHeader *types.Var) {
	const rule = "request-not-refilled"
	tn, _ := c.P.Obj("bfe_http", "Request").(*types.TypeName)
	if tn == nil || reqHeader == nil {
		c.Missing("bfe_http.Request")
		return
	}
	n := map[string]int{}
	for _, fn := range c.P.SrcFuncs("") {
		fn := fn
		core.Instrs(fn, func(in ssa.Instruction) {
			st, ok := in.(*ssa.Store)
			if !ok {
				return
			}
			switch {
			case types.Identical(st.Val.Type(), tn.Type()):
				fresh := h1bFreshObject(st.Addr)
				c.Check(rule, h1bOrd(core.FuncKey(fn)+":struct", n), st.Pos(), fresh,
					"a bfe_http.Request that "+core.FuncKey(fn)+" did not allocate itself ("+core.Render(st.Addr)+") is overwritten as a whole with "+core.Render(st.Val)+
						": if it is the outgoing request (Request.OutRequest) it shares the source's Header map again and the hop-by-hop removal done in ReverseProxy.ServeHTTP is undone for whatever is sent afterwards (e.g. the retry to the next backend)")
			default:
				fa, isFA := st.Addr.(*ssa.FieldAddr)
				if !isFA || core.FieldObj(fa.X, fa.Field) != reqHeader {
					return
				}
				fresh := h1bFreshMap(st.Val) || h1bFreshObject(fa.X)
				c.Check(rule, h1bOrd(core.FuncKey(fn)+":header", n), st.Pos(), fresh,
					"the Header of a bfe_http.Request that "+core.FuncKey(fn)+" did not allocate itself ("+core.Render(fa.X)+") is replaced by "+core.Render(st.Val)+
						", which is not a fresh map: if the object is the outgoing request the hop-by-hop fields removed by hopByHopHeaderRemove are back in what is sent to the backend")
			}
		})
	}
	c.Min(rule, 3)
}

// ---------------------------------------------------------------- C26: table-immutable

// h1bSharedUses classifies every use of a shared slice/map value (roots and
// everything that aliases their backing store: sub-slices, phis, conversions,
// local variable cells, append results) inside fn and, through arguments, inside
// module callees. It returns the uses that write to the shared storage or let
// it escape to where writes cannot be excluded.
func h1bSharedUses(roots []ssa.Value, fn *ssa.Function, depth int) []string {
	var bad []string
	derived := map[ssa.Value]bool{}
	var work []ssa.Value
	add := func(v ssa.Value) {
		if v != nil && !derived[v] {
			derived[v] = true
			work = append(work, v)
		}
	}
	for _, r := range roots {
		add(r)
	}
	report := func(in ssa.Instruction, what string) {
		where := ""
		if p := in.Parent(); p != nil && p.Prog != nil && in.Pos().IsValid() {
			pos := p.Prog.Fset.Position(in.Pos())
			where = fmt.Sprintf(" (%s line %d)", core.FuncKey(p), pos.Line)
		} else if p != nil {
			where = " (" + core.FuncKey(p) + ")"
		}
		bad = append(bad, what+where)
	}
	readOnlyExtern := func(key string) bool {
		switch key {
		case "strings.Join", "sort.SearchStrings", "sort.StringsAreSorted", "fmt.Sprint", "fmt.Sprintf", "fmt.Sprintln", "fmt.Errorf", "reflect.DeepEqual":
			return true
		}
		return false
	}
	for len(work) > 0 {
		v := work[len(work)-1]
		work = work[:len(work)-1]
		refs := v.Referrers()
		if refs == nil {
			continue
		}
		for _, r := range *refs {
			switch x := r.(type) {
			case *ssa.DebugRef, *ssa.Range, *ssa.Lookup, *ssa.Index, *ssa.BinOp, *ssa.If:
				// reads
			case *ssa.IndexAddr:
				if x.X != v {
					continue
				}
				if x.Referrers() == nil {
					continue
				}
				for _, r2 := range *x.Referrers() {
					switch y := r2.(type) {
					case *ssa.UnOp, *ssa.DebugRef:
					case *ssa.Store:
						if y.Addr == ssa.Value(x) {
							report(y, "an element is assigned")
						} else {
							report(y, "the address of an element is stored")
						}
					default:
						report(r2, "the address of an element is passed on")
					}
				}
			case *ssa.Slice, *ssa.Phi, *ssa.ChangeType, *ssa.Convert:
				add(x.(ssa.Value))
			case *ssa.MakeInterface:
				// boxed: only formatting / logging consumers are accepted
				if x.Referrers() != nil {
					for _, r2 := range *x.Referrers() {
						if ci, ok := r2.(ssa.CallInstruction); ok && (readOnlyExtern(core.CalleeKey(ci.Common())) || strings.Contains(core.CalleeKey(ci.Common()), "log")) {
							continue
						}
						if _, ok := r2.(*ssa.DebugRef); ok {
							continue
						}
						if st, ok := r2.(*ssa.Store); ok {
							// varargs slot of a formatting call
							if ia, isIA := st.Addr.(*ssa.IndexAddr); isIA {
								if a, isA := ia.X.(*ssa.Alloc); isA && a.Comment == "varargs" {
									continue
								}
							}
						}
						report(r2, "the table is boxed into an interface and passed on")
					}
				}
			case *ssa.MapUpdate:
				if x.Map == v {
					report(x, "an entry is written")
				}
			case *ssa.Store:
				if x.Val != v {
					continue
				}
				if cell, ok := x.Addr.(*ssa.Alloc); ok && cell.Referrers() != nil {
					// a local variable: its loads alias the table
					okCell := true
					for _, r2 := range *cell.Referrers() {
						switch y := r2.(type) {
						case *ssa.UnOp:
							add(y)
						case *ssa.Store, *ssa.DebugRef:
						default:
							okCell = false
						}
					}
					if okCell {
						continue
					}
				}
				report(x, "the table value is stored into "+core.Render(x.Addr)+" (an alias the census cannot follow)")
			case *ssa.Return:
				report(x, "the table value is returned to callers the census does not follow")
			case *ssa.MakeClosure:
				report(x, "the table value is captured by a closure")
			case ssa.CallInstruction:
				cc := x.Common()
				if b, isB := cc.Value.(*ssa.Builtin); isB {
					switch b.Name() {
					case "len", "cap", "print", "println":
					case "append":
						if len(cc.Args) > 0 && cc.Args[0] == v {
							report(x, "append onto (a sub-slice of) the table writes into its backing array whenever capacity is left - the in-place filter idiom `t[:0]` + append rewrites the table for every later reader")
							if val := x.Value(); val != nil {
								add(val)
							}
						}
					case "copy":
						if len(cc.Args) > 0 && cc.Args[0] == v {
							report(x, "copy into the table")
						}
					case "delete", "clear":
						report(x, b.Name()+" on the table")
					default:
						report(x, "builtin "+b.Name()+" applied to the table")
					}
					continue
				}
				sc := cc.StaticCallee()
				args := cc.Args
				for i, a := range args {
					if a != v {
						continue
					}
					switch {
					case sc != nil && sc.Blocks != nil && core.FuncPkgRel(sc) != "" && depth > 0 && i < len(sc.Params):
						for _, b := range h1bSharedUses([]ssa.Value{sc.Params[i]}, sc, depth-1) {
							bad = append(bad, b)
						}
					case sc != nil && readOnlyExtern(core.FuncKey(sc)):
					default:
						report(x, "the table is passed to "+core.CalleeKey(cc)+", whose effect on it is not followed")
					}
				}
				if cc.IsInvoke() && cc.Value == v {
					report(x, "a method is invoked on the table")
				}
			default:
				report(r, fmt.Sprintf("use %T not followed", r))
			}
		}
	}
	return bad
}

// c26TablesImmutable: the hop-by-hop tables are decided once, from their
// composite literals (rule hop-table). That verdict only describes what the
// proxy does if the tables still hold those elements when a request is
// forwarded: every function of the program that touches one of them is an
// obligation, discharged when all its uses are reads.
func c26TablesImmutable(c *core.Ctx) {
	const rule = "table-immutable"
	total := 0
	var lastPos token.Pos
	for _, t := range [][2]string{{"bfe_basic", "HopHeaders"}, {"bfe_http", "reqWriteExcludeHeader"}} {
		sp := c.P.SPkg[t[0]]
		if sp == nil {
			c.Missing(t[0])
			continue
		}
		g, _ := sp.Members[t[1]].(*ssa.Global)
		if g == nil {
			c.Missing(t[0] + "." + t[1])
			continue
		}
		for _, fn := range c.P.SrcFuncs("") {
			if fn.Name() == "init" && fn.Synthetic != "" && fn.Pkg == sp {
				continue // the package initialiser that builds the literal
			}
			var roots []ssa.Value
			var bad []string
			var pos token.Pos
			core.Instrs(fn, func(in ssa.Instruction) {
				uses := false
				for _, op := range in.Operands(nil) {
					if op != nil && *op == ssa.Value(g) {
						uses = true
					}
				}
				if !uses {
					return
				}
				if !pos.IsValid() {
					pos = in.Pos()
				}
				switch x := in.(type) {
				case *ssa.UnOp:
					if x.Op == token.MUL {
						roots = append(roots, x)
						return
					}
				case *ssa.Store:
					if x.Addr == ssa.Value(g) {
						bad = append(bad, "the table variable itself is reassigned")
						return
					}
				case *ssa.DebugRef:
					return
				}
				bad = append(bad, "the address of the table variable is passed on ("+strings.TrimSpace(in.String())+")")
			})
			if len(roots) == 0 && len(bad) == 0 {
				continue
			}
			if !pos.IsValid() {
				pos = fn.Pos()
			}
			bad = append(bad, h1bSharedUses(roots, fn, 4)...)
			sort.Strings(bad)
			total++
			lastPos = pos
			c.Check(rule, t[1]+":"+core.FuncKey(fn), pos, len(bad) == 0,
				t[0]+"."+t[1]+" is a package-level table shared by every request; "+core.FuncKey(fn)+" does more than read it: "+strings.Join(uniqStrings(bad), "; ")+
					". After that the table no longer holds the hop-by-hop names its literal lists (rule hop-table), and hopByHopHeaderRemove / Request.write forward the dropped fields to every backend")
		}
	}
	c.Check(rule, "tables:users", lastPos, total >= 2, fmt.Sprintf("only %d functions use bfe_basic.HopHeaders / bfe_http.reqWriteExcludeHeader; the removal loop and the write filter are expected", total))
	c.Min(rule, 3)
}

// ---------------------------------------------------------------- C27: flush-joined

// c27FlushJoined: when a flush interval is configured, copyResponse hands the
// body copy to a writer whose FlushLoop goroutine flushes the client response
// on a ticker. The bytes of a reply stay well-formed only if that goroutine is
// out of Flush for good before the starter goes on to finishRequest (which
// flushes the same buffers). The join is a channel rendezvous; its necessary
// structure: (1) every `go x.Loop()` is coupled with `defer x.Stop()` (or a
// Stop call on every path to the exit) on the same object; (2) Stop sends on
// the stop channel - a plain blocking send - on every path; (3) every channel
// ever stored into that field is unbuffered, so the send returns only once the
// loop has taken it, i.e. while the loop is not inside Flush; (4) on the arm
// that took the stop signal the loop cannot reach another Flush.
func c27FlushJoined(c *core.Ctx) {
	const rule = "flush-joined"
	all := c.P.SrcFuncs("")
	isFlushInvoke := func(cc *ssa.CallCommon) bool {
		return cc.IsInvoke() && cc.Method.Name() == "Flush"
	}
	flushes := func(fn *ssa.Function, depth int) bool {
		seen := map[*ssa.Function]bool{}
		var walk func(fn *ssa.Function, d int) bool
		walk = func(fn *ssa.Function, d int) bool {
			if fn == nil || fn.Blocks == nil || seen[fn] {
				return false
			}
			seen[fn] = true
			for _, f := range core.WithClosures(fn) {
				for _, ci := range core.AllCalls(f) {
					if isFlushInvoke(ci.Common()) {
						return true
					}
					if sc := ci.Common().StaticCallee(); sc != nil && d > 0 && core.FuncPkgRel(sc) == "bfe_http" && walk(sc, d-1) {
						return true
					}
				}
			}
			return false
		}
		return walk(fn, depth)
	}
	recvNamed := func(fn *ssa.Function) *types.Named {
		if fn == nil || fn.Signature.Recv() == nil {
			return nil
		}
		t := fn.Signature.Recv().Type()
		if p, ok := t.(*types.Pointer); ok {
			t = p.Elem()
		}
		n, _ := t.(*types.Named)
		return n
	}
	// go sites whose goroutine flushes a writer
	type site struct {
		g    *ssa.Go
		loop *ssa.Function
	}
	var sites []site
	loops := map[*ssa.Function]bool{}
	for _, fn := range c.P.SrcFuncs("bfe_server", "bfe_http") {
		core.Instrs(fn, func(in ssa.Instruction) {
			g, ok := in.(*ssa.Go)
			if !ok {
				return
			}
			sc := g.Call.StaticCallee()
			if sc == nil || recvNamed(sc) == nil || core.FuncPkgRel(sc) != "bfe_http" || len(g.Call.Args) == 0 || !flushes(sc, 2) {
				return
			}
			// the object is itself a writer handed to somebody else (Write + Flush
			// methods) whose loop flushes it in the background
			ms := types.NewMethodSet(types.NewPointer(recvNamed(sc)))
			if ms.Lookup(sc.Pkg.Pkg, "Write") == nil && ms.Lookup(nil, "Write") == nil || ms.Lookup(sc.Pkg.Pkg, "Flush") == nil && ms.Lookup(nil, "Flush") == nil {
				return
			}
			sites = append(sites, site{g, sc})
			loops[sc] = true
		})
	}
	var sitePos token.Pos
	if len(sites) > 0 {
		sitePos = sites[0].g.Pos()
	}
	c.Check(rule, "flush-goroutines", sitePos, len(sites) >= 1, "no `go x.Loop()` whose goroutine flushes a writer found in bfe_server/bfe_http: the periodic flusher of copyResponse is not in a form the rule follows")
	var loopFns []*ssa.Function
	for l := range loops {
		loopFns = append(loopFns, l)
	}
	sort.Slice(loopFns, func(i, j int) bool { return core.FuncKey(loopFns[i]) < core.FuncKey(loopFns[j]) })
	stoppers := map[*ssa.Function]map[*ssa.Function]bool{} // loop -> stop methods
	for _, loop := range loopFns {
		c.Analysed(core.FuncKey(loop))
		T := recvNamed(loop)
		recv := ssa.Value(loop.Params[0])
		lk := core.FuncKey(loop)
		// the stop channels: fields of the receiver the loop receives from
		type arm struct {
			fld   *types.Var
			start []ssa.Instruction // first instructions executed once the signal was taken
		}
		var arms []arm
		recvField := func(ch ssa.Value) *types.Var {
			f, base := h1bFieldOf(ch)
			if f == nil || core.StripConv(base) != recv {
				return nil
			}
			if _, isChan := f.Type().Underlying().(*types.Chan); !isChan {
				return nil
			}
			return f
		}
		core.Instrs(loop, func(in ssa.Instruction) {
			switch x := in.(type) {
			case *ssa.Select:
				for i, s := range x.States {
					f := recvField(s.Chan)
					if f == nil || s.Dir != types.RecvOnly {
						continue
					}
					a := arm{fld: f}
					i := int64(i)
					isIdx := func(v ssa.Value) bool {
						ex, ok := v.(*ssa.Extract)
						return ok && ex.Index == 0 && ex.Tuple == ssa.Value(x)
					}
					for _, b := range loop.Blocks {
						if len(b.Instrs) == 0 {
							continue
						}
						for _, ft := range h1bFactsAt(b) {
							if h1bEq(ft, isIdx, h1bIsInt(i)) {
								a.start = append(a.start, b.Instrs[0])
								break
							}
						}
					}
					if !x.Blocking && len(a.start) == 0 {
						continue
					}
					arms = append(arms, a)
				}
			case *ssa.UnOp:
				if x.Op == token.ARROW {
					if f := recvField(x.X); f != nil {
						arms = append(arms, arm{fld: f, start: []ssa.Instruction{x}})
					}
				}
			}
		})
		c.Check(rule, lk+":stop-channel", loop.Pos(), len(arms) >= 1,
			lk+" runs as a goroutine and flushes the writer but receives from no channel field of its receiver: its starter has no way to stop it before the reply is finished")
		isFlushCall := func(in ssa.Instruction) bool {
			ci, ok := in.(ssa.CallInstruction)
			if !ok {
				return false
			}
			if isFlushInvoke(ci.Common()) {
				return true
			}
			sc := ci.Common().StaticCallee()
			return sc != nil && core.FuncPkgRel(sc) == "bfe_http" && flushes(sc, 1)
		}
		stopFields := map[*types.Var]bool{}
		for _, a := range arms {
			stopFields[a.fld] = true
			var hit ssa.Instruction
			for _, s := range a.start {
				if isFlushCall(s) {
					hit = s
				} else if r := core.ReachAvoiding(loop, s, nil, isFlushCall); r != nil {
					hit = r
				}
			}
			c.Check(rule, lk+":after-stop:"+a.fld.Name(), loop.Pos(), len(a.start) > 0 && hit == nil,
				"after "+lk+" took the stop signal from "+a.fld.Name()+" it can still reach a Flush of the writer: the starter (ReverseProxy.copyResponse) has returned from Stop() by then and response.finishRequest flushes the same buffers concurrently - body bytes are emitted twice or interleaved with the chunk terminator")
		}
		// stop methods: methods of T that send on / close a stop field
		stoppers[loop] = map[*ssa.Function]bool{}
		isSignal := func(in ssa.Instruction, recv ssa.Value) bool {
			switch x := in.(type) {
			case *ssa.Send:
				f, base := h1bFieldOf(x.Chan)
				return f != nil && stopFields[f] && core.StripConv(base) == recv
			}
			return false
		}
		for _, m := range c.P.SrcFuncs("bfe_http") {
			if m == loop || recvNamed(m) != T || m.Parent() != nil || len(m.Params) == 0 {
				continue
			}
			mrecv := ssa.Value(m.Params[0])
			touches := false
			core.Instrs(m, func(in ssa.Instruction) {
				switch x := in.(type) {
				case *ssa.Send:
					if f, _ := h1bFieldOf(x.Chan); f != nil && stopFields[f] {
						touches = true
					}
				case *ssa.Select:
					for _, s := range x.States {
						if f, _ := h1bFieldOf(s.Chan); f != nil && stopFields[f] && s.Dir == types.SendOnly {
							touches = true
						}
					}
				}
			})
			if !touches {
				continue
			}
			stoppers[loop][m] = true
			c.Analysed(core.FuncKey(m))
			bad := core.MustPass(m, nil, func(in ssa.Instruction) bool { return isSignal(in, mrecv) })
			c.Check(rule, core.FuncKey(m)+":blocking-send", m.Pos(), bad == nil,
				core.FuncKey(m)+" can return without a blocking send on the stop channel (a `select` with default, a conditional send, an early return): the caller continues while "+lk+" may still be inside Flush")
		}
		c.Check(rule, lk+":stop-method", loop.Pos(), len(stoppers[loop]) >= 1, "no method of "+T.Obj().Name()+" signals the stop channel of "+lk)
		// every channel stored into a stop field is a rendezvous channel
		k := map[string]int{}
		for f := range stopFields {
			stores := core.FieldStores(all, f)
			for _, st := range stores {
				mk, isMk := core.StripConv(st.Store.Val).(*ssa.MakeChan)
				size, isK := int64(-1), false
				if isMk {
					size, isK = h1bConstInt(mk.Size)
				}
				c.Check(rule, h1bOrd(core.FuncKey(st.Fn)+":"+f.Name()+":unbuffered", k), st.Store.Pos(), isMk && isK && size == 0,
					T.Obj().Name()+"."+f.Name()+" is the channel Stop() hands the stop signal over; it is created as "+core.Render(st.Store.Val)+", not as an unbuffered channel: with a buffer the send in Stop() completes at once, the deferred Stop() in copyResponse no longer waits for a Flush in progress, and conn.serveRequest runs response.finishRequest concurrently with that Flush on the same bufio buffers (entity bytes written twice, terminator interleaved)")
			}
			c.Check(rule, lk+":"+f.Name()+":created", loop.Pos(), len(stores) >= 1, "no store to "+T.Obj().Name()+"."+f.Name()+" found: the stop channel is never created")
		}
	}
	// every start is coupled with a stop on the same object
	n := map[string]int{}
	for _, s := range sites {
		fn := s.g.Parent()
		obj := s.g.Call.Args[0]
		ok := false
		core.Instrs(fn, func(in ssa.Instruction) {
			ci, isCall := in.(ssa.CallInstruction)
			if !isCall || in == ssa.Instruction(s.g) {
				return
			}
			sc := ci.Common().StaticCallee()
			if sc == nil || !stoppers[s.loop][sc] || len(ci.Common().Args) == 0 || ci.Common().Args[0] != obj {
				return
			}
			switch in.(type) {
			case *ssa.Defer:
				if h1bCoupled(s.g, in) {
					ok = true
				}
			case *ssa.Call:
				if core.Dominates(s.g, in) && core.MustPass(fn, s.g, func(x ssa.Instruction) bool { return x == in }) == nil {
					ok = true
				}
			}
		})
		c.Check(rule, h1bOrd(core.FuncKey(fn)+":go-"+s.loop.Name(), n), s.g.Pos(), ok,
			core.FuncKey(fn)+" starts "+core.FuncKey(s.loop)+" as a goroutine without a Stop() of the same object on every way out (defer next to the go statement): the flusher keeps writing to the client connection after the reply was finished")
	}
	c.Min(rule, 6)
}

// ---------------------------------------------------------------- C28: reply-flushed

// h1bConnBufPred returns a predicate: the value is the connection's buffered
// reader/writer (conn.buf), possibly narrowed to an embedded part of it.
func h1bConnBufPred(connBuf *types.Var) func(ssa.Value) bool {
	return func(v ssa.Value) bool {
		for i := 0; i < 4; i++ {
			f, base := h1bFieldOf(v)
			if f == connBuf {
				return true
			}
			if f == nil || !f.Embedded() {
				return false
			}
			v = base
		}
		return false
	}
}

// c28ReplyFlushed: replies leave in request order because each one is
// completely on the wire when response.finishRequest returns: the chunk writer
// puts the header block / last-chunk into conn.buf, and conn.buf is flushed
// afterwards on EVERY path. conn.serve relies on it: its own error replies
// (400/413/414) go to the socket directly, past conn.buf, and the next reply is
// written behind whatever is still buffered.
func c28ReplyFlushed(c *core.Ctx, e *h1bSrv) {
	const srv = "bfe_server"
	const rule = "reply-flushed"
	connBuf := h1bField(c, srv, "conn.buf")
	fr := e.finishRequest
	if connBuf == nil || fr == nil {
		return
	}
	isConnBuf := h1bConnBufPred(connBuf)
	isFlush := func(in ssa.Instruction) bool {
		ci, ok := in.(ssa.CallInstruction)
		if !ok {
			return false
		}
		if _, isDefer := in.(*ssa.Defer); isDefer {
			return false
		}
		cc := ci.Common()
		if cc.IsInvoke() {
			return cc.Method.Name() == "Flush" && isConnBuf(cc.Value)
		}
		sc := cc.StaticCallee()
		return sc != nil && sc.Name() == "Flush" && sc.Signature.Recv() != nil && len(cc.Args) >= 1 && isConnBuf(cc.Args[0])
	}
	direct := isFlush
	isFlush = func(in ssa.Instruction) bool {
		if direct(in) {
			return true
		}
		// a helper of bfe_server that flushes conn.buf on every path (one level)
		ci, ok := in.(*ssa.Call)
		if !ok {
			return false
		}
		sc := ci.Call.StaticCallee()
		return sc != nil && sc.Blocks != nil && core.FuncPkgRel(sc) == srv && core.MustPass(sc, nil, direct) == nil
	}
	closes := core.Calls(fr, srv+".chunkWriter.close")
	c.Check(rule, "finishRequest:chunkWriter.close", fr.Pos(), len(closes) >= 1, "finishRequest no longer closes the chunk writer in a form the rule follows")
	for i, cc := range closes {
		bad := core.ReachAvoiding(fr, cc.(ssa.Instruction), isFlush, core.IsExit)
		c.Check(rule, fmt.Sprintf("finishRequest:after-close#%d", i+1), cc.Pos(), bad == nil,
			"after chunkWriter.close() put the end of the reply (header block of a bodiless reply, last-chunk) into conn.buf, finishRequest can return without conn.buf.Flush(): the held-back bytes leave only with the next reply or at close, so a reply that conn.serve writes to the socket directly (400/413/414 for a pipelined bad request) overtakes them - the client sees the replies out of order or a status line inside a chunked body")
	}
	// the raw replies of conn.serve are the writers that depend on it
	if sv := e.serve; sv != nil {
		rwc := h1bField(c, srv, "conn.rwc")
		raw := 0
		for _, ci := range core.AllCalls(sv) {
			if core.CallIs(ci.Common(), "io.WriteString") && len(ci.Common().Args) == 2 {
				if f, _ := h1bFieldOf(ci.Common().Args[0]); f != nil && f == rwc {
					raw++
				}
			}
		}
		if raw > 0 {
			c.Note("C28: conn.serve writes %d replies to the socket directly (past conn.buf); their order relies on rule reply-flushed", raw)
		}
	}
	c.Min(rule, 2)
}

// c28RequestFramingByHeader: "never interprets body bytes as a new request"
// needs the request body reader to be chosen from Transfer-Encoding and
// Content-Length alone. readTransfer/fixLength are shared with responses, where
// the method of the ORIGINATING request suppresses the body (reply to HEAD);
// the obligation (one per method-dependent branch of the framing functions,
// shared with C24) is that this method can never be the parsed request's own.
func c28RequestFramingByHeader(c *core.Ctx) {
	if c.P.Pkg("bfe_http") == nil {
		c.Missing("bfe_http")
		return
	}
	c24MethodIndependent(c, h1aNewFacts())
}

// c28BodyFromFraming: the body (and length) a parsed request carries is the one
// the framing code built from Transfer-Encoding / Content-Length. In everything
// ReadRequest runs, a store to Request.Body or Request.ContentLength is an
// obligation: its value is the transferReader's Body / ContentLength. A
// shortcut next to the parser (`if req.Method == "HEAD" { req.Body =
// EofReader }`) leaves the declared body bytes on the connection, where
// conn.serve parses them as the next request.
func c28BodyFromFraming(c *core.Ctx) {
	const pkg = "bfe_http"
	const rule = "body-from-framing"
	rd := h1bFunc(c, pkg, "ReadRequest")
	pairs := [][2]*types.Var{
		{h1bField(c, pkg, "Request.Body"), h1bField(c, pkg, "transferReader.Body")},
		{h1bField(c, pkg, "Request.ContentLength"), h1bField(c, pkg, "transferReader.ContentLength")},
	}
	if rd == nil {
		return
	}
	var scope []*ssa.Function
	for _, f := range core.TransitiveCallees(rd, 3) {
		if core.FuncPkgRel(f) == pkg {
			scope = append(scope, f)
		}
	}
	if cr := c.P.Func("bfe_server", "conn.readRequest"); cr != nil && cr.Blocks != nil {
		scope = append(scope, core.WithClosures(cr)...)
	}
	n := map[string]int{}
	for _, p := range pairs {
		if p[0] == nil || p[1] == nil {
			continue
		}
		for _, st := range core.FieldStores(scope, p[0]) {
			f, _ := h1bFieldOf(st.Store.Val)
			c.Check(rule, h1bOrd(core.FuncKey(st.Fn)+":Request."+p[0].Name(), n), st.Store.Pos(), f == p[1],
				"while a request is read, Request."+p[0].Name()+" is set to "+core.Render(st.Store.Val)+" instead of the transferReader's "+p[1].Name()+
					" (what readTransfer derived from Transfer-Encoding / Content-Length): the declared body is not consumed through the request's Body, its bytes stay on the connection and are parsed as the next request")
		}
	}
	c.Min(rule, 2)
}
