package rules

// Third batch of helpers for the bfe_spdy (C40) and action-module (C49) rules.
//
//   - C40 body-invariant, converse direction: a request built for a stream in
//     state open carries a body pipe on EVERY success path (not only "the pipe
//     is created under state == open").
//   - C49 query-cache-sync: bfe_basic.Request.Query is a cache of the parsed
//     URL.RawQuery; whoever rewrites the raw query of a request must update
//     the cache (or drop it) with the same keys.
//   - C49 variable-scanner: the scanner that cuts "%variable" pieces out of a
//     header value agrees with the table of variable names - decided by
//     compile-time evaluation (constant folding) of the scanner on the table's
//     keys with a small SSA evaluator for pure string functions.

import (
	"fmt"
	"go/constant"
	"go/token"
	"go/types"
	"os"
	"sort"
	"strings"
	"unicode"
	"unicode/utf8"

	"golang.org/x/tools/go/ssa"

	"verif/internal/core"
)

// ---------------------------------------------------------------------------
// C40: open stream => body pipe

// c40OpenHasPipe — rule body-invariant, keys newWriterAndRequest:open-has-pipe.
//
// processData panics ("should have a body in this state") on the first DATA
// frame of a stream that is registered in state open without a body pipe. The
// pipe is created by newWriterAndRequest; the existing obligation pipe#n says
// the store is made under state == open. This is the converse: every success
// return that can be reached without contradicting `st.state == stateOpen`
// has passed a store of a non-nil pipe into RequestBody.pipe - whatever else
// the request says (method, Content-Length, headers).
func c40OpenHasPipe(c *core.Ctx, f *ssa.Function, pipeField *types.Var, open int64) {
	const rule = "body-invariant"
	isState := func(v ssa.Value) bool { return strings.HasSuffix(core.Render(v), ".state") }
	// the edge contradicts "the stream is open"
	contradicts := func(from *ssa.BasicBlock, succ int) bool {
		if len(from.Instrs) == 0 || len(from.Succs) != 2 || from.Succs[0] == from.Succs[1] {
			return false
		}
		ifi, ok := from.Instrs[len(from.Instrs)-1].(*ssa.If)
		if !ok {
			return false
		}
		cmp, ok := spdyNorm(ifi.Cond, succ == 0, isState)
		if !ok {
			return false
		}
		k, isK := spdyConstInt(cmp.Other)
		if !isK {
			return false
		}
		return (cmp.Op == token.NEQ && k == open) || (cmp.Op == token.EQL && k != open)
	}
	tests := 0
	core.Instrs(f, func(in ssa.Instruction) {
		if ifi, ok := in.(*ssa.If); ok {
			if cmp, ok := spdyNorm(ifi.Cond, true, isState); ok {
				if k, isK := spdyConstInt(cmp.Other); isK && k == open {
					tests++
				}
			}
		}
	})
	if tests == 0 {
		c.Check(rule, "newWriterAndRequest:open-has-pipe", f.Pos(), false, "newWriterAndRequest no longer branches on st.state == stateOpen: whether an open stream gets a body pipe cannot be decided")
		return
	}
	direct := func(in ssa.Instruction) bool {
		s, ok := spdyFieldStore(in, pipeField)
		return ok && !spdyIsNil(s.Val)
	}
	// the store itself, or a call of a package function that makes it on
	// every path to its return (the creation extracted into a helper)
	isPipeStore := func(in ssa.Instruction) bool {
		if direct(in) {
			return true
		}
		ci, ok := in.(ssa.CallInstruction)
		if !ok {
			return false
		}
		if _, isGo := in.(*ssa.Go); isGo {
			return false
		}
		if _, isDefer := in.(*ssa.Defer); isDefer {
			return false
		}
		g := ci.Common().StaticCallee()
		if g == nil || g == f || len(g.Blocks) == 0 || core.FuncPkgRel(g) != spdyPkg {
			return false
		}
		return len(core.Returns(g)) > 0 && core.MustPass(g, nil, direct) == nil
	}
	n := 0
	for _, r := range core.Returns(f) {
		if !spdySuccessReturn(r) {
			continue
		}
		n++
		bad := spdyEntryReachesAvoiding(f, r.Block(), isPipeStore, func(from *ssa.BasicBlock, i int) bool { return !contradicts(from, i) })
		c.Check(rule, fmt.Sprintf("newWriterAndRequest:open-has-pipe:return#%d", n), r.Pos(), !bad,
			"a request is built successfully for a stream in state open (SYN_STREAM without FLAG_FIN) on a path that creates no body pipe (no non-nil store to RequestBody.pipe): the stream stays registered open with st.body == nil, and the next DATA frame on it - even the empty DATA+FIN that legally ends the request - hits processData's `panic(\"internal error: should have a body in this state\")`, which kills the serve goroutine and every stream of the connection. The pipe must depend on the stream state only, not on method, Content-Length or other request properties")
	}
	if n == 0 {
		c.Check(rule, "newWriterAndRequest:open-has-pipe", f.Pos(), false, "newWriterAndRequest has no success return")
	}
}

// c40OpenStateFixedBeforeRequest — rule body-invariant, keys open-writer#n.
//
// The decision "this stream has a body" is taken once, from st.state, when the
// request is built. A store that can put a stream into state open must
// therefore come before that decision: in processSynStream, dominating the
// call of newWriterAndRequest.
func c40OpenStateFixedBeforeRequest(c *core.Ctx, fns []*ssa.Function, stateField *types.Var, open int64) {
	const rule = "body-invariant"
	n := 0
	for _, st := range core.FieldStores(fns, stateField) {
		k, isK := spdyConstInt(st.Store.Val)
		if isK && k != open {
			continue
		}
		n++
		ok := false
		if isK && spdyShort(st.Fn) == "serverConn.processSynStream" {
			calls := core.Calls(st.Fn, spdyPkg+".serverConn.newWriterAndRequest")
			ok = len(calls) > 0
			for _, call := range calls {
				if !core.Dominates(st.Store, call.(ssa.Instruction)) {
					ok = false
				}
			}
		}
		c.Check(rule, fmt.Sprintf("open-writer#%d@%s", n, spdyShort(st.Fn)), st.Store.Pos(), ok,
			"stream.state is set to stateOpen (or to a value that is not a constant) in "+spdyShort(st.Fn)+" at a place that does not precede the construction of the request in processSynStream: the body pipe is created from the state the stream had when newWriterAndRequest ran, so a stream opened afterwards has no body and the first DATA frame on it panics in processData")
	}
	if n == 0 {
		c.Check(rule, "open-writer", token.NoPos, false, "no store that puts a stream into state open was found")
	}
}

// ---------------------------------------------------------------------------
// C49: cached parsed query

// mdReqQueryCache: v addresses / selects bfe_basic.Request.Query.
func mdReqQueryCache(v ssa.Value) bool {
	return mdIsFieldOf(v, core.ModPath+"/bfe_basic", "Request", "Query")
}

// mdFromRequestURL: the address of a URL field is reached through the
// HttpRequest of a bfe_basic.Request (req.HttpRequest.URL.RawQuery).
func mdFromRequestURL(addr ssa.Value) bool {
	sl := mdNewSlicer(0, nil)
	sl.walk(addr, nil)
	return sl.has(func(v ssa.Value) bool {
		return mdIsFieldOf(v, core.ModPath+"/bfe_basic", "Request", "HttpRequest")
	})
}

// mdC49QueryCache — rule query-cache-sync.
//
// bfe_basic.Request.Query caches the parsed form of URL.RawQuery; conditions
// (req_query_*) and the query actions read it through CachedQuery/queryParse
// and never re-parse once it is set. The converse of query-raw-sync: a
// function that rewrites the raw query of a request
//
//	(writers)        is one of the reviewed editors (no other function of the
//	                 module stores req.HttpRequest.URL.RawQuery),
//	(mutates-cache)  changes the cached map it obtained from Request.Query
//	                 (url.Values Set/Add/Del or an index store), or drops the
//	                 cache by storing nil to Request.Query,
//	(key#i)          and every configured key/value the new raw query is
//	                 computed from (string parameters, elements of []string
//	                 parameters) is an operand of such a change.
func mdC49QueryCache(c *core.Ctx) {
	const act = "bfe_basic/action"
	const rule = "query-cache-sync"
	editors := []string{"ReqQueryAdd", "ReqQueryRename", "ReqQueryDel", "ReqQueryDelAllExcept"}
	reviewed := map[*ssa.Function]bool{}
	isRawStore := func(in ssa.Instruction) (*ssa.Store, bool) {
		st, ok := in.(*ssa.Store)
		if !ok || !mdIsFieldOf(st.Addr, "net/url", "URL", "RawQuery") {
			return nil, false
		}
		return st, true
	}
	for _, name := range editors {
		fn := c.P.Func(act, name)
		if fn == nil {
			c.Missing(act + "." + name)
			continue
		}
		c.Analysed(core.FuncKey(fn))
		fns := mdPkgClosure(fn, 3)
		for _, f := range fns {
			reviewed[f] = true
		}
		sites := mdPkgCallSites(fns)
		// walk v in f with f's parameters bound to the arguments of its call
		// sites inside the closure
		walkIn := func(sl *mdSlicer, f *ssa.Function, v ssa.Value) {
			bound := false
			if f != fn {
				for _, cs := range sites[f] {
					if call, ok := cs.(*ssa.Call); ok {
						sl.walk(v, &mdSliceCtx{call: call, depth: 1})
						bound = true
					}
				}
			}
			if !bound {
				sl.walk(v, nil)
			}
		}
		raw := mdNewSlicer(3, nil)
		stores := 0
		for _, f := range fns {
			f := f
			core.Instrs(f, func(in ssa.Instruction) {
				if st, ok := isRawStore(in); ok {
					stores++
					walkIn(raw, f, st.Val)
				}
			})
		}
		if stores == 0 {
			continue // reported by query-raw-sync
		}
		// changes of the cached map, and invalidations
		ops := mdNewSlicer(3, nil)
		changes, dropped := 0, false
		for _, f := range fns {
			f := f
			core.Instrs(f, func(in ssa.Instruction) {
				var recv ssa.Value
				var args []ssa.Value
				switch x := in.(type) {
				case *ssa.Call:
					if !core.CallIs(&x.Call, "net/url.Values.Del", "net/url.Values.Set", "net/url.Values.Add") || len(x.Call.Args) < 2 {
						return
					}
					recv, args = x.Call.Args[0], x.Call.Args[1:]
				case *ssa.MapUpdate:
					if core.TypeStr(x.Map.Type()) != "net/url.Values" {
						return
					}
					recv, args = x.Map, []ssa.Value{x.Key, x.Value}
				case *ssa.Store:
					if mdReqQueryCache(x.Addr) && mdIsNil(x.Val) {
						dropped = true
					}
					return
				default:
					return
				}
				rs := mdNewSlicer(3, nil)
				walkIn(rs, f, recv)
				if !rs.has(mdReqQueryCache) {
					return // a private copy, not the request's cache
				}
				changes++
				for _, a := range args {
					walkIn(ops, f, a)
				}
			})
		}
		c.Check(rule, name+":mutates-cache", fn.Pos(), changes > 0 || dropped,
			name+" rewrites URL.RawQuery of the request but neither changes the cached parsed query (url.Values Set/Add/Del/index store on the map obtained from Request.Query) nor drops it (Request.Query = nil): once a req_query_* condition or an earlier query action has filled the cache, later actions and conditions work on a stale map - e.g. QUERY_DEL_ALL_EXCEPT iterates the cached keys and leaves the new key in the query sent to the backend, QUERY_RENAME of it is a silent no-op")
		if dropped {
			continue
		}
		// configured strings in the new raw query
		var leaves []ssa.Value
		for v := range raw.out {
			switch x := v.(type) {
			case *ssa.Parameter:
				if x.Parent() == fn && core.TypeStr(x.Type()) == "string" {
					leaves = append(leaves, v)
				}
			case *ssa.UnOp:
				if ia, ok := x.X.(*ssa.IndexAddr); ok && x.Op == token.MUL {
					if p, ok := ia.X.(*ssa.Parameter); ok && p.Parent() == fn && core.TypeStr(p.Type()) == "[]string" {
						leaves = append(leaves, v)
					}
				}
			}
		}
		sort.Slice(leaves, func(i, j int) bool {
			if leaves[i].Pos() != leaves[j].Pos() {
				return leaves[i].Pos() < leaves[j].Pos()
			}
			return leaves[i].Name() < leaves[j].Name()
		})
		for i, v := range leaves {
			_, ok := ops.out[v]
			c.Check(rule, fmt.Sprintf("%s:key#%d", name, i), v.Pos(), ok,
				"the raw query written by "+name+" is computed from the configured string "+core.Render(v)+", but no change of the cached parsed query uses it: URL.RawQuery and Request.Query disagree about this key/value after the action")
		}
	}
	// census of raw-query writers on a request's URL
	n := 0
	ord := map[string]int{}
	for _, f := range c.P.SrcFuncs("") {
		f := f
		core.Instrs(f, func(in ssa.Instruction) {
			st, ok := isRawStore(in)
			if !ok {
				return
			}
			if !reviewed[f] && !mdFromRequestURL(st.Addr) {
				return // the RawQuery of some other URL (a parsed header value)
			}
			fk := core.FuncKey(f)
			n++
			ord[fk]++
			c.Check(rule, fmt.Sprintf("writers|%s#%d", fk, ord[fk]), st.Pos(), reviewed[f],
				fk+" stores URL.RawQuery of a request but is not one of the reviewed query editors ("+strings.Join(editors, ", ")+"): the cached parsed query (Request.Query) is not kept in step with it")
		})
	}
	c.Note("query-cache-sync: %d stores to a request's URL.RawQuery", n)
	c.Min(rule, 12)
}

// ---------------------------------------------------------------------------
// compile-time evaluation of pure string functions

// mdEvalErr is the reason an evaluation could not be completed.
type mdEvalErr struct{ msg string }

type mdRangeIter struct {
	s   string
	pos int
}

// mdElemPtr points at an element of an evaluated array/slice backing store;
// mdCell is a scalar local variable.
type mdElemPtr struct {
	arr []interface{}
	i   int
}
type mdCell struct{ v interface{} }

// mdEvaluator folds a call of a side-effect free module function on constant
// arguments. Values: int64 (all integer kinds, wrapped to the width of their
// type), string, bool, []interface{} (slices and tuples), *mdCell, mdElemPtr,
// *mdRangeIter. Anything else stops the evaluation with an error; so do
// run-time panics (index out of range) and an exhausted step budget.
type mdEvaluator struct {
	steps int
	depth int
}

func (e *mdEvaluator) fail(format string, a ...interface{}) {
	panic(&mdEvalErr{fmt.Sprintf(format, a...)})
}

// mdEvalCall evaluates fn(args...) and returns its results.
func mdEvalCall(fn *ssa.Function, args ...interface{}) (res []interface{}, err error) {
	e := &mdEvaluator{}
	defer func() {
		if r := recover(); r != nil {
			if ee, ok := r.(*mdEvalErr); ok {
				res, err = nil, fmt.Errorf("%s", ee.msg)
			} else {
				res, err = nil, fmt.Errorf("construct outside the evaluated subset (%v)", r)
			}
		}
	}()
	return e.call(fn, args), nil
}

func mdWrapInt(v int64, t types.Type) int64 {
	b, ok := t.Underlying().(*types.Basic)
	if !ok {
		return v
	}
	switch b.Kind() {
	case types.Int8:
		return int64(int8(v))
	case types.Int16:
		return int64(int16(v))
	case types.Int32:
		return int64(int32(v))
	case types.Uint8:
		return int64(uint8(v))
	case types.Uint16:
		return int64(uint16(v))
	case types.Uint32:
		return int64(uint32(v))
	}
	return v
}

func mdIsUnsigned(t types.Type) bool {
	b, ok := t.Underlying().(*types.Basic)
	return ok && b.Info()&types.IsUnsigned != 0
}

func (e *mdEvaluator) zero(t types.Type) interface{} {
	switch u := t.Underlying().(type) {
	case *types.Basic:
		switch {
		case u.Info()&types.IsString != 0:
			return ""
		case u.Info()&types.IsBoolean != 0:
			return false
		case u.Info()&types.IsInteger != 0:
			return int64(0)
		}
	case *types.Slice:
		return []interface{}(nil)
	case *types.Array:
		arr := make([]interface{}, int(u.Len()))
		for i := range arr {
			arr[i] = e.zero(u.Elem())
		}
		return arr
	}
	e.fail("values of type %s are not evaluated", t)
	return nil
}

func (e *mdEvaluator) call(fn *ssa.Function, args []interface{}) []interface{} {
	if fn == nil || len(fn.Blocks) == 0 {
		e.fail("call of a function without a body")
	}
	if e.depth > 8 {
		e.fail("call depth exceeded in %s", core.FuncKey(fn))
	}
	if len(args) != len(fn.Params) || len(fn.FreeVars) > 0 {
		e.fail("%s: closures / argument mismatch are not evaluated", core.FuncKey(fn))
	}
	e.depth++
	defer func() { e.depth-- }()
	env := map[ssa.Value]interface{}{}
	for i, p := range fn.Params {
		env[p] = args[i]
	}
	get := func(v ssa.Value) interface{} {
		if k, ok := v.(*ssa.Const); ok {
			if k.Value == nil {
				return e.zero(k.Type())
			}
			switch k.Value.Kind() {
			case constant.Bool:
				return constant.BoolVal(k.Value)
			case constant.String:
				return constant.StringVal(k.Value)
			case constant.Int:
				if i, exact := constant.Int64Val(k.Value); exact {
					return i
				}
			}
			e.fail("constant %s is not evaluated", k)
		}
		x, ok := env[v]
		if !ok {
			e.fail("%s: value %s (%T) is not evaluated", core.FuncKey(fn), v.Name(), v)
		}
		return x
	}
	geti := func(v ssa.Value) int64 {
		i, ok := get(v).(int64)
		if !ok {
			e.fail("%s: %s is not an integer", core.FuncKey(fn), v.Name())
		}
		return i
	}
	var prev *ssa.BasicBlock
	b := fn.Blocks[0]
	for {
		// phis first, in parallel
		if prev != nil {
			pi := -1
			for i, p := range b.Preds {
				if p == prev {
					pi = i
				}
			}
			var phis []*ssa.Phi
			var vals []interface{}
			for _, in := range b.Instrs {
				phi, ok := in.(*ssa.Phi)
				if !ok {
					break
				}
				if pi < 0 {
					e.fail("broken CFG")
				}
				phis = append(phis, phi)
				vals = append(vals, get(phi.Edges[pi]))
			}
			for i, phi := range phis {
				env[phi] = vals[i]
			}
		}
		var next *ssa.BasicBlock
		for _, in := range b.Instrs {
			e.steps++
			if e.steps > 200000 {
				e.fail("step budget exhausted (non-terminating on this input?)")
			}
			switch x := in.(type) {
			case *ssa.Phi, *ssa.DebugRef:
			case *ssa.Alloc:
				t := x.Type().Underlying().(*types.Pointer).Elem()
				if _, isArr := t.Underlying().(*types.Array); isArr {
					env[x] = e.zero(t)
				} else {
					env[x] = &mdCell{e.zero(t)}
				}
			case *ssa.Store:
				switch p := get(x.Addr).(type) {
				case *mdCell:
					p.v = get(x.Val)
				case mdElemPtr:
					p.arr[p.i] = get(x.Val)
				default:
					e.fail("%s: store through an address that is not evaluated", core.FuncKey(fn))
				}
			case *ssa.IndexAddr:
				arr, ok := get(x.X).([]interface{})
				i := geti(x.Index)
				if !ok {
					e.fail("%s: indexing a value that is not evaluated", core.FuncKey(fn))
				}
				if i < 0 || int(i) >= len(arr) {
					e.fail("index out of range [%d] with length %d in %s", i, len(arr), core.FuncKey(fn))
				}
				env[x] = mdElemPtr{arr, int(i)}
			case *ssa.UnOp:
				switch x.Op {
				case token.NOT:
					bv, ok := get(x.X).(bool)
					if !ok {
						e.fail("! of a non-boolean")
					}
					env[x] = !bv
				case token.SUB:
					env[x] = mdWrapInt(-geti(x.X), x.Type())
				case token.XOR:
					env[x] = mdWrapInt(^geti(x.X), x.Type())
				case token.MUL:
					switch p := get(x.X).(type) {
					case *mdCell:
						env[x] = p.v
					case mdElemPtr:
						env[x] = p.arr[p.i]
					default:
						e.fail("%s: load through an address that is not evaluated", core.FuncKey(fn))
					}
				default:
					e.fail("operator %s is not evaluated", x.Op)
				}
			case *ssa.BinOp:
				env[x] = e.binop(x, get(x.X), get(x.Y))
			case *ssa.ChangeType:
				env[x] = get(x.X)
			case *ssa.Convert:
				env[x] = e.convert(get(x.X), x.X.Type(), x.Type())
			case *ssa.Index:
				i := geti(x.Index)
				switch s := get(x.X).(type) {
				case string:
					if i < 0 || int(i) >= len(s) {
						e.fail("index out of range [%d] with length %d in %s", i, len(s), core.FuncKey(fn))
					}
					env[x] = int64(s[i])
				case []interface{}:
					if i < 0 || int(i) >= len(s) {
						e.fail("index out of range [%d] with length %d in %s", i, len(s), core.FuncKey(fn))
					}
					env[x] = s[i]
				default:
					e.fail("%s: indexing a value that is not evaluated", core.FuncKey(fn))
				}
			case *ssa.Lookup:
				s, ok := get(x.X).(string)
				if !ok || x.CommaOk {
					e.fail("%s: map lookups are not evaluated", core.FuncKey(fn))
				}
				i := geti(x.Index)
				if i < 0 || int(i) >= len(s) {
					e.fail("index out of range [%d] with length %d in %s", i, len(s), core.FuncKey(fn))
				}
				env[x] = int64(s[i])
			case *ssa.Slice:
				lo, hi := int64(0), int64(-1)
				if x.Low != nil {
					lo = geti(x.Low)
				}
				if x.High != nil {
					hi = geti(x.High)
				}
				if x.Max != nil {
					e.fail("3-index slices are not evaluated")
				}
				switch s := get(x.X).(type) {
				case string:
					if hi < 0 {
						hi = int64(len(s))
					}
					if lo < 0 || lo > hi || hi > int64(len(s)) {
						e.fail("slice bounds out of range [%d:%d] with length %d in %s", lo, hi, len(s), core.FuncKey(fn))
					}
					env[x] = s[lo:hi]
				case []interface{}:
					if hi < 0 {
						hi = int64(len(s))
					}
					if lo < 0 || lo > hi || hi > int64(len(s)) {
						e.fail("slice bounds out of range [%d:%d] with length %d in %s", lo, hi, len(s), core.FuncKey(fn))
					}
					env[x] = s[lo:hi:hi]
				default:
					e.fail("%s: slicing a value that is not evaluated", core.FuncKey(fn))
				}
			case *ssa.MakeSlice:
				st, ok := x.Type().Underlying().(*types.Slice)
				if !ok {
					e.fail("make of a non-slice")
				}
				n := geti(x.Len)
				if n < 0 || n > 1<<16 {
					e.fail("make with length %d", n)
				}
				arr := make([]interface{}, int(n))
				for i := range arr {
					arr[i] = e.zero(st.Elem())
				}
				env[x] = arr
			case *ssa.Range:
				s, ok := get(x.X).(string)
				if !ok {
					e.fail("%s: range over a map is not evaluated", core.FuncKey(fn))
				}
				env[x] = &mdRangeIter{s: s}
			case *ssa.Next:
				it, ok := get(x.Iter).(*mdRangeIter)
				if !ok || !x.IsString {
					e.fail("%s: iterator is not evaluated", core.FuncKey(fn))
				}
				if it.pos >= len(it.s) {
					env[x] = []interface{}{false, int64(0), int64(0)}
				} else {
					r, w := utf8.DecodeRuneInString(it.s[it.pos:])
					env[x] = []interface{}{true, int64(it.pos), int64(r)}
					it.pos += w
				}
			case *ssa.Extract:
				tup, ok := get(x.Tuple).([]interface{})
				if !ok || x.Index >= len(tup) {
					e.fail("%s: tuple is not evaluated", core.FuncKey(fn))
				}
				env[x] = tup[x.Index]
			case *ssa.Call:
				var av []interface{}
				if x.Call.IsInvoke() {
					e.fail("%s: interface calls are not evaluated", core.FuncKey(fn))
				}
				for _, a := range x.Call.Args {
					av = append(av, get(a))
				}
				res := e.apply(&x.Call, av)
				if x.Call.Signature().Results().Len() == 1 {
					env[x] = res[0]
				} else {
					env[x] = res
				}
			case *ssa.If:
				cv, ok := get(x.Cond).(bool)
				if !ok {
					e.fail("branch on a non-boolean")
				}
				if cv {
					next = b.Succs[0]
				} else {
					next = b.Succs[1]
				}
			case *ssa.Jump:
				next = b.Succs[0]
			case *ssa.Return:
				var out []interface{}
				for _, r := range x.Results {
					out = append(out, get(r))
				}
				return out
			case *ssa.Panic:
				e.fail("%s panics on this input", core.FuncKey(fn))
			default:
				e.fail("%s: instruction %T is not evaluated", core.FuncKey(fn), in)
			}
		}
		if next == nil {
			e.fail("%s: block without successor", core.FuncKey(fn))
		}
		prev, b = b, next
	}
}

func (e *mdEvaluator) binop(x *ssa.BinOp, a, b interface{}) interface{} {
	switch av := a.(type) {
	case bool:
		bv, ok := b.(bool)
		if ok && x.Op == token.EQL {
			return av == bv
		}
		if ok && x.Op == token.NEQ {
			return av != bv
		}
	case string:
		bv, ok := b.(string)
		if !ok {
			break
		}
		switch x.Op {
		case token.ADD:
			if len(av)+len(bv) > 1<<20 {
				e.fail("string grows beyond 1 MiB")
			}
			return av + bv
		case token.EQL:
			return av == bv
		case token.NEQ:
			return av != bv
		case token.LSS:
			return av < bv
		case token.LEQ:
			return av <= bv
		case token.GTR:
			return av > bv
		case token.GEQ:
			return av >= bv
		}
	case int64:
		bv, ok := b.(int64)
		if !ok {
			break
		}
		switch x.Op {
		case token.EQL:
			return av == bv
		case token.NEQ:
			return av != bv
		case token.LSS:
			return av < bv
		case token.LEQ:
			return av <= bv
		case token.GTR:
			return av > bv
		case token.GEQ:
			return av >= bv
		}
		var r int64
		switch x.Op {
		case token.ADD:
			r = av + bv
		case token.SUB:
			r = av - bv
		case token.MUL:
			r = av * bv
		case token.QUO, token.REM:
			if bv == 0 {
				e.fail("integer divide by zero")
			}
			if mdIsUnsigned(x.Type()) && (av < 0 || bv < 0) {
				e.fail("64-bit unsigned division is not evaluated")
			}
			if x.Op == token.QUO {
				r = av / bv
			} else {
				r = av % bv
			}
		case token.AND:
			r = av & bv
		case token.OR:
			r = av | bv
		case token.XOR:
			r = av ^ bv
		case token.AND_NOT:
			r = av &^ bv
		case token.SHL:
			if bv < 0 || bv > 63 {
				e.fail("shift count %d", bv)
			}
			r = av << uint(bv)
		case token.SHR:
			if bv < 0 || bv > 63 || (mdIsUnsigned(x.Type()) && av < 0) {
				e.fail("shift is not evaluated")
			}
			r = av >> uint(bv)
		default:
			e.fail("operator %s is not evaluated", x.Op)
		}
		return mdWrapInt(r, x.Type())
	}
	e.fail("operator %s on these operands is not evaluated", x.Op)
	return nil
}

func (e *mdEvaluator) convert(v interface{}, from, to types.Type) interface{} {
	tb, ok := to.Underlying().(*types.Basic)
	if !ok {
		e.fail("conversion to %s is not evaluated", to)
	}
	switch x := v.(type) {
	case int64:
		if tb.Info()&types.IsInteger != 0 {
			return mdWrapInt(x, to)
		}
		if tb.Info()&types.IsString != 0 {
			if x < 0 || x > unicode.MaxRune {
				return string(utf8.RuneError)
			}
			return string(rune(x))
		}
	case string:
		if tb.Info()&types.IsString != 0 {
			return x
		}
	}
	e.fail("conversion from %s to %s is not evaluated", from, to)
	return nil
}

// apply evaluates a call: builtins, a fixed set of pure library functions, and
// module functions with a body (recursively).
func (e *mdEvaluator) apply(cc *ssa.CallCommon, a []interface{}) []interface{} {
	str := func(i int) string {
		s, ok := a[i].(string)
		if !ok {
			e.fail("argument %d of %s is not a string", i, core.CalleeKey(cc))
		}
		return s
	}
	num := func(i int) int64 {
		n, ok := a[i].(int64)
		if !ok {
			e.fail("argument %d of %s is not an integer", i, core.CalleeKey(cc))
		}
		return n
	}
	one := func(v interface{}) []interface{} { return []interface{}{v} }
	if bi, ok := cc.Value.(*ssa.Builtin); ok {
		switch bi.Name() {
		case "len":
			switch s := a[0].(type) {
			case string:
				return one(int64(len(s)))
			case []interface{}:
				return one(int64(len(s)))
			}
		case "append":
			s, ok1 := a[0].([]interface{})
			t, ok2 := a[1].([]interface{})
			if ok1 && ok2 {
				if len(s)+len(t) > 1<<16 {
					e.fail("slice grows beyond 65536 elements")
				}
				out := make([]interface{}, 0, len(s)+len(t))
				out = append(out, s...)
				return one(append(out, t...))
			}
		}
		e.fail("builtin %s on these operands is not evaluated", bi.Name())
	}
	sc := cc.StaticCallee()
	if sc == nil {
		e.fail("dynamic calls are not evaluated")
	}
	if len(sc.Blocks) > 0 && core.FuncPkgRel(sc) != "" {
		return e.call(sc, a)
	}
	key := core.CalleeKey(cc)
	switch key {
	case "strings.Contains":
		return one(strings.Contains(str(0), str(1)))
	case "strings.ContainsAny":
		return one(strings.ContainsAny(str(0), str(1)))
	case "strings.ContainsRune":
		return one(strings.ContainsRune(str(0), rune(num(1))))
	case "strings.Index":
		return one(int64(strings.Index(str(0), str(1))))
	case "strings.IndexByte":
		return one(int64(strings.IndexByte(str(0), byte(num(1)))))
	case "strings.IndexRune":
		return one(int64(strings.IndexRune(str(0), rune(num(1)))))
	case "strings.IndexAny":
		return one(int64(strings.IndexAny(str(0), str(1))))
	case "strings.HasPrefix":
		return one(strings.HasPrefix(str(0), str(1)))
	case "strings.HasSuffix":
		return one(strings.HasSuffix(str(0), str(1)))
	case "strings.ToLower":
		return one(strings.ToLower(str(0)))
	case "strings.ToUpper":
		return one(strings.ToUpper(str(0)))
	case "strings.TrimPrefix":
		return one(strings.TrimPrefix(str(0), str(1)))
	case "strings.TrimSuffix":
		return one(strings.TrimSuffix(str(0), str(1)))
	case "unicode.IsLower":
		return one(unicode.IsLower(rune(num(0))))
	case "unicode.IsUpper":
		return one(unicode.IsUpper(rune(num(0))))
	case "unicode.IsDigit":
		return one(unicode.IsDigit(rune(num(0))))
	case "unicode.IsLetter":
		return one(unicode.IsLetter(rune(num(0))))
	case "unicode.IsNumber":
		return one(unicode.IsNumber(rune(num(0))))
	case "unicode.ToLower":
		return one(int64(unicode.ToLower(rune(num(0)))))
	case "unicode.ToUpper":
		return one(int64(unicode.ToUpper(rune(num(0)))))
	}
	e.fail("call of %s is not evaluated", key)
	return nil
}

// ---------------------------------------------------------------------------
// C49: header-value variables

// mdDocVariables reads the "%name" entries in the first column of the
// Markdown tables of a module's documentation page.
func mdDocVariables(relFile string) ([]string, error) {
	b, err := os.ReadFile(core.FileOf(relFile))
	if err != nil {
		return nil, err
	}
	var out []string
	for _, line := range strings.Split(string(b), "\n") {
		t := strings.TrimSpace(line)
		if !strings.HasPrefix(t, "|") {
			continue
		}
		cells := strings.Split(strings.Trim(t, "|"), "|")
		if len(cells) == 0 {
			continue
		}
		cell := strings.TrimSpace(cells[0])
		if strings.HasPrefix(cell, "%") && len(cell) > 1 && !strings.ContainsAny(cell, " \t") {
			out = append(out, cell[1:])
		}
	}
	return out, nil
}

// mdC49HeaderVariables — rules variable-scanner and documented-variable.
//
// A header value such as "__bsi=%bfe_ssl_info;max-age=3600" is cut into
// literal and "%variable" pieces by splitParam, which finds the end of a
// variable name with expectVariableParam; preProcessParams then looks the name
// up in VariableHandlers and rejects the whole action (and the rule file) when
// it is missing. The scanner and the table are two descriptions of one
// language, so they must agree:
//
//	(name)    for every key k of VariableHandlers the scanner consumes exactly
//	          k: expectVariableParam(k) == len(k), and it stops at the
//	          delimiter of the documented example: expectVariableParam(k+";x")
//	          == len(k);
//	(split)   splitParam("x=%"+k+";y=%%z") is lossless (the pieces concatenate
//	          to the input) and contains the piece "%"+k;
//	(doc)     every %variable of the documentation page is a key of the table.
//
// The calls are folded at analysis time by mdEvaluator (nothing of bfe is
// executed); a scanner written in a form the evaluator does not follow is
// reported as undecided.
func mdC49HeaderVariables(c *core.Ctx) {
	const hd = "bfe_modules/mod_header"
	const doc = "docs/en_us/modules/mod_header/mod_header.md"
	keys, pos, ok := mdMapLiteralKeys(c.P, hd, "VariableHandlers")
	if !ok || len(keys) == 0 {
		c.Missing(hd + ".VariableHandlers")
		return
	}
	scan := c.P.Func(hd, "expectVariableParam")
	split := c.P.Func(hd, "splitParam")
	if scan == nil || split == nil {
		c.Missing(hd + ".expectVariableParam/splitParam")
		return
	}
	c.Analysed(core.FuncKey(scan), core.FuncKey(split))
	// the scanner is what splitParam uses
	uses := false
	for _, f := range core.TransitiveCallees(split, 3) {
		if f == scan {
			uses = true
		}
	}
	c.Check("variable-scanner", "splitParam:uses-scanner", split.Pos(), uses, "splitParam no longer reaches expectVariableParam: the scanner checked against the variable table is not the one that cuts header values")
	inTable := map[string]bool{}
	for _, k := range keys {
		inTable[k] = true
		why := ""
		for _, in := range []string{k, k + ";x"} {
			res, err := mdEvalCall(scan, in)
			switch {
			case err != nil:
				why = fmt.Sprintf("expectVariableParam(%q) could not be evaluated: %v", in, err)
			case len(res) != 1:
				why = "expectVariableParam does not return one value"
			default:
				if n, isInt := res[0].(int64); !isInt || n != int64(len(k)) {
					why = fmt.Sprintf("expectVariableParam(%q) = %v, the name is %d bytes long (%q is taken as the variable)", in, res[0], len(k), in[:mdClamp(res[0], len(in))])
				}
			}
			if why != "" {
				break
			}
		}
		c.Check("variable-scanner", "name:"+k, pos, why == "",
			"the variable scanner does not consume exactly the name of the variable %"+k+" that VariableHandlers defines: "+why+"; preProcessParams then finds no handler for the truncated/extended name and REQ/RSP_HEADER_SET/ADD actions using the variable (and the whole header rule file) are rejected, or the tail of the name is emitted as literal text")
		in := "x=%" + k + ";y=%%z"
		why = ""
		res, err := mdEvalCall(split, in)
		if err != nil {
			why = fmt.Sprintf("splitParam(%q) could not be evaluated: %v", in, err)
		} else if pieces, isSlice := res[0].([]interface{}); !isSlice {
			why = "splitParam does not return a slice"
		} else {
			joined, has := "", false
			var strs []string
			for _, p := range pieces {
				s, _ := p.(string)
				joined += s
				strs = append(strs, s)
				if s == "%"+k {
					has = true
				}
			}
			if joined != in {
				why = fmt.Sprintf("splitParam(%q) = %q loses or duplicates text", in, strs)
			} else if !has {
				why = fmt.Sprintf("splitParam(%q) = %q has no piece %q", in, strs, "%"+k)
			}
		}
		c.Check("variable-scanner", "split:"+k, pos, why == "",
			"a header value that embeds %"+k+" is not cut into literal text and the variable: "+why)
	}
	c.Min("variable-scanner", 1+2*30)
	vars, err := mdDocVariables(doc)
	if err != nil || len(vars) == 0 {
		c.Missing(doc + " (variables table)")
		return
	}
	for _, v := range vars {
		c.CheckAt("documented-variable", doc+":%"+v, doc, inTable[v], "documented variable %"+v+" is not a key of mod_header.VariableHandlers: a header action that uses it is rejected at load time")
	}
	c.Min("documented-variable", 20)
}

func mdClamp(v interface{}, max int) int {
	n, ok := v.(int64)
	if !ok || n < 0 {
		return 0
	}
	if int(n) > max {
		return max
	}
	return int(n)
}
