package rules

import (
	"fmt"
	"go/constant"
	"go/token"
	"strings"

	"golang.org/x/tools/go/ssa"

	"verif/internal/core"
)

// C56 — mod_doh: the client-subnet option carries the family / prefix length
// of the client's address, POST bodies over the limit are rejected rather than
// truncated, GET needs exactly one dns value, malformed messages are not
// forwarded.
func init() {
	Register(&Rule{
		ID: "C56", Section: "5 C56",
		Technique: "phi-edge guard analysis of the family/netmask selection, value-flow of the subnet address and of the option into the message, must-pass query for the limited reader's overflow test, guard analysis of the GET/POST decoding and dispatch",
		Meta: core.Meta{
			Level:       "other",
			Explanation: "Decides for bfe_modules/mod_doh: (1) the values stored into EDNS0_SUBNET.Family and .SourceNetmask are selected by a nil-test of To4() of the very address stored in .Address (To16() is non-nil for every valid address and cannot tell the families apart), with 1/32 on the To4() != nil side and 2/128 on the other; (2) that address is req.ClientAddr.IP when ClientAddr is set, else req.RemoteAddr.IP; the subnet option is appended to an OPT record that is appended to the message's Extra, and RequestToDnsMsg calls setClientSubnet on the message it returns on every success path; (3) every ReadAll of a request body in the package goes through an io.LimitedReader/LimitReader over req.Body, and between that read and unpacking there is, on every path, a test of the bytes read / the reader's remaining count whose failing side returns an error (oversized bodies are rejected, not truncated and parsed); (4) requestToMsgGet decodes only when the `dns` query key is present with exactly one value and unpacks only the successfully decoded bytes; (5) unpackMsg returns Unpack's error, both converters return unpackMsg's (msg, err) pair unchanged, RequestToDnsMsg dispatches GET/POST to the matching converter, rejects other methods and returns a message only when the error is nil; DnsClient.Fetch forwards only the message RequestToDnsMsg returned without error. Obligations (1)-(2) are decided over setClientSubnet's region (the function plus its private helpers: unexported, all call sites inside the region, never used as values): the stores may sit in a helper, and the option / OPT record / message / address are identified across parameters (argument at every call site) and results (every returned value). Comparisons are accepted in every spelling. Not covered: helpers extracted from the converters / the dispatcher that carry the (message, error) pair through their own results, the DNS wire format itself (miekg/dns Unpack/Pack), that a pre-existing OPT/ECS record in the client's message is replaced rather than duplicated, the upstream exchange, TTL/Cache-Control arithmetic.",
			RuleText:    "obligations = each phi edge of Family/SourceNetmask with its controlling address test; the Address origins; the option/OPT/Extra attachment chain; each ReadAll of a body; each path from the bounded read to Unpack; the guards of the GET decoder; each return of the converters and of the dispatcher; the forwarding call",
			Assumptions: []string{"net.IP.To4() != nil characterises IPv4 (and IPv4-mapped) addresses (stdlib contract)"},
		},
		Run: runC56,
		Mutants: []Mutant{
			{Name: "family-inverted-with-to4", File: "bfe_modules/mod_doh/dns_msg_convert.go", Old: "\tif cip.To4() == nil {", New: "\tif cip.To4() != nil {", Expect: "family-polarity"},
			{Name: "family-told-apart-by-to16", File: "bfe_modules/mod_doh/dns_msg_convert.go", Old: "\tif cip.To4() == nil {", New: "\tif cip.To16() == nil {", Expect: "family-selector"},
			{Name: "option-not-attached", File: "bfe_modules/mod_doh/dns_msg_convert.go", Old: "	dnsMsg.Extra = append(dnsMsg.Extra, opt)\n", New: "", Expect: "ecs-attached"},
			{Name: "option-code-wrong", File: "bfe_modules/mod_doh/dns_msg_convert.go", Old: "		Code:          dns.EDNS0SUBNET,", New: "		Code:          dns.EDNS0COOKIE,", Expect: "ecs-attached|setClientSubnet:option-code"},
			{Name: "subnet-call-dropped", File: "bfe_modules/mod_doh/dns_msg_convert.go", Old: "	setClientSubnet(req, dnsMsg)\n", New: "", Expect: "ecs-attached"},
			{Name: "address-ignores-client-addr", File: "bfe_modules/mod_doh/dns_msg_convert.go", Old: "	if req.ClientAddr != nil {\n		cip = req.ClientAddr.IP\n	}\n", New: "", Expect: "subnet-address"},
			{Name: "address-other-than-tested", File: "bfe_modules/mod_doh/dns_msg_convert.go", Old: "		Address:       cip,", New: "		Address:       req.RemoteAddr.IP,", Expect: "subnet-address"},
			{Name: "unbounded-post-read", File: "bfe_modules/mod_doh/dns_msg_convert.go", Old: "	buf, err := ioutil.ReadAll(&bodyReader)", New: "	_ = bodyReader\n	buf, err := ioutil.ReadAll(req.Body)", Expect: "bounded-read"},
			{Name: "get-accepts-no-value", File: "bfe_modules/mod_doh/dns_msg_convert.go", Old: "	if len(dnsQuery) != 1 {", New: "	if len(dnsQuery) > 4 {", Expect: "get-one-dns"},
			{Name: "get-decode-error-ignored", File: "bfe_modules/mod_doh/dns_msg_convert.go", Old: "	buf, err := base64.RawURLEncoding.DecodeString(dnsQuery[0])\n	if err != nil {\n		return nil, err\n	}", New: "	buf, err := base64.RawURLEncoding.DecodeString(dnsQuery[0])\n	if err != nil && len(buf) == 0 {\n		return nil, err\n	}", Expect: "get-one-dns"},
			{Name: "unpack-error-dropped", File: "bfe_modules/mod_doh/dns_msg_convert.go", Old: "	err := m.Unpack(buf)\n	return m, err", New: "	m.Unpack(buf)\n	return m, nil", Expect: "unpack-error"},
			{Name: "dispatch-error-ignored", File: "bfe_modules/mod_doh/dns_msg_convert.go", Old: "	if err != nil {\n		return nil, err\n	}\n\n	setClientSubnet", New: "	_ = err\n\n	setClientSubnet", Expect: "dispatch"},
			{Name: "post-routed-to-get", File: "bfe_modules/mod_doh/dns_msg_convert.go", Old: "	case \"POST\":\n		dnsMsg, err = requestToMsgPost(httpRequest)", New: "	case \"POST\", \"PUT\":\n		dnsMsg, err = requestToMsgPost(httpRequest)", Expect: "dispatch"},
			{Name: "fetch-forwards-after-error", File: "bfe_modules/mod_doh/dns_fetcher.go", Old: "			log.Logger.Debug(\"dns client: RequestToDnsMsg error: %v\", err)\n		}\n\n		return nil, err\n	}", New: "			log.Logger.Debug(\"dns client: RequestToDnsMsg error: %v\", err)\n		}\n	}", Expect: "forward-valid"},
			{Name: "silent-family-mirrored", File: "bfe_modules/mod_doh/dns_msg_convert.go", Old: "\tif cip.To4() == nil {\n\t\tfamily = 2\n\t\tsourceNetmask = 128\n\t}\n", New: "\tif v4 := cip.To4(); nil != v4 {\n\t\tfamily = 1\n\t\tsourceNetmask = 32\n\t} else {\n\t\tfamily = 2\n\t\tsourceNetmask = 128\n\t}\n", Silent: true},
			{Name: "silent-overflow-fixed", File: "bfe_modules/mod_doh/dns_msg_convert.go", Old: "	bodyReader := io.LimitedReader{R: req.Body, N: maxPostMsgLength}\n	buf, err := ioutil.ReadAll(&bodyReader)\n	if err != nil {\n		return nil, err\n	}\n", New: "	bodyReader := io.LimitedReader{R: req.Body, N: maxPostMsgLength + 1}\n	buf, err := ioutil.ReadAll(&bodyReader)\n	if err != nil {\n		return nil, err\n	}\n	if int64(len(buf)) > maxPostMsgLength {\n		return nil, fmt.Errorf(\"dns message too large\")\n	}\n", Silent: true},
			{Name: "silent-opt-attach-in-helper", File: "bfe_modules/mod_doh/dns_msg_convert.go", Old: "\topt := new(dns.OPT)\n\topt.Hdr.Name = \".\"\n\topt.Hdr.Rrtype = dns.TypeOPT\n\topt.SetUDPSize(dns.DefaultMsgSize)\n\topt.Option = append(opt.Option, subnet)\n\tdnsMsg.Extra = append(dnsMsg.Extra, opt)\n}\n", New: "\tattachSubnet(dnsMsg, subnet)\n}\n\nfunc attachSubnet(msg *dns.Msg, ecs *dns.EDNS0_SUBNET) {\n\trecord := new(dns.OPT)\n\trecord.Hdr.Name = \".\"\n\trecord.Hdr.Rrtype = dns.TypeOPT\n\trecord.SetUDPSize(dns.DefaultMsgSize)\n\trecord.Option = append(record.Option, ecs)\n\tmsg.Extra = append(msg.Extra, record)\n}\n", Silent: true},
			{Name: "silent-one-value-mirrored", File: "bfe_modules/mod_doh/dns_msg_convert.go", Old: "\tif len(dnsQuery) != 1 {", New: "\tif 1 != len(dnsQuery) {", Silent: true},
		},
	})
}

// mdIPTest decodes `ip.To4() ==/!= nil` (or To16): method, receiver, and
// whether the fact says the result is non-nil.
func mdIPTest(f mdFact) (method string, recv ssa.Value, nonNil bool, ok bool) {
	x, nn, isNil := mdNilTest(f)
	if !isNil {
		return "", nil, false, false
	}
	c2, _ := mdCallOf(x)
	if c2 == nil || !core.CallIs(c2, "net.IP.To4", "net.IP.To16") || len(c2.Args) != 1 {
		return "", nil, false, false
	}
	return c2.StaticCallee().Name(), c2.Args[0], nn, true
}

// mdEdgeFacts: facts that hold when control enters succ from pred (the edge's
// own fact plus those of pred's single-predecessor chain).
func mdEdgeFacts(pred, succ *ssa.BasicBlock) []mdFact {
	var out []mdFact
	if f, ok := mdEdgeFact(pred, succ); ok {
		out = append(out, f)
	}
	seen := map[*ssa.BasicBlock]bool{}
	for cur := pred; cur != nil && !seen[cur] && len(cur.Preds) == 1; cur = cur.Preds[0] {
		seen[cur] = true
		if f, ok := mdEdgeFact(cur.Preds[0], cur); ok {
			out = append(out, f)
		}
	}
	return out
}

// mdSelCase: one constant a selected value may take, with the address test
// (To4/To16 nil-test) that controls the choice.
type mdSelCase struct {
	val    int64
	method string
	recv   ssa.Value
	nonNil bool
	found  bool
}

func mdCaseFromFacts(val int64, facts []mdFact, mapRecv func(ssa.Value) ssa.Value) mdSelCase {
	for _, f := range facts {
		if method, recv, nn, ok := mdIPTest(f); ok {
			return mdSelCase{val, method, mapRecv(recv), nn, true}
		}
	}
	return mdSelCase{val: val}
}

// mdSelection resolves a value that is chosen among integer constants by
// branches (phi) or by the returns of a statically called helper, and pairs
// every constant with the address test controlling it. mapRecv translates the
// tested value into the caller's terms (helper parameter -> argument).
func mdSelection(p *core.Prog, v ssa.Value, mapRecv func(ssa.Value) ssa.Value, depth int) ([]mdSelCase, bool) {
	if depth > 4 {
		return nil, false
	}
	switch x := v.(type) {
	case *ssa.Parameter:
		// the selected value is handed to a private helper: the selection is
		// made at the helper's single call site (tested values are then in the
		// caller's terms; identity is decided by m2SameObj)
		site := m2SoleSite(p, x.Parent())
		i := m2ParamIndex(x)
		if site == nil || i < 0 || i >= len(site.Call.Args) {
			return nil, false
		}
		return mdSelection(p, site.Call.Args[i], mapRecv, depth+1)
	case *ssa.Phi:
		var out []mdSelCase
		for i, e := range x.Edges {
			pred := x.Block().Preds[i]
			if k, ok := mdIntConst(e); ok {
				out = append(out, mdCaseFromFacts(k, mdEdgeFacts(pred, x.Block()), mapRecv))
				continue
			}
			sub, ok := mdSelection(p, e, mapRecv, depth+1)
			if !ok {
				return nil, false
			}
			out = append(out, sub...)
		}
		return out, true
	}
	cc, idx := mdCallOf(v)
	if cc == nil {
		return nil, false
	}
	sc := cc.StaticCallee()
	if sc == nil || sc.Blocks == nil {
		return nil, false
	}
	if idx < 0 {
		idx = 0
	}
	inner := func(r ssa.Value) ssa.Value {
		r = core.StripConv(r)
		if p, ok := r.(*ssa.Parameter); ok && p.Parent() == sc {
			for i, q := range sc.Params {
				if q == p && i < len(cc.Args) {
					return mapRecv(cc.Args[i])
				}
			}
		}
		return r
	}
	var out []mdSelCase
	for _, r := range core.Returns(sc) {
		rv := core.RetVals(r)
		if idx >= len(rv) {
			return nil, false
		}
		if k, ok := mdIntConst(rv[idx]); ok {
			var facts []mdFact
			if b := r.Block(); len(b.Preds) == 1 {
				facts = mdEdgeFacts(b.Preds[0], b)
			}
			out = append(out, mdCaseFromFacts(k, facts, inner))
			continue
		}
		sub, ok := mdSelection(p, rv[idx], inner, depth+1)
		if !ok {
			return nil, false
		}
		out = append(out, sub...)
	}
	return out, len(out) > 0
}

func runC56(c *core.Ctx) {
	const pkg = "bfe_modules/mod_doh"
	const dns = "github.com/miekg/dns"
	if c.P.Pkg(pkg) == nil {
		c.Missing(pkg)
		return
	}
	scs := c.P.Func(pkg, "setClientSubnet")
	r2m := c.P.Func(pkg, "RequestToDnsMsg")
	post := c.P.Func(pkg, "requestToMsgPost")
	get := c.P.Func(pkg, "requestToMsgGet")
	unp := c.P.Func(pkg, "unpackMsg")
	fetch := c.P.Func(pkg, "DnsClient.Fetch")
	for n, f := range map[string]*ssa.Function{"setClientSubnet": scs, "RequestToDnsMsg": r2m, "requestToMsgPost": post, "requestToMsgGet": get, "unpackMsg": unp, "DnsClient.Fetch": fetch} {
		if f == nil {
			c.Missing(pkg + "." + n)
			return
		}
		c.Analysed(core.FuncKey(f))
	}

	if !mdNeedParams(c, 2, scs) || !mdNeedParams(c, 1, r2m, unp) {
		return
	}

	// ---- (1) family / netmask ------------------------------------------------
	var subnet ssa.Value // the EDNS0_SUBNET object
	var address ssa.Value
	fieldStores := map[string]*ssa.Store{}
	region := c.P.Region(scs) // setClientSubnet and its private helpers
	for _, g := range region {
		c.Analysed(core.FuncKey(g))
	}
	c.P.RegionInstrs(scs, func(in ssa.Instruction) {
		st, ok := in.(*ssa.Store)
		if !ok {
			return
		}
		fa, ok := st.Addr.(*ssa.FieldAddr)
		if !ok || !strings.HasSuffix(core.TypeStr(fa.X.Type()), "dns.EDNS0_SUBNET") {
			return
		}
		f := core.FieldObj(fa.X, fa.Field)
		if f == nil {
			return
		}
		subnet = fa.X
		fieldStores[f.Name()] = st
		if f.Name() == "Address" {
			address = st.Val
		}
	})
	if subnet == nil || fieldStores["Family"] == nil || fieldStores["SourceNetmask"] == nil || address == nil {
		c.Missing(pkg + ".setClientSubnet: construction of dns.EDNS0_SUBNET with Family, SourceNetmask and Address")
		return
	}
	same := func(a, b ssa.Value) bool { return m2SameObj(c.P, a, b, 0) || m2SameObj(c.P, b, a, 0) }
	sameAddr := func(v ssa.Value) bool {
		if same(v, address) {
			return true
		}
		// Address may be the To4() form of the tested value
		if c2, _ := mdCallOf(address); c2 != nil && core.CallIs(c2, "net.IP.To4") && len(c2.Args) == 1 && same(c2.Args[0], v) {
			return true
		}
		return false
	}
	want := map[string][2]int64{"Family": {1, 2}, "SourceNetmask": {32, 128}} // [IPv4, IPv6]
	for _, fld := range []string{"Family", "SourceNetmask"} {
		st := fieldStores[fld]
		cases, resolved := mdSelection(c.P, st.Val, m2Ident, 0)
		if !resolved || len(cases) < 2 {
			c.Check("family-selector", "setClientSubnet:"+fld, st.Pos(), false, fld+" is "+core.Render(st.Val)+": not selected between the IPv4 and IPv6 constants by a branch (or a helper's returns) this rule can follow")
			continue
		}
		selOK := true
		why := ""
		type edge struct {
			val    int64
			nonNil bool
		}
		var edges []edge
		for _, cs := range cases {
			if !cs.found {
				selOK = false
				if why == "" {
					why = "no To4() nil-test controls the choice"
				}
				continue
			}
			if cs.method != "To4" {
				selOK = false
				why = "the families are told apart by " + cs.method + "() != nil, which is true for every valid address: IPv4 clients get the IPv6 family / a 128-bit prefix"
			}
			if cs.recv == nil || !sameAddr(cs.recv) {
				selOK = false
				why = "the tested address " + core.Render(cs.recv) + " is not the one stored in Address"
			}
			edges = append(edges, edge{cs.val, cs.nonNil})
		}
		c.Check("family-selector", "setClientSubnet:"+fld, st.Pos(), selOK, fld+" of the client-subnet option: "+why)
		if selOK {
			for _, e := range edges {
				exp := want[fld][1]
				side := "To4() == nil"
				if e.nonNil {
					exp, side = want[fld][0], "To4() != nil"
				}
				c.Check("family-polarity", fmt.Sprintf("setClientSubnet:%s=%d", fld, e.val), st.Pos(), e.val == exp,
					fmt.Sprintf("%s is %d on the %s side; expected %d (IPv4: family 1 / 32 bits, IPv6: family 2 / 128 bits)", fld, e.val, side, exp))
			}
		}
	}
	c.Min("family-selector", 2)

	// ---- (2) address and attachment ---------------------------------------------
	{
		req := ssa.Value(scs.Params[0])
		var leaves []ssa.Value
		var walk func(v ssa.Value, d int)
		seen := map[ssa.Value]bool{}
		walk = func(v ssa.Value, d int) {
			if seen[v] || d > 8 {
				return
			}
			seen[v] = true
			switch x := v.(type) {
			case *ssa.Phi:
				for _, e := range x.Edges {
					walk(e, d+1)
				}
				return
			case *ssa.Parameter:
				// a helper of the region receives the address: its origins are
				// the arguments at the helper's call sites
				if i, sites := m2ParamIndex(x), c.P.CallSites(x.Parent()); x.Parent() != scs && i >= 0 && len(sites) > 0 && x.Parent().Object() != nil && !x.Parent().Object().Exported() {
					for _, s := range sites {
						if a := s.Common().Args; !s.Common().IsInvoke() && i < len(a) {
							walk(a[i], d+1)
						} else {
							leaves = append(leaves, v)
						}
					}
					return
				}
			case *ssa.Call:
				if core.CallIs(&x.Call, "net.IP.To4", "net.IP.To16") && len(x.Call.Args) == 1 {
					walk(x.Call.Args[0], d+1)
					return
				}
				// the address is chosen by a helper: its origins are what the helper returns
				if h := x.Call.StaticCallee(); h != nil && h.Blocks != nil && core.FuncPkgRel(h) == pkg {
					if rets := core.Returns(h); len(rets) > 0 {
						for _, r := range rets {
							if rv := core.RetVals(r); len(rv) == 1 {
								walk(rv[0], d+1)
							} else {
								leaves = append(leaves, v)
							}
						}
						return
					}
				}
			}
			leaves = append(leaves, v)
		}
		walk(address, 0)
		hasClient, allOK := false, len(leaves) > 0
		var bad []string
		for _, l := range leaves {
			ip, ok := mdFieldLoadNamed(l, "IP")
			if !ok {
				allOK = false
				bad = append(bad, core.Render(l))
				continue
			}
			if a, ok := mdFieldLoadNamed(ip, "ClientAddr"); ok && m2SameObj(c.P, a, req, 0) {
				hasClient = true
			} else if a, ok := mdFieldLoadNamed(ip, "RemoteAddr"); ok && m2SameObj(c.P, a, req, 0) {
			} else {
				allOK = false
				bad = append(bad, core.Render(l))
			}
		}
		c.Check("subnet-address", "setClientSubnet:Address", fieldStores["Address"].Pos(), allOK && hasClient,
			fmt.Sprintf("the option's Address must be req.ClientAddr.IP when set, else req.RemoteAddr.IP (ClientAddr used=%v, other origins: %s)", hasClient, strings.Join(bad, ", ")))
		// the tested value and the stored value coincide (checked per field above); here: attachment
		msg := ssa.Value(scs.Params[1])
		optHasSubnet, extraHasOpt := false, false
		var opt ssa.Value
		// the stores may sit in private helpers of setClientSubnet: the option /
		// the record / the message are then parameters or results there, and
		// identity is decided across the call boundary (m2SameObj)
		c.P.RegionInstrs(scs, func(in ssa.Instruction) {
			st, ok := in.(*ssa.Store)
			if !ok {
				return
			}
			fa, ok := st.Addr.(*ssa.FieldAddr)
			if !ok {
				return
			}
			f := core.FieldObj(fa.X, fa.Field)
			if f == nil {
				return
			}
			if f.Name() == "Option" && strings.HasSuffix(core.TypeStr(fa.X.Type()), "dns.OPT") && mdSliceHas(st.Val, func(v ssa.Value) bool { return m2SameObj(c.P, v, subnet, 0) }) {
				optHasSubnet, opt = true, fa.X
			}
		})
		c.P.RegionInstrs(scs, func(in ssa.Instruction) {
			st, ok := in.(*ssa.Store)
			if !ok {
				return
			}
			fa, ok := st.Addr.(*ssa.FieldAddr)
			if !ok || !m2SameObj(c.P, fa.X, msg, 0) {
				return
			}
			if f := core.FieldObj(fa.X, fa.Field); f != nil && f.Name() == "Extra" && opt != nil && mdSliceHas(st.Val, func(v ssa.Value) bool { return m2SameObj(c.P, v, opt, 0) }) {
				extraHasOpt = true
			}
		})
		c.Check("ecs-attached", "setClientSubnet:option-in-opt-in-extra", scs.Pos(), optHasSubnet && extraHasOpt,
			fmt.Sprintf("the client-subnet option must be appended to an OPT record (%v) that is appended to the message's Extra section (%v)", optHasSubnet, extraHasOpt))
		for i, r := range core.Returns(r2m) {
			rv := core.RetVals(r)
			if len(rv) != 2 || !mdIsNil(rv[1]) {
				continue
			}
			ok := false
			for _, call := range core.Calls(r2m, pkg+".setClientSubnet") {
				a := call.Common().Args
				if len(a) == 2 && a[0] == ssa.Value(r2m.Params[0]) && a[1] == rv[0] && core.Dominates(call.(ssa.Instruction), r) {
					ok = true
				}
			}
			c.Check("ecs-attached", fmt.Sprintf("RequestToDnsMsg:success-return#%d", i), r.Pos(), ok, "RequestToDnsMsg returns a message on which setClientSubnet(req, msg) was not called")
		}
	}
	{
		var wantCode, wantType constant.Value
		ok1, ok2 := false, false
		if sp := c.P.SSA.ImportedPackage(dns); sp != nil {
			if k, ok := sp.Members["EDNS0SUBNET"].(*ssa.NamedConst); ok && k.Value != nil {
				wantCode, ok1 = k.Value.Value, true
			}
			if k, ok := sp.Members["TypeOPT"].(*ssa.NamedConst); ok && k.Value != nil {
				wantType, ok2 = k.Value.Value, true
			}
		}
		if !ok1 || !ok2 {
			c.Missing(dns + ".EDNS0SUBNET/TypeOPT")
		}
		codeOK, typeOK := false, false
		if st := fieldStores["Code"]; st != nil && ok1 {
			if k, ok := st.Val.(*ssa.Const); ok && k.Value != nil && constant.Compare(k.Value, token.EQL, wantCode) {
				codeOK = true
			}
		}
		c.P.RegionInstrs(scs, func(in ssa.Instruction) {
			st, ok := in.(*ssa.Store)
			if !ok || !ok2 {
				return
			}
			if fa, ok := st.Addr.(*ssa.FieldAddr); ok && mdFieldNameOf(fa) == "Rrtype" {
				if k, ok := st.Val.(*ssa.Const); ok && k.Value != nil && constant.Compare(k.Value, token.EQL, wantType) {
					typeOK = true
				}
			}
		})
		c.Check("ecs-attached", "setClientSubnet:option-code", scs.Pos(), codeOK, "the option's Code must be dns.EDNS0SUBNET (8), otherwise the record is not a client-subnet option")
		c.Check("ecs-attached", "setClientSubnet:opt-rrtype", scs.Pos(), typeOK, "the carrying record's Rrtype must be dns.TypeOPT (41)")
	}
	c.Min("subnet-address", 1)
	c.Min("ecs-attached", 2)

	// ---- (3) bounded POST read ------------------------------------------------------
	isBodyLoad := func(v ssa.Value) bool {
		x, ok := mdFieldLoadNamed(core.StripConv(v), "Body")
		return ok && strings.HasSuffix(core.TypeStr(x.Type()), "bfe_http.Request")
	}
	isUnpack := func(in ssa.Instruction) bool {
		call, ok := in.(ssa.CallInstruction)
		return ok && core.CallIs(call.Common(), pkg+".unpackMsg", dns+".Msg.Unpack")
	}
	nRead := 0
	for _, fn := range c.P.SrcFuncs(pkg) {
		if core.FuncPkgRel(fn) != pkg {
			continue
		}
		for _, call := range core.Calls(fn, "io/ioutil.ReadAll", "io.ReadAll") {
			cv, ok := call.(*ssa.Call)
			if !ok || len(cv.Call.Args) != 1 {
				continue
			}
			arg := core.StripConv(cv.Call.Args[0])
			if !mdSliceHas(arg, isBodyLoad) {
				continue
			}
			nRead++
			key := fmt.Sprintf("%s:ReadAll#%d", fn.Name(), nRead)
			var lr *ssa.Alloc
			bounded := false
			if a, ok := arg.(*ssa.Alloc); ok && strings.HasSuffix(core.TypeStr(a.Type()), "io.LimitedReader") {
				lr, bounded = a, true
			} else if c2, _ := mdCallOf(arg); c2 != nil && core.CallIs(c2, "io.LimitReader", "bfe_http.MaxBytesReader", "net/http.MaxBytesReader") {
				bounded = true
			}
			c.Check("bounded-read", key, cv.Pos(), bounded, "the request body is read with ReadAll without an io.LimitedReader / LimitReader: an arbitrarily large POST is buffered")
			if !bounded {
				continue
			}
			// overflow test between the read and Unpack
			isOverflowTest := func(in ssa.Instruction) bool {
				ifi, ok := in.(*ssa.If)
				if !ok {
					return false
				}
				reads := mdSliceHas(ifi.Cond, func(v ssa.Value) bool {
					switch x := v.(type) {
					case *ssa.Call:
						if bi, isB := x.Call.Value.(*ssa.Builtin); isB && bi.Name() == "len" && len(x.Call.Args) == 1 {
							c3, idx := mdCallOf(x.Call.Args[0])
							return c3 == &cv.Call && idx == 0
						}
					case *ssa.FieldAddr:
						if f := core.FieldObj(x.X, x.Field); f != nil && f.Name() == "N" && lr != nil && x.X == ssa.Value(lr) {
							return true
						}
					}
					return false
				})
				if !reads {
					return false
				}
				for _, s := range ifi.Block().Succs {
					if r := mdBlockReturn(s); r != nil && mdErrNonNil(r) {
						return true
					}
				}
				return false
			}
			bad := core.ReachAvoiding(fn, cv, isOverflowTest, isUnpack)
			c.Check("overflow-test", key, cv.Pos(), bad == nil, "a path leads from the size-limited read to Unpack without testing whether the limit was hit (len of the bytes read / the reader's remaining N, with an error return): an oversized message is cut at the limit and the truncated prefix is parsed and forwarded")
			// read error tested
			for _, in := range allInstrs(fn) {
				if !isUnpack(in) {
					continue
				}
				ok := mdEstablished(in.Block(), func(f mdFact) bool {
					x, nonNil, isNil := mdNilTest(f)
					c3, idx := mdCallOf(x)
					return isNil && !nonNil && c3 == &cv.Call && idx == 1
				})
				c.Check("bounded-read", key+":error-tested", in.Pos(), ok, "the bytes are unpacked although ReadAll's error was not tested to be nil")
			}
		}
	}
	c.Min("bounded-read", 2)
	c.Min("overflow-test", 1)

	// ---- (4) GET -----------------------------------------------------------------------
	{
		var lookup *ssa.Lookup
		core.Instrs(get, func(in ssa.Instruction) {
			if lk, ok := in.(*ssa.Lookup); ok && lk.CommaOk {
				if s, ok := core.ConstString(lk.Index); ok && s == "dns" && mdIsCallTo(lk.X, "net/url.URL.Query") {
					lookup = lk
				}
			}
		})
		if lookup == nil {
			c.Check("get-one-dns", "requestToMsgGet:lookup", get.Pos(), false, "no comma-ok lookup of the `dns` key in req.URL.Query() found")
		} else {
			fromLookup := func(v ssa.Value, idx int) bool {
				ex, ok := v.(*ssa.Extract)
				return ok && ex.Tuple == lookup && ex.Index == idx
			}
			present := func(f mdFact) bool { return f.Pol && fromLookup(f.Cond, 1) }
			single := func(f mdFact) bool {
				// len(values) == 1 in any spelling (1 == len(v), !(len(v) != 1))
				isLen := func(v ssa.Value) bool {
					c2, _ := mdCallOf(v)
					if c2 == nil || len(c2.Args) != 1 {
						return false
					}
					bi, isB := c2.Value.(*ssa.Builtin)
					return isB && bi.Name() == "len" && fromLookup(c2.Args[0], 0)
				}
				isOne := func(v ssa.Value) bool { k, ok := mdIntConst(v); return ok && k == 1 }
				return core.Guard{Cond: f.Cond, Pol: f.Pol}.CmpIs(token.EQL, isLen, isOne)
			}
			var dec *ssa.Call
			for _, call := range core.AllCalls(get) {
				cc := call.Common()
				if sc := cc.StaticCallee(); sc != nil && sc.Name() == "DecodeString" && sc.Pkg != nil && sc.Pkg.Pkg.Path() == "encoding/base64" {
					dec, _ = call.(*ssa.Call)
				}
			}
			if dec == nil {
				c.Check("get-one-dns", "requestToMsgGet:decode", get.Pos(), false, "no base64 DecodeString call found")
			} else {
				b := dec.Block()
				argOK := false
				if u, ok := dec.Call.Args[len(dec.Call.Args)-1].(*ssa.UnOp); ok {
					if ia, ok := u.X.(*ssa.IndexAddr); ok && fromLookup(ia.X, 0) {
						if k, isK := mdIntConst(ia.Index); isK && k == 0 {
							argOK = true
						}
					}
				}
				c.Check("get-one-dns", "requestToMsgGet:present", dec.Pos(), mdEstablished(b, present), "the dns parameter is decoded although its presence (comma-ok of the query lookup) was not established")
				c.Check("get-one-dns", "requestToMsgGet:exactly-one", dec.Pos(), mdEstablished(b, single), "the dns parameter is decoded although len(values) == 1 was not established (none: index panic; several: ambiguous request)")
				c.Check("get-one-dns", "requestToMsgGet:decodes-the-value", dec.Pos(), argOK, "DecodeString must be applied to values[0] of the dns key")
				n := 0
				for _, in := range allInstrs(get) {
					if !isUnpack(in) {
						continue
					}
					n++
					call := in.(ssa.CallInstruction).Common()
					c3, idx := mdCallOf(call.Args[len(call.Args)-1])
					ok := c3 == &dec.Call && idx == 0 && mdEstablished(in.Block(), func(f mdFact) bool {
						x, nonNil, isNil := mdNilTest(f)
						c4, i4 := mdCallOf(x)
						return isNil && !nonNil && c4 == &dec.Call && i4 == 1
					})
					c.Check("get-one-dns", fmt.Sprintf("requestToMsgGet:unpack#%d", n), in.Pos(), ok, "only the successfully decoded bytes may be unpacked (decode error must be nil)")
				}
				if n == 0 {
					c.Check("get-one-dns", "requestToMsgGet:unpack", get.Pos(), false, "no unpack call found")
				}
			}
		}
	}
	c.Min("get-one-dns", 4)

	// ---- (5) errors propagate ----------------------------------------------------------
	{
		// unpackMsg returns Unpack's error for the message it returns
		for i, r := range core.Returns(unp) {
			rv := core.RetVals(r)
			ok := false
			if len(rv) == 2 {
				if c2, _ := mdCallOf(rv[1]); c2 != nil && core.CallIs(c2, dns+".Msg.Unpack") && len(c2.Args) == 2 && c2.Args[0] == rv[0] && c2.Args[1] == ssa.Value(unp.Params[0]) {
					ok = true
				}
			}
			c.Check("unpack-error", fmt.Sprintf("unpackMsg:return#%d", i), r.Pos(), ok, "unpackMsg must return the message together with the error of Unpack(buf) on that message")
		}
		for _, fn := range []*ssa.Function{post, get} {
			for i, r := range core.Returns(fn) {
				rv := core.RetVals(r)
				if len(rv) != 2 {
					continue
				}
				ok := false
				c0, i0 := mdCallOf(rv[0])
				c1, i1 := mdCallOf(rv[1])
				switch {
				case c0 != nil && c0 == c1 && i0 == 0 && i1 == 1 && core.CallIs(c0, pkg+".unpackMsg"):
					ok = true
				case mdIsNil(rv[0]) && !mdIsNil(rv[1]):
					// an error return: the error must be known non-nil
					ok = mdEstablished(r.Block(), func(f mdFact) bool {
						x, nonNil, isNil := mdNilTest(f)
						return isNil && nonNil && x == rv[1]
					}) || mdIsCallTo(rv[1], "fmt.Errorf", "errors.New")
				}
				c.Check("unpack-error", fmt.Sprintf("%s:return#%d", fn.Name(), i), r.Pos(), ok, fn.Name()+" must return either unpackMsg's (msg, err) pair or (nil, non-nil error); returns "+core.Render(rv[0])+", "+core.Render(rv[1]))
			}
		}
	}
	c.Min("unpack-error", 5)

	// dispatcher
	{
		methodIs := func(want string) func(f mdFact) bool {
			return func(f mdFact) bool {
				x, s, equal, ok := mdStrTest(f)
				return ok && equal && s == want && mdIsMethodLoad(x)
			}
		}
		n := 0
		for i, r := range core.Returns(r2m) {
			rv := core.RetVals(r)
			if len(rv) != 2 {
				continue
			}
			if !mdIsNil(rv[1]) {
				ok := mdIsNil(rv[0]) && (mdEstablished(r.Block(), func(f mdFact) bool {
					x, nonNil, isNil := mdNilTest(f)
					return isNil && nonNil && x == rv[1]
				}) || mdIsCallTo(rv[1], "fmt.Errorf", "errors.New"))
				c.Check("dispatch", fmt.Sprintf("RequestToDnsMsg:error-return#%d", i), r.Pos(), ok, "an error return must carry no message and a non-nil error")
				continue
			}
			n++
			// success: find the error value paired with the message and require err == nil
			pairsOK, why := false, ""
			var errV ssa.Value
			if phi, ok := rv[0].(*ssa.Phi); ok {
				for _, in := range phi.Block().Instrs {
					p2, ok := in.(*ssa.Phi)
					if !ok || p2 == phi || len(p2.Edges) != len(phi.Edges) {
						continue
					}
					if pairs, ok := mdResultPairs(phi, p2); ok {
						good := true
						for _, pr := range pairs {
							c0, i0 := mdCallOf(pr[0])
							c1, i1 := mdCallOf(pr[1])
							switch {
							case c0 != nil && c0 == c1 && i0 == 0 && i1 == 1 && core.CallIs(c0, pkg+".requestToMsgGet"):
								if !mdEstablished(pr[0].(ssa.Instruction).Block(), methodIs("GET")) || !mdIsHTTPReqOf(c0.Args[0], r2m) {
									good, why = false, "requestToMsgGet is not called under Method == GET on the request"
								}
							case c0 != nil && c0 == c1 && i0 == 0 && i1 == 1 && core.CallIs(c0, pkg+".requestToMsgPost"):
								if !mdEstablished(pr[0].(ssa.Instruction).Block(), methodIs("POST")) || !mdIsHTTPReqOf(c0.Args[0], r2m) {
									good, why = false, "requestToMsgPost is not called under Method == POST on the request"
								}
							case mdIsNil(pr[0]) && mdIsCallTo(pr[1], "fmt.Errorf", "errors.New"):
							default:
								good, why = false, "a (message, error) pair is not the result of one converter call: "+core.Render(pr[0])+", "+core.Render(pr[1])
							}
						}
						if good {
							pairsOK, errV = true, p2
						}
					}
				}
			} else if c0, i0 := mdCallOf(rv[0]); c0 != nil && i0 == 0 {
				why = "single converter"
			}
			errNil := errV != nil && mdEstablished(r.Block(), func(f mdFact) bool {
				x, nonNil, isNil := mdNilTest(f)
				return isNil && !nonNil && x == errV
			})
			c.Check("dispatch", fmt.Sprintf("RequestToDnsMsg:success-return#%d", n), r.Pos(), pairsOK && errNil,
				fmt.Sprintf("RequestToDnsMsg hands out a message without (a) message and error coming pairwise from requestToMsgGet under GET / requestToMsgPost under POST / a rejection for other methods (%v %s) and (b) that error having been tested to be nil (%v)", pairsOK, why, errNil))
		}
		if n == 0 {
			c.Check("dispatch", "RequestToDnsMsg:success-return", r2m.Pos(), false, "no success return found")
		}
	}
	c.Min("dispatch", 2)

	// Fetch forwards only a valid message
	{
		calls := core.Calls(fetch, pkg+".DnsClient.exchangeWithRetry")
		if len(calls) == 0 {
			for _, call := range core.AllCalls(fetch) {
				if sc := call.Common().StaticCallee(); sc != nil && sc.Name() == "Exchange" {
					calls = append(calls, call)
				}
			}
		}
		for i, call := range calls {
			args := call.Common().Args
			msg := args[len(args)-1]
			if len(args) >= 2 && !strings.HasSuffix(core.TypeStr(msg.Type()), "dns.Msg") {
				msg = args[1]
			}
			c2, idx := mdCallOf(msg)
			okMsg := c2 != nil && idx == 0 && core.CallIs(c2, pkg+".RequestToDnsMsg")
			okErr := mdEstablished(call.(ssa.Instruction).Block(), func(f mdFact) bool {
				x, nonNil, isNil := mdNilTest(f)
				c3, i3 := mdCallOf(x)
				return isNil && !nonNil && c3 != nil && c3 == c2 && i3 == 1
			})
			c.Check("forward-valid", fmt.Sprintf("DnsClient.Fetch:exchange#%d", i), call.Pos(), okMsg && okErr, fmt.Sprintf("the upstream exchange must send the message returned by RequestToDnsMsg (%v) and only when its error is nil (%v)", okMsg, okErr))
		}
		if len(calls) == 0 {
			c.Check("forward-valid", "DnsClient.Fetch:exchange", fetch.Pos(), false, "no upstream exchange call found in Fetch")
		}
	}
	c.Min("forward-valid", 1)
}

// mdIsHTTPReqOf: v is a load of the HttpRequest field of fn's first parameter.
func mdIsHTTPReqOf(v ssa.Value, fn *ssa.Function) bool {
	x, ok := mdFieldLoadNamed(v, "HttpRequest")
	return ok && len(fn.Params) > 0 && x == ssa.Value(fn.Params[0])
}
