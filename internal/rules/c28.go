package rules

import (
	"fmt"
	"go/token"
	"go/types"

	"golang.org/x/tools/go/ssa"

	"verif/internal/core"
)

// C28 — keep-alive connections stay in sync (modest).
func init() {
	Register(&Rule{
		ID: "C28", Section: "5 C28",
		Technique: "witness-path analysis (drain-or-close after the handler in chunkWriter.writeHeader, response.finishRequest and bfe_http.body.Close), loop-exit reachability in conn.serve (no path from an error reply or a failed parse back to readRequest), implied-fact analysis of serveRequest's keep-alive result, guard census of the chunk writer's connection writes and of the chunking flag (bodiless replies), must-pass analysis of the connection-buffer flush after the chunk writer was closed (reply completely on the wire), value-origin census of the method consulted by the shared request/response framing code (shared with C24), who-may-write census of Request.Body/ContentLength in the request parser",
		Meta: core.Meta{
			Level:       "other",
			Explanation: "Decides: (a) drain-or-close in chunkWriter.writeHeader - every path to the header write either ran the bounded io.CopyN(Discard, Body, limit), or saw ContentLength == 0, closeAfterReply == true, or an un-invited 100-continue body; after the CopyN every path calls requestTooLarge() or Body.Close(); Body.Close() is reached only when fewer bytes than the limit were discarded (the body ended), requestTooLarge() is followed by setHeader.connection = \"close\" on every path to the header write, and requestTooLarge sets closeAfterReply and requestBodyLimitHit on every path; (b) response.finishRequest closes (drains) the request body on every path that did not see closeAfterReply == true; bfe_http.body.Close copies the rest of the body to Discard unless the body is already closed or the connection is closing; expectContinueReader.Close closes the wrapped body; (c) in conn.serve the next readRequest is reachable from a readRequest only over err == nil, never after an error reply written by serve itself (413/414/400, sendExpectationFailed, finishRequest, closeWriteAndWait), and after serveRequest only over `serveRequest() == true` and `closeAfterReply == false`; (d) serveRequest returns true only if both ReverseProxy.ServeHTTP and FinishReq returned keepAlive. (e) nothing follows the header block of a bodiless reply: every write of chunkWriter.Write/close/flush to the connection buffer happens under Method != HEAD or under chunking == true, and, where a write relies on the chunking flag alone (the last-chunk in close), chunking is switched on only under Method != HEAD and status not 304/204 (no stray last-chunk after a HEAD reply). (f) replies leave in order: in response.finishRequest every path from chunkWriter.close() (which puts the header block of a bodiless reply / the last-chunk into conn.buf) to the exit passes conn.buf.Flush() (directly or through a bfe_server helper that flushes on all its paths) - conn.serve writes its own 400/413/414 replies to the socket past conn.buf, so anything still buffered would be overtaken. (g) body bytes are never read as a request because of the request's method: every branch of readTransfer/fixLength/fixTransferEncoding/fixTrailer on a request method consults a method that cannot be the parsed request's own (constants or Response.Request.Method) or is taken only for responses (rule shared with C24), and inside everything bfe_http.ReadRequest / conn.readRequest run, Request.Body and Request.ContentLength are only ever set from the transferReader's Body / ContentLength. The rules on chunkWriter.writeHeader and response.finishRequest look at the region of the function (unexported helpers called from nowhere else are inlined by the path search, which returns to the caller with the result of the helper bound, so `if cw.discardBody() { announce close }` is followed; a drain inside a helper is found, its guards include those of the call site); conditions are decided per path with boolean phis bound (named booleans, tagless switch, early returns). Forms not followed (reported): the CopyN result compared with the limit in another function than the one that holds the CopyN, helpers nested deeper than four levels, the readRequest/serveRequest calls moved out of conn.serve. Not covered: ordering of replies beyond the end-of-reply flush, at-most-one final reply per request, 100-continue sequencing on the wire, how the body length was determined (C24), what ServeHTTP returns for which failure, hijacked/websocket connections.",
			RuleText:    "obligations = per CopyN drain site (resolved, bounded, close-only-if-ended, close announced), the no-drain paths, the writers in requestTooLarge, the exits of finishRequest / body.Close / expectContinueReader.Close, per terminal reply in conn.serve, the two loop-continue edges, per return of serveRequest, per connection write of the chunk writer after the header block, per store switching chunking on, per chunkWriter.close call of finishRequest (flush on all paths after it), per method-dependent branch of the framing functions, per store to Request.Body/ContentLength in the request parser",
		},
		Run: runC28,
		Mutants: []Mutant{
			{Name: "too-large-keeps-alive", File: "bfe_server/response.go", Old: "	w.closeAfterReply = true\n	w.requestBodyLimitHit = true", New: "	w.requestBodyLimitHit = true", Expect: "too-large-marks"},
			{Name: "drain-threshold-unreachable", File: "bfe_server/chunk_writer.go", Old: "			if n >= maxPostHandlerReadBytes {", New: "			if n > maxPostHandlerReadBytes+1 {", Expect: "drain-or-close"},
			{Name: "drain-neither-close-nor-mark", File: "bfe_server/chunk_writer.go", Old: "			} else {\n				w.req.Body.Close()\n			}", New: "			}", Expect: "drain-or-close"},
			{Name: "drain-skipped-for-chunked", File: "bfe_server/chunk_writer.go", Old: "	if w.req.ContentLength != 0 && !w.closeAfterReply {", New: "	if w.req.ContentLength > 0 && !w.closeAfterReply {", Expect: "drain-skip"},
			{Name: "too-large-not-announced", File: "bfe_server/chunk_writer.go", Old: "				w.requestTooLarge()\n				delHeader(\"Connection\")\n				setHeader.connection = \"close\"", New: "				w.requestTooLarge()\n				delHeader(\"Connection\")", Expect: "drain-or-close"},
			{Name: "bad-request-continues", File: "bfe_server/http_conn.go", Old: "			io.WriteString(c.rwc, \"HTTP/1.1 400 Bad Request\\r\\n\\r\\n\")\n			break", New: "			io.WriteString(c.rwc, \"HTTP/1.1 400 Bad Request\\r\\n\\r\\n\")\n			continue", Expect: "serve-loop"},
			{Name: "reset-error-continues", File: "bfe_server/http_conn.go", Old: "				proxyState.ErrClientReset.Inc(1)\n				break", New: "				proxyState.ErrClientReset.Inc(1)\n				continue", Expect: "serve-loop"},
			{Name: "expect-failed-continues", File: "bfe_server/http_conn.go", Old: "			w.sendExpectationFailed()\n			break", New: "			w.sendExpectationFailed()\n			continue", Expect: "serve-loop"},
			{Name: "keepalive-disjunction", File: "bfe_server/http_conn.go", Old: "(ret1 == keepAlive) && (ret2 == keepAlive)", New: "(ret1 == keepAlive) || (ret2 == keepAlive)", Expect: "keepalive-conjunction"},
			{Name: "finish-skips-drain", File: "bfe_server/response.go", Old: "	if !w.closeAfterReply {\n		w.req.Body.Close()\n	}", New: "	if !w.closeAfterReply && w.req.ContentLength > 0 {\n		w.req.Body.Close()\n	}", Expect: "finish-drains"},
			{Name: "body-close-never-drains-untrailered", File: "bfe_http/transfer.go", Old: "	case b.hdr == nil && b.closing:", New: "	case b.hdr == nil:", Expect: "body-close-drains"},
			{Name: "serve-ignores-keepalive-verdict", File: "bfe_server/http_conn.go", Old: "		if !isKeepAlive || w.closeAfterReply {\n			if w.requestBodyLimitHit {", New: "		if (!isKeepAlive && w.requestBodyLimitHit) || w.closeAfterReply {\n			if w.requestBodyLimitHit {", Expect: "serve-honours-close"},
			{Name: "head-reply-chunked", File: "bfe_server/chunk_writer.go", Old: "	if w.req.Method == \"HEAD\" || code == bfe_http.StatusNotModified {\n		// do nothing", New: "	if (isHEAD && hasCL) || code == bfe_http.StatusNotModified {\n		// do nothing", Expect: "bodiless-silent|"},
			{Name: "last-chunk-for-head", File: "bfe_server/chunk_writer.go", Old: "	if cw.chunking {\n		// zero EOF chunk,", New: "	if cw.chunking || cw.res.req.Method == \"HEAD\" {\n		// zero EOF chunk,", Expect: "bodiless-silent|"},
			{Name: "conn-flush-before-chunk-close", File: "bfe_server/response.go", Old: "	w.cw.close()\n	w.conn.buf.Flush()\n", New: "	w.conn.buf.Flush()\n	w.cw.close()\n", Expect: "reply-flushed|"},
			{Name: "conn-flush-only-when-keepalive", File: "bfe_server/response.go", Old: "	w.cw.close()\n	w.conn.buf.Flush()\n", New: "	w.cw.close()\n	if !w.closeAfterReply {\n		w.conn.buf.Flush()\n	}\n", Expect: "reply-flushed|"},
			{Name: "request-method-passed-to-fixlength", File: "bfe_http/transfer.go", Old: "	realLength, err := fixLength(isResponse, t.StatusCode, t.RequestMethod, t.Header, t.TransferEncoding)", New: "	reqMethod := t.RequestMethod\n	if rq, isReq := msg.(*Request); isReq {\n		reqMethod = rq.Method\n	}\n	realLength, err := fixLength(isResponse, t.StatusCode, reqMethod, t.Header, t.TransferEncoding)", Expect: "method-independent|fixLength"},
			{Name: "head-request-body-dropped-after-parse", File: "bfe_http/request.go", Old: "	err = readTransfer(req, b)\n	if err != nil {\n		return nil, err\n	}\n\n	return req, nil\n}", New: "	err = readTransfer(req, b)\n	if err != nil {\n		return nil, err\n	}\n	if req.Method == \"HEAD\" {\n		// a HEAD request has no use for a body\n		req.Body = EofReader\n		req.ContentLength = 0\n	}\n\n	return req, nil\n}", Expect: "body-from-framing|"},
			{Name: "silent-flush-through-chunk-writer", Silent: true, File: "bfe_server/response.go", Old: "	w.cw.close()\n	w.conn.buf.Flush()\n", New: "	w.cw.close()\n	w.cw.flush()\n"},
			{Name: "silent-close-tests-head-too", Silent: true, File: "bfe_server/chunk_writer.go", Old: "	if cw.chunking {\n		// zero EOF chunk,", New: "	if cw.chunking && cw.res.req.Method != \"HEAD\" {\n		// zero EOF chunk,"},
			{Name: "silent-log-before-break", Silent: true, File: "bfe_server/http_conn.go", Old: "			w.sendExpectationFailed()\n			break", New: "			w.sendExpectationFailed()\n			log.Logger.Debug(\"conn.serve(): expectation failed\")\n			break"},
			{Name: "silent-drain-rewritten", Silent: true, File: "bfe_server/chunk_writer.go", Old: "			if n >= maxPostHandlerReadBytes {\n				w.requestTooLarge()\n				delHeader(\"Connection\")\n				setHeader.connection = \"close\"\n			} else {\n				w.req.Body.Close()\n			}", New: "			if n < maxPostHandlerReadBytes {\n				w.req.Body.Close()\n			} else {\n				delHeader(\"Connection\")\n				setHeader.connection = \"close\"\n				w.requestTooLarge()\n			}"},
			{Name: "silent-body-drain-in-helper", Silent: true, File: "bfe_server/response.go", Old: "\tif !w.closeAfterReply {\n\t\tw.req.Body.Close()\n\t}\n\tif w.req.MultipartForm != nil {\n\t\tw.req.MultipartForm.RemoveAll()\n\t}\n\n\tif w.req.Method != \"HEAD\" && w.contentLength != -1 && w.bodyAllowed() && w.contentLength != w.written {\n\t\t// Did not write enough. Avoid getting out of sync.\n\t\tw.closeAfterReply = true\n\t}\n}\n", New: "\tw.drainRequestBody()\n\tif w.req.MultipartForm != nil {\n\t\tw.req.MultipartForm.RemoveAll()\n\t}\n\n\tif w.req.Method != \"HEAD\" && w.contentLength != -1 && w.bodyAllowed() && w.contentLength != w.written {\n\t\t// Did not write enough. Avoid getting out of sync.\n\t\tw.closeAfterReply = true\n\t}\n}\n\n// drainRequestBody closes (drains) the request body unless the whole TCP\n// connection is about to be closed anyway.\nfunc (w *response) drainRequestBody() {\n\tif w.closeAfterReply {\n\t\treturn\n\t}\n\tw.req.Body.Close()\n}\n"},
		},
	})
}

func runC28(c *core.Ctx) {
	const srv = "bfe_server"
	e := h1bResolveSrv(c)
	wh := e.writeHeader
	bodyFld := h1bField(c, "bfe_http", "Request.Body")
	reqCL := h1bField(c, "bfe_http", "Request.ContentLength")
	connFld := h1bField(c, srv, "extraHeader.connection")
	isBodyClose := func(x ssa.Instruction) bool {
		ci, ok := x.(ssa.CallInstruction)
		if !ok || !ci.Common().IsInvoke() || ci.Common().Method.Name() != "Close" {
			return false
		}
		f, _ := h1bFieldOf(ci.Common().Value)
		return bodyFld != nil && f == bodyFld
	}
	isDiscard := func(v ssa.Value) bool {
		u, ok := core.StripConv(v).(*ssa.UnOp)
		if !ok || u.Op != token.MUL {
			return false
		}
		g, ok := u.X.(*ssa.Global)
		return ok && g.Name() == "Discard" && g.Pkg != nil && (g.Pkg.Pkg.Path() == "io/ioutil" || g.Pkg.Pkg.Path() == "io")
	}
	closeFact := func(pol bool) func(h1bFact) bool {
		return func(f h1bFact) bool { return f.Pol == pol && h1bIsField(e.closeAfter)(f.V) }
	}

	// (a) writeHeader
	if wh != nil && bodyFld != nil && reqCL != nil && connFld != nil && e.closeAfter != nil {
		// everything below looks at the region of writeHeader: the drain may live in
		// a private helper, the path queries inline such helpers and continue in
		// writeHeader after a helper returned (with its result bound)
		var hdrWrites []ssa.Instruction
		for _, ci := range c.P.RegionCalls(wh, "bfe_http.Header.WriteSubset", "bfe_http.Header.Write") {
			hdrWrites = append(hdrWrites, ci.(ssa.Instruction))
		}
		isHdrWrite := func(x ssa.Instruction) bool {
			for _, h := range hdrWrites {
				if h == x {
					return true
				}
			}
			return false
		}
		if len(hdrWrites) == 0 {
			c.Missing("chunkWriter.writeHeader: Header.WriteSubset call")
		}
		isRTL := func(x ssa.Instruction) bool {
			ci, ok := x.(ssa.CallInstruction)
			return ok && e.requestTooLarge != nil && ci.Common().StaticCallee() == e.requestTooLarge
		}
		var drains []*ssa.Call
		c.P.RegionInstrs(wh, func(in ssa.Instruction) {
			call, ok := in.(*ssa.Call)
			if !ok || !core.CallIs(&call.Call, "io.CopyN") || len(call.Call.Args) != 3 || !isDiscard(call.Call.Args[0]) {
				return
			}
			if f, _ := h1bFieldOf(call.Call.Args[1]); f != bodyFld {
				return
			}
			drains = append(drains, call)
		})
		isDrain := func(x ssa.Instruction) bool {
			for _, d := range drains {
				if ssa.Instruction(d) == x {
					return true
				}
			}
			return false
		}
		c.Check("drain-or-close", "writeHeader:drain-site", wh.Pos(), len(drains) >= 1, "chunkWriter.writeHeader no longer discards the unread request body with io.CopyN(Discard, req.Body, limit) before replying")
		for i, d := range drains {
			key := fmt.Sprintf("writeHeader:drain#%d:", i+1)
			limit, isK := h1bConstInt(d.Call.Args[2])
			c.Check("drain-or-close", key+"bounded", d.Pos(), isK && limit > 0, "the post-handler discard of the request body is not bounded by a positive constant: a client could keep the server reading forever")
			bad := h1bReachR(c.P, wh, d, func(x ssa.Instruction) bool { return isRTL(x) || isBodyClose(x) }, nil, func(x ssa.Instruction) bool { return core.IsExit(x) || isHdrWrite(x) })
			c.Check("drain-or-close", key+"resolved", d.Pos(), bad == nil,
				"after discarding up to the limit a path reaches the header write with neither requestTooLarge() (close after reply) nor Body.Close() (body fully consumed): unread body bytes would be parsed as the next request")
			// Body.Close only when the body ended within the limit
			nC := 0
			c.P.RegionInstrs(wh, func(x ssa.Instruction) {
				if !isBodyClose(x) || h1bReachR(c.P, wh, d, nil, nil, func(y ssa.Instruction) bool { return y == x }) == nil {
					return
				}
				nC++
				ok := isK && h1bGuardedR(c.P, x.Block(), func(f h1bFact) bool {
					a, b, op, isCmp := h1bCmp(f)
					if !isCmp {
						return false
					}
					isN := func(v ssa.Value) bool {
						ex, ok := core.StripConv(v).(*ssa.Extract)
						return ok && ex.Index == 0 && ex.Tuple == ssa.Value(d)
					}
					if isN(b) { // K op n  ->  n op' K
						a, b = b, a
						switch op {
						case token.LSS:
							op = token.GTR
						case token.LEQ:
							op = token.GEQ
						case token.GTR:
							op = token.LSS
						case token.GEQ:
							op = token.LEQ
						}
					}
					kv, isC := h1bConstInt(b)
					if !isN(a) || !isC {
						return false
					}
					return op == token.LSS && kv <= limit || op == token.LEQ && kv < limit
				})
				c.Check("drain-or-close", fmt.Sprintf("%sclose-only-if-ended#%d", key, nC), x.Pos(), ok,
					fmt.Sprintf("Body.Close() (which reads the rest of the body without bound) is reached although the discard may have stopped at its limit of %d bytes: established %s", limit, h1bJoinFacts(h1bFactsAtR(c.P, x.Block()))))
			})
			nR := 0
			c.P.RegionInstrs(wh, func(x ssa.Instruction) {
				if !isRTL(x) || h1bReachR(c.P, wh, d, nil, nil, func(y ssa.Instruction) bool { return y == x }) == nil {
					return
				}
				nR++
				isCloseHdr := func(y ssa.Instruction) bool {
					st, ok := y.(*ssa.Store)
					if !ok {
						return false
					}
					f, _ := h1bFieldOf(st.Addr)
					return f == connFld && h1bIsStr("close")(st.Val)
				}
				bad := h1bReachR(c.P, wh, x, isCloseHdr, nil, isHdrWrite)
				if bad != nil {
					// or announced on the same arm just before the call
					core.Instrs(x.Parent(), func(y ssa.Instruction) {
						if isCloseHdr(y) && d.Parent() == x.Parent() && core.Dominates(d, y) && core.Dominates(y, x) {
							bad = nil
						}
					})
				}
				c.Check("drain-or-close", fmt.Sprintf("%sclose-announced#%d", key, nR), x.Pos(), bad == nil,
					"after requestTooLarge() a path reaches the header write without setHeader.connection = \"close\": the client is not told that the connection ends with this reply")
			})
			c.Check("drain-or-close", key+"both-arms", d.Pos(), nC >= 1 && nR >= 1, fmt.Sprintf("after the discard there are %d Body.Close() and %d requestTooLarge() continuations; one of each is expected", nC, nR))
		}
		c.Min("drain-or-close", 6)
		bad := h1bReachR(c.P, wh, nil, isDrain, func(f h1bFact) bool {
			if closeFact(true)(f) || h1bEq(f, h1bIsField(reqCL), h1bIsInt(0)) {
				return true
			}
			call, ok := f.V.(*ssa.Call)
			return ok && !f.Pol && core.CallIs(&call.Call, srv+".expectContinueReader.WroteContinue")
		}, isHdrWrite)
		c.Check("drain-skip", "writeHeader", wh.Pos(), bad == nil,
			"a path reaches the header write without the body discard although it saw neither req.ContentLength == 0, nor closeAfterReply == true, nor an Expect: 100-continue body that was never invited: an unread body stays on a connection that is kept alive")
		c.Min("drain-skip", 1)
	}
	// requestTooLarge
	if rtl := e.requestTooLarge; rtl != nil && e.closeAfter != nil && e.limitHit != nil {
		c.Check("too-large-marks", "requestTooLarge:closeAfterReply", rtl.Pos(), core.MustPass(rtl, nil, core.LiftMust(func(x ssa.Instruction) bool { return h1bStoreBool(x, e.closeAfter, true) }, 2)) == nil,
			"requestTooLarge can return without closeAfterReply = true: the connection would be reused with unread body bytes on it")
		c.Check("too-large-marks", "requestTooLarge:requestBodyLimitHit", rtl.Pos(), core.MustPass(rtl, nil, core.LiftMust(func(x ssa.Instruction) bool { return h1bStoreBool(x, e.limitHit, true) }, 2)) == nil,
			"requestTooLarge can return without requestBodyLimitHit = true (conn.serve uses it to half-close before closing)")
		c.Min("too-large-marks", 2)
	}
	// (b) finishRequest / body.Close / expectContinueReader.Close
	if fr := e.finishRequest; fr != nil && bodyFld != nil {
		bad := h1bReachR(c.P, fr, nil, isBodyClose, closeFact(true), core.IsReturn)
		c.Check("finish-drains", "finishRequest", fr.Pos(), bad == nil,
			"finishRequest can return without req.Body.Close() although it did not see closeAfterReply == true: the unread rest of the request body would be parsed as the next request")
		c.Min("finish-drains", 1)
	}
	if bc := h1bFunc(c, "bfe_http", "body.Close"); bc != nil {
		closed := h1bField(c, "bfe_http", "body.closed")
		closing := h1bField(c, "bfe_http", "body.closing")
		if closed != nil && closing != nil {
			bad := h1bReach(bc, nil, func(x ssa.Instruction) bool {
				ci, ok := x.(ssa.CallInstruction)
				return ok && core.CallIs(ci.Common(), "io.Copy", "io.CopyN", "io/ioutil.ReadAll", "io.ReadAll") && len(ci.Common().Args) >= 2 && isDiscard(ci.Common().Args[0])
			}, func(f h1bFact) bool {
				return f.Pol && (h1bIsField(closed)(f.V) || h1bIsField(closing)(f.V))
			}, core.IsReturn)
			c.Check("body-close-drains", "body.Close", bc.Pos(), bad == nil,
				"bfe_http.body.Close can return without copying the rest of the body to Discard although the body was neither already closed nor marked `closing` (connection closes after this request): the remaining body bytes stay in the connection's read buffer")
			c.Min("body-close-drains", 1)
		}
	}
	if ec := h1bFunc(c, srv, "expectContinueReader.Close"); ec != nil {
		rc := h1bField(c, srv, "expectContinueReader.readCloser")
		bad := core.MustPass(ec, nil, func(x ssa.Instruction) bool {
			ci, ok := x.(ssa.CallInstruction)
			if !ok || !ci.Common().IsInvoke() || ci.Common().Method.Name() != "Close" {
				return false
			}
			f, _ := h1bFieldOf(ci.Common().Value)
			return rc != nil && f == rc
		})
		c.Check("body-close-drains", "expectContinueReader.Close", ec.Pos(), bad == nil, "expectContinueReader.Close can return without closing (draining) the wrapped request body")
	}

	// (e) nothing follows the header block of a bodiless reply
	c28BodilessSilent(c, e)
	// (f) the whole reply is on the wire when finishRequest returns
	c28ReplyFlushed(c, e)
	// (g) the request body reader is chosen from the framing headers alone
	c28RequestFramingByHeader(c)
	c28BodyFromFraming(c)

	// (c) conn.serve
	if sv := e.serve; sv != nil {
		var reads []*ssa.Call
		core.Instrs(sv, func(in ssa.Instruction) {
			if call, ok := in.(*ssa.Call); ok && core.CallIs(&call.Call, srv+".conn.readRequest") {
				reads = append(reads, call)
			}
		})
		isRead := func(x ssa.Instruction) bool {
			for _, r := range reads {
				if ssa.Instruction(r) == x {
					return true
				}
			}
			return false
		}
		c.Check("serve-loop", "conn.serve:readRequest", sv.Pos(), len(reads) >= 1, "conn.serve has no readRequest call")
		for i, r := range reads {
			bad := h1bReach(sv, r, nil, func(f h1bFact) bool {
				return h1bEq(f, func(v ssa.Value) bool {
					ex, ok := v.(*ssa.Extract)
					return ok && ex.Index == 1 && ex.Tuple == ssa.Value(r)
				}, func(v ssa.Value) bool { k, ok := v.(*ssa.Const); return ok && k.Value == nil })
			}, isRead)
			c.Check("serve-loop", fmt.Sprintf("conn.serve:readRequest#%d:error-leaves-loop", i+1), r.Pos(), bad == nil,
				"after readRequest the next readRequest is reachable without passing err == nil: after a parse error the position of the next request in the byte stream is unknown")
		}
		n := map[string]int{}
		core.Instrs(sv, func(in ssa.Instruction) {
			ci, ok := in.(ssa.CallInstruction)
			if !ok {
				return
			}
			kind := ""
			switch {
			case core.CallIs(ci.Common(), "io.WriteString") && len(ci.Common().Args) == 2:
				if s, isS := core.ConstString(ci.Common().Args[1]); isS && len(s) > 9 && s[:5] == "HTTP/" {
					kind = "raw-reply-" + s[9:12]
				}
			case core.CallIs(ci.Common(), srv+".response.sendExpectationFailed"):
				kind = "sendExpectationFailed"
			case core.CallIs(ci.Common(), srv+".response.finishRequest"):
				kind = "finishRequest"
			case core.CallIs(ci.Common(), srv+".conn.closeWriteAndWait"):
				kind = "closeWriteAndWait"
			}
			if kind == "" {
				return
			}
			bad := core.ReachAvoiding(sv, in, nil, isRead)
			c.Check("serve-loop", h1bOrd("conn.serve:after-"+kind, n), in.Pos(), bad == nil,
				"conn.serve can read another request after it answered with "+kind+" on its own: that reply is only correct if the connection ends there")
		})
		c.Min("serve-loop", 6)
		h1bServeHonoursClose(c, e, "serve-honours-close")
		c.Min("serve-honours-close", 2)
	}
	// (d) serveRequest result
	if sr := e.serveRequest; sr != nil {
		ka, _ := c.P.Obj(srv, "keepAlive").(*types.Const)
		if ka == nil {
			c.Missing(srv + ".keepAlive")
			return
		}
		kv, _ := h1bConstInt(ssa.NewConst(ka.Val(), ka.Type()))
		isResultOf := func(name string) func(ssa.Value) bool {
			return func(v ssa.Value) bool { return h1bCallOf(v, name) != nil }
		}
		for i, r := range core.Returns(sr) {
			vals := core.RetVals(r)
			if len(vals) != 1 {
				continue
			}
			if b, isB := h1bConstBool(vals[0]); isB && !b {
				continue
			}
			fs := h1bImplied(vals[0], true)
			fs = append(fs, h1bFactsAt(r.Block())...)
			has := func(name string) bool {
				for _, f := range fs {
					if h1bEq(f, isResultOf(name), h1bIsInt(kv)) {
						return true
					}
				}
				return false
			}
			ok := has(srv+".ReverseProxy.ServeHTTP") && has(srv+".ReverseProxy.FinishReq")
			c.Check("keepalive-conjunction", fmt.Sprintf("serveRequest:return#%d", i+1), r.Pos(), ok,
				"serveRequest can return keep-alive = true without both ReverseProxy.ServeHTTP() == keepAlive and FinishReq() == keepAlive being implied; implied: "+h1bJoinFacts(fs))
		}
		c.Min("keepalive-conjunction", 1)
	}
}

// c28BodilessSilent: the reply to a HEAD request ends with its header block.
// Every byte chunkWriter puts on the connection outside writeHeader (chunk-size
// line, body bytes, chunk CRLF, last-chunk) is an obligation: it must be
// written only under `Method != HEAD`, or only under `chunking == true` - and
// then chunking itself may be switched on only under Method != HEAD and status
// not 304 / 204. A stray last-chunk after a HEAD reply would be read by the
// client as the beginning of the next reply.
func c28BodilessSilent(c *core.Ctx, e *h1bSrv) {
	const srv = "bfe_server"
	const rule = "bodiless-silent"
	connBuf := h1bField(c, srv, "conn.buf")
	if connBuf == nil || e.writeHeader == nil || e.chunking == nil || e.method == nil || e.status == nil {
		return
	}
	isMethod, isStatus := h1bIsField(e.method), h1bIsField(e.status)
	notHEAD := func(f h1bFact) bool { return h1bNe(f, isMethod, h1bIsStr("HEAD")) }
	chunkingOn := func(f h1bFact) bool { return f.Pol && h1bIsField(e.chunking)(f.V) }
	// the connection buffer, possibly boxed into an io.Writer or narrowed to its embedded Writer
	isConnBuf := func(v ssa.Value) bool {
		for i := 0; i < 4; i++ {
			f, base := h1bFieldOf(v)
			if f == connBuf {
				return true
			}
			if f == nil || !f.Embedded() {
				return false
			}
			v = base
		}
		return false
	}
	writers := map[string]bool{"Write": true, "WriteString": true, "WriteByte": true, "WriteRune": true, "ReadFrom": true}
	isWireWrite := func(ci ssa.CallInstruction) bool {
		cc := ci.Common()
		if cc.IsInvoke() {
			return writers[cc.Method.Name()] && isConnBuf(cc.Value)
		}
		sc := cc.StaticCallee()
		if sc == nil || len(cc.Args) == 0 {
			return false
		}
		if sc.Signature.Recv() != nil {
			return writers[sc.Name()] && isConnBuf(cc.Args[0])
		}
		switch core.FuncKey(sc) {
		case "fmt.Fprintf", "fmt.Fprint", "fmt.Fprintln", "io.WriteString", "io.Copy", "io.CopyN", "io.CopyBuffer":
			return isConnBuf(cc.Args[0])
		}
		return false
	}
	n := map[string]int{}
	sites, gated := 0, 0
	for _, name := range []string{"chunkWriter.Write", "chunkWriter.close", "chunkWriter.flush"} {
		fn := h1bFunc(c, srv, name)
		if fn == nil {
			continue
		}
		for _, ci := range core.AllCalls(fn) {
			if !isWireWrite(ci) {
				continue
			}
			sites++
			b := ci.Block()
			byHead, byChunk := h1bGuardedR(c.P, b, notHEAD), h1bGuardedR(c.P, b, chunkingOn)
			if byChunk && !byHead {
				gated++
			}
			c.Check(rule, h1bOrd(name+":wire-write", n), ci.Pos(), byHead || byChunk,
				"chunkWriter puts bytes on the connection after the header block ("+core.Render(ci.Value())+") on a path that established neither Method != HEAD nor chunking == true: the reply to a HEAD request would be followed by stray bytes that the client parses as the start of the next reply; established: "+h1bJoinFacts(h1bFactsAt(b)))
		}
	}
	c.Check(rule, "chunkWriter:wire-writes", e.writeHeader.Pos(), sites >= 3, fmt.Sprintf("only %d writes to conn.buf found in chunkWriter.Write/close/flush; the body writer is not in a form the rule follows", sites))
	// the chunking flag is the licence of the gated writes
	k := 0
	for _, st := range core.FieldStores(c.P.SrcFuncs(srv), e.chunking) {
		if v, isB := h1bConstBool(st.Store.Val); isB && !v || gated == 0 {
			continue // (no write relies on the flag alone: nothing to license)
		}
		k++
		b := st.Store.Block()
		key := fmt.Sprintf("%s:chunking#%d:", core.FuncKey(st.Fn), k)
		facts := h1bJoinFacts(h1bFactsAtR(c.P, b))
		c.Check(rule, key+"not-head", st.Store.Pos(), h1bGuardedR(c.P, b, notHEAD),
			"chunking is switched on without Method != HEAD: chunkWriter.close then emits the last-chunk \"0\\r\\n\\r\\n\" after the header block of a HEAD reply and the next reply on the connection is mis-parsed; established: "+facts)
		for _, code := range []int64{304, 204} {
			code := code
			c.Check(rule, fmt.Sprintf("%snot-%d", key, code), st.Store.Pos(), h1bGuardedR(c.P, b, func(f h1bFact) bool { return h1bNe(f, isStatus, h1bIsInt(code)) }),
				fmt.Sprintf("chunking is switched on without status != %d: a reply that must not have a body would be followed by a last-chunk; established: %s", code, facts))
		}
	}
	c.Check(rule, "chunking:licence", e.writeHeader.Pos(), gated == 0 || k >= 1, "writes are licensed by chunking == true but no store switching chunking on was found")
	c.Min(rule, 5)
}
