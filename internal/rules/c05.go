package rules

import (
	"fmt"
	"go/token"
	"go/types"
	"sort"
	"strings"

	"golang.org/x/tools/go/ssa"

	"verif/internal/core"
)

// C05 — balancer calls are total and terminate under concurrent change.
func init() {
	Register(&Rule{
		ID: "C05", Section: "3 C05",
		Technique: "interprocedural must-held lock sets (type-based lock identity, held-on-entry fixpoint over static callers) for guarded-by and lock re-entry; natural-loop classification for termination; callee effect summaries for blocking under lock; reviewed index-site table",
		Meta: core.Meta{
			Level:       "other",
			Explanation: "Decides for bfe_balance (bal_slb, bal_gslb, backend, bal_table): (a) guarded-by: every access to the mutable fields of BalanceRR, BackendRR, SubCluster and BalanceGslb happens with the owning BalanceGslb.lock held, either in the accessing function or on entry through all static callers (constructors and the start-up path from BalTable.Init, checked by who-may-call, are exempt); BalTable's map/versions under BalTable.lock; (b) no lock re-entry: no function acquires (itself or through static callees) a lock of a type it already holds (RWMutex read locks included: a recursive RLock deadlocks against a queued writer); (c) nothing blocks under a balancer lock: no channel operation, select, time.Sleep, network or file call is reachable (static callees, module code) while BalanceGslb.lock, BalanceRR.Mutex or BfeBackend.RWMutex is held; (d) termination: every loop in functions reachable from BalanceGslb.Balance / BalanceRR.Balance is a range loop or a counted loop over an induction variable with a bound not modified in the loop — the one data-dependent `for {}` (simpleBalance) is decided by separate obligations: its all-down latch is cleared only under avail && weight != 0, re-armed after the weight reset, and the error exit exists; (e) totality: non-range index sites on backend / sub-cluster lists are those of a reviewed table, each with the structural fact that keeps it in range; division/modulo by len() of a list requires the non-empty fact. Rules are structural (field objects, comparison operators in any spelling via Guard.CmpIs, loop kinds, value origins followed through private helpers and their single call sites), so helper extraction, inverted or mirrored conditions, early returns, defer Unlock and renamed locals do not change verdicts; the reviewed index/divisor tables are keyed by the enclosing function (renaming one of those functions needs the table updated). Not covered: data races through aliases the type-based lock abstraction cannot see; the Go race detector's dynamic view; fairness.",
			RuleText:    "obligations = each guarded field access, each call made while a lock is held (re-entry, blocking), each loop reachable from Balance, each non-range index site, simpleBalance's latch stores",
			Assumptions: []string{"lock instances are identified by the type that contains them: holding BalanceGslb.lock is taken to mean the lock of the BalanceGslb that owns the accessed sub-cluster/backend list"},
		},
		Run: runC05,
		Mutants: []Mutant{
			{Name: "recursive-rlock", File: "bfe_balance/backend/bfe_backend.go", Old: "	back.RLock()\n	restart := back.restarted\n	back.RUnlock()\n	return restart", New: "	back.RLock()\n	defer back.RUnlock()\n	return back.restarted && back.Avail()", Expect: "lock-reentry"},
			{Name: "gslb-unlocked-setter", File: "bfe_balance/bal_gslb/bal_gslb.go", Old: "func (bal *BalanceGslb) SetGslbBasic(gslbBasic cluster_conf.GslbBasicConf) {\n	bal.lock.Lock()\n", New: "func (bal *BalanceGslb) SetGslbBasic(gslbBasic cluster_conf.GslbBasicConf) {\n	bal.lock.Lock()\n	bal.lock.Unlock()\n	bal.lock.Lock()\n	bal.lock.Unlock()\n	defer bal.lock.Lock()\n", Expect: "guarded-by"},
			{Name: "backendreload-no-lock", File: "bfe_balance/bal_gslb/bal_gslb.go", Old: "func (bal *BalanceGslb) BackendReload(clusterBackend cluster_table_conf.ClusterBackend) error {\n	bal.lock.Lock()\n", New: "func (bal *BalanceGslb) BackendReload(clusterBackend cluster_table_conf.ClusterBackend) error {\n	bal.lock.Lock()\n	bal.lock.Unlock()\n	defer bal.lock.Lock()\n", Expect: "guarded-by"},
			{Name: "sleep-under-lock", File: "bfe_balance/bal_gslb/bal_gslb.go", Old: "	hashKey := bal.getHashKey(req)\n", New: "	hashKey := bal.getHashKey(req)\n	if len(hashKey) == 0 {\n		time.Sleep(time.Millisecond)\n	}\n", Expect: "blocking-under-lock"},
			{Name: "unbounded-walk", File: "bfe_balance/bal_gslb/bal_gslb.go", Old: "	for i := 0; i < len(bal.subClusters); i++ {\n		subCluster = bal.subClusters[i]\n		if subCluster.weight <= 0 {\n			continue\n		}", New: "	for i := 0; w >= 0; i = (i + 1) % len(bal.subClusters) {\n		subCluster = bal.subClusters[i]\n		if subCluster.weight <= 0 {\n			continue\n		}", Expect: "loop-form"},
			{Name: "simple-latch-weakened", File: "bfe_balance/bal_slb/bal_rr.go", Old: "		if avail && backendRR.weight != 0 {\n			allBackendDown = false", New: "		if avail && (backendRR.weight != 0 || backendRR.inSlowStart) {\n			allBackendDown = false", Expect: "simple-latch"},
			{Name: "cursor-kept-across-reload", File: "bfe_balance/bal_slb/bal_rr.go", Old: "	brr.backends = backendsNew\n	brr.sorted = false\n	brr.next = 0\n}", New: "	brr.backends = backendsNew\n	brr.sorted = false\n	if brr.next > len(backendsNew) {\n		brr.next = 0\n	}\n}", Expect: "cursor-in-range"},
			{Name: "table-lookup-unlocked", File: "bfe_balance/bal_table.go", Old: "func (t *BalTable) lookup(clusterName string) (*bal_gslb.BalanceGslb, error) {", New: "func (t *BalTable) LookupFast(clusterName string) *bal_gslb.BalanceGslb {\n	return t.balTable[clusterName]\n}\n\nfunc (t *BalTable) lookup(clusterName string) (*bal_gslb.BalanceGslb, error) {", Expect: "guarded-by"},
			{Name: "silent-extract-install-helper", File: "bfe_balance/bal_slb/bal_rr.go", Old: "\t// point brr.backends to backendsNew\n\tbrr.backends = backendsNew\n\tbrr.sorted = false\n\tbrr.next = 0\n}\n", New: "\tbrr.install(backendsNew)\n}\n\nfunc (brr *BalanceRR) install(list BackendList) {\n\tbrr.backends = list\n\tbrr.sorted = false\n\tbrr.next = 0\n}\n", Silent: true},
			{Name: "silent-nonempty-gate-mirrored", File: "bfe_balance/bal_gslb/sub_cluster.go", Old: "\tif sub.backends.Len() == 0 {\n\t\treturn nil, fmt.Errorf(\"no backend in sub cluster [%s]\", sub.Name)\n\t}\n\n\t// balance from subcluster\n\treturn sub.backends.Balance(algor, key)\n", New: "\tif 0 < sub.backends.Len() {\n\t\t// balance from subcluster\n\t\treturn sub.backends.Balance(algor, key)\n\t}\n\treturn nil, fmt.Errorf(\"no backend in sub cluster [%s]\", sub.Name)\n", Silent: true},
			{Name: "silent-gslb-defer-unlock", File: "bfe_balance/bal_gslb/bal_gslb.go", Old: "\tbal.lock.Lock()\n\n\tfor _, sub := range bal.subClusters {\n\t\tsub.setSlowStart(*backendConf.SlowStartTime)\n\t}\n\n\tbal.lock.Unlock()\n", New: "\tbal.lock.Lock()\n\tdefer bal.lock.Unlock()\n\n\tfor _, sub := range bal.subClusters {\n\t\tsub.setSlowStart(*backendConf.SlowStartTime)\n\t}\n", Silent: true},
			{Name: "silent-movetonext-early-return", File: "bfe_balance/bal_slb/bal_rr.go", Old: "\tnext += 1\n\tif next >= len(backends) {\n\t\tnext = 0\n\t}\n\treturn next\n", New: "\tif next+1 >= len(backends) {\n\t\treturn 0\n\t}\n\treturn next + 1\n", Silent: true},
			{Name: "silent-gethash-renamed-param", File: "bfe_balance/bal_slb/bal_rr.go", Old: "func GetHash(value []byte, base uint) int {\n\tvar hash uint64\n\n\tif value == nil {\n\t\thash = uint64(rand.Uint32())\n\t} else {\n\t\thash = murmur3.Sum64(value)\n\t}\n\n\treturn int(hash % uint64(base))\n}", New: "func GetHash(key []byte, mod uint) int {\n\tvar h uint64\n\n\tif key != nil {\n\t\th = murmur3.Sum64(key)\n\t} else {\n\t\th = uint64(rand.Uint32())\n\t}\n\n\treturn int(h % uint64(mod))\n}", Silent: true},
			{Name: "silent-simple-latch-renamed", File: "bfe_balance/bal_slb/bal_rr.go", Old: "\tallBackendDown := true\n\n\tnext := brr.next\n\tfor {\n\t\tbackendRR = backends[next]\n\t\tbackend = backendRR.backend\n\n\t\tavail := backend.Avail()\n\t\tif avail && backendRR.current > 0 {\n\t\t\t// find one available backend\n\t\t\tbreak\n\t\t}\n\n\t\tif bfe_debug.DebugBal {\n\t\t\tlog.Logger.Debug(\"backend[%s],avail[%d],weight[%d]\",\n\t\t\t\tbackend.Name, avail, backendRR.weight)\n\t\t}\n\n\t\tif avail && backendRR.weight != 0 {\n\t\t\tallBackendDown = false\n\t\t}\n\n\t\t// move to next\n\t\tnext = moveToNext(next, backends)\n\n\t\tif next == brr.next {\n\t\t\t// all backends have been check\n\t\t\tif allBackendDown {\n\t\t\t\tif bfe_debug.DebugBal {\n\t\t\t\t\tlog.Logger.Debug(\"rr_bal:all backend is down\")\n\t\t\t\t}\n\t\t\t\treturn backend, fmt.Errorf(\"rr_bal:all backend is down\")\n\t\t\t} else {\n\t\t\t\tif bfe_debug.DebugBal {\n\t\t\t\t\tlog.Logger.Debug(\"rr_bal:reset backend weight\")\n\t\t\t\t}\n\t\t\t\tbrr.initWeight()\n\t\t\t\tbrr.next = 0\n\t\t\t\tnext = 0\n\t\t\t\t// check again after reset: backends may go down meanwhile\n\t\t\t\tallBackendDown = true\n", New: "\tnoneUp := true\n\n\tnext := brr.next\n\tfor {\n\t\tbackendRR = backends[next]\n\t\tbackend = backendRR.backend\n\n\t\tusable := backend.Avail()\n\t\tif usable && backendRR.current > 0 {\n\t\t\t// find one available backend\n\t\t\tbreak\n\t\t}\n\n\t\tif bfe_debug.DebugBal {\n\t\t\tlog.Logger.Debug(\"backend[%s],avail[%d],weight[%d]\",\n\t\t\t\tbackend.Name, usable, backendRR.weight)\n\t\t}\n\n\t\tif usable && 0 != backendRR.weight {\n\t\t\tnoneUp = false\n\t\t}\n\n\t\t// move to next\n\t\tnext = moveToNext(next, backends)\n\n\t\tif next == brr.next {\n\t\t\t// all backends have been check\n\t\t\tif noneUp {\n\t\t\t\tif bfe_debug.DebugBal {\n\t\t\t\t\tlog.Logger.Debug(\"rr_bal:all backend is down\")\n\t\t\t\t}\n\t\t\t\treturn backend, fmt.Errorf(\"rr_bal:all backend is down\")\n\t\t\t} else {\n\t\t\t\tif bfe_debug.DebugBal {\n\t\t\t\t\tlog.Logger.Debug(\"rr_bal:reset backend weight\")\n\t\t\t\t}\n\t\t\t\tbrr.initWeight()\n\t\t\t\tbrr.next = 0\n\t\t\t\tnext = 0\n\t\t\t\t// check again after reset: backends may go down meanwhile\n\t\t\t\tnoneUp = true\n", Silent: true},
		},
	})
}

func runC05(c *core.Ctx) {
	const slb, gslb, bk, tbl = "bfe_balance/bal_slb", "bfe_balance/bal_gslb", "bfe_balance/backend", "bfe_balance"
	for _, p := range []string{slb, gslb, bk, tbl} {
		if c.P.Pkg(p) == nil {
			c.Missing(p)
			return
		}
	}
	pl := core.WholeProgramLocks(c.P)
	const gslbLock = gslb + ".BalanceGslb.lock"
	const tblLock = tbl + ".BalTable.lock"
	// field -> required lock
	guard := map[string]string{}
	for _, f := range []string{"backends", "sorted", "next", "slowStartNum", "slowStartTime"} {
		guard[slb+".BalanceRR."+f] = gslbLock
	}
	for _, f := range []string{"weight", "current", "inSlowStart", "weightSS"} {
		guard[slb+".BackendRR."+f] = gslbLock
	}
	for _, f := range []string{"subClusters", "totalWeight", "single", "avail", "retryMax", "crossRetry", "hashConf", "BalanceMode"} {
		guard[gslb+".BalanceGslb."+f] = gslbLock
	}
	for _, f := range []string{"weight", "sType", "backends"} {
		guard[gslb+".SubCluster."+f] = gslbLock
	}
	for _, f := range []string{"balTable", "versions"} {
		guard[tbl+".BalTable."+f] = tblLock
	}
	// exempt: constructors and the start-up path (object not yet published)
	exempt := map[string]string{
		slb + ".NewBalanceRR": "constructor", slb + ".NewBackendRR": "constructor",
		gslb + ".NewBalanceGslb": "constructor", gslb + ".newSubCluster": "constructor", gslb + ".NewSubCluster": "constructor",
		tbl + ".NewBalTable": "constructor",
	}
	// start-up only: reachable solely from BalTable.Init (who-may-call)
	startup := map[string][]string{
		gslb + ".BalanceGslb.Init":    {tbl + ".BalTable.gslbInit", tbl + ".BalTable.BalTableReload"},
		tbl + ".BalTable.gslbInit":    {tbl + ".BalTable.Init"},
		tbl + ".BalTable.backendInit": {tbl + ".BalTable.Init"},
	}
	callersOf := func(name string) []string {
		var out []string
		for _, f := range c.P.SrcFuncs("") {
			if len(core.Calls(f, name)) > 0 {
				out = append(out, core.FuncKey(f))
			}
		}
		sort.Strings(out)
		return out
	}
	for fn, allowed := range startup {
		got := callersOf(fn)
		ok := true
		for _, g := range got {
			found := false
			for _, a := range allowed {
				if a == g {
					found = true
				}
			}
			if !found {
				ok = false
			}
		}
		c.Check("startup-only", fn, token.NoPos, ok, fmt.Sprintf("%s writes balancer state without the owner's lock and is exempt only as a pre-publication step; callers %v, allowed %v", fn, got, allowed))
	}
	fns := c.P.SrcFuncs(slb, gslb, tbl)
	ord := map[string]int{}
	for _, fn := range fns {
		k := core.FuncKey(fn)
		root := k
		if i := strings.Index(k, "$"); i >= 0 {
			root = k[:i]
		}
		if _, ex := exempt[root]; ex {
			continue
		}
		if _, st := startup[root]; st {
			continue
		}
		core.Instrs(fn, func(in ssa.Instruction) {
			fa, ok := in.(*ssa.FieldAddr)
			if !ok {
				return
			}
			fv := core.FieldObj(fa.X, fa.Field)
			if fv == nil {
				return
			}
			t := fa.X.Type()
			if p, isP := t.Underlying().(*types.Pointer); isP {
				t = p.Elem()
			}
			fk := core.TypeStr(t) + "." + fv.Name()
			lock, ok := guard[fk]
			if !ok {
				return
			}
			c.Analysed(k)
			// fresh object: allocated in this function (not yet published)
			if al, isAl := fa.X.(*ssa.Alloc); isAl && al.Heap {
				return
			}
			if call, isCall := fa.X.(*ssa.Call); isCall {
				if sc := call.Call.StaticCallee(); sc != nil && exempt[core.FuncKey(sc)] != "" {
					return
				}
			}
			write := false
			for _, r := range *fa.Referrers() {
				if st, isSt := r.(*ssa.Store); isSt && st.Addr == fa {
					write = true
				}
			}
			mode := "R"
			if write {
				mode = "W"
			}
			held := pl.HeldT(in, lock, mode)
			ord[k+fk]++
			c.Check("guarded-by", fmt.Sprintf("%s:%s:%s#%d", k, fv.Name(), mode, ord[k+fk]), in.Pos(), held,
				fmt.Sprintf("%s is accessed (%s) without %s held here or by all static callers; held: %v", fk, mode, lock, pl.AllHeld(in)))
		})
	}
	c.Min("guarded-by", 80)

	// ---- (b) lock re-entry and (c) blocking under lock ---------------------------------
	acq := map[*ssa.Function]map[string]bool{} // lock types a function may acquire (transitively)
	blk := map[*ssa.Function]string{}          // first blocking effect reachable
	all := c.P.SrcFuncs("")
	for _, fn := range all {
		acq[fn] = map[string]bool{}
		core.Instrs(fn, func(in ssa.Instruction) {
			switch x := in.(type) {
			case *ssa.Call:
				if kind, lock, ok := core.LockEventT(&x.Call); ok && (kind == "Lock" || kind == "RLock") {
					acq[fn][lock] = true
				}
				if blk[fn] == "" {
					if b := blockingCallee(&x.Call); b != "" {
						blk[fn] = b
					}
				}
			case *ssa.Select:
				if x.Blocking && blk[fn] == "" {
					blk[fn] = "blocking select"
				}
			case *ssa.Send:
				if blk[fn] == "" {
					blk[fn] = "channel send"
				}
			case *ssa.UnOp:
				if x.Op == token.ARROW && blk[fn] == "" {
					blk[fn] = "channel receive"
				}
			}
		})
	}
	for changed := true; changed; {
		changed = false
		for _, fn := range all {
			core.Instrs(fn, func(in ssa.Instruction) {
				call, ok := in.(*ssa.Call)
				if !ok {
					return
				}
				sc := call.Call.StaticCallee()
				if sc == nil || acq[sc] == nil {
					return
				}
				for l := range acq[sc] {
					if !acq[fn][l] {
						acq[fn][l] = true
						changed = true
					}
				}
				if blk[fn] == "" && blk[sc] != "" {
					blk[fn] = blk[sc] + " via " + core.FuncKey(sc)
					changed = true
				}
			})
		}
	}
	balLocks := map[string]bool{gslbLock: true, slb + ".BalanceRR.Mutex": true, bk + ".BfeBackend.RWMutex": true, tblLock: true}
	nCalls := 0
	for _, fn := range c.P.SrcFuncs(slb, gslb, bk, tbl) {
		ls := pl.Sets[fn]
		k := core.FuncKey(fn)
		co := map[string]int{}
		core.Instrs(fn, func(in ssa.Instruction) {
			call, ok := in.(*ssa.Call)
			if !ok {
				return
			}
			held := ls.Held(in)
			if len(held) == 0 {
				return
			}
			// direct lock op while holding the same type
			if kind, lock, isLock := core.LockEventT(&call.Call); isLock {
				if kind == "Lock" || kind == "RLock" {
					re := false
					for _, h := range held {
						if strings.TrimSuffix(strings.TrimSuffix(h, ":W"), ":R") == lock {
							re = true
						}
					}
					nCalls++
					c.Check("lock-reentry", k+":"+lock, in.Pos(), !re, "acquires "+lock+" while already holding it ("+strings.Join(held, ",")+"): self-deadlock (for RWMutex also when both are read locks and a writer is queued)")
				}
				return
			}
			sc := call.Call.StaticCallee()
			if sc == nil || acq[sc] == nil {
				return
			}
			co[core.FuncKey(sc)]++
			key := fmt.Sprintf("%s:call-%s#%d", k, core.FuncKey(sc), co[core.FuncKey(sc)])
			var re []string
			for _, h := range held {
				l := strings.TrimSuffix(strings.TrimSuffix(h, ":W"), ":R")
				if acq[sc][l] {
					re = append(re, l)
				}
			}
			nCalls++
			c.Check("lock-reentry", key, in.Pos(), len(re) == 0, fmt.Sprintf("calls %s, which (transitively) acquires %v, while holding %v: self-deadlock", core.FuncKey(sc), re, held))
			underBal := false
			for _, h := range held {
				if balLocks[strings.TrimSuffix(strings.TrimSuffix(h, ":W"), ":R")] {
					underBal = true
				}
			}
			if underBal {
				c.Check("blocking-under-lock", key, in.Pos(), blk[sc] == "", fmt.Sprintf("calls %s while holding %v; the callee can block: %s", core.FuncKey(sc), held, blk[sc]))
			}
		})
		// direct blocking effects under a held balancer lock
		core.Instrs(fn, func(in ssa.Instruction) {
			held := ls.Held(in)
			if len(held) == 0 {
				return
			}
			what := ""
			switch x := in.(type) {
			case *ssa.Call:
				what = blockingCallee(&x.Call)
			case *ssa.Select:
				if x.Blocking {
					what = "blocking select"
				}
			case *ssa.Send:
				what = "channel send"
			case *ssa.UnOp:
				if x.Op == token.ARROW {
					what = "channel receive"
				}
			}
			if what != "" {
				c.Check("blocking-under-lock", k+":direct:"+what, in.Pos(), false, what+" while holding "+strings.Join(held, ","))
			}
		})
	}
	c.Min("lock-reentry", 25)

	// ---- (d) termination ---------------------------------------------------------------------
	roots := []*ssa.Function{c.P.Func(gslb, "BalanceGslb.Balance"), c.P.Func(slb, "BalanceRR.Balance")}
	reach := map[*ssa.Function]bool{}
	for _, r := range roots {
		if r == nil {
			c.Missing("BalanceGslb.Balance / BalanceRR.Balance")
			continue
		}
		for _, f := range core.TransitiveCallees(r, 8) {
			if rel := core.FuncPkgRel(f); rel == slb || rel == gslb || rel == bk {
				reach[f] = true
			}
		}
	}
	var rfns []*ssa.Function
	for f := range reach {
		rfns = append(rfns, f)
	}
	sort.Slice(rfns, func(i, j int) bool { return core.FuncKey(rfns[i]) < core.FuncKey(rfns[j]) })
	nLoops := 0
	simple := c.P.Func(slb, "BalanceRR.simpleBalance")
	for _, f := range rfns {
		c.Analysed(core.FuncKey(f))
		for i, l := range core.Loops(f) {
			kind, detail := core.LoopKind(l)
			nLoops++
			key := fmt.Sprintf("%s:loop#%d", core.FuncKey(f), i)
			if kind == "" && simple != nil && rbInRegion(c.P, simple, f) {
				// data-dependent scan: decided by the latch obligations below
				c.Check("loop-form", key, l.Header.Instrs[0].Pos(), true, "data-dependent scan, see simple-latch")
				checkSimpleLatch(c, f, l)
				continue
			}
			c.Check("loop-form", key, l.Header.Instrs[0].Pos(), kind != "", "loop reachable from Balance is neither a range loop nor a counted loop with an invariant bound (exit condition: "+detail+"); termination while holding the balancer lock is not established")
		}
	}
	c.Min("loop-form", 10)

	// ---- (e) totality: index sites --------------------------------------------------------------
	// index classes are structural: "0" (constant), "rem" (x % len), "cursor" (0 / moveToNext(...) /
	// the BalanceRR.next field, merged by phis), "field:<name>" (load of a struct field)
	reviewed := map[string]string{
		slb + ".BalanceRR.simpleBalance|cursor":             "next is brr.next or moveToNext(...), both < len(backends) for a non-empty list; emptiness is excluded by SubCluster.balance's Len()==0 test (nonempty-gate)",
		slb + ".randomBalance|rem":                          "i = rand % len(backs); callers pass leastConnsBalance's non-empty result (C03 eligible-return)",
		slb + ".BalanceRR.leastConnsSmoothBalance|0":        "guarded by len(candidates) == 1",
		slb + ".BalanceRR.leastConnsSimpleBalance|0":        "guarded by len(candidates) == 1",
		gslb + ".BalanceGslb.subClusterBalance|field:avail": "bal.avail is an index computed over the published list (C03 avail-index)",
	}
	isLenOf := func(list ssa.Value) func(ssa.Value) bool {
		return func(v ssa.Value) bool {
			call, ok := core.StripConv(v).(*ssa.Call)
			if !ok {
				return false
			}
			b, ok := call.Call.Value.(*ssa.Builtin)
			return ok && b.Name() == "len" && (list == nil || rbSame(c.P, call.Call.Args[0], list))
		}
	}
	isConstN := func(n string) func(ssa.Value) bool {
		return func(v ssa.Value) bool {
			k, ok := core.StripConv(v).(*ssa.Const)
			return ok && k.Value != nil && k.Value.ExactString() == n
		}
	}
	for _, f := range c.P.SrcFuncs(slb, gslb) {
		k := core.FuncKey(f)
		loops := core.Loops(f)
		core.Instrs(f, func(in ssa.Instruction) {
			ia, ok := in.(*ssa.IndexAddr)
			if !ok {
				return
			}
			ts := core.TypeStr(ia.X.Type())
			if !strings.HasSuffix(ts, "BackendList") && !strings.HasSuffix(ts, "SubClusterList") {
				return
			}
			// induction variable of a range/counted loop bounded by len of the same list
			for _, l := range loops {
				if !l.Body[in.Block()] {
					continue
				}
				if kind, _ := core.LoopKind(l); kind == "range-slice" || kind == "counted" {
					if phi, isPhi := ia.Index.(*ssa.Phi); isPhi && phi.Block() == l.Header {
						return
					}
					if b, isB := ia.Index.(*ssa.BinOp); isB {
						if phi, isPhi := b.X.(*ssa.Phi); isPhi && phi.Block() == l.Header {
							return
						}
					}
				}
			}
			// sort.Interface adaptors receive indices from package sort (0 <= i,j < Len())
			if n := f.Name(); (n == "Swap" || n == "Less") && f.Signature.Recv() != nil {
				return
			}
			idx := core.Render(ia.Index)
			switch x := core.StripConv(ia.Index).(type) {
			case *ssa.Const:
				if x.Value != nil {
					idx = x.Value.ExactString()
				}
			case *ssa.BinOp:
				if x.Op == token.REM {
					idx = "rem"
				}
			case *ssa.UnOp:
				if fa, isFA := x.X.(*ssa.FieldAddr); isFA && x.Op == token.MUL {
					if fo := core.FieldObj(fa.X, fa.Field); fo != nil {
						idx = "field:" + fo.Name()
					}
				}
			}
			if c05CursorValue(c.P, ia.Index, slb) {
				idx = "cursor"
			}
			site := k + "|" + idx
			reason, ok2 := reviewed[site]
			okGuard := ok2
			if strings.HasSuffix(site, "|0") {
				okGuard = rbGuarded(c.P, in.Block(), rbCmpAtom(token.EQL, isLenOf(ia.X), isConstN("1")))
			}
			c.Check("index-site", site, in.Pos(), okGuard, "non-range index into a backend/sub-cluster list that is not in the reviewed table or lost its guard ("+reason+")")
		})
	}
	c.Min("index-site", 4)
	// cursor invariant behind the reviewed `backends[next]` site: brr.next < len(brr.backends).
	// Every store that replaces brr.backends must be followed, on every path to return, by
	// next = 0; any other store to next must be 0 or a moveToNext(...) result (which wraps).
	if nf, ok := c.P.Obj(slb, "BalanceRR.next").(*types.Var); ok {
		bf, _ := c.P.Obj(slb, "BalanceRR.backends").(*types.Var)
		allF := c.P.SrcFuncs("")
		for i, st := range core.FieldStores(allF, bf) {
			bad := core.MustPass(st.Fn, st.Store, func(x ssa.Instruction) bool {
				s2, ok := x.(*ssa.Store)
				if !ok {
					return false
				}
				fa, ok := s2.Addr.(*ssa.FieldAddr)
				return ok && core.FieldObj(fa.X, fa.Field) == nf && isZero(s2.Val)
			})
			c.Check("cursor-in-range", fmt.Sprintf("%s:backends-store#%d", core.FuncKey(st.Fn), i), st.Store.Pos(), bad == nil,
				"BalanceRR.backends is replaced and a path reaches return without resetting the scan cursor (next = 0): simpleBalance indexes backends[next] without a bound test, so a shorter list makes it panic while holding the balancer lock")
		}
		for i, st := range core.FieldStores(allF, nf) {
			ok := isZero(st.Store.Val) || c05CursorValue(c.P, st.Store.Val, slb)
			c.Check("cursor-in-range", fmt.Sprintf("%s:next-store#%d", core.FuncKey(st.Fn), i), st.Store.Pos(), ok, "BalanceRR.next is assigned "+core.Render(st.Store.Val)+", which is neither 0 nor a wrapped moveToNext(...) position")
		}
		c.Min("cursor-in-range", 4)
		if mv := c.P.Func(slb, "moveToNext"); mv != nil {
			// every position handed out is 0 or was compared < len(list); at least one path wraps to 0
			wraps, bounded := false, true
			okPos := func(v ssa.Value, gs []core.Guard) {
				if isZero(v) {
					wraps = true
					return
				}
				for _, g := range gs {
					if g.CmpIs(token.LSS, func(x ssa.Value) bool { return rbSameExpr(x, v) }, isLenOf(nil)) {
						return
					}
				}
				bounded = false
			}
			for _, r := range core.Returns(mv) {
				rv := core.RetVals(r)
				if len(rv) == 0 {
					continue
				}
				if phi, isPhi := rv[0].(*ssa.Phi); isPhi {
					for i, e := range phi.Edges {
						okPos(e, core.GuardsOnEdge(phi.Block().Preds[i], phi.Block()))
					}
				} else {
					okPos(rv[0], core.GuardsAt(r.Block()))
				}
			}
			c.Check("cursor-in-range", "moveToNext:wraps", mv.Pos(), wraps && bounded, "moveToNext must wrap to 0 when the incremented position reaches len(backends) (every returned position is 0 or tested < len)")
		} else {
			c.Missing(slb + ".moveToNext")
		}
	}
	// emptiness gate in SubCluster.balance
	if f := c.P.Func(gslb, "SubCluster.balance"); f != nil {
		for _, ci := range core.Calls(f, slb+".BalanceRR.Balance") {
			recv := ci.Common().Args[0]
			ok := rbGuarded(c.P, ci.(ssa.Instruction).Block(), rbNonZeroAtom(func(v ssa.Value) bool {
				call, isCall := core.StripConv(v).(*ssa.Call)
				if !isCall {
					return false
				}
				if core.CallIs(&call.Call, slb+".BalanceRR.Len") {
					return rbSame(c.P, call.Call.Args[0], recv)
				}
				// len(<recv>.backends)
				if b, isB := call.Call.Value.(*ssa.Builtin); isB && b.Name() == "len" {
					base, isF := rbFieldLoad(call.Call.Args[0], "", "backends")
					return isF && rbSame(c.P, base, recv)
				}
				return false
			}))
			c.Check("nonempty-gate", "SubCluster.balance", ci.Pos(), ok, "BalanceRR.Balance is reached without the sub-cluster's backend list having been tested non-empty (simpleBalance indexes it, GetHash/rand take it modulo its length)")
		}
		c.Min("nonempty-gate", 1)
	} else {
		c.Missing(gslb + ".SubCluster.balance")
	}
	// division / modulo by a non-constant: the divisor must be known non-zero — by a dominating test of
	// the divisor itself, or, when it is (the length of) a parameter, by the reviewed facts about the callers
	transferred := map[string]string{
		slb + ".randomBalance": "callers pass leastConnsBalance's non-empty candidate list (index-site randomBalance|rem)",
		slb + ".GetHash":       "every call site passes a total weight known to be non-zero (divisor GetHash#i below)",
	}
	sameVal := func(d ssa.Value) func(ssa.Value) bool {
		d = core.StripConv(d)
		return func(v ssa.Value) bool {
			v = core.StripConv(v)
			if v == d {
				return true
			}
			_, l1 := v.(*ssa.UnOp)
			_, l2 := d.(*ssa.UnOp)
			return l1 && l2 && sameElem(v, d) // two loads of the same field path
		}
	}
	// nonZero: d was tested non-zero on every way to b; a product is non-zero when its factors are
	var nonZero func(d ssa.Value, b *ssa.BasicBlock) bool
	nonZero = func(d ssa.Value, b *ssa.BasicBlock) bool {
		d = core.StripConv(d)
		switch x := d.(type) {
		case *ssa.Const:
			return x.Value != nil && x.Value.ExactString() != "0"
		case *ssa.BinOp:
			if x.Op == token.MUL {
				return nonZero(x.X, b) && nonZero(x.Y, b)
			}
		}
		return rbGuarded(c.P, b, rbNonZeroAtom(sameVal(d)))
	}
	for _, f := range c.P.SrcFuncs(slb, gslb) {
		nd := 0
		core.Instrs(f, func(in ssa.Instruction) {
			b, ok := in.(*ssa.BinOp)
			if !ok || (b.Op != token.REM && b.Op != token.QUO) {
				return
			}
			d := core.StripConv(b.Y)
			if _, isK := d.(*ssa.Const); isK {
				return
			}
			if bt, isBasic := d.Type().Underlying().(*types.Basic); !isBasic || bt.Info()&types.IsInteger == 0 {
				return
			}
			k := core.FuncKey(f)
			class := "local"
			var prm ssa.Value = d
			if call, isCall := d.(*ssa.Call); isCall {
				if bi, isB := call.Call.Value.(*ssa.Builtin); isB && bi.Name() == "len" {
					class = "len"
					prm = core.StripConv(call.Call.Args[0])
				}
			}
			if pp, isP := prm.(*ssa.Parameter); isP {
				for j, q := range f.Params {
					if q == pp {
						class = fmt.Sprintf("%s(param#%d)", map[bool]string{true: "len", false: "value"}[class == "len"], j)
					}
				}
			}
			nd++
			okDiv := nonZero(d, in.Block())
			if !okDiv && strings.Contains(class, "param#") {
				_, okDiv = transferred[k]
			}
			c.Check("divisor", fmt.Sprintf("%s:%s#%d", k, class, nd), in.Pos(), okDiv, "division/modulo by "+core.Render(b.Y)+" without the divisor being known non-zero")
		})
	}
	for _, f := range c.P.SrcFuncs(slb, gslb) {
		for i, ci := range core.Calls(f, slb+".GetHash") {
			in := ci.(ssa.Instruction)
			arg := core.StripConv(ci.Common().Args[1])
			// the weight itself was tested non-zero ...
			ok := nonZero(arg, in.Block())
			if _, isPhi := arg.(*ssa.Phi); !ok && isPhi {
				// ... or it is a sum accumulated over a candidate list that was tested non-empty (each weight > 0)
				ok = rbGuarded(c.P, in.Block(), rbNonZeroAtom(isLenOf(nil)))
			}
			c.Check("divisor", fmt.Sprintf("%s:GetHash#%d", core.FuncKey(f), i), in.Pos(), ok, "GetHash(key, "+core.Render(ci.Common().Args[1])+") takes the hash modulo a total weight that is not known to be non-zero here")
		}
	}
	c.Min("divisor", 3)
}

// blockingCallee names a call that can block for an unbounded time.
func blockingCallee(cc *ssa.CallCommon) string {
	k := strings.TrimPrefix(core.CalleeKey(cc), "invoke:")
	switch {
	case k == "time.Sleep":
		return "time.Sleep"
	case strings.HasPrefix(k, "net.Dial"), strings.HasPrefix(k, "net.Listen"), strings.HasPrefix(k, "net/http.Client."), k == "net/http.Get":
		return k
	case strings.HasPrefix(k, "net.Conn."), strings.HasPrefix(k, "io.Reader."), strings.HasPrefix(k, "io.Writer."), strings.HasPrefix(k, "os.File."), strings.HasPrefix(k, "os.Open"), strings.HasPrefix(k, "io/ioutil.ReadFile"), strings.HasPrefix(k, "os.ReadFile"):
		return k
	case k == "sync.WaitGroup.Wait", k == "sync.Cond.Wait":
		return k
	}
	return ""
}

// c05CursorValue: v is built only from 0, results of moveToNext(...) and loads
// of the BalanceRR.next field, merged by phis (a position that wraps).
func c05CursorValue(p *core.Prog, v ssa.Value, slb string) bool {
	ok, leaf := true, false
	seen := map[ssa.Value]bool{}
	var walk func(v ssa.Value)
	walk = func(v ssa.Value) {
		v = core.StripConv(v)
		if seen[v] {
			return
		}
		seen[v] = true
		switch x := v.(type) {
		case *ssa.Phi:
			for _, e := range x.Edges {
				walk(e)
			}
		case *ssa.Const:
			if !isZero(x) {
				ok = false
			}
		case *ssa.Call:
			if !core.CallIs(&x.Call, slb+".moveToNext") {
				ok = false
			}
			leaf = true
		case *ssa.UnOp:
			if _, isNext := rbFieldLoad(x, "bal_slb.BalanceRR", "next"); !isNext {
				ok = false
			}
			leaf = true
		default:
			ok = false
		}
	}
	walk(v)
	return ok && leaf
}

// rbNonZeroAtom: the condition establishes that a value accepted by mx is not
// zero (x != 0, x > 0, x >= 1, in any spelling).
func rbNonZeroAtom(mx func(ssa.Value) bool) rbAtom {
	one := func(v ssa.Value) bool {
		k, ok := core.StripConv(v).(*ssa.Const)
		return ok && k.Value != nil && k.Value.ExactString() == "1"
	}
	zero := func(v ssa.Value) bool { return isZero(core.StripConv(v)) }
	return func(v ssa.Value, pol bool) bool {
		g := core.Guard{Cond: v, Pol: pol}
		return g.CmpIs(token.NEQ, mx, zero) || g.CmpIs(token.GTR, mx, zero) || g.CmpIs(token.GEQ, mx, one)
	}
}

// checkSimpleLatch: obligations for simpleBalance's data-dependent scan loop.
func checkSimpleLatch(c *core.Ctx, f *ssa.Function, l *core.Loop) {
	// the latch is the boolean loop variable that starts true and, while still true, leads to the error
	// return; edges storing false must be guarded by avail && weight != 0
	derives := func(v ssa.Value, latch *ssa.Phi) bool {
		seen := map[ssa.Value]bool{}
		var walk func(v ssa.Value) bool
		walk = func(v ssa.Value) bool {
			if v == ssa.Value(latch) {
				return true
			}
			phi, ok := v.(*ssa.Phi)
			if !ok || seen[v] {
				return false
			}
			seen[v] = true
			for _, e := range phi.Edges {
				if walk(e) {
					return true
				}
			}
			return false
		}
		return walk(v)
	}
	errExit := func(latch *ssa.Phi) bool {
		for _, r := range core.Returns(f) {
			rv := core.RetVals(r)
			if len(rv) == 2 && !isNilConst(rv[1]) && l.Header.Dominates(r.Block()) {
				// reached from inside the loop, under the latch still being set
				if core.HasGuard(r.Block(), func(g core.Guard) bool {
					v, pol := rbNorm(g.Cond, g.Pol)
					return pol && derives(v, latch)
				}) {
					return true
				}
			}
		}
		return false
	}
	var latch *ssa.Phi
	for _, in := range l.Header.Instrs {
		phi, ok := in.(*ssa.Phi)
		if !ok {
			break
		}
		if bt, isB := phi.Type().Underlying().(*types.Basic); !isB || bt.Kind() != types.Bool {
			continue
		}
		initTrue := false
		for i, e := range phi.Edges {
			if k, isK := rbBoolConst(e); isK && k && !l.Body[phi.Block().Preds[i]] {
				initTrue = true
			}
		}
		if initTrue && (latch == nil || errExit(phi)) {
			latch = phi
		}
	}
	if latch == nil {
		c.Check("simple-latch", "simpleBalance:latch", l.Header.Instrs[0].Pos(), false, "the all-backends-down latch of the scan loop was not found")
		return
	}
	nFalse, rearm := 0, false
	var visit func(v ssa.Value, pred, succ *ssa.BasicBlock, seen map[ssa.Value]bool)
	visit = func(v ssa.Value, pred, succ *ssa.BasicBlock, seen map[ssa.Value]bool) {
		if seen[v] {
			return
		}
		seen[v] = true
		switch x := v.(type) {
		case *ssa.Phi:
			for i, e := range x.Edges {
				visit(e, x.Block().Preds[i], x.Block(), seen)
			}
		case *ssa.Const:
			if x.Value == nil || pred == nil {
				return
			}
			if x.Value.ExactString() == "false" && l.Body[pred] {
				nFalse++
				availOK, weightOK := false, false
				isWeight := func(v ssa.Value) bool { return fieldLoadOf(v, "weight") != nil }
				for _, g := range core.GuardsOnEdge(pred, succ) {
					cv, pol := rbNorm(g.Cond, g.Pol)
					if call, ok := cv.(*ssa.Call); ok && pol && core.CallIs(&call.Call, "bfe_balance/backend.BfeBackend.Avail") {
						availOK = true
					}
					gg := core.Guard{Cond: cv, Pol: pol}
					if gg.CmpIs(token.NEQ, isWeight, isZero) || gg.CmpIs(token.GTR, isWeight, isZero) {
						weightOK = true
					}
				}
				c.Check("simple-latch", fmt.Sprintf("simpleBalance:clear#%d", nFalse), pred.Instrs[len(pred.Instrs)-1].Pos(), availOK && weightOK,
					"the all-down latch is cleared on a path that did not establish Avail() && weight != 0 for the scanned backend; the scan can then spin forever under the lock when no backend has positive weight")
			}
			if x.Value.ExactString() == "true" && l.Body[pred] {
				rearm = true
			}
		}
	}
	visit(latch, nil, nil, map[ssa.Value]bool{})
	if nFalse == 0 {
		c.Check("simple-latch", "simpleBalance:clear", l.Header.Instrs[0].Pos(), false, "no path clears the all-down latch")
	}
	c.Check("simple-latch", "simpleBalance:rearm", l.Header.Instrs[0].Pos(), rearm,
		"after a full cycle resets the weights the all-down latch is not re-armed: if every backend becomes unavailable after that point the scan never reaches its error exit and spins while holding the balancer lock")
	// an error exit exists inside the loop
	c.Check("simple-latch", "simpleBalance:error-exit", l.Header.Instrs[0].Pos(), errExit(latch), "the scan loop has no error exit for the all-down case")
}
