package rules

import (
	"fmt"
	"go/token"
	"go/types"
	"sort"
	"strings"

	"golang.org/x/tools/go/ssa"

	"verif/internal/core"
)

// C05 — balancer calls are total and terminate under concurrent change.
func init() {
	Register(&Rule{
		ID: "C05", Section: "3 C05",
		Technique: "interprocedural must-held lock sets (type-based lock identity, held-on-entry fixpoint over static callers) for guarded-by and lock re-entry; natural-loop classification for termination; callee effect summaries for blocking under lock; reviewed index-site table",
		Meta: core.Meta{
			Level: "other",
			Explanation: "Decides for bfe_balance (bal_slb, bal_gslb, backend, bal_table): (a) guarded-by: every access to the mutable fields of BalanceRR, BackendRR, SubCluster and BalanceGslb happens with the owning BalanceGslb.lock held, either in the accessing function or on entry through all static callers (constructors and the start-up path from BalTable.Init, checked by who-may-call, are exempt); BalTable's map/versions under BalTable.lock; (b) no lock re-entry: no function acquires (itself or through static callees) a lock of a type it already holds (RWMutex read locks included: a recursive RLock deadlocks against a queued writer); (c) nothing blocks under a balancer lock: no channel operation, select, time.Sleep, network or file call is reachable (static callees, module code) while BalanceGslb.lock, BalanceRR.Mutex or BfeBackend.RWMutex is held; (d) termination: every loop in functions reachable from BalanceGslb.Balance / BalanceRR.Balance is a range loop or a counted loop over an induction variable with a bound not modified in the loop — the one data-dependent `for {}` (simpleBalance) is decided by separate obligations: its all-down latch is cleared only under avail && weight != 0, re-armed after the weight reset, and the error exit exists; (e) totality: non-range index sites on backend / sub-cluster lists are those of a reviewed table, each with the structural fact that keeps it in range; division/modulo by len() of a list requires the non-empty fact. Not covered: data races through aliases the type-based lock abstraction cannot see; the Go race detector's dynamic view; fairness.",
			RuleText:    "obligations = each guarded field access, each call made while a lock is held (re-entry, blocking), each loop reachable from Balance, each non-range index site, simpleBalance's latch stores",
			Assumptions: []string{"lock instances are identified by the type that contains them: holding BalanceGslb.lock is taken to mean the lock of the BalanceGslb that owns the accessed sub-cluster/backend list"},
		},
		Run: runC05,
		Mutants: []Mutant{
			{Name: "recursive-rlock", File: "bfe_balance/backend/bfe_backend.go", Old: "	back.RLock()\n	restart := back.restarted\n	back.RUnlock()\n	return restart", New: "	back.RLock()\n	defer back.RUnlock()\n	return back.restarted && back.Avail()", Expect: "lock-reentry"},
			{Name: "gslb-unlocked-setter", File: "bfe_balance/bal_gslb/bal_gslb.go", Old: "func (bal *BalanceGslb) SetGslbBasic(gslbBasic cluster_conf.GslbBasicConf) {\n	bal.lock.Lock()\n", New: "func (bal *BalanceGslb) SetGslbBasic(gslbBasic cluster_conf.GslbBasicConf) {\n	bal.lock.Lock()\n	bal.lock.Unlock()\n	bal.lock.Lock()\n	bal.lock.Unlock()\n	defer bal.lock.Lock()\n", Expect: "guarded-by"},
			{Name: "backendreload-no-lock", File: "bfe_balance/bal_gslb/bal_gslb.go", Old: "func (bal *BalanceGslb) BackendReload(clusterBackend cluster_table_conf.ClusterBackend) error {\n	bal.lock.Lock()\n", New: "func (bal *BalanceGslb) BackendReload(clusterBackend cluster_table_conf.ClusterBackend) error {\n	bal.lock.Lock()\n	bal.lock.Unlock()\n	defer bal.lock.Lock()\n", Expect: "guarded-by"},
			{Name: "sleep-under-lock", File: "bfe_balance/bal_gslb/bal_gslb.go", Old: "	hashKey := bal.getHashKey(req)\n", New: "	hashKey := bal.getHashKey(req)\n	if len(hashKey) == 0 {\n		time.Sleep(time.Millisecond)\n	}\n", Expect: "blocking-under-lock"},
			{Name: "unbounded-walk", File: "bfe_balance/bal_gslb/bal_gslb.go", Old: "	for i := 0; i < len(bal.subClusters); i++ {\n		subCluster = bal.subClusters[i]\n		if subCluster.weight <= 0 {\n			continue\n		}", New: "	for i := 0; w >= 0; i = (i + 1) % len(bal.subClusters) {\n		subCluster = bal.subClusters[i]\n		if subCluster.weight <= 0 {\n			continue\n		}", Expect: "loop-form"},
			{Name: "simple-latch-weakened", File: "bfe_balance/bal_slb/bal_rr.go", Old: "		if avail && backendRR.weight != 0 {\n			allBackendDown = false", New: "		if avail && (backendRR.weight != 0 || backendRR.inSlowStart) {\n			allBackendDown = false", Expect: "simple-latch"},
			{Name: "cursor-kept-across-reload", File: "bfe_balance/bal_slb/bal_rr.go", Old: "	brr.backends = backendsNew\n	brr.sorted = false\n	brr.next = 0\n}", New: "	brr.backends = backendsNew\n	brr.sorted = false\n	if brr.next > len(backendsNew) {\n		brr.next = 0\n	}\n}", Expect: "cursor-in-range"},
			{Name: "table-lookup-unlocked", File: "bfe_balance/bal_table.go", Old: "func (t *BalTable) lookup(clusterName string) (*bal_gslb.BalanceGslb, error) {", New: "func (t *BalTable) LookupFast(clusterName string) *bal_gslb.BalanceGslb {\n	return t.balTable[clusterName]\n}\n\nfunc (t *BalTable) lookup(clusterName string) (*bal_gslb.BalanceGslb, error) {", Expect: "guarded-by"},
		},
	})
}

func runC05(c *core.Ctx) {
	const slb, gslb, bk, tbl = "bfe_balance/bal_slb", "bfe_balance/bal_gslb", "bfe_balance/backend", "bfe_balance"
	for _, p := range []string{slb, gslb, bk, tbl} {
		if c.P.Pkg(p) == nil {
			c.Missing(p)
			return
		}
	}
	pl := core.WholeProgramLocks(c.P)
	const gslbLock = gslb + ".BalanceGslb.lock"
	const tblLock = tbl + ".BalTable.lock"
	// field -> required lock
	guard := map[string]string{}
	for _, f := range []string{"backends", "sorted", "next", "slowStartNum", "slowStartTime"} {
		guard[slb+".BalanceRR."+f] = gslbLock
	}
	for _, f := range []string{"weight", "current", "inSlowStart", "weightSS"} {
		guard[slb+".BackendRR."+f] = gslbLock
	}
	for _, f := range []string{"subClusters", "totalWeight", "single", "avail", "retryMax", "crossRetry", "hashConf", "BalanceMode"} {
		guard[gslb+".BalanceGslb."+f] = gslbLock
	}
	for _, f := range []string{"weight", "sType", "backends"} {
		guard[gslb+".SubCluster."+f] = gslbLock
	}
	for _, f := range []string{"balTable", "versions"} {
		guard[tbl+".BalTable."+f] = tblLock
	}
	// exempt: constructors and the start-up path (object not yet published)
	exempt := map[string]string{
		slb + ".NewBalanceRR": "constructor", slb + ".NewBackendRR": "constructor",
		gslb + ".NewBalanceGslb": "constructor", gslb + ".newSubCluster": "constructor", gslb + ".NewSubCluster": "constructor",
		tbl + ".NewBalTable": "constructor",
	}
	// start-up only: reachable solely from BalTable.Init (who-may-call)
	startup := map[string][]string{
		gslb + ".BalanceGslb.Init": {tbl + ".BalTable.gslbInit", tbl + ".BalTable.BalTableReload"},
		tbl + ".BalTable.gslbInit":  {tbl + ".BalTable.Init"},
		tbl + ".BalTable.backendInit": {tbl + ".BalTable.Init"},
	}
	callersOf := func(name string) []string {
		var out []string
		for _, f := range c.P.SrcFuncs("") {
			if len(core.Calls(f, name)) > 0 {
				out = append(out, core.FuncKey(f))
			}
		}
		sort.Strings(out)
		return out
	}
	for fn, allowed := range startup {
		got := callersOf(fn)
		ok := true
		for _, g := range got {
			found := false
			for _, a := range allowed {
				if a == g {
					found = true
				}
			}
			if !found {
				ok = false
			}
		}
		c.Check("startup-only", fn, token.NoPos, ok, fmt.Sprintf("%s writes balancer state without the owner's lock and is exempt only as a pre-publication step; callers %v, allowed %v", fn, got, allowed))
	}
	fns := c.P.SrcFuncs(slb, gslb, tbl)
	ord := map[string]int{}
	for _, fn := range fns {
		k := core.FuncKey(fn)
		root := k
		if i := strings.Index(k, "$"); i >= 0 {
			root = k[:i]
		}
		if _, ex := exempt[root]; ex {
			continue
		}
		if _, st := startup[root]; st {
			continue
		}
		core.Instrs(fn, func(in ssa.Instruction) {
			fa, ok := in.(*ssa.FieldAddr)
			if !ok {
				return
			}
			fv := core.FieldObj(fa.X, fa.Field)
			if fv == nil {
				return
			}
			t := fa.X.Type()
			if p, isP := t.Underlying().(*types.Pointer); isP {
				t = p.Elem()
			}
			fk := core.TypeStr(t) + "." + fv.Name()
			lock, ok := guard[fk]
			if !ok {
				return
			}
			c.Analysed(k)
			// fresh object: allocated in this function (not yet published)
			if al, isAl := fa.X.(*ssa.Alloc); isAl && al.Heap {
				return
			}
			if call, isCall := fa.X.(*ssa.Call); isCall {
				if sc := call.Call.StaticCallee(); sc != nil && exempt[core.FuncKey(sc)] != "" {
					return
				}
			}
			write := false
			for _, r := range *fa.Referrers() {
				if st, isSt := r.(*ssa.Store); isSt && st.Addr == fa {
					write = true
				}
			}
			mode := "R"
			if write {
				mode = "W"
			}
			held := pl.HeldT(in, lock, mode)
			ord[k+fk]++
			c.Check("guarded-by", fmt.Sprintf("%s:%s:%s#%d", k, fv.Name(), mode, ord[k+fk]), in.Pos(), held,
				fmt.Sprintf("%s is accessed (%s) without %s held here or by all static callers; held: %v", fk, mode, lock, pl.AllHeld(in)))
		})
	}
	c.Min("guarded-by", 80)

	// ---- (b) lock re-entry and (c) blocking under lock ---------------------------------
	acq := map[*ssa.Function]map[string]bool{}  // lock types a function may acquire (transitively)
	blk := map[*ssa.Function]string{}           // first blocking effect reachable
	all := c.P.SrcFuncs("")
	for _, fn := range all {
		acq[fn] = map[string]bool{}
		core.Instrs(fn, func(in ssa.Instruction) {
			switch x := in.(type) {
			case *ssa.Call:
				if kind, lock, ok := core.LockEventT(&x.Call); ok && (kind == "Lock" || kind == "RLock") {
					acq[fn][lock] = true
				}
				if blk[fn] == "" {
					if b := blockingCallee(&x.Call); b != "" {
						blk[fn] = b
					}
				}
			case *ssa.Select:
				if x.Blocking && blk[fn] == "" {
					blk[fn] = "blocking select"
				}
			case *ssa.Send:
				if blk[fn] == "" {
					blk[fn] = "channel send"
				}
			case *ssa.UnOp:
				if x.Op == token.ARROW && blk[fn] == "" {
					blk[fn] = "channel receive"
				}
			}
		})
	}
	for changed := true; changed; {
		changed = false
		for _, fn := range all {
			core.Instrs(fn, func(in ssa.Instruction) {
				call, ok := in.(*ssa.Call)
				if !ok {
					return
				}
				sc := call.Call.StaticCallee()
				if sc == nil || acq[sc] == nil {
					return
				}
				for l := range acq[sc] {
					if !acq[fn][l] {
						acq[fn][l] = true
						changed = true
					}
				}
				if blk[fn] == "" && blk[sc] != "" {
					blk[fn] = blk[sc] + " via " + core.FuncKey(sc)
					changed = true
				}
			})
		}
	}
	balLocks := map[string]bool{gslbLock: true, slb + ".BalanceRR.Mutex": true, bk + ".BfeBackend.RWMutex": true, tblLock: true}
	nCalls := 0
	for _, fn := range c.P.SrcFuncs(slb, gslb, bk, tbl) {
		ls := pl.Sets[fn]
		k := core.FuncKey(fn)
		co := map[string]int{}
		core.Instrs(fn, func(in ssa.Instruction) {
			call, ok := in.(*ssa.Call)
			if !ok {
				return
			}
			held := ls.Held(in)
			if len(held) == 0 {
				return
			}
			// direct lock op while holding the same type
			if kind, lock, isLock := core.LockEventT(&call.Call); isLock {
				if kind == "Lock" || kind == "RLock" {
					re := false
					for _, h := range held {
						if strings.TrimSuffix(strings.TrimSuffix(h, ":W"), ":R") == lock {
							re = true
						}
					}
					nCalls++
					c.Check("lock-reentry", k+":"+lock, in.Pos(), !re, "acquires "+lock+" while already holding it ("+strings.Join(held, ",")+"): self-deadlock (for RWMutex also when both are read locks and a writer is queued)")
				}
				return
			}
			sc := call.Call.StaticCallee()
			if sc == nil || acq[sc] == nil {
				return
			}
			co[core.FuncKey(sc)]++
			key := fmt.Sprintf("%s:call-%s#%d", k, core.FuncKey(sc), co[core.FuncKey(sc)])
			var re []string
			for _, h := range held {
				l := strings.TrimSuffix(strings.TrimSuffix(h, ":W"), ":R")
				if acq[sc][l] {
					re = append(re, l)
				}
			}
			nCalls++
			c.Check("lock-reentry", key, in.Pos(), len(re) == 0, fmt.Sprintf("calls %s, which (transitively) acquires %v, while holding %v: self-deadlock", core.FuncKey(sc), re, held))
			underBal := false
			for _, h := range held {
				if balLocks[strings.TrimSuffix(strings.TrimSuffix(h, ":W"), ":R")] {
					underBal = true
				}
			}
			if underBal {
				c.Check("blocking-under-lock", key, in.Pos(), blk[sc] == "", fmt.Sprintf("calls %s while holding %v; the callee can block: %s", core.FuncKey(sc), held, blk[sc]))
			}
		})
		// direct blocking effects under a held balancer lock
		core.Instrs(fn, func(in ssa.Instruction) {
			held := ls.Held(in)
			if len(held) == 0 {
				return
			}
			what := ""
			switch x := in.(type) {
			case *ssa.Call:
				what = blockingCallee(&x.Call)
			case *ssa.Select:
				if x.Blocking {
					what = "blocking select"
				}
			case *ssa.Send:
				what = "channel send"
			case *ssa.UnOp:
				if x.Op == token.ARROW {
					what = "channel receive"
				}
			}
			if what != "" {
				c.Check("blocking-under-lock", k+":direct:"+what, in.Pos(), false, what+" while holding "+strings.Join(held, ","))
			}
		})
	}
	c.Min("lock-reentry", 25)

	// ---- (d) termination ---------------------------------------------------------------------
	roots := []*ssa.Function{c.P.Func(gslb, "BalanceGslb.Balance"), c.P.Func(slb, "BalanceRR.Balance")}
	reach := map[*ssa.Function]bool{}
	for _, r := range roots {
		if r == nil {
			c.Missing("BalanceGslb.Balance / BalanceRR.Balance")
			continue
		}
		for _, f := range core.TransitiveCallees(r, 8) {
			if rel := core.FuncPkgRel(f); rel == slb || rel == gslb || rel == bk {
				reach[f] = true
			}
		}
	}
	var rfns []*ssa.Function
	for f := range reach {
		rfns = append(rfns, f)
	}
	sort.Slice(rfns, func(i, j int) bool { return core.FuncKey(rfns[i]) < core.FuncKey(rfns[j]) })
	nLoops := 0
	for _, f := range rfns {
		c.Analysed(core.FuncKey(f))
		for i, l := range core.Loops(f) {
			kind, detail := core.LoopKind(l)
			nLoops++
			key := fmt.Sprintf("%s:loop#%d", core.FuncKey(f), i)
			if kind == "" && core.FuncKey(f) == slb+".BalanceRR.simpleBalance" {
				// data-dependent scan: decided by the latch obligations below
				c.Check("loop-form", key, l.Header.Instrs[0].Pos(), true, "data-dependent scan, see simple-latch")
				checkSimpleLatch(c, f, l)
				continue
			}
			c.Check("loop-form", key, l.Header.Instrs[0].Pos(), kind != "", "loop reachable from Balance is neither a range loop nor a counted loop with an invariant bound (exit condition: "+detail+"); termination while holding the balancer lock is not established")
		}
	}
	c.Min("loop-form", 10)

	// ---- (e) totality: index sites --------------------------------------------------------------
	reviewed := map[string]string{
		slb + ".BalanceRR.simpleBalance|next":             "next is brr.next or moveToNext(...), both < len(backends) for a non-empty list; emptiness is excluded by SubCluster.balance's Len()==0 test (nonempty-gate)",
		slb + ".randomBalance|rem":                         "i = rand % len(backs); callers pass leastConnsBalance's non-empty result (C03 eligible-return)",
		slb + ".BalanceRR.leastConnsSmoothBalance|0":       "guarded by len(candidates) == 1",
		slb + ".BalanceRR.leastConnsSimpleBalance|0":       "guarded by len(candidates) == 1",
		gslb + ".BalanceGslb.subClusterBalance|bal.avail":  "bal.avail is an index computed over the published list (C03 avail-index)",
	}
	for _, f := range c.P.SrcFuncs(slb, gslb) {
		k := core.FuncKey(f)
		loops := core.Loops(f)
		core.Instrs(f, func(in ssa.Instruction) {
			ia, ok := in.(*ssa.IndexAddr)
			if !ok {
				return
			}
			ts := core.TypeStr(ia.X.Type())
			if !strings.HasSuffix(ts, "BackendList") && !strings.HasSuffix(ts, "SubClusterList") {
				return
			}
			// induction variable of a range/counted loop bounded by len of the same list
			for _, l := range loops {
				if !l.Body[in.Block()] {
					continue
				}
				if kind, _ := core.LoopKind(l); kind == "range-slice" || kind == "counted" {
					if phi, isPhi := ia.Index.(*ssa.Phi); isPhi && phi.Block() == l.Header {
						return
					}
					if b, isB := ia.Index.(*ssa.BinOp); isB {
						if phi, isPhi := b.X.(*ssa.Phi); isPhi && phi.Block() == l.Header {
							return
						}
					}
				}
			}
			// sort.Interface adaptors receive indices from package sort (0 <= i,j < Len())
			if n := f.Name(); (n == "Swap" || n == "Less") && f.Signature.Recv() != nil {
				return
			}
			idx := core.Render(ia.Index)
			switch x := ia.Index.(type) {
			case *ssa.Phi:
				if x.Comment != "" {
					idx = x.Comment
				}
			case *ssa.BinOp:
				if x.Op == token.REM {
					idx = "rem"
				}
			}
			site := k + "|" + idx
			reason, ok2 := reviewed[site]
			okGuard := ok2
			if strings.HasSuffix(site, "|0") {
				okGuard = core.HasGuard(in.Block(), func(g core.Guard) bool {
					return g.Pol && strings.HasPrefix(g.Str, "(builtin:len(") && strings.HasSuffix(g.Str, " == 1)")
				})
			}
			c.Check("index-site", site, in.Pos(), okGuard, "non-range index into a backend/sub-cluster list that is not in the reviewed table or lost its guard ("+reason+")")
		})
	}
	c.Min("index-site", 4)
	// cursor invariant behind the reviewed `backends[next]` site: brr.next < len(brr.backends).
	// Every store that replaces brr.backends must be followed, on every path to return, by
	// next = 0; any other store to next must be 0 or a moveToNext(...) result (which wraps).
	if nf, ok := c.P.Obj(slb, "BalanceRR.next").(*types.Var); ok {
		bf, _ := c.P.Obj(slb, "BalanceRR.backends").(*types.Var)
		allF := c.P.SrcFuncs("")
		for i, st := range core.FieldStores(allF, bf) {
			bad := core.MustPass(st.Fn, st.Store, func(x ssa.Instruction) bool {
				s2, ok := x.(*ssa.Store)
				if !ok {
					return false
				}
				fa, ok := s2.Addr.(*ssa.FieldAddr)
				return ok && core.FieldObj(fa.X, fa.Field) == nf && isZero(s2.Val)
			})
			c.Check("cursor-in-range", fmt.Sprintf("%s:backends-store#%d", core.FuncKey(st.Fn), i), st.Store.Pos(), bad == nil,
				"BalanceRR.backends is replaced and a path reaches return without resetting the scan cursor (next = 0): simpleBalance indexes backends[next] without a bound test, so a shorter list makes it panic while holding the balancer lock")
		}
		for i, st := range core.FieldStores(allF, nf) {
			ok := isZero(st.Store.Val)
			if !ok {
				// phi of {0, moveToNext(...), loads of brr.next}
				ok = true
				seen := map[ssa.Value]bool{}
				var walk func(v ssa.Value)
				walk = func(v ssa.Value) {
					if seen[v] {
						return
					}
					seen[v] = true
					switch x := v.(type) {
					case *ssa.Phi:
						for _, e := range x.Edges {
							walk(e)
						}
					case *ssa.Const:
						if !isZero(x) {
							ok = false
						}
					case *ssa.Call:
						if !core.CallIs(&x.Call, slb+".moveToNext") {
							ok = false
						}
					case *ssa.UnOp:
						if core.Render(x) != "brr.next" {
							ok = false
						}
					default:
						ok = false
					}
				}
				walk(st.Store.Val)
			}
			c.Check("cursor-in-range", fmt.Sprintf("%s:next-store#%d", core.FuncKey(st.Fn), i), st.Store.Pos(), ok, "BalanceRR.next is assigned "+core.Render(st.Store.Val)+", which is neither 0 nor a wrapped moveToNext(...) position")
		}
		c.Min("cursor-in-range", 4)
		if mv := c.P.Func(slb, "moveToNext"); mv != nil {
			wraps := false
			for _, r := range core.Returns(mv) {
				if phi, isPhi := r.Results[0].(*ssa.Phi); isPhi {
					for _, e := range phi.Edges {
						if isZero(e) {
							wraps = true
						}
					}
				}
			}
			c.Check("cursor-in-range", "moveToNext:wraps", mv.Pos(), wraps, "moveToNext must wrap to 0 when the incremented position reaches len(backends)")
		} else {
			c.Missing(slb + ".moveToNext")
		}
	}
	// emptiness gate in SubCluster.balance
	if f := c.P.Func(gslb, "SubCluster.balance"); f != nil {
		for _, ci := range core.Calls(f, slb+".BalanceRR.Balance") {
			ok := core.HasGuard(ci.(ssa.Instruction).Block(), func(g core.Guard) bool {
				return !g.Pol && strings.Contains(g.Str, "BalanceRR.Len(") && strings.HasSuffix(g.Str, " == 0)")
			})
			c.Check("nonempty-gate", "SubCluster.balance", ci.Pos(), ok, "BalanceRR.Balance is reached without the sub-cluster's backend list having been tested non-empty (simpleBalance indexes it, GetHash/rand take it modulo its length)")
		}
		c.Min("nonempty-gate", 1)
	} else {
		c.Missing(gslb + ".SubCluster.balance")
	}
	// modulo by a length: the divisor's list must be known non-empty
	for _, f := range c.P.SrcFuncs(slb, gslb) {
		core.Instrs(f, func(in ssa.Instruction) {
			b, ok := in.(*ssa.BinOp)
			if !ok || (b.Op != token.REM && b.Op != token.QUO) {
				return
			}
			d := core.Render(b.Y)
			if !strings.Contains(d, "builtin:len(") && !strings.Contains(d, "base") && !strings.Contains(d, "available") {
				return
			}
			k := core.FuncKey(f)
			okDiv := false
			switch {
			case k == slb+".randomBalance":
				okDiv = true // callers: non-empty candidates (reviewed above)
			case k == slb+".GetHash":
				okDiv = true // callers pass totalWeight: checked below
			case strings.Contains(d, "available"):
				okDiv = core.HasGuard(in.Block(), func(g core.Guard) bool { return !g.Pol && strings.Contains(g.Str, "available") && strings.Contains(g.Str, "== 0") })
			}
			c.Check("divisor", k+":"+d, in.Pos(), okDiv, "division/modulo by "+d+" without the divisor being known non-zero")
		})
	}
	for _, f := range c.P.SrcFuncs(slb, gslb) {
		for i, ci := range core.Calls(f, slb+".GetHash") {
			in := ci.(ssa.Instruction)
			arg := core.Render(ci.Common().Args[1])
			ok := false
			switch {
			case strings.Contains(arg, "bal.totalWeight"):
				ok = core.HasGuard(in.Block(), func(g core.Guard) bool { return !g.Pol && g.Str == "!(bal.totalWeight == 0)" })
			case strings.Contains(arg, "totalWeight"):
				// sum of weights of a non-empty candidate list, each > 0
				ok = core.HasGuard(in.Block(), func(g core.Guard) bool { return !g.Pol && strings.Contains(g.Str, "builtin:len(") && strings.HasSuffix(g.Str, " == 0)") })
			}
			c.Check("divisor", fmt.Sprintf("%s:GetHash#%d", core.FuncKey(f), i), in.Pos(), ok, "GetHash(key, "+arg+") takes the hash modulo a total weight that is not known to be non-zero here")
		}
	}
	c.Min("divisor", 3)
}

// blockingCallee names a call that can block for an unbounded time.
func blockingCallee(cc *ssa.CallCommon) string {
	k := strings.TrimPrefix(core.CalleeKey(cc), "invoke:")
	switch {
	case k == "time.Sleep":
		return "time.Sleep"
	case strings.HasPrefix(k, "net.Dial"), strings.HasPrefix(k, "net.Listen"), strings.HasPrefix(k, "net/http.Client."), k == "net/http.Get":
		return k
	case strings.HasPrefix(k, "net.Conn."), strings.HasPrefix(k, "io.Reader."), strings.HasPrefix(k, "io.Writer."), strings.HasPrefix(k, "os.File."), strings.HasPrefix(k, "os.Open"), strings.HasPrefix(k, "io/ioutil.ReadFile"), strings.HasPrefix(k, "os.ReadFile"):
		return k
	case k == "sync.WaitGroup.Wait", k == "sync.Cond.Wait":
		return k
	}
	return ""
}

// checkSimpleLatch: obligations for simpleBalance's data-dependent scan loop.
func checkSimpleLatch(c *core.Ctx, f *ssa.Function, l *core.Loop) {
	// the latch is the phi named allBackendDown; edges storing false must be guarded by avail && weight != 0
	var latch *ssa.Phi
	for _, in := range l.Header.Instrs {
		if phi, ok := in.(*ssa.Phi); ok && phi.Comment == "allBackendDown" {
			latch = phi
		}
	}
	if latch == nil {
		c.Check("simple-latch", "simpleBalance:latch", l.Header.Instrs[0].Pos(), false, "the all-backends-down latch of the scan loop was not found")
		return
	}
	nFalse, rearm := 0, false
	var visit func(v ssa.Value, pred, succ *ssa.BasicBlock, seen map[ssa.Value]bool)
	visit = func(v ssa.Value, pred, succ *ssa.BasicBlock, seen map[ssa.Value]bool) {
		if seen[v] {
			return
		}
		seen[v] = true
		switch x := v.(type) {
		case *ssa.Phi:
			for i, e := range x.Edges {
				visit(e, x.Block().Preds[i], x.Block(), seen)
			}
		case *ssa.Const:
			if x.Value == nil || pred == nil {
				return
			}
			if x.Value.ExactString() == "false" && l.Body[pred] {
				nFalse++
				availOK, weightOK := false, false
				for _, g := range core.GuardsOnEdge(pred, succ) {
					if g.Pol && strings.Contains(g.Str, "BfeBackend.Avail(") {
						availOK = true
					}
					if b, ok := g.Cond.(*ssa.BinOp); ok && fieldLoadOf(b.X, "weight") != nil && isZero(b.Y) && ((b.Op == token.NEQ && g.Pol) || (b.Op == token.GTR && g.Pol) || (b.Op == token.EQL && !g.Pol)) {
						weightOK = true
					}
				}
				c.Check("simple-latch", fmt.Sprintf("simpleBalance:clear#%d", nFalse), pred.Instrs[len(pred.Instrs)-1].Pos(), availOK && weightOK,
					"the all-down latch is cleared on a path that did not establish Avail() && weight != 0 for the scanned backend; the scan can then spin forever under the lock when no backend has positive weight")
			}
			if x.Value.ExactString() == "true" && l.Body[pred] {
				rearm = true
			}
		}
	}
	visit(latch, nil, nil, map[ssa.Value]bool{})
	if nFalse == 0 {
		c.Check("simple-latch", "simpleBalance:clear", l.Header.Instrs[0].Pos(), false, "no path clears the all-down latch")
	}
	c.Check("simple-latch", "simpleBalance:rearm", l.Header.Instrs[0].Pos(), rearm,
		"after a full cycle resets the weights the all-down latch is not re-armed: if every backend becomes unavailable after that point the scan never reaches its error exit and spins while holding the balancer lock")
	// an error exit exists inside the loop
	hasErr := false
	for _, r := range core.Returns(f) {
		rv := core.RetVals(r)
		if len(rv) == 2 && !isNilConst(rv[1]) && l.Header.Dominates(r.Block()) {
			// reached from inside the loop, under the latch still being set
			if core.HasGuard(r.Block(), func(g core.Guard) bool { return g.Pol && strings.Contains(g.Str, "allBackendDown") }) {
				hasErr = true
			}
		}
	}
	c.Check("simple-latch", "simpleBalance:error-exit", l.Header.Instrs[0].Pos(), hasErr, "the scan loop has no error exit for the all-down case")
}
