package rules

// Robustness layer of the HTTP/1 proxy-side properties (C26-C29). The rules of
// these properties are path and guard rules; this file makes them independent
// of how the code is cut into functions and of how conditions are spelled:
//
//   - h1bSearch is a path search that is sensitive to boolean phis (a named
//     boolean `ok := a && b` tested later is as good as `if a && b`), prunes
//     branches whose outcome is fixed by the path taken, descends into the
//     private helpers of the anchor function (core.Prog.Region) at their call
//     sites, comes back with the returned value bound to the call, and - when
//     the start instruction lies inside such a helper - continues in the
//     caller(s) after the helper returned;
//   - facts established by a call of a boolean helper are expanded through the
//     helper's returns (`if w.keep(h, v) { continue }`);
//   - guards of an instruction inside a helper include the guards of its call
//     sites (h1bFactsAtR / h1bGuardedR);
//   - censuses accept the private helpers of a reviewed function (h1bRegionSet).

import (
	"fmt"
	"go/constant"
	"go/token"
	"go/types"
	"sort"
	"strings"

	"golang.org/x/tools/go/ssa"

	"verif/internal/core"
)

// h1bRegionSet returns the union of the regions (function + private helpers +
// closures) of the given functions.
func h1bRegionSet(p *core.Prog, fns ...*ssa.Function) map[*ssa.Function]bool {
	out := map[*ssa.Function]bool{}
	for _, fn := range fns {
		if fn == nil {
			continue
		}
		for _, g := range p.Region(fn) {
			out[g] = true
		}
	}
	return out
}

// h1bRegionRoot returns the function of fns whose region contains g (nil if none).
func h1bRegionRoot(p *core.Prog, g *ssa.Function, fns ...*ssa.Function) *ssa.Function {
	for _, fn := range fns {
		if fn == nil {
			continue
		}
		for _, x := range p.Region(fn) {
			if x == g {
				return fn
			}
		}
	}
	return nil
}

// h1bIsBool: v has boolean type.
func h1bIsBool(v ssa.Value) bool {
	b, ok := v.Type().Underlying().(*types.Basic)
	return ok && b.Info()&types.IsBoolean != 0
}

// h1bEnv is what a path knows about values: a phi equals the operand of the
// edge the path came in by, the result of an inlined helper call equals the
// value the helper returned, a helper's parameter equals the argument.
type h1bEnv map[ssa.Value]ssa.Value

func (e h1bEnv) with(k, v ssa.Value) h1bEnv {
	if old, ok := e[k]; ok && old == v {
		return e
	}
	n := make(h1bEnv, len(e)+1)
	for a, b := range e {
		n[a] = b
	}
	n[k] = v
	return n
}

// resolve follows the bindings (and strips conversions) until a value without
// binding is reached.
func (e h1bEnv) resolve(v ssa.Value) ssa.Value {
	for i := 0; i < 16 && v != nil; i++ {
		s := core.StripConv(v)
		if s != v {
			v = s
			continue
		}
		if e != nil {
			if w, ok := e[v]; ok && w != v {
				v = w
				continue
			}
		}
		break
	}
	return v
}

func h1bValKey(v ssa.Value) string {
	if v == nil {
		return "nil"
	}
	if k, ok := v.(*ssa.Const); ok {
		if k.Value == nil {
			return "nil"
		}
		return k.Value.ExactString()
	}
	pf := ""
	if in, ok := v.(ssa.Instruction); ok && in.Parent() != nil {
		pf = in.Parent().Name()
	} else if pr, ok := v.(*ssa.Parameter); ok && pr.Parent() != nil {
		pf = pr.Parent().Name()
	}
	return pf + "." + v.Name()
}

func (e h1bEnv) key() string {
	if len(e) == 0 {
		return ""
	}
	parts := make([]string, 0, len(e))
	for k, v := range e {
		if _, isParam := k.(*ssa.Parameter); isParam {
			continue // fixed by the call stack
		}
		parts = append(parts, h1bValKey(k)+"="+h1bValKey(v))
	}
	sort.Strings(parts)
	return strings.Join(parts, ",")
}

// h1bImpliedEnv is h1bImplied with path knowledge: a phi bound by env stands
// for its operand, a boolean constant decides feasibility. ok is false when
// cond cannot evaluate to pol on this path.
func h1bImpliedEnv(p *core.Prog, cond ssa.Value, pol bool, env h1bEnv) (facts []h1bFact, ok bool) {
	ok = true
	seen := map[h1bFact]bool{}
	var walk func(v ssa.Value, pol bool, d int)
	walk = func(v ssa.Value, pol bool, d int) {
		if v == nil || d > 8 {
			return
		}
		f := h1bFact{v, pol}
		if seen[f] {
			return
		}
		seen[f] = true
		if k, isK := v.(*ssa.Const); isK {
			if k.Value != nil && k.Value.Kind() == constant.Bool && constant.BoolVal(k.Value) != pol {
				ok = false
			}
			return
		}
		facts = append(facts, f)
		if w, bound := env[v]; bound && w != v {
			walk(w, pol, d+1)
			return
		}
		switch x := v.(type) {
		case *ssa.UnOp:
			if x.Op == token.NOT {
				walk(x.X, !pol, d+1)
			}
		case *ssa.BinOp:
			// b == true / b != false spellings of a boolean
			if (x.Op == token.EQL || x.Op == token.NEQ) && h1bIsBool(x.X) {
				for _, pr := range [][2]ssa.Value{{x.X, x.Y}, {x.Y, x.X}} {
					if kb, isB := h1bConstBool(env.resolve(pr[1])); isB {
						walk(pr[0], (kb == pol) == (x.Op == token.EQL), d+1)
						break
					}
				}
			}
		case *ssa.Phi, *ssa.Call, *ssa.Extract:
			for _, g := range h1bImpliedThrough(p, v, pol) {
				if !seen[g] {
					seen[g] = true
					facts = append(facts, g)
				}
			}
		}
	}
	walk(cond, pol, 0)
	return facts, ok
}

// h1bImpliedThrough expands a fact about a phi (value-context && / ||) or
// about the boolean result of a module function through the operand / return
// that decides it, with the conditions established where it is decided. Used
// when the path does not bind the value.
func h1bImpliedThrough(p *core.Prog, v ssa.Value, pol bool) []h1bFact {
	if _, isPhi := v.(*ssa.Phi); isPhi {
		fs := h1bImplied(v, pol)
		if len(fs) > 1 {
			return fs[1:]
		}
		return nil
	}
	return h1bImpliedThroughD(v, pol, 1)
}

// h1bImpliedThroughD: v is (a result of) a call of a module function with a
// body; when exactly one of its returns can yield pol at that result index
// (every other return yields the constant !pol), the facts that hold at that
// return and those implied by the returned value hold in the caller. The facts
// are about values of the callee's frame: matchers that look at field objects,
// callees and constants apply unchanged.
func h1bImpliedThroughD(v ssa.Value, pol bool, cd int) []h1bFact {
	idx := 0
	var call *ssa.Call
	switch x := v.(type) {
	case *ssa.Extract:
		idx = x.Index
		call, _ = x.Tuple.(*ssa.Call)
	case *ssa.Call:
		call = x
	}
	if call == nil || !h1bIsBool(v) {
		return nil
	}
	sc := call.Call.StaticCallee()
	if sc == nil || sc.Blocks == nil || core.FuncPkgRel(sc) == "" || sc.Recover != nil {
		return nil
	}
	var deciding *ssa.Return
	var dv ssa.Value
	for _, r := range core.Returns(sc) {
		vals := core.RetVals(r)
		if idx >= len(vals) {
			return nil
		}
		if kb, isB := h1bConstBool(vals[idx]); isB && kb != pol {
			continue
		}
		if deciding != nil {
			return nil
		}
		deciding, dv = r, vals[idx]
	}
	if deciding == nil {
		return nil
	}
	out := h1bImpliedD(dv, pol, cd)
	for _, g := range core.GuardsAt(deciding.Block()) {
		out = append(out, h1bImpliedD(g.Cond, g.Pol, cd)...)
	}
	return out
}

// h1bCallSitesIn returns the call sites (plain calls only) of g that lie in
// functions of the set.
func h1bCallSitesIn(p *core.Prog, g *ssa.Function, in map[*ssa.Function]bool) []*ssa.Call {
	var out []*ssa.Call
	for _, s := range p.CallSites(g) {
		if c, ok := s.(*ssa.Call); ok && in[c.Parent()] {
			out = append(out, c)
		}
	}
	return out
}

// h1bFrame is one activation of the search: the call instruction that entered
// it (nil for the anchor function).
type h1bFrame struct {
	call *ssa.Call
}

// h1bSearch is a path query over the region of an anchor function.
type h1bSearch struct {
	P      *core.Prog
	Anchor *ssa.Function
	// Avoid: instructions that end a path (witnesses). AvoidFact: branch facts
	// that end a path. Target: what must not be reachable.
	Avoid     func(ssa.Instruction) bool
	AvoidFact func(h1bFact) bool
	Target    func(ssa.Instruction) bool
	// Track: facts collected along a path (bit i set once Track[i] matched on a
	// traversed edge); Blocked decides from the bits whether the path is witnessed.
	Track   []func(h1bFact) bool
	Blocked func(mask uint) bool
	// NoInline: stay inside the start function (helpers are stepped over).
	NoInline bool
	// Trail: remember the facts established along each path; HitFacts holds
	// those of the path that reached the target.
	Trail    bool
	HitFacts []h1bFact
	env      h1bEnv // environment of the state being examined (for R)
	region   map[*ssa.Function]bool
	states   int
	// Overflow is set when the state budget was exhausted (result: reachable).
	Overflow bool
}

// R resolves a value through the environment of the path being examined:
// helper parameter -> argument, phi -> incoming operand, inlined call ->
// returned value; conversions are stripped. Matchers of a rule use it so that
// `keep(h, outreq.Header.Get(h))` inside a helper reads like the inlined code.
func (q *h1bSearch) R(v ssa.Value) ssa.Value { return q.env.resolve(v) }

type h1bState struct {
	stack []*ssa.Call // call instructions entered (innermost last)
	b     *ssa.BasicBlock
	i     int
	env   h1bEnv
	mask  uint
	trail []h1bFact
}

func (q *h1bSearch) inlineable(g *ssa.Function, stack []*ssa.Call) bool {
	if q.NoInline || g == nil || g.Blocks == nil || !q.region[g] || g == q.Anchor || g.Recover != nil || len(stack) >= 4 {
		return false
	}
	for _, c := range stack {
		if c.Call.StaticCallee() == g {
			return false
		}
	}
	return true
}

// chains enumerates the call stacks (outermost first) that lead from the
// anchor to function f inside the region.
func (q *h1bSearch) chains(f *ssa.Function, depth int) [][]*ssa.Call {
	if f == q.Anchor {
		return [][]*ssa.Call{nil}
	}
	if depth > 4 {
		return nil
	}
	if f.Parent() != nil {
		return nil // closures are searched on their own
	}
	var out [][]*ssa.Call
	for _, cs := range h1bCallSitesIn(q.P, f, q.region) {
		for _, pre := range q.chains(cs.Parent(), depth+1) {
			out = append(out, append(append([]*ssa.Call(nil), pre...), cs))
			if len(out) >= 8 {
				return out
			}
		}
	}
	return out
}

// Reach: starting just after `from` (entry of the anchor when nil), is an
// instruction satisfying Target reachable on a path that executes no Avoid
// instruction, takes no edge establishing an AvoidFact and is not Blocked?
func (q *h1bSearch) Reach(from ssa.Instruction) ssa.Instruction {
	if q.Anchor == nil || len(q.Anchor.Blocks) == 0 {
		return nil
	}
	q.region = map[*ssa.Function]bool{}
	if q.P != nil {
		q.region = h1bRegionSet(q.P, q.Anchor)
	} else {
		q.region[q.Anchor] = true
	}
	if from == nil {
		return q.run(h1bState{b: q.Anchor.Blocks[0]})
	}
	f := from.Parent()
	idx := 0
	for i, x := range from.Block().Instrs {
		if x == from {
			idx = i + 1
		}
	}
	if f == q.Anchor || q.NoInline || !q.region[f] {
		if f != q.Anchor {
			// a closure or a foreign function: search it alone
			save := q.Anchor
			q.Anchor = f
			q.region = map[*ssa.Function]bool{f: true}
			defer func() { q.Anchor = save }()
		}
		return q.run(h1bState{b: from.Block(), i: idx})
	}
	chains := q.chains(f, 0)
	if len(chains) == 0 {
		save := q.Anchor
		q.Anchor = f
		defer func() { q.Anchor = save }()
		return q.run(h1bState{b: from.Block(), i: idx})
	}
	for _, ch := range chains {
		if r := q.run(h1bState{stack: ch, b: from.Block(), i: idx}); r != nil {
			return r
		}
	}
	return nil
}

func (q *h1bSearch) run(start h1bState) ssa.Instruction {
	seen := map[string]bool{}
	work := []h1bState{start}
	push := func(s h1bState) {
		var sb strings.Builder
		for _, c := range s.stack {
			fmt.Fprintf(&sb, "%p/", c)
		}
		fmt.Fprintf(&sb, "%p:%d:%d:%d:", s.b.Parent(), s.b.Index, s.i, s.mask)
		sb.WriteString(s.env.key())
		k := sb.String()
		if seen[k] {
			return
		}
		seen[k] = true
		work = append(work, s)
	}
	for len(work) > 0 {
		s := work[len(work)-1]
		work = work[:len(work)-1]
		q.states++
		if q.states > 200000 {
			q.Overflow = true
			return start.b.Instrs[0]
		}
		b := s.b
		stopped := false
		for i := s.i; i < len(b.Instrs) && !stopped; i++ {
			in := b.Instrs[i]
			q.env = s.env
			if _, isRet := in.(*ssa.Return); isRet && len(s.stack) > 0 {
				// back to the caller with the result bound
				call := s.stack[len(s.stack)-1]
				env := s.env
				vals := core.RetVals(in.(*ssa.Return))
				if len(vals) == 1 {
					env = env.with(call, env.resolve(vals[0]))
				} else if call.Referrers() != nil {
					for _, r := range *call.Referrers() {
						if ex, ok := r.(*ssa.Extract); ok && ex.Index < len(vals) {
							env = env.with(ex, env.resolve(vals[ex.Index]))
						}
					}
				}
				ci := 0
				for j, x := range call.Block().Instrs {
					if x == ssa.Instruction(call) {
						ci = j + 1
					}
				}
				push(h1bState{stack: s.stack[:len(s.stack)-1], b: call.Block(), i: ci, env: env, mask: s.mask, trail: s.trail})
				stopped = true
				break
			}
			if q.Target != nil && q.Target(in) {
				q.HitFacts = s.trail
				return in
			}
			if q.Avoid != nil && q.Avoid(in) {
				stopped = true
				break
			}
			if call, isCall := in.(*ssa.Call); isCall {
				if g := call.Call.StaticCallee(); q.inlineable(g, s.stack) {
					env := s.env
					for j, prm := range g.Params {
						if j < len(call.Call.Args) {
							env = env.with(prm, env.resolve(call.Call.Args[j]))
						}
					}
					push(h1bState{stack: append(append([]*ssa.Call(nil), s.stack...), call), b: g.Blocks[0], env: env, mask: s.mask, trail: s.trail})
					stopped = true
					break
				}
			}
		}
		if stopped {
			continue
		}
		last := b.Instrs[len(b.Instrs)-1]
		ifi, isIf := last.(*ssa.If)
		for k, succ := range b.Succs {
			mask := s.mask
			trail := s.trail
			if isIf && len(b.Succs) == 2 && b.Succs[0] != b.Succs[1] {
				q.env = s.env
				facts, feasible := h1bImpliedEnv(q.P, ifi.Cond, k == 0, s.env)
				if !feasible {
					continue
				}
				blocked := false
				for _, f := range facts {
					if q.AvoidFact != nil && q.AvoidFact(f) {
						blocked = true
						break
					}
					for ti, t := range q.Track {
						if mask&(1<<uint(ti)) == 0 && t(f) {
							mask |= 1 << uint(ti)
						}
					}
				}
				if blocked || q.Blocked != nil && q.Blocked(mask) {
					continue
				}
				if q.Trail {
					trail = append(append([]h1bFact(nil), trail...), facts...)
				}
			}
			// bind the boolean phis of the successor to the operand of this edge
			env := s.env
			pi := -1
			for j, pr := range succ.Preds {
				if pr == b {
					pi = j
					break
				}
			}
			for _, in := range succ.Instrs {
				phi, isPhi := in.(*ssa.Phi)
				if !isPhi {
					break
				}
				if pi >= 0 && pi < len(phi.Edges) && h1bIsBool(phi) {
					env = env.with(phi, s.env.resolve(phi.Edges[pi]))
				}
			}
			push(h1bState{stack: s.stack, b: succ, env: env, mask: mask, trail: trail})
		}
	}
	return nil
}

// h1bReachR is h1bReach over the region of anchor: private helpers are
// inlined at their call sites, and a start instruction inside a helper
// continues in the caller after the helper returned.
func h1bReachR(p *core.Prog, anchor *ssa.Function, from ssa.Instruction, avoid func(ssa.Instruction) bool, avoidFact func(h1bFact) bool, target func(ssa.Instruction) bool) ssa.Instruction {
	q := &h1bSearch{P: p, Anchor: anchor, Avoid: avoid, AvoidFact: avoidFact, Target: target}
	return q.Reach(from)
}

// h1bCtxSites returns the call sites through which the guards of an
// instruction inside function f are inherited: f is a private helper (or an
// anonymous function that is only ever called) whose every call site is static.
func h1bCtxSites(p *core.Prog, f *ssa.Function) []ssa.CallInstruction {
	if p == nil || f == nil {
		return nil
	}
	sites := p.CallSites(f)
	if len(sites) == 0 || len(sites) > 4 {
		return nil
	}
	if f.Parent() != nil {
		// the closure value must not go anywhere but into calls
		ok := true
		core.Instrs(f.Parent(), func(in ssa.Instruction) {
			mc, isMC := in.(*ssa.MakeClosure)
			if !isMC || mc.Fn != ssa.Value(f) || mc.Referrers() == nil {
				return
			}
			for _, r := range *mc.Referrers() {
				if ci, isCall := r.(ssa.CallInstruction); isCall && ci.Common().Value == ssa.Value(mc) {
					continue
				}
				if _, isDbg := r.(*ssa.DebugRef); isDbg {
					continue
				}
				ok = false
			}
		})
		if !ok {
			return nil
		}
		return sites
	}
	if f.Object() == nil || f.Object().Exported() {
		return nil
	}
	if len(h1bFuncValueUses(p.SrcFuncs(core.FuncPkgRel(f)), f)) > 0 {
		return nil
	}
	return sites
}

// h1bGuardedR: every way of reaching block b establishes a fact accepted by
// match - inside b's function, or (b's function being a private helper) at
// every one of its call sites, recursively.
func h1bGuardedR(p *core.Prog, b *ssa.BasicBlock, match func(h1bFact) bool) bool {
	return h1bGuardedRd(p, b, match, 0)
}

func h1bGuardedRd(p *core.Prog, b *ssa.BasicBlock, match func(h1bFact) bool, d int) bool {
	if h1bGuarded(b, match) {
		return true
	}
	if d >= 4 {
		return false
	}
	f := b.Parent()
	if f.Parent() != nil {
		// an anonymous function: guards at the place(s) where it is called
		var blocks []*ssa.BasicBlock
		for _, s := range h1bCtxSites(p, f) {
			blocks = append(blocks, s.Block())
		}
		if len(blocks) == 0 {
			return false
		}
		for _, cb := range blocks {
			if !h1bGuardedRd(p, cb, match, d+1) {
				return false
			}
		}
		return true
	}
	sites := h1bCtxSites(p, f)
	if len(sites) == 0 {
		return false
	}
	for _, s := range sites {
		if _, isGo := s.(*ssa.Go); isGo {
			return false
		}
		if !h1bGuardedRd(p, s.Block(), match, d+1) {
			return false
		}
	}
	return true
}

// h1bFactsAtR: the facts at b plus those at the single call site chain of b's
// function (for messages and conjunction tests).
func h1bFactsAtR(p *core.Prog, b *ssa.BasicBlock) []h1bFact {
	out := h1bFactsAt(b)
	f := b.Parent()
	for d := 0; d < 4 && f != nil; d++ {
		sites := h1bCtxSites(p, f)
		if len(sites) != 1 {
			break
		}
		out = append(out, h1bFactsAt(sites[0].Block())...)
		f = sites[0].Parent()
	}
	return out
}

// h1bMustPassR lifts a witness predicate over calls: a call of a module
// function all of whose paths (entry to return) execute a witness or take an
// edge establishing a witness fact is itself a witness.
func h1bMustPassR(p *core.Prog, avoid func(ssa.Instruction) bool, avoidFact func(h1bFact) bool, depth int) func(ssa.Instruction) bool {
	memo := map[*ssa.Function]int{} // 1 = always passes, 2 = not
	var lifted func(in ssa.Instruction) bool
	var passes func(g *ssa.Function, d int) bool
	passes = func(g *ssa.Function, d int) bool {
		if g == nil || g.Blocks == nil || core.FuncPkgRel(g) == "" || d <= 0 {
			return false
		}
		if m := memo[g]; m != 0 {
			return m == 1
		}
		memo[g] = 2
		ok := h1bReach(g, nil, func(in ssa.Instruction) bool {
			if avoid != nil && avoid(in) {
				return true
			}
			if ci, isCall := in.(*ssa.Call); isCall {
				return passes(ci.Call.StaticCallee(), d-1)
			}
			return false
		}, avoidFact, core.IsReturn) == nil
		if ok {
			memo[g] = 1
		}
		return ok
	}
	lifted = func(in ssa.Instruction) bool {
		if avoid != nil && avoid(in) {
			return true
		}
		ci, isCall := in.(*ssa.Call)
		if !isCall {
			return false
		}
		return passes(ci.Call.StaticCallee(), depth)
	}
	return lifted
}

// h1bProject maps an instruction of a region helper to the call instruction(s)
// in fn through which it is executed (the instruction itself when it already
// lies in fn).
func h1bProject(p *core.Prog, fn *ssa.Function, in ssa.Instruction) []ssa.Instruction {
	if in.Parent() == fn {
		return []ssa.Instruction{in}
	}
	region := h1bRegionSet(p, fn)
	var out []ssa.Instruction
	seen := map[ssa.Instruction]bool{}
	var up func(x ssa.Instruction, d int)
	up = func(x ssa.Instruction, d int) {
		if seen[x] || d > 4 {
			return
		}
		seen[x] = true
		if x.Parent() == fn {
			out = append(out, x)
			return
		}
		for _, cs := range h1bCallSitesIn(p, x.Parent(), region) {
			up(cs, d+1)
		}
	}
	up(in, 0)
	return out
}

// h1bRegionKey names an instruction's function relative to the anchor: the
// anchor's short name for the anchor itself, otherwise the helper's key.
func h1bRegionKey(anchor *ssa.Function, short string, in ssa.Instruction) string {
	if in.Parent() == anchor {
		return short
	}
	return short + ">" + in.Parent().Name()
}

// h1bUp resolves a value that is a parameter of a private helper of the region
// to the argument passed at the helper's call sites (when they all pass the
// same resolved value), repeatedly: the value as the anchor function sees it.
func h1bUp(p *core.Prog, region map[*ssa.Function]bool, v ssa.Value) ssa.Value {
	for d := 0; d < 4; d++ {
		v = core.StripConv(v)
		prm, ok := v.(*ssa.Parameter)
		if !ok {
			if u, isLoad := v.(*ssa.UnOp); isLoad && u.Op == token.MUL {
				if a, isA := u.X.(*ssa.Alloc); isA {
					if sp := core.SpilledParam(a); sp != nil {
						prm, ok = sp, true
					}
				}
			}
			if !ok {
				return v
			}
		}
		g := prm.Parent()
		if g == nil || !region[g] || g.Parent() != nil {
			return v
		}
		idx := -1
		for i, q := range g.Params {
			if q == prm {
				idx = i
			}
		}
		sites := h1bCallSitesIn(p, g, region)
		if idx < 0 || len(sites) == 0 || len(sites) != len(p.CallSites(g)) {
			return v
		}
		var arg ssa.Value
		for _, s := range sites {
			if idx >= len(s.Call.Args) {
				return v
			}
			a := core.StripConv(s.Call.Args[idx])
			if arg != nil && a != arg {
				return v
			}
			arg = a
		}
		v = arg
	}
	return v
}

// h1bSamePath: a and b denote the same storage / the same loaded value
// structurally: identical SSA value, or loads / field selections / constant
// index selections of the same path from the same root. Parameters of region
// helpers are resolved to the caller's arguments first (region may be nil).
// No name is compared.
func h1bSamePath(p *core.Prog, region map[*ssa.Function]bool, a, b ssa.Value) bool {
	var same func(a, b ssa.Value, d int) bool
	same = func(a, b ssa.Value, d int) bool {
		if d > 8 || a == nil || b == nil {
			return false
		}
		if region != nil {
			a, b = h1bUp(p, region, a), h1bUp(p, region, b)
		} else {
			a, b = core.StripConv(a), core.StripConv(b)
		}
		if a == b {
			return true
		}
		switch x := a.(type) {
		case *ssa.UnOp:
			y, ok := b.(*ssa.UnOp)
			return ok && x.Op == y.Op && x.Op == token.MUL && same(x.X, y.X, d+1)
		case *ssa.FieldAddr:
			y, ok := b.(*ssa.FieldAddr)
			return ok && x.Field == y.Field && core.FieldObj(x.X, x.Field) == core.FieldObj(y.X, y.Field) && same(x.X, y.X, d+1)
		case *ssa.Field:
			y, ok := b.(*ssa.Field)
			return ok && x.Field == y.Field && core.FieldObj(x.X, x.Field) == core.FieldObj(y.X, y.Field) && same(x.X, y.X, d+1)
		case *ssa.Alloc:
			// a spilled parameter and the parameter itself
			if sp := core.SpilledParam(x); sp != nil {
				return same(sp, b, d+1)
			}
		}
		if y, ok := b.(*ssa.Alloc); ok {
			if sp := core.SpilledParam(y); sp != nil {
				return same(a, sp, d+1)
			}
		}
		return false
	}
	return same(a, b, 0)
}

// h1bHeaderKeyUses classifies how a function uses a constant string: it
// returns the instructions through which the constant may act as a header key
// (argument of a call other than formatting/logging, map index or delete key,
// store, phi, return, ...). Comparisons and boxing into interface values
// (arguments of formatting / logging calls) are not key uses.
func h1bHeaderKeyUses(fn *ssa.Function, match func(s string) bool) []ssa.Instruction {
	var out []ssa.Instruction
	core.Instrs(fn, func(in ssa.Instruction) {
		hit := false
		for _, op := range in.Operands(nil) {
			if op == nil || *op == nil {
				continue
			}
			if k, isK := (*op).(*ssa.Const); isK {
				if s, ok := core.ConstString(k); ok && match(s) {
					hit = true
				}
			}
		}
		if !hit {
			return
		}
		switch x := in.(type) {
		case *ssa.BinOp:
			switch x.Op {
			case token.EQL, token.NEQ, token.LSS, token.LEQ, token.GTR, token.GEQ:
				return // a comparison
			}
		case *ssa.MakeInterface, *ssa.DebugRef:
			return // boxed for a formatting / logging call
		case ssa.CallInstruction:
			// formatting / logging functions outside the analysed module
			cc := x.Common()
			key := strings.TrimPrefix(core.CalleeKey(cc), "invoke:")
			external := !cc.IsInvoke() && cc.StaticCallee() != nil && core.FuncPkgRel(cc.StaticCallee()) == "" ||
				cc.IsInvoke() && cc.Method.Pkg() != nil && !strings.HasPrefix(cc.Method.Pkg().Path(), core.ModPath)
			if external && (strings.HasPrefix(key, "fmt.") || strings.Contains(strings.ToLower(key), "log")) {
				return
			}
		}
		out = append(out, in)
	})
	return out
}
