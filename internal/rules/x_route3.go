package rules

// Helpers of the "basic lookup finds what the build stored" clauses of C12.
//
// basic-key (E9 with guards): for every radix tree of the basic rule tree
// (identified by the named array type it is an element of and the constant
// index), the form of the key a lookup searches with must be the form of the
// key an insertion stores under — for every class of input. A key form is the
// normaliser chain of the key (rtChain) plus, when some path appends a constant
// suffix, the decision "suffix appended / not appended" per class of the value
// the decision is taken on: empty, non-empty ending in the suffix, non-empty
// not ending in it. The classes a path belongs to are derived from the branch
// facts of the path (len(x) against a constant, x against a constant string,
// x[len(x)-1] against a byte, strings.HasSuffix(x, c), boolean helpers of the
// module evaluated the same way), so the verdict does not depend on how the
// guard is spelled.
//
// basic-miss: in the lookup functions a not-found result is legitimate only
// when nothing that was found has been discarded without looking further.

import (
	"fmt"
	"go/token"
	"sort"
	"strings"

	"golang.org/x/tools/go/ssa"

	"verif/internal/core"
)

// rt3PkgCallees: root and the functions of its own package it (transitively)
// calls, in a stable order.
func rt3PkgCallees(root *ssa.Function) []*ssa.Function {
	var out []*ssa.Function
	pk := core.FuncPkgRel(root)
	for _, f := range core.TransitiveCallees(root, 4) {
		if f.Parent() == nil && core.FuncPkgRel(f) == pk {
			out = append(out, f)
		}
	}
	sort.Slice(out, func(i, j int) bool { return core.FuncKey(out[i]) < core.FuncKey(out[j]) })
	return out
}

func rt3Short(fn *ssa.Function) string {
	k := core.FuncKey(fn)
	if i := strings.LastIndex(k, "/"); i >= 0 {
		k = k[i+1:]
	}
	if i := strings.Index(k, "."); i >= 0 {
		k = k[i+1:]
	}
	return k
}

// rt3TreeOf: the radix tree a call works on: "<array type>[<index>]" and the
// array value it is an element of.
func rt3TreeOf(p *rtPath, i int, recv ssa.Value) (name string, arr ssa.Value, ok bool) {
	ia, isIA := rtLoadOf(p.R(i, recv)).(*ssa.IndexAddr)
	if !isIA {
		if ix, isIx := p.R(i, recv).(*ssa.Index); isIx {
			if k, known := rtConstInt(p.R(i, ix.Index)); known {
				return fmt.Sprintf("%s[%d]", rt3Short2(core.TypeStr(ix.X.Type())), k), ix.X, true
			}
		}
		return "", nil, false
	}
	k, known := rtConstInt(p.R(i, ia.Index))
	if !known {
		return "", nil, false
	}
	return fmt.Sprintf("%s[%d]", rt3Short2(core.TypeStr(ia.X.Type())), k), ia.X, true
}

func rt3Short2(t string) string {
	t = strings.TrimPrefix(t, "*")
	if i := strings.LastIndex(t, "."); i >= 0 {
		t = t[i+1:]
	}
	return t
}

// rt3Chain: rtChain, continued through module helpers with several returns
// (recorded as one opaque step "call(<helper>)" on their string operand).
func rt3Chain(v ssa.Value, res func(ssa.Value) ssa.Value) (steps []string, root ssa.Value) {
	for n := 0; n < 4; n++ {
		s, r := rtChain(v, res)
		steps = append(steps, s...)
		root = r
		call, ok := r.(*ssa.Call)
		if !ok {
			return
		}
		sc := call.Call.StaticCallee()
		if sc == nil || sc.Blocks == nil || !rtIsString(call.Type()) {
			return
		}
		var arg ssa.Value
		na := 0
		for _, a := range call.Call.Args {
			if rtIsString(a.Type()) {
				if _, isK := core.ConstString(a); !isK {
					arg = a
					na++
				}
			}
		}
		if na != 1 {
			return
		}
		steps = append(steps, "call("+core.FuncKey(sc)+")")
		v = arg
	}
	return
}

// ---- string classes -----------------------------------------------------------

const (
	rt3Empty = iota // ""
	rt3Ends         // non-empty, ends in the suffix
	rt3Other        // non-empty, does not end in the suffix
	rt3NClass
)

var rt3ClassName = [rt3NClass]string{"empty", "ends-in-suffix", "no-suffix"}

func rt3Rel(op token.Token, a, b int64) bool {
	switch op {
	case token.EQL:
		return a == b
	case token.LSS:
		return a < b
	case token.LEQ:
		return a <= b
	}
	return false
}

// rt3MkFact brings a boolean SSA value into the canonical fact form.
func rt3MkFact(p *rtPath, i int, cond ssa.Value, pol bool) (rtFact, bool) {
	cond = p.R(i, cond)
	for {
		u, ok := cond.(*ssa.UnOp)
		if !ok || u.Op != token.NOT {
			break
		}
		cond = p.R(i, u.X)
		pol = !pol
	}
	if _, ok := rtConstBool(cond); ok {
		return rtFact{}, false
	}
	f := rtFact{I: i, Pol: pol, V: cond}
	if b, ok := cond.(*ssa.BinOp); ok {
		if op, x, y, pl, ok := rtCanon(b.Op, p.R(i, b.X), p.R(i, b.Y), pol); ok {
			f = rtFact{I: i, Pol: pl, Op: op, X: x, Y: y}
		}
	}
	return f, true
}

// rt3Truth: which truth values the canonical relation of fact f (X op Y, or
// the boolean V) can take when the string value x belongs to class cls with
// respect to suffix suf. (true, true) when the fact says nothing about x;
// (false, false) when a string of that class cannot reach the test at all
// (x[len(x)-1] on the empty string).
func rt3Truth(p *rtPath, f rtFact, x ssa.Value, suf string, cls int, depth int) (canT, canF bool) {
	isX := func(v ssa.Value) bool {
		if v == nil {
			return false
		}
		v = core.StripConv(v)
		return v == x || p.R(f.I, v) == x
	}
	lenX := func(v ssa.Value) bool {
		call, ok := v.(*ssa.Call)
		if !ok {
			return false
		}
		b, ok := call.Call.Value.(*ssa.Builtin)
		return ok && b.Name() == "len" && len(call.Call.Args) == 1 && isX(call.Call.Args[0])
	}
	idxX := func(v ssa.Value) (last, indexed bool) {
		s, ix, ok := rtStrIndex(core.StripConv(v))
		if !ok || !isX(s) {
			return false, false
		}
		if b, ok := p.R(f.I, ix).(*ssa.BinOp); ok && b.Op == token.SUB && lenX(b.X) {
			if k, ok := rtConstInt(b.Y); ok && k == 1 {
				return true, true
			}
		}
		return false, true
	}
	sufOf := func(c string) (bool, bool) { // truth of HasSuffix(x, c)
		switch {
		case c == "":
			return true, false
		case cls == rt3Empty:
			return false, true
		case cls == rt3Ends:
			if strings.HasSuffix(suf, c) {
				return true, false
			}
			if strings.HasSuffix(c, suf) {
				return true, true
			}
			return false, true
		default:
			if strings.HasSuffix(c, suf) {
				return false, true
			}
			return true, true
		}
	}
	switch f.Op {
	case token.ILLEGAL:
		call, ok := f.V.(*ssa.Call)
		if !ok {
			return true, true
		}
		if core.CallIs(&call.Call, "strings.HasSuffix") && len(call.Call.Args) == 2 && isX(call.Call.Args[0]) {
			if c, ok := core.ConstString(call.Call.Args[1]); ok {
				return sufOf(c)
			}
			return true, true
		}
		// boolean helper of the module applied to x
		sc := call.Call.StaticCallee()
		if depth > 0 || sc == nil || sc.Blocks == nil || core.FuncPkgRel(sc) == "" || len(sc.FreeVars) > 0 {
			return true, true
		}
		ai := -1
		for k, a := range call.Call.Args {
			if isX(a) {
				ai = k
			}
		}
		if ai < 0 || ai >= len(sc.Params) {
			return true, true
		}
		hp, complete := rtPaths(sc, 2)
		if !complete {
			return true, true
		}
		for _, q := range hp {
			rets, rn := q.ret()
			if rn < 0 || len(rets) != 1 {
				return true, true
			}
			if !rt3Feasible(q, rn, sc.Params[ai], suf, cls, depth+1) {
				continue
			}
			if b, ok := rtConstBool(rets[0]); ok {
				if b {
					canT = true
				} else {
					canF = true
				}
				continue
			}
			g, ok := rt3MkFact(q, rn, rets[0], true)
			if !ok {
				return true, true
			}
			t, fl := rt3Truth(q, g, sc.Params[ai], suf, cls, depth+1)
			// g.Pol carries the NOTs stripped from the returned expression
			if !g.Pol {
				t, fl = fl, t
			}
			canT = canT || t
			canF = canF || fl
		}
		return canT, canF
	case token.EQL, token.LSS, token.LEQ:
		// len(x) against a constant
		if lx, ly := lenX(f.X), lenX(f.Y); lx != ly {
			other := f.Y
			if ly {
				other = f.X
			}
			k, ok := rtConstInt(other)
			if !ok {
				return true, true
			}
			lens := []int64{0}
			if cls != rt3Empty {
				lens = []int64{1, 1 << 40}
				for _, d := range []int64{-1, 0, 1} {
					if k+d >= 1 {
						lens = append(lens, k+d)
					}
				}
			}
			for _, n := range lens {
				var r bool
				if lx {
					r = rt3Rel(f.Op, n, k)
				} else {
					r = rt3Rel(f.Op, k, n)
				}
				if r {
					canT = true
				} else {
					canF = true
				}
			}
			return canT, canF
		}
		// a byte of x
		for _, side := range [][2]ssa.Value{{f.X, f.Y}, {f.Y, f.X}} {
			last, indexed := idxX(side[0])
			if !indexed {
				continue
			}
			if cls == rt3Empty {
				return false, false
			}
			ch, ok := rtConstInt(side[1])
			if !last || !ok || f.Op != token.EQL || len(suf) != 1 {
				return true, true
			}
			switch {
			case cls == rt3Ends:
				return ch == int64(suf[0]), ch != int64(suf[0])
			case ch == int64(suf[0]):
				return false, true
			}
			return true, true
		}
		// x against a constant string
		if f.Op == token.EQL {
			for _, side := range [][2]ssa.Value{{f.X, f.Y}, {f.Y, f.X}} {
				if !isX(side[0]) {
					continue
				}
				c, ok := core.ConstString(side[1])
				if !ok {
					return true, true
				}
				switch cls {
				case rt3Empty:
					return c == "", c != ""
				case rt3Ends:
					return c != "" && strings.HasSuffix(c, suf), true
				default:
					return c != "" && !strings.HasSuffix(c, suf), true
				}
			}
		}
	}
	return true, true
}

// rt3Feasible: can a string of class cls (as the value x) follow path p up to item i?
func rt3Feasible(p *rtPath, i int, x ssa.Value, suf string, cls int, depth int) bool {
	for _, f := range p.Facts {
		if f.I >= i || f.stale {
			continue
		}
		t, fl := rt3Truth(p, f, x, suf, cls, depth)
		if (f.Pol && !t) || (!f.Pol && !fl) {
			return false
		}
	}
	return true
}

// ---- basic-key ----------------------------------------------------------------

type rt3Key struct {
	fn     *ssa.Function
	pos    token.Pos
	p      *rtPath
	at     int
	insert bool
	suffix string    // constant appended as the outermost step ("" none)
	x      ssa.Value // the value before the suffix decision
	base   string    // remaining chain and root
}

// rt3KeyForms collects, per tree, the key forms used by the radix calls of fns.
func rt3KeyForms(agg *rtAgg, rule string, fns []*ssa.Function, insertSide bool, out map[string][]rt3Key, literals map[string]int) {
	for _, fn := range fns {
		if len(core.Calls(fn, c11RGet, c11RLP, c11RIns)) == 0 {
			continue
		}
		paths, complete := rtPaths(fn, 2)
		agg.add(rule, rt3Short(fn)+":enumeration", fn.Pos(), complete && len(paths) >= 1, fmt.Sprintf("%d feasible paths (complete=%v)", len(paths), complete))
		for _, p := range paths {
			for i, it := range p.Items {
				call, ok := it.In.(*ssa.Call)
				if !ok || !core.CallIs(&call.Call, c11RGet, c11RLP, c11RIns) || len(call.Call.Args) < 2 {
					continue
				}
				tree, _, known := rt3TreeOf(p, i, call.Call.Args[0])
				if !known {
					agg.add(rule, rt3Short(fn)+":tree-resolved", call.Pos(), false, "the radix tree "+core.Render(call.Call.Args[0])+" is not an element, at a constant index, of the tree array: which key form belongs to it cannot be established")
					continue
				}
				res := func(v ssa.Value) ssa.Value { return p.R(i, v) }
				K := core.StripConv(p.R(i, call.Call.Args[1]))
				if s, isK := core.ConstString(K); isK {
					literals[tree+"="+fmt.Sprintf("%q", s)]++
					continue
				}
				k := rt3Key{fn: fn, pos: call.Pos(), p: p, at: i, insert: insertSide, x: K}
				steps, root := rt3Chain(call.Call.Args[1], res)
				if b, isB := K.(*ssa.BinOp); isB && b.Op == token.ADD && len(steps) > 0 && strings.HasPrefix(steps[0], "append(") {
					if s, isK := core.ConstString(b.Y); isK {
						k.suffix, k.x = s, core.StripConv(p.R(i, b.X))
						steps = steps[1:]
					}
				}
				if insertSide && len(steps) > 0 {
					// writer-only: the innermost step strips the wildcard marker of the configured form
					if in := steps[len(steps)-1]; strings.HasPrefix(in, "slice(") || strings.HasPrefix(in, "strings.TrimSuffix(") || strings.HasPrefix(in, "strings.TrimPrefix(") {
						steps = steps[:len(steps)-1]
					}
				}
				rs := "parameter"
				if _, isPar := root.(*ssa.Parameter); !isPar {
					rs = core.Render(root)
				}
				k.base = "[" + rtJoin(steps) + "] of " + rs
				out[tree] = append(out[tree], k)
			}
		}
	}
}

// c12BasicKeys: the key form searched equals the key form stored, per tree and
// per class of key.
func c12BasicKeys(c *core.Ctx, lookupFns, insertFns []*ssa.Function) {
	const rule = "basic-key"
	agg := newRtAgg(c)
	look, ins := map[string][]rt3Key{}, map[string][]rt3Key{}
	lits := map[string]int{}
	rt3KeyForms(agg, rule, lookupFns, false, look, lits)
	rt3KeyForms(agg, rule, insertFns, true, ins, lits)
	trees := map[string]bool{}
	for t := range look {
		trees[t] = true
	}
	for t := range ins {
		trees[t] = true
	}
	var names []string
	for t := range trees {
		names = append(names, t)
	}
	sort.Strings(names)
	for _, t := range names {
		var pos token.Pos
		if len(look[t]) > 0 {
			pos = look[t][0].pos
		} else {
			pos = ins[t][0].pos
		}
		if len(look[t]) == 0 {
			agg.add(rule, t+":searched", pos, false, "keys are inserted into "+t+" but no lookup function searches it with a computed key: the rules stored there can never be the basic result")
			continue
		}
		if len(ins[t]) == 0 {
			agg.add(rule, t+":filled", pos, false, t+" is searched but never filled by the insert functions")
			continue
		}
		sufs := map[string]bool{}
		for _, k := range append(append([]rt3Key{}, look[t]...), ins[t]...) {
			if k.suffix != "" {
				sufs[k.suffix] = true
			}
		}
		if len(sufs) > 1 {
			agg.add(rule, t+":suffix", pos, false, "different constant suffixes are appended to keys of "+t+" on different paths; the key forms cannot be compared")
			continue
		}
		suf := ""
		for s := range sufs {
			suf = s
		}
		classes := []int{-1}
		if suf != "" {
			classes = []int{rt3Empty, rt3Ends, rt3Other}
		}
		for _, cls := range classes {
			cname := "any"
			if cls >= 0 {
				cname = rt3ClassName[cls]
			}
			forms := func(ks []rt3Key) (map[string]bool, token.Pos) {
				out := map[string]bool{}
				at := token.NoPos
				for _, k := range ks {
					if cls >= 0 && !rt3Feasible(k.p, k.at, k.x, suf, cls, 0) {
						continue
					}
					f := k.base
					if k.suffix != "" {
						f = "+" + fmt.Sprintf("%q", k.suffix) + " " + f
					}
					if !out[f] {
						at = k.pos
					}
					out[f] = true
				}
				return out, at
			}
			lf, lpos := forms(look[t])
			inf, _ := forms(ins[t])
			if len(inf) == 0 {
				continue // no key of this class is ever stored
			}
			key := t + ":" + cname
			ls, is := rt3Set(lf), rt3Set(inf)
			what := "keys"
			if cls >= 0 {
				what = "keys whose un-suffixed form is " + cname + " (suffix " + fmt.Sprintf("%q", suf) + ")"
			}
			switch {
			case len(lf) == 0:
				agg.add(rule, key, pos, false, what+" are stored in "+t+" as "+is+" but no lookup path searches with a key of that class")
			case len(lf) > 1 || len(inf) > 1:
				agg.add(rule, key, lpos, false, "for "+what+" the form of the key is not determined by the class: searched as "+ls+", stored as "+is+" (a guard the rule cannot interpret decides)")
			default:
				agg.add(rule, key, lpos, ls == is, "for "+what+" "+t+" is searched with "+ls+" but filled with "+is+": a request is compared with the configured rules in a different normal form, so the basic table hits or misses where the documented match rules say otherwise")
			}
		}
	}
	agg.flush()
	var ll []string
	for l, n := range lits {
		ll = append(ll, fmt.Sprintf("%s x%d", l, n))
	}
	sort.Strings(ll)
	c.Note("basic-key: constant keys (not compared): %s", strings.Join(ll, ", "))
	c.Min(rule, 8)
}

func rt3Set(m map[string]bool) string {
	var s []string
	for k := range m {
		s = append(s, k)
	}
	sort.Strings(s)
	return "{" + strings.Join(s, " | ") + "}"
}

// ---- basic-miss ---------------------------------------------------------------

type rt3Lookup struct {
	call  *ssa.Call
	at    int
	where string    // tree name or callee
	arr   ssa.Value // array the tree is an element of / receiver
	found bool
	known bool
}

// rt3DerivesFrom: v is (a type assertion / local copy of) the value result of call l.
func rt3DerivesFrom(p *rtPath, i int, v ssa.Value, l *ssa.Call) bool {
	for n := 0; n < 8 && v != nil; n++ {
		v = p.R(i, v)
		switch x := v.(type) {
		case *ssa.TypeAssert:
			v = x.X
			continue
		case *ssa.ChangeType:
			v = x.X
			continue
		case *ssa.MakeInterface:
			v = x.X
			continue
		case *ssa.Alloc:
			si := p.lastStore(i, func(s *ssa.Store) bool { return s.Addr == ssa.Value(x) })
			if si < 0 {
				return false
			}
			v, i = p.Items[si].In.(*ssa.Store).Val, si
			continue
		case *ssa.Extract:
			nres := 1
			if tup := l.Call.Signature().Results(); tup != nil {
				nres = tup.Len()
			}
			return x.Tuple == ssa.Value(l) && x.Index == nres-2
		}
		return false
	}
	return false
}

// c12BasicMiss: exits of the lookup functions.
func c12BasicMiss(c *core.Ctx, lookupFns []*ssa.Function) {
	const rule = "basic-miss"
	agg := newRtAgg(c)
	inSet := map[*ssa.Function]bool{}
	lastBool := func(f *ssa.Function) bool {
		r := f.Signature.Results()
		return r != nil && r.Len() >= 2 && core.TypeStr(r.At(r.Len()-1).Type()) == "bool"
	}
	for _, f := range lookupFns {
		if lastBool(f) {
			inSet[f] = true
		}
	}
	for _, fn := range lookupFns {
		if !inSet[fn] {
			continue
		}
		name := rt3Short(fn)
		paths, complete := rtPaths(fn, 2)
		agg.add(rule, name+":enumeration", fn.Pos(), complete && len(paths) >= 2, fmt.Sprintf("%d feasible paths (complete=%v)", len(paths), complete))
		for _, p := range paths {
			rets, rn := p.ret()
			if rn < 0 {
				agg.add(rule, name+":panic-exit", fn.Pos(), false, "a path through "+name+" ends in an explicit panic")
				continue
			}
			var ls []rt3Lookup
			for i, it := range p.Items {
				call, ok := it.In.(*ssa.Call)
				if !ok {
					continue
				}
				l := rt3Lookup{call: call, at: i}
				switch sc := call.Call.StaticCallee(); {
				case core.CallIs(&call.Call, c11RGet, c11RLP):
					t, arr, known := rt3TreeOf(p, i, call.Call.Args[0])
					if !known {
						t = core.Render(call.Call.Args[0])
					}
					l.where, l.arr = t, arr
				case sc != nil && inSet[sc] && sc != fn && len(call.Call.Args) > 0:
					l.where, l.arr = rt3Short(sc), call.Call.Args[0]
				default:
					continue
				}
				n := call.Call.Signature().Results().Len()
				if fl := rtExtractOf(call, n-1); fl != nil {
					l.found, l.known = p.factAfter(i, fl)
				}
				ls = append(ls, l)
			}
			flag := rets[len(rets)-1]
			fv, isConst := rtConstBool(flag)
			switch {
			case !isConst:
				// the verdict of one inner lookup is handed on unchanged
				ok := false
				if ex, isEx := flag.(*ssa.Extract); isEx {
					for _, l := range ls {
						n := l.call.Call.Signature().Results().Len()
						if ex.Tuple == ssa.Value(l.call) && ex.Index == n-1 && rt3DerivesFrom(p, rn, rets[0], l.call) {
							ok = true
						}
					}
				}
				agg.add(rule, name+":delegated", p.pos(rn), ok, name+" returns the found flag "+core.Render(flag)+" with "+core.Render(rets[0])+": not a constant verdict and not the (value, found) pair of one lookup made on the path")
			case fv:
				ok := false
				for _, l := range ls {
					if l.known && l.found && rt3DerivesFrom(p, rn, rets[0], l.call) {
						ok = true
					}
				}
				agg.add(rule, name+":hit-source", p.pos(rn), ok, name+" reports found with "+core.Render(rets[0])+", which is not the value of a lookup that reported found on this path")
			default:
				missed := 0
				for _, l := range ls {
					if l.known && !l.found {
						missed++
					}
				}
				rejected := false
				for _, l := range ls {
					if !l.known || !l.found {
						continue
					}
					rejected = true
					// a candidate was found and discarded: the rest of the same tree
					// (or the candidate's own sub-tree) must have been searched and missed
					ok := false
					for _, m := range ls {
						if m.call == l.call || !m.known || m.found {
							continue
						}
						same := m.where == l.where && m.arr != nil && m.arr == l.arr
						down := m.arr != nil && rt3DerivesFrom(p, m.at, m.arr, l.call)
						if !down {
							if a, isA := m.call.Call.Args[0].(*ssa.Alloc); isA {
								down = rt3DerivesFrom(p, m.at, a, l.call)
							}
						}
						if same || down {
							ok = true
						}
					}
					agg.add(rule, name+":miss-after-rejected:"+l.where, p.pos(rn), ok,
						name+" reports not-found on a path where the lookup in "+l.where+" had found an entry that was then rejected, without a further lookup in "+l.where+" (or below the entry) that missed: the remaining candidates — shorter prefixes, the catch-all key — are never consulted, the request misses the basic table although a configured rule matches it")
				}
				if !rejected {
					agg.add(rule, name+":miss-all-missed", p.pos(rn), missed >= 1, name+" reports not-found on a path where no lookup was made and reported not found")
				}
			}
		}
	}
	agg.flush()
	c.Min(rule, 10)
}

// c12BasicLookup: anchors and function sets of the two rules above.
func c12BasicLookup(c *core.Ctx) {
	get := c.P.Func(c11Pkg, "BasicRouteRuleTree.Get")
	ins := c.P.Func(c11Pkg, "BasicRouteRuleTree.Insert")
	if get == nil {
		c.Missing(c11Pkg + ".BasicRouteRuleTree.Get")
		return
	}
	if ins == nil {
		c.Missing(c11Pkg + ".BasicRouteRuleTree.Insert")
		return
	}
	lookupFns, insertFns := rt3PkgCallees(get), rt3PkgCallees(ins)
	for _, f := range append(append([]*ssa.Function{}, lookupFns...), insertFns...) {
		c.Analysed(core.FuncKey(f))
	}
	c12BasicKeys(c, lookupFns, insertFns)
	c12BasicMiss(c, lookupFns)
}
