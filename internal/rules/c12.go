package rules

import (
	"fmt"
	"go/constant"
	"go/token"
	"go/types"
	"strings"

	"golang.org/x/tools/go/ssa"

	"verif/internal/core"
)

// C12 — cluster lookup combines basic and advanced rules as documented.
func init() {
	const brt = "bfe_config/bfe_route_conf/route_rule_conf/basic_rule_tree.go"
	Register(&Rule{
		ID: "C12", Section: "4 C12",
		Technique: "feasible-path enumeration of HostTable.LookupCluster with phis resolved along each path (branch facts over SSA values, contradiction pruning); per-path classification basic={none,miss,advmode,real} x advanced={-,norules,match,nomatch} and value-flow of Route.ClusterName / Route.Error / the returned error; structural check of the rule-iteration index; reachability in ReverseProxy.ServeHTTP; census of writers of the error sentinels; loop-iteration must-pass (inside the natural loop over the configured rules no header-to-header path avoids the insertion of the current element) for the basic tree build and the advanced slice build; key-form agreement between the lookup and the insert side of every radix tree of the basic rule tree (normaliser chain plus, per class of key {empty, ends in the suffix, does not}, whether the constant suffix is appended, the classes of a path being derived from its branch facts over len/last byte/==\"\"/strings.HasSuffix/boolean helpers); exit analysis of the basic lookup functions (a not-found verdict after a found-and-rejected candidate needs a missed lookup in the same tree)",
		Meta: core.Meta{
			Level:       "other",
			Explanation: "Decides on every feasible path of bfe_route.HostTable.LookupCluster: (a) the basic tree consulted is productBasicRouteTree[req.Route.Product] (only under a successful map lookup), with the request host stripped of its port and URL.Path (\"\" when URL is nil, no nil dereference); (b) the basic result is stored into Route.ClusterName and nil returned exactly when Get reported found and the name was compared unequal to route_rule_conf.AdvancedMode, with no advanced lookup on that path; on every other path the final Route.ClusterName never derives from the basic result; (c) advanced rules are productAdvancedRouteTable[req.Route.Product], Condition.Match is invoked on elements of that slice through an index that ascends by one from 0 (configured order), after a Match that returned true no further Match is invoked and the cluster stored is the ClusterName of that same element; (d) when the product has no advanced rules / no rule matches, Route.ClusterName is \"\", Route.Error receives ErrNoProductRule / ErrNoMatchRule and that same non-nil sentinel is returned; nil is returned only with a cluster from (b) or (c); (e) the sentinels are assigned only by the package initialiser; BfeServer.findCluster and HostTable.Lookup/FindLocation propagate the error unchanged, in ReverseProxy.ServeHTTP no path leads from a failed findCluster to clusterInvoke or ClusterTable.Lookup (not forwarded) and the cluster looked up there is Route.ClusterName of the same request; BfeServer.Balance (TLS proxy mode) consults no balancer after a failed FindLocation; (f) configured order is preserved up to the lookup: convertAdvancedRule stores ClusterName and the built Cond of the i-th configured rule into element i of a slice of len(ruleFiles) published under the product name, no configured rule can be skipped (every completed iteration of the rule loop has stored both), RouteTableConf.AdvancedRuleMap/BasicRuleTree are the converters' results and HostTable's two tables are installed only by updateRouteTable from them; (g) the basic tree consulted holds every configured basic rule, whatever its cluster name — an ADVANCED_MODE entry must be found by Get so that it shadows a broader basic rule and hands the request to the advanced rules: in convertBasicRule no iteration of the loop over a product's rules completes without BasicRouteRuleTree.Insert(current element) on the tree that is published under the product in the returned map (every product iteration publishes a tree created inside it); BasicRouteRuleTree.Insert cannot report success before the host loop, every host iteration passes hostTrees.insert and the path loop, every path iteration passes pathTrees.insert(current path, *ruleConf.ClusterName) on the trees returned for that host; pathTrees.insert reports success only after a radix insertion whose value is its cluster parameter; nothing in route_rule_conf/bfe_route deletes radix entries; (h) the basic result is the rule the tree holds for the request, and a basic miss is a real miss: for every radix tree reached from BasicRouteRuleTree.Get and filled from BasicRouteRuleTree.Insert (identified by tree-array type and constant index) the key a lookup searches with has the same form as the key an insertion stores under — same normaliser chain (the writer-only strip of the wildcard marker aside) and, where a constant suffix (the trailing \"/\" of prefix paths) is appended on some paths, the same decision appended/not appended for each class of key: empty, ending in the suffix, not ending in it; the class of a path follows from its branch facts however the guard is spelled (len(x) against a constant, x == \"\", x[len(x)-1], strings.HasSuffix, a boolean helper of the module), so e.g. an empty request path is not turned into \"/\" on the lookup side only; every tree that is filled is also searched; in hostTrees.get, pathTrees.get and BasicRouteRuleTree.Get a constant found=true is returned only with the value of a lookup that reported found on that path, a handed-on verdict is the (value, found) pair of one inner lookup, and a constant not-found is returned only on paths where at least one lookup missed and where every lookup that had found an entry which was then rejected (the single-label test on a wildcard host) is followed up by a missed lookup in the same tree or below that entry (the any-host key \"\" is consulted before a multi-label host is declared a miss). Form-independence: the paths of LookupCluster continue through unexported functions and local closures of bfe_route (an extracted basic lookup, rule scan or error exit): parameters resolve to the arguments of the call, captured variables to the captured locations, results to the values returned on that path, and Route.* locations are named relative to LookupCluster's own request parameter whichever function writes them. Not covered: condition evaluation (C16-C18), the precedence order exact > wildcard > any inside the basic tree and which tree a rule class belongs to (C11), the radix library's Get/LongestPrefix semantics, key forms built by different helpers on the two sides (reported as not established), whether configuration loading rejects empty cluster names, modules that overwrite Route.ClusterName in later callbacks.",
			RuleText:    "obligations = one per (clause, path class) of LookupCluster, the Get call's operands, the iteration index of each Match site, each sentinel's writers, each propagating caller, the ServeHTTP reachability query and cluster operand, each store of convertAdvancedRule, each writer of the route tables, each loop of the basic tree build (rules, hosts, paths), the success exits of Insert and pathTrees.insert, the radix-delete census, one per (radix tree, key class) of the basic rule tree, one per (lookup function, exit class: hit-source, delegated, miss-all-missed, miss-after-rejected:<tree>)",
			Assumptions: []string{"condition.Condition.Match does not modify req.Route", "values re-loaded from req.Route.* between a store and a load in LookupCluster are not changed by another goroutine (a request is served by one goroutine)"},
		},
		Run: runC12,
		Mutants: []Mutant{
			{Name: "advanced-mode-not-excluded", File: "bfe_route/host_table.go", Old: "		if found && clusterName != route_rule_conf.AdvancedMode {", New: "		if found {", Expect: "basic-result"},
			{Name: "basic-miss-returned", File: "bfe_route/host_table.go", Old: "		if found && clusterName != route_rule_conf.AdvancedMode {", New: "		if found || clusterName != route_rule_conf.AdvancedMode {", Expect: "basic-result"},
			{Name: "shadow-removed-leaks-sentinel", File: "bfe_route/host_table.go", Old: "		clusterName, found := basicRules.Get(host, path)\n", New: "		var found bool\n		clusterName, found = basicRules.Get(host, path)\n", Expect: "basic-result"},
			{Name: "last-match-wins", File: "bfe_route/host_table.go", Old: "			clusterName = rule.ClusterName\n			break\n", New: "			clusterName = rule.ClusterName\n", Expect: "first-match"},
			{Name: "reverse-order", File: "bfe_route/host_table.go", Old: "	for _, rule := range rules {\n		if rule.Cond.Match(req) {", New: "	for i := len(rules) - 1; i >= 0; i-- {\n		rule := rules[i]\n		if rule.Cond.Match(req) {", Expect: "advanced-order"},
			{Name: "no-match-returns-nil", File: "bfe_route/host_table.go", Old: "		req.Route.Error = ErrNoMatchRule\n		return req.Route.Error", New: "		req.Route.Error = ErrNoMatchRule\n		return nil", Expect: "no-match-error"},
			{Name: "no-match-error-not-recorded", File: "bfe_route/host_table.go", Old: "		req.Route.ClusterName = \"\"\n		req.Route.Error = ErrNoMatchRule\n		return req.Route.Error", New: "		req.Route.ClusterName = \"\"\n		return ErrNoMatchRule", Expect: "no-match-error"},
			{Name: "wrong-product-table", File: "bfe_route/host_table.go", Old: "	rules, ok := t.productAdvancedRouteTable[req.Route.Product]", New: "	rules, ok := t.productAdvancedRouteTable[req.Route.HostTag]", Expect: "advanced-source"},
			{Name: "port-not-stripped", File: "bfe_route/host_table.go", Old: "		host := strings.SplitN(req.HttpRequest.Host, \":\", 2)[0]", New: "		host := strings.SplitN(req.HttpRequest.Host, \":\", 1)[0]", Expect: "basic-args"},
			{Name: "forward-after-lookup-failure", File: "bfe_server/reverseproxy.go", Old: "		log.Logger.Info(\"FindLocation error[%s] host[%s]\", err, basicReq.HttpRequest.Host)\n\n		// close connection\n		res = bfe_basic.CreateInternalSrvErrResp(basicReq)\n		action = closeAfterReply\n		goto response_got\n	}\n	clusterName = basicReq.Route.ClusterName", New: "		log.Logger.Info(\"FindLocation error[%s] host[%s]\", err, basicReq.HttpRequest.Host)\n	}\n	clusterName = basicReq.Route.ClusterName", Expect: "not-forwarded"},
			{Name: "findcluster-swallows-error", File: "bfe_server/find_location.go", Old: "	// look up clusterName\n	return serverConf.HostTable.LookupCluster(req)", New: "	// look up clusterName\n	serverConf.HostTable.LookupCluster(req)\n	return nil", Expect: "propagate"},
			{Name: "load-reverses-configured-order", File: "bfe_config/bfe_route_conf/route_rule_conf/route_table_load.go", Old: "			rules[i].ClusterName = *ruleFile.ClusterName\n", New: "			rules[len(ruleFiles)-1-i].ClusterName = *ruleFile.ClusterName\n", Expect: "configured-order"},
			{Name: "tls-balance-ignores-location-error", File: "bfe_server/find_location.go", Old: "	clusterName, err := srv.FindLocation(reqBasic)\n	if err != nil {\n		return nil, err\n	}\n", New: "	clusterName, err := srv.FindLocation(reqBasic)\n", Expect: "propagate|BfeServer.Balance"},
			{Name: "advanced-mode-rules-left-out-of-tree", File: "bfe_config/bfe_route_conf/route_rule_conf/route_table_load.go", Old: "			if err := ruleTrees.Insert(&ruleFile); err != nil {", New: "			if *ruleFile.ClusterName == AdvancedMode {\n				continue\n			}\n			if err := ruleTrees.Insert(&ruleFile); err != nil {", Expect: "basic-complete|convertBasicRule:every-rule"},
			{Name: "tree-insert-succeeds-early-for-sentinel", File: "bfe_config/bfe_route_conf/route_rule_conf/basic_rule_tree.go", Old: "	if len(ruleConf.Hostname) == 0 {\n		ruleConf.Hostname = append(ruleConf.Hostname, \"*\")\n	}", New: "	if ruleConf.ClusterName != nil && *ruleConf.ClusterName == AdvancedMode {\n		return nil\n	}\n	if len(ruleConf.Hostname) == 0 {\n		ruleConf.Hostname = append(ruleConf.Hostname, \"*\")\n	}", Expect: "basic-complete|Insert:no-early-success"},
			{Name: "path-loop-skips-sentinel", File: "bfe_config/bfe_route_conf/route_rule_conf/basic_rule_tree.go", Old: "			if err := pathTree.insert(path, *ruleConf.ClusterName); err != nil {", New: "			if *ruleConf.ClusterName == AdvancedMode && path != \"*\" {\n				continue\n			}\n			if err := pathTree.insert(path, *ruleConf.ClusterName); err != nil {", Expect: "basic-complete|Insert:every-path"},
			{Name: "path-insert-drops-sentinel", File: "bfe_config/bfe_route_conf/route_rule_conf/basic_rule_tree.go", Old: "	if old, updated := pt[treeType].Insert(key, cluster); updated {", New: "	if cluster == AdvancedMode {\n		return nil\n	}\n	if old, updated := pt[treeType].Insert(key, cluster); updated {", Expect: "basic-complete|pathTrees.insert:stores-cluster"},
			{Name: "sentinel-entries-deleted-after-build", File: "bfe_config/bfe_route_conf/route_rule_conf/route_table_load.go", Old: "		productRuleMap[product] = ruleList\n", New: "		for _, r := range ruleList {\n			if r.ClusterName == AdvancedMode {\n				for _, h := range r.Hostname {\n					ruleTrees.hosts[treeMatchExact].Delete(h)\n				}\n			}\n		}\n		productRuleMap[product] = ruleList\n", Expect: "basic-complete|no-radix-delete"},
			{Name: "advanced-rule-skipped-on-load", File: "bfe_config/bfe_route_conf/route_rule_conf/route_table_load.go", Old: "			rules[i].ClusterName = *ruleFile.ClusterName\n", New: "			if *ruleFile.ClusterName == AdvancedMode {\n				continue\n			}\n			rules[i].ClusterName = *ruleFile.ClusterName\n", Expect: "configured-order|convertAdvancedRule:every-rule"},
			{Name: "lookup-slash-appended-to-empty-path", File: brt, Old: "	if len(path) > 0 && path[len(path)-1] != '/' {", New: "	if !strings.HasSuffix(path, \"/\") {", Expect: "basic-key|pathTrees[1]:empty"},
			{Name: "insert-slash-appended-to-empty-prefix", File: brt, Old: "		if len(key) > 0 && key[len(key)-1] != '/' {", New: "		if !strings.HasSuffix(key, \"/\") {", Expect: "basic-key|pathTrees[1]:empty"},
			{Name: "lookup-slash-always-appended", File: brt, Old: "	if len(path) > 0 && path[len(path)-1] != '/' {\n		path = path + \"/\"\n	}", New: "	path = path + \"/\"", Expect: "basic-key|pathTrees[1]"},
			{Name: "insert-host-key-not-case-folded", File: brt, Old: "	key = strings.ToUpper(string_reverse.ReverseFqdnHost(key))", New: "	key = string_reverse.ReverseFqdnHost(key)", Expect: "basic-key|hostTrees"},
			{Name: "lookup-path-lowercased", File: brt, Old: "	// wildcard match\n	if _, value, found := pt[treeMatchWildcard].LongestPrefix(path); found {", New: "	// wildcard match\n	if _, value, found := pt[treeMatchWildcard].LongestPrefix(strings.ToLower(path)); found {", Expect: "basic-key|pathTrees[1]"},
			{Name: "wildcard-host-rejected-without-any-host-fallback", File: brt, Old: "		if strings.Contains(remainingPart, \".\") {\n			// not matched, try again to match empty string \"\", which match any hostname\n			if value, found := ht[treeMatchWildcard].Get(\"\"); found {\n				// matched with \"\"\n				return value.(pathTrees), true\n			}\n		} else {", New: "		if !strings.Contains(remainingPart, \".\") {", Expect: "basic-miss|hostTrees.get:miss-after-rejected"},
			{Name: "path-prefix-candidate-rejected-without-fallback", File: brt, Old: "	if _, value, found := pt[treeMatchWildcard].LongestPrefix(path); found {\n		return value.(string), true\n	}", New: "	if prefix, value, found := pt[treeMatchWildcard].LongestPrefix(path); found && prefix != \"\" {\n		return value.(string), true\n	}", Expect: "basic-miss|pathTrees.get:miss-after-rejected"},
			{Name: "host-class-found-then-dropped", File: brt, Old: "	if !found {\n		return \"\", false\n	}\n\n	// match path", New: "	if !found || path == \"\" {\n		return \"\", false\n	}\n\n	// match path", Expect: "basic-miss|BasicRouteRuleTree.Get:miss-after-rejected"},
			{Name: "exact-value-returned-for-wildcard-hit", File: brt, Old: "		} else {\n			// matched with wildcard host\n			return value.(pathTrees), true\n		}", New: "		} else {\n			// matched with wildcard host\n			exact, _ := ht[treeMatchExact].Get(key)\n			if exact == nil {\n				exact = value\n			}\n			return exact.(pathTrees), true\n		}", Expect: "basic-miss|hostTrees.get:hit-source"},
			{Name: "silent-lookup-guard-respelled", Silent: true, File: brt, Old: "	if len(path) > 0 && path[len(path)-1] != '/' {", New: "	if path != \"\" && !strings.HasSuffix(path, \"/\") {"},
			{Name: "silent-insert-guard-respelled", Silent: true, File: brt, Old: "	if path[len(path)-1] == '*' {\n		// wildcard path, remove trailing *\n		key = path[:len(path)-1]\n\n		// append slash if no trailing one\n		// /foo, /foo/ or /foo/bar can match with /foo*, but /foobar can not\n		if len(key) > 0 && key[len(key)-1] != '/' {", New: "	if strings.HasSuffix(path, \"*\") {\n		// wildcard path, remove trailing *\n		key = strings.TrimSuffix(path, \"*\")\n\n		// append slash if no trailing one\n		// /foo, /foo/ or /foo/bar can match with /foo*, but /foobar can not\n		if key != \"\" && !strings.HasSuffix(key, \"/\") {"},
			{Name: "silent-lookup-guard-in-helper", Silent: true, File: brt, Old: "	if len(path) > 0 && path[len(path)-1] != '/' {", New: "	needsSlash := func(s string) bool { return len(s) >= 1 && s[len(s)-1] != '/' }\n	if needsSlash(path) {"},
			{Name: "silent-any-host-looked-up-eagerly", Silent: true, File: brt, Old: "	if matchedPrefix, value, found := ht[treeMatchWildcard].LongestPrefix(key); found {\n", New: "	anyValue, anyFound := ht[treeMatchWildcard].Get(\"\")\n	if matchedPrefix, value, found := ht[treeMatchWildcard].LongestPrefix(key); found {\n		if anyFound && strings.Contains(strings.TrimPrefix(key, matchedPrefix), \".\") {\n			return anyValue.(pathTrees), true\n		}\n"},
			{Name: "silent-path-verdict-rebuilt", Silent: true, File: brt, Old: "	// match path\n	return pathTree.get(path)", New: "	// match path\n	name, ok := pathTree.get(path)\n	if !ok {\n		return \"\", false\n	}\n	return name, true"},
			{Name: "silent-index-loop-over-basic-rules", Silent: true, File: "bfe_config/bfe_route_conf/route_rule_conf/route_table_load.go", Old: "		for i, ruleFile := range ruleFiles {\n\n			if ruleFile.ClusterName == nil {\n				return nil, nil, fmt.Errorf(\"no cluster name in basic route rule", New: "		for i := 0; i < len(ruleFiles); i++ {\n			ruleFile := ruleFiles[i]\n\n			if ruleFile.ClusterName == nil {\n				return nil, nil, fmt.Errorf(\"no cluster name in basic route rule"},
			{Name: "silent-insert-through-helper", Silent: true, File: "bfe_config/bfe_route_conf/route_rule_conf/route_table_load.go", Old: "			if err := ruleTrees.Insert(&ruleFile); err != nil {\n				return nil, nil, err\n			}\n", New: "			addRule := func(t *BasicRouteRuleTree, r *BasicRouteRuleFile) error {\n				if r == nil {\n					return fmt.Errorf(\"nil rule\")\n				}\n				return t.Insert(r)\n			}\n			if err := addRule(ruleTrees, &ruleFile); err != nil {\n				return nil, nil, err\n			}\n"},
			{Name: "silent-continue-after-insert", Silent: true, File: "bfe_config/bfe_route_conf/route_rule_conf/route_table_load.go", Old: "			if err := ruleTrees.Insert(&ruleFile); err != nil {\n				return nil, nil, err\n			}\n", New: "			if err := ruleTrees.Insert(&ruleFile); err != nil {\n				return nil, nil, err\n			}\n			if ruleList[i].ClusterName == AdvancedMode {\n				continue\n			}\n"},
			{Name: "silent-rename-and-log", Silent: true, File: "bfe_route/host_table.go", Old: "	for _, rule := range rules {\n		if rule.Cond.Match(req) {\n			clusterName = rule.ClusterName\n			break\n		}\n	}", New: "	for _, advRule := range rules {\n		matched := advRule.Cond.Match(req)\n		if matched {\n			clusterName = advRule.ClusterName\n			break\n		}\n	}"},
			{Name: "silent-classic-loop", Silent: true, File: "bfe_route/host_table.go", Old: "	for _, rule := range rules {\n		if rule.Cond.Match(req) {\n			clusterName = rule.ClusterName\n			break\n		}\n	}", New: "	for i := 0; i < len(rules); i++ {\n		if rules[i].Cond.Match(req) {\n			clusterName = rules[i].ClusterName\n			break\n		}\n	}"},
			{Name: "silent-nested-ifs", Silent: true, File: "bfe_route/host_table.go", Old: "		if found && clusterName != route_rule_conf.AdvancedMode {\n			// set clusterName\n			req.Route.ClusterName = clusterName\n			return nil\n		}", New: "		if found {\n			if clusterName != route_rule_conf.AdvancedMode {\n				req.Route.ClusterName = clusterName\n				return nil\n			}\n		}"},
			{Name: "silent-error-exit-in-helper", Silent: true, File: "bfe_route/host_table.go", Old: "	if clusterName == \"\" {\n		req.Route.ClusterName = \"\"\n		req.Route.Error = ErrNoMatchRule\n		return req.Route.Error\n	}\n\n	// set clusterName\n	req.Route.ClusterName = clusterName\n\n	return nil\n}\n", New: "	if clusterName == \"\" {\n		return noCluster(req, ErrNoMatchRule)\n	}\n\n	// set clusterName\n	req.Route.ClusterName = clusterName\n\n	return nil\n}\n\n// noCluster records a failed cluster lookup in the request.\nfunc noCluster(req *bfe_basic.Request, cause error) error {\n	req.Route.ClusterName = \"\"\n	req.Route.Error = cause\n	return cause\n}\n"},
			{Name: "silent-rule-scan-in-closure", Silent: true, File: "bfe_route/host_table.go", Old: "	// matching route rules\n	for _, rule := range rules {\n		if rule.Cond.Match(req) {\n			clusterName = rule.ClusterName\n			break\n		}\n	}\n", New: "	// matching route rules\n	scan := func(list route_rule_conf.AdvancedRouteRules) string {\n		for _, rule := range list {\n			if rule.Cond.Match(req) {\n				return rule.ClusterName\n			}\n		}\n		return \"\"\n	}\n	clusterName = scan(rules)\n"},
		},
	})
}

// rtExtractOf: the Extract #idx of a tuple-valued instruction (nil when unused).
func rtExtractOf(t ssa.Value, idx int) ssa.Value {
	refs := t.Referrers()
	if refs == nil {
		return nil
	}
	for _, r := range *refs {
		if ex, ok := r.(*ssa.Extract); ok && ex.Index == idx {
			return ex
		}
	}
	return nil
}

// rtAscendingIndex: idx runs 0,1,2,… — either the go/ssa range-over-slice
// form (phi[-1, idx] + 1) or the classic loop form phi[0, phi + 1].
func rtAscendingIndex(idx ssa.Value) bool {
	isPlus1 := func(v ssa.Value, of ssa.Value) bool {
		b, ok := v.(*ssa.BinOp)
		if !ok || b.Op != token.ADD || b.X != of {
			return false
		}
		k, ok := rtConstInt(b.Y)
		return ok && k == 1
	}
	startsAt := func(phi *ssa.Phi, start int64, next func(ssa.Value) bool) bool {
		// one entry edge with the start value; every other edge (the back
		// edge, plus one per `continue`) carries the incremented index
		s, n := 0, 0
		for _, e := range phi.Edges {
			if k, ok := rtConstInt(e); ok && k == start {
				s++
			} else if next(e) {
				n++
			}
		}
		return s == 1 && n >= 1 && s+n == len(phi.Edges)
	}
	if b, ok := idx.(*ssa.BinOp); ok && b.Op == token.ADD {
		phi, ok := b.X.(*ssa.Phi)
		if !ok || !isPlus1(b, phi) {
			return false
		}
		return startsAt(phi, -1, func(e ssa.Value) bool { return e == idx })
	}
	if phi, ok := idx.(*ssa.Phi); ok {
		return startsAt(phi, 0, func(e ssa.Value) bool { return isPlus1(e, phi) })
	}
	return false
}

// rtElem describes the slice element a field is read from: directly
// (&slice[idx]).f, or through the per-iteration copy go/ssa makes for
// `for _, v := range slice` (Alloc holding *(&slice[idx])).
type rtElem struct {
	slice, idx ssa.Value
	version    int // item index identifying the iteration the element belongs to
	ok         bool
}

// blockEntry: index of the latest item at or before i that starts block b
// (identifies the loop iteration a value of b belongs to).
func (p *rtPath) blockEntry(i int, b *ssa.BasicBlock) int {
	if b == nil {
		return 0
	}
	var first ssa.Instruction
	for _, in := range b.Instrs {
		if _, ok := in.(*ssa.Phi); !ok {
			first = in
			break
		}
	}
	if first == nil {
		return 0
	}
	return p.lastExec(i, first)
}

func (p *rtPath) iteration(i int, idx ssa.Value) int {
	if in, ok := idx.(ssa.Instruction); ok {
		return p.blockEntry(i, in.Block())
	}
	return 0
}

// elemOf: base is the value a field is taken from, at item i.
func (p *rtPath) elemOf(i int, base ssa.Value) rtElem {
	switch b := base.(type) {
	case *ssa.IndexAddr:
		return rtElem{b.X, b.Index, p.iteration(i, b.Index), true}
	case *ssa.Alloc:
		st := p.lastStore(i, func(s *ssa.Store) bool { return s.Addr == b })
		if st < 0 {
			return rtElem{}
		}
		v := p.Items[st].In.(*ssa.Store).Val
		if ia, ok := rtLoadOf(v).(*ssa.IndexAddr); ok {
			return rtElem{ia.X, ia.Index, p.iteration(st, ia.Index), true}
		}
	case *ssa.UnOp:
		// value copy: (*(&slice[idx])).f as ssa.Field
		if ia, ok := rtLoadOf(b).(*ssa.IndexAddr); ok {
			return rtElem{ia.X, ia.Index, p.iteration(i, ia.Index), true}
		}
	}
	return rtElem{}
}

func runC12(c *core.Ctx) {
	const rt = "bfe_route"
	const rrc = "bfe_config/bfe_route_conf/route_rule_conf"
	const getFn = rrc + ".BasicRouteRuleTree.Get"
	const matchFn = "bfe_basic/condition.Condition.Match"
	fn := c.P.Func(rt, "HostTable.LookupCluster")
	if fn == nil {
		c.Missing(rt + ".HostTable.LookupCluster")
		return
	}
	c.Analysed(core.FuncKey(fn))
	sentinel := ""
	if k, ok := c.P.Obj(rrc, "AdvancedMode").(*types.Const); ok {
		if k.Val().Kind() == constant.String {
			sentinel = constant.StringVal(k.Val())
		}
	}
	if sentinel == "" {
		c.Missing(rrc + ".AdvancedMode")
		return
	}
	if c.P.Func(rrc, "BasicRouteRuleTree.Get") == nil {
		c.Missing(getFn)
		return
	}

	for _, g := range c.P.Region(fn) {
		c.Analysed(core.FuncKey(g))
	}
	// paths continue through private helpers of the package (an extracted basic lookup, an extracted rule scan)
	paths, complete := rtPathsR(fn, 3)
	c.Check("paths", "LookupCluster:enumeration", fn.Pos(), complete && len(paths) >= 4,
		fmt.Sprintf("%d feasible paths enumerated (complete=%v); at least 4 expected (basic hit, advanced mode, miss, no rules, match, no match)", len(paths), complete))
	c.Note("LookupCluster: %d feasible paths (loop unrolled to 2 iterations)", len(paths))
	agg := newRtAgg(c)
	mapLookupOn := func(v ssa.Value, field string) *ssa.Lookup {
		ex, ok := v.(*ssa.Extract)
		if !ok {
			return nil
		}
		lk, ok := ex.Tuple.(*ssa.Lookup)
		if !ok || !lk.CommaOk || rtFieldLoad(lk.X, field) == nil {
			return nil
		}
		return lk
	}
	const cnAddr, errAddr = "p1.Route.ClusterName", "p1.Route.Error"

	for _, p := range paths {
		p := p
		isProductKey := func(v ssa.Value) bool { return p.AP(len(p.Items), v) == "p1.Route.Product" }
		rets, rn := p.ret()
		if rn < 0 {
			agg.add("paths", "LookupCluster:panic-exit", fn.Pos(), false, "a path through LookupCluster ends in an explicit panic")
			continue
		}
		// ---- classify the basic part
		B := "none"
		var getRes0 ssa.Value
		gets := p.calls(getFn)
		if len(gets) > 1 {
			B = "multi"
		} else if len(gets) == 1 {
			gi := gets[0]
			call := p.Items[gi].In.(*ssa.Call)
			getRes0 = rtExtractOf(call, 0)
			found := rtExtractOf(call, 1)
			B = "unchecked"
			if found != nil {
				if pol, known := p.factAfter(gi, found); known && !pol {
					B = "miss"
				} else if known && pol {
					eq, known2 := p.eqFact(len(p.Items), func(v ssa.Value) bool { return v == getRes0 && v != nil }, func(v ssa.Value) bool { return rtConstStr(v, sentinel) })
					switch {
					case !known2:
						B = "found-unchecked"
					case eq:
						B = "advmode"
					default:
						B = "real"
					}
				}
			}
			// operands of Get
			recvOK, why := false, ""
			if lk := mapLookupOn(p.R(gi, call.Call.Args[0]), "productBasicRouteTree"); lk == nil {
				why = "receiver is " + core.Render(call.Call.Args[0]) + ", expected t.productBasicRouteTree[req.Route.Product]"
			} else if !isProductKey(lk.Index) {
				why = "basic tree selected by " + core.Render(lk.Index) + ", expected req.Route.Product"
			} else if pol, known := p.boolFact(gi, rtExtractOf(lk, 1)); !known || !pol {
				why = "basic tree used without a successful map lookup (nil tree dereference for products without basic rules)"
			} else {
				recvOK = true
			}
			agg.add("basic-args", "LookupCluster:tree", call.Pos(), recvOK, why)
			steps, root := rtChain(call.Call.Args[1], func(v ssa.Value) ssa.Value { return p.R(gi, v) })
			steps = rtCanonChain(steps)
			hostOK := len(steps) == 1 && steps[0] == "portstrip" && p.AP(gi, root) == "p1.HttpRequest.Host"
			if hostOK {
				// SplitN must be allowed to split: n >= 2 or negative
				if ia, ok := rtLoadOf(p.R(gi, call.Call.Args[1])).(*ssa.IndexAddr); ok {
					if sc, ok := ia.X.(*ssa.Call); ok && core.CallIs(&sc.Call, "strings.SplitN") {
						if n, ok := rtConstInt(sc.Call.Args[2]); !ok || n == 0 || n == 1 {
							hostOK = false
						}
					}
				}
			}
			agg.add("basic-args", "LookupCluster:host", call.Pos(), hostOK,
				"host operand of BasicRouteRuleTree.Get is "+rtJoin(steps)+" of "+core.Render(root)+"; expected the port-stripped req.HttpRequest.Host (first element of a split at \":\")")
			pv := p.R(gi, call.Call.Args[2])
			pathOK := false
			why = "path operand is " + core.Render(pv) + ", expected req.HttpRequest.URL.Path or \"\""
			if rtConstStr(pv, "") {
				pathOK = true
			} else if p.AP(gi, pv) == "p1.HttpRequest.URL.Path" {
				isNil, known := p.eqFact(gi, func(v ssa.Value) bool { return p.AP(gi, v) == "p1.HttpRequest.URL" }, rtIsNil)
				pathOK = known && !isNil
				why = "URL.Path is read on a path that did not establish req.HttpRequest.URL != nil"
			}
			agg.add("basic-args", "LookupCluster:path", call.Pos(), pathOK, why)
		}
		// ---- classify the advanced part
		A := "-"
		var advLk *ssa.Lookup
		advIdx := -1
		for i, it := range p.Items {
			if lk, ok := it.In.(*ssa.Lookup); ok && rtFieldLoad(lk.X, "productAdvancedRouteTable") != nil {
				advLk, advIdx = lk, i
			}
		}
		matches := p.calls(matchFn)
		firstTrue := -1
		for _, mi := range matches {
			if pol, known := p.factAfter(mi, p.Items[mi].In.(*ssa.Call)); known && pol && firstTrue < 0 {
				firstTrue = mi
			}
		}
		if advLk != nil {
			A = "nomatch"
			if okv := rtExtractOf(advLk, 1); okv != nil {
				if pol, known := p.factAfter(advIdx, okv); known && !pol {
					A = "norules"
				}
			}
			if firstTrue >= 0 {
				A = "match"
			}
		} else if len(matches) > 0 {
			A = "match-without-table"
		}
		class := "LookupCluster:basic=" + B + ",advanced=" + A
		aclass := "LookupCluster:advanced=" + A
		finalCN, cnIdx := p.storedAt(rn, cnAddr)
		retNil := len(rets) == 1 && rtIsNil(rets[0])

		// ---- (b) basic result
		switch {
		case B == "real":
			ok := A == "-" && len(matches) == 0 && retNil && finalCN != nil && finalCN == getRes0
			agg.add("basic-result", class, p.pos(rn), ok,
				fmt.Sprintf("the basic table named a real cluster (found, != %s) but the path does not end with Route.ClusterName = that name and a nil return (advanced=%s, returns nil=%v, ClusterName=%s)", sentinel, A, retNil, rtRender(finalCN)))
		case B == "none" || B == "miss" || B == "advmode":
			leaked := finalCN != nil && getRes0 != nil && finalCN == getRes0
			agg.add("basic-result", class, p.pos(rn), !leaked && A != "-",
				"the basic table did not yield a real cluster (basic="+B+") yet the path stores the basic result into Route.ClusterName or skips the advanced rules")
		default:
			agg.add("basic-result", class, p.pos(rn), false,
				"the result of BasicRouteRuleTree.Get is used on a path that did not test found and compare the name with "+sentinel+" (basic="+B+")")
		}
		if A == "-" {
			continue
		}
		// ---- (c) advanced source and order
		srcOK := isProductKey(advLk.Index)
		why := "advanced rules selected by " + core.Render(advLk.Index) + ", expected req.Route.Product"
		var firstElem rtElem
		for _, mi := range matches {
			call := p.Items[mi].In.(*ssa.Call)
			base := rtFieldLoad(p.R(mi, call.Call.Value), "Cond")
			el := rtElem{}
			if base != nil {
				el = p.elemOf(mi, base)
			}
			if !el.ok || p.R(mi, el.slice) != rtExtractOf(advLk, 0) {
				srcOK = false
				why = "Condition.Match is invoked on " + core.Render(call.Call.Value) + ", which is not the Cond of an element of the product's advanced rule slice"
				continue
			}
			if pol, known := p.boolFact(mi, rtExtractOf(advLk, 1)); !known || !pol {
				srcOK = false
				why = "advanced rules are iterated on a path where the product lookup did not succeed"
			}
			agg.add("advanced-order", "LookupCluster:match-index", call.Pos(), rtAscendingIndex(el.idx),
				"the index of the rule whose condition is evaluated ("+core.Render(el.idx)+") does not ascend by one from 0: rules are not tried in configured order")
			if mi == firstTrue {
				firstElem = el
			}
		}
		agg.add("advanced-source", aclass, p.pos(advIdx), srcOK, why)
		// ---- first match wins
		if A == "match" {
			later := 0
			for _, mi := range matches {
				if mi > firstTrue {
					later++
				}
			}
			empty, emptyKnown := false, false
			nameOK := false
			var name ssa.Value
			// the value tested against "" / stored: ClusterName of the matched element
			for i := firstTrue; i < len(p.Items); i++ {
				if u, ok := p.Items[i].In.(*ssa.UnOp); ok {
					if base := rtFieldLoad(u, "ClusterName"); base != nil {
						if el := p.elemOf(i, base); el.ok && el.slice == firstElem.slice && el.idx == firstElem.idx && el.version == firstElem.version {
							name = u
						}
					}
				}
			}
			if name != nil {
				empty, emptyKnown = p.eqFact(len(p.Items), func(v ssa.Value) bool { return v == name }, func(v ssa.Value) bool { return rtConstStr(v, "") })
				nameOK = true
			}
			switch {
			case later > 0:
				agg.add("first-match", aclass, p.pos(firstTrue), false, fmt.Sprintf("after a rule's condition matched, %d further Condition.Match call(s) are made on the same path: a later rule can override the first match", later))
			case !nameOK:
				agg.add("first-match", aclass, p.pos(firstTrue), false, "after a rule matched, its ClusterName is not read (the cluster does not come from the matched rule)")
			case emptyKnown && empty:
				// matched rule with an empty name: must be rejected like no match
				ev, _ := p.storedAt(rn, errAddr)
				ok := !retNil && rtConstStr(finalCN, "") && ev != nil && rtGlobalLoad(ev, rt, "ErrNoMatchRule")
				agg.add("no-match-error", aclass+",empty-name", p.pos(rn), ok, "a matched rule with an empty cluster name must end in Route.ClusterName=\"\", Route.Error=ErrNoMatchRule and a non-nil return")
			default:
				ok := retNil && finalCN == name && cnIdx > firstTrue
				agg.add("first-match", aclass, p.pos(rn), ok, "after the first matching rule the path must store that rule's ClusterName into Route.ClusterName and return nil; stores "+rtRender(finalCN)+", returns nil="+fmt.Sprint(retNil))
			}
			continue
		}
		// ---- (d) error exits
		want := "ErrNoMatchRule"
		rule := "no-match-error"
		if A == "norules" {
			want, rule = "ErrNoProductRule", "no-rules-error"
			agg.add("no-rules-error", aclass+",no-match-call", p.pos(rn), len(matches) == 0, "Condition.Match is invoked although the product has no advanced rule list")
		}
		ev, _ := p.storedAt(rn, errAddr)
		var rv ssa.Value
		if len(rets) == 1 {
			rv = rets[0]
			if p.AP(rn, rv) == errAddr && ev != nil {
				rv = ev // return req.Route.Error right after storing it
			}
		}
		okCN := rtConstStr(finalCN, "")
		okErr := ev != nil && rtGlobalLoad(ev, rt, want)
		okRet := rv != nil && rtGlobalLoad(rv, rt, want)
		agg.add(rule, aclass, p.pos(rn), okCN && okErr && okRet,
			fmt.Sprintf("no cluster was found (advanced=%s): expected Route.ClusterName=\"\" (got %s), Route.Error=%s (got %s) and the same sentinel returned (got %s)", A, rtRender(finalCN), want, rtRender(ev), rtRender(rv)))
	}
	agg.flush()
	c.Min("basic-result", 4)
	c.Min("basic-args", 3)
	c.Min("advanced-source", 2)
	c.Min("advanced-order", 1)
	c.Min("first-match", 1)
	c.Min("no-match-error", 1)
	c.Min("no-rules-error", 1)

	// ---- (e) sentinels are written only by the initialiser and are non-nil
	for _, g := range []string{"ErrNoMatchRule", "ErrNoProductRule"} {
		ws, ok := rtGlobalWriters(c, rt, g)
		if !ok {
			c.Missing(rt + "." + g)
			continue
		}
		c.Check("sentinel-writers", g, token.NoPos, len(ws) == 0, g+" is reassigned by "+strings.Join(ws, ", ")+": the error returned for an unroutable request could become nil")
		c.Check("sentinel-writers", g+":initialised", token.NoPos, rtGlobalInitNonNil(c, rt, g), g+" is not initialised with errors.New/fmt.Errorf in the package initialiser")
	}
	c.Min("sentinel-writers", 4)

	// ---- propagation to the proxy
	rtPropagation(c, "BfeServer.findCluster", rt+".HostTable.LookupCluster", "findCluster")
	rtNotForwarded(c, "bfe_server.BfeServer.findCluster", "findCluster",
		[]string{"bfe_server.ReverseProxy.clusterInvoke", "bfe_route.ClusterTable.Lookup"})
	// HostTable.Lookup: the error is reported in the returned route, without a cluster
	if lf := c.P.Func(rt, "HostTable.Lookup"); lf == nil {
		c.Missing(rt + ".HostTable.Lookup")
	} else {
		c.Analysed(core.FuncKey(lf))
		ps, _ := rtPaths(lf, 2)
		a2 := newRtAgg(c)
		for _, p := range ps {
			_, rn := p.ret()
			if rn < 0 {
				continue
			}
			// the returned struct variable
			var rv ssa.Value
			if r := p.Items[rn].In.(*ssa.Return); len(r.Results) == 1 {
				rv = rtLoadOf(r.Results[0])
			}
			for _, ci := range p.calls(rt + ".HostTable.LookupCluster") {
				call := p.Items[ci].In.(*ssa.Call)
				isNil, known := p.eqFact(len(p.Items), func(v ssa.Value) bool { return v == ssa.Value(call) }, rtIsNil)
				if !known || rv == nil {
					a2.add("propagate", "HostTable.Lookup:cluster-error-tested", call.Pos(), false, "the result of LookupCluster is not tested against nil, or the returned route is not a local struct variable")
					continue
				}
				ev, _ := p.storedField(rn, rv, "Error")
				cn, _ := p.storedField(rn, rv, "ClusterName")
				if isNil {
					a2.add("propagate", "HostTable.Lookup:cluster-ok", call.Pos(), cn != nil && rtAP(cn) == "p1.Route.ClusterName" && ev == nil, "after a successful LookupCluster the returned route must carry req.Route.ClusterName and no error")
				} else {
					a2.add("propagate", "HostTable.Lookup:cluster-error", call.Pos(), ev == ssa.Value(call) && cn == nil, "after a failed LookupCluster the returned route must carry that error and no cluster name")
				}
			}
		}
		a2.flush()
	}
	// BfeServer.FindLocation: error => ("", err)
	if ff := c.P.Func("bfe_server", "BfeServer.FindLocation"); ff == nil {
		c.Missing("bfe_server.BfeServer.FindLocation")
	} else {
		c.Analysed(core.FuncKey(ff))
		ps, _ := rtPaths(ff, 2)
		a3 := newRtAgg(c)
		for _, p := range ps {
			rets, rn := p.ret()
			if rn < 0 || len(rets) != 2 {
				continue
			}
			for _, ci := range p.calls("bfe_server.BfeServer.findCluster") {
				call := p.Items[ci].In.(*ssa.Call)
				isNil, known := p.eqFact(len(p.Items), func(v ssa.Value) bool { return v == ssa.Value(call) }, rtIsNil)
				switch {
				case !known:
					a3.add("propagate", "BfeServer.FindLocation:cluster-error-tested", call.Pos(), false, "the result of findCluster is not tested against nil")
				case isNil:
					a3.add("propagate", "BfeServer.FindLocation:cluster-ok", call.Pos(), rtAP(rets[0]) == "p1.Route.ClusterName" && rtIsNil(rets[1]), "after a successful findCluster FindLocation must return request.Route.ClusterName, nil")
				default:
					a3.add("propagate", "BfeServer.FindLocation:cluster-error", call.Pos(), rets[1] == ssa.Value(call) && rtConstStr(rets[0], ""), "after a failed findCluster FindLocation must return \"\" and that error; returns "+core.Render(rets[0])+", "+core.Render(rets[1]))
				}
			}
		}
		a3.flush()
	}
	c.Min("propagate", 5)
	c.Min("not-forwarded", 2)
	c12Balance(c)
	c12ForwardArg(c)
	c12ConfiguredOrder(c)
	c12AdvancedComplete(c)
	c12Tables(c)
	c12BasicComplete(c)
	c12BasicLookup(c)
}

// c12Balance: BfeServer.Balance (TLS proxy mode) does not select a backend
// after a failed FindLocation.
func c12Balance(c *core.Ctx) {
	fn := c.P.Func("bfe_server", "BfeServer.Balance")
	if fn == nil {
		c.Missing("bfe_server.BfeServer.Balance")
		return
	}
	c.Analysed(core.FuncKey(fn))
	ps, complete := rtPaths(fn, 2)
	agg := newRtAgg(c)
	n := 0
	for _, p := range ps {
		rets, rn := p.ret()
		if rn < 0 || len(rets) != 2 {
			continue
		}
		for _, ci := range p.calls("bfe_server.BfeServer.FindLocation") {
			n++
			call := p.Items[ci].In.(*ssa.Call)
			errv := rtExtractOf(call, 1)
			isNil, known := p.eqFactAfter(ci, func(v ssa.Value) bool { return v == errv && v != nil }, rtIsNil)
			later := 0
			for _, j := range p.calls("bfe_balance.BalTable.Lookup", "bfe_balance/bal_gslb.BalanceGslb.Balance") {
				if j > ci {
					later++
				}
			}
			switch {
			case !known:
				agg.add("propagate", "BfeServer.Balance:location-error-tested", call.Pos(), later == 0, "a balancer is consulted although the error of FindLocation was not tested")
			case !isNil:
				agg.add("propagate", "BfeServer.Balance:location-error", call.Pos(), later == 0 && rets[1] == errv && rtIsNil(rets[0]), "after a failed FindLocation Balance must return (nil, err) without consulting a balancer")
			default:
				arg := ssa.Value(nil)
				for _, j := range p.calls("bfe_balance.BalTable.Lookup") {
					arg = p.R(j, p.Items[j].In.(*ssa.Call).Call.Args[1])
				}
				agg.add("propagate", "BfeServer.Balance:location-ok", call.Pos(), arg != nil && arg == rtExtractOf(call, 0), "the balancer must be looked up by the cluster name FindLocation returned")
			}
		}
	}
	agg.add("propagate", "BfeServer.Balance:enumeration", fn.Pos(), complete && n >= 2, fmt.Sprintf("%d FindLocation executions over %d paths (complete=%v)", n, len(ps), complete))
	agg.flush()
}

// c12ForwardArg: the cluster ServeHTTP looks up and forwards to is
// basicReq.Route.ClusterName of the request findCluster was called with.
func c12ForwardArg(c *core.Ctx) {
	sh := c.P.Func("bfe_server", "ReverseProxy.ServeHTTP")
	if sh == nil {
		return // reported by rtNotForwarded
	}
	fcs := core.Calls(sh, "bfe_server.BfeServer.findCluster")
	lks := core.Calls(sh, "bfe_route.ClusterTable.Lookup")
	if len(fcs) != 1 || len(lks) == 0 {
		c.Check("forward-cluster", "ServeHTTP:lookup-sites", sh.Pos(), false, fmt.Sprintf("expected one findCluster call and at least one ClusterTable.Lookup call in ServeHTTP, found %d and %d", len(fcs), len(lks)))
		return
	}
	reqRoot, _ := rtPathOf(fcs[0].Common().Args[1])
	for _, lk := range lks {
		arg := lk.Common().Args[1]
		var srcs []ssa.Value
		seen := map[ssa.Value]bool{}
		var collect func(v ssa.Value)
		collect = func(v ssa.Value) {
			if seen[v] {
				return
			}
			seen[v] = true
			if a, ok := rtLoadOf(v).(*ssa.Alloc); ok {
				if refs := a.Referrers(); refs != nil {
					for _, r := range *refs {
						if st, ok := r.(*ssa.Store); ok && st.Addr == ssa.Value(a) {
							collect(st.Val)
						}
					}
				}
				return
			}
			if ph, ok := v.(*ssa.Phi); ok {
				for _, e := range ph.Edges {
					collect(e)
				}
				return
			}
			srcs = append(srcs, v)
		}
		collect(arg)
		ok := len(srcs) > 0
		bad := ""
		for _, s := range srcs {
			if rtConstStr(s, "") { // zero value of the variable before assignment
				continue
			}
			root, fields := rtPathOf(s)
			if root != reqRoot || strings.Join(fields, ".") != "Route.ClusterName" {
				ok, bad = false, core.Render(s)
			}
		}
		c.Check("forward-cluster", "ServeHTTP:cluster-operand", lk.Pos(), ok, "the cluster looked up for forwarding may be "+bad+"; expected only Route.ClusterName of the request that findCluster resolved")
	}
	c.Min("forward-cluster", 1)
}

// c12ConfiguredOrder: convertAdvancedRule keeps the configured order: the
// i-th configured rule becomes the i-th element of the product's slice.
func c12ConfiguredOrder(c *core.Ctx) {
	const rrc = "bfe_config/bfe_route_conf/route_rule_conf"
	fn := c.P.Func(rrc, "convertAdvancedRule")
	if fn == nil {
		c.Missing(rrc + ".convertAdvancedRule")
		return
	}
	c.Analysed(core.FuncKey(fn))
	ps, complete := rtPaths(fn, 2)
	agg := newRtAgg(c)
	agg.add("configured-order", "convertAdvancedRule:enumeration", fn.Pos(), complete && len(ps) >= 2, fmt.Sprintf("%d feasible paths (complete=%v)", len(ps), complete))
	for _, p := range ps {
		rets, rn := p.ret()
		if rn < 0 || len(rets) != 2 {
			continue
		}
		var result ssa.Value
		for i, it := range p.Items {
			switch x := it.In.(type) {
			case *ssa.Store:
				fa, ok := x.Addr.(*ssa.FieldAddr)
				if !ok {
					continue
				}
				dst, ok := fa.X.(*ssa.IndexAddr)
				if !ok {
					continue
				}
				fo := core.FieldObj(fa.X, fa.Field)
				if fo == nil || (fo.Name() != "ClusterName" && fo.Name() != "Cond") {
					continue
				}
				_, isMake := p.R(i, dst.X).(*ssa.MakeSlice)
				// the configured rule the value comes from
				src := p.R(i, x.Val)
				if fo.Name() == "Cond" {
					if call := rtResultOf(src, 0, "bfe_basic/condition.Build"); call != nil {
						src = call.Call.Args[0]
					} else {
						src = nil
					}
				}
				ok = false
				if src != nil {
					root, fields := rtPathOf(src)
					el := p.elemOf(i, root)
					ok = isMake && len(fields) == 1 && fields[0] == fo.Name() && el.ok && el.idx == dst.Index &&
						el.version == p.iteration(i, dst.Index) && rtAscendingIndex(dst.Index)
					if ok {
						ex, isEx := el.slice.(*ssa.Extract)
						_, isNext := ssa.Value(nil), false
						if isEx {
							_, isNext = ex.Tuple.(*ssa.Next)
						}
						ok = isEx && isNext && ex.Index == 2
					}
				}
				agg.add("configured-order", "convertAdvancedRule:"+fo.Name()+"-index", x.Pos(), ok, "element i of the product's advanced rule slice must receive "+fo.Name()+" of the i-th configured rule (same ascending index on both sides); otherwise first-match order differs from the configured order")
			case *ssa.MapUpdate:
				mm, isMake := x.Map.(*ssa.MakeMap)
				ms, isSlice := p.R(i, x.Value).(*ssa.MakeSlice)
				ok := isMake && isSlice
				if ok {
					result = mm
					key, isEx := x.Key.(*ssa.Extract)
					ok = isEx && key.Index == 1
					if ok {
						nx, isNext := key.Tuple.(*ssa.Next)
						ln, isCall := ms.Len.(*ssa.Call)
						ok = isNext && isCall && c10IsLenOf(ln, rtExtractOf(nx, 2))
					}
				}
				agg.add("configured-order", "convertAdvancedRule:publish", x.Pos(), ok, "each product's rule slice (one element per configured rule) must be stored under the product's name")
			}
		}
		if rtIsNil(rets[1]) {
			_, isMake := rets[0].(*ssa.MakeMap)
			agg.add("configured-order", "convertAdvancedRule:result", p.pos(rn), isMake && (result == nil || result == rets[0]), "on success the map that was filled must be returned")
		}
	}
	agg.flush()
	c.Min("configured-order", 5)
}

// c12Tables: the tables LookupCluster reads are installed only by
// updateRouteTable from the loaded configuration, whose fields come from the
// two converters.
func c12Tables(c *core.Ctx) {
	const rt = "bfe_route"
	const rrc = "bfe_config/bfe_route_conf/route_rule_conf"
	all := c.P.SrcFuncs("")
	for f, src := range map[string]string{"productBasicRouteTree": "p1.BasicRuleTree", "productAdvancedRouteTable": "p1.AdvancedRuleMap"} {
		fld, ok := c.P.Obj(rt, "HostTable."+f).(*types.Var)
		if !ok {
			c.Missing(rt + ".HostTable." + f)
			continue
		}
		sts := core.FieldStores(all, fld)
		good, why := len(sts) >= 1, "no writer found"
		for _, st := range sts {
			if k := core.FuncKey(st.Fn); k != rt+".HostTable.updateRouteTable" {
				good, why = false, "written by "+k
			} else if rtAP(st.Store.Val) != src {
				good, why = false, "receives "+core.Render(st.Store.Val)
			}
		}
		c.Check("table-writers", "HostTable."+f, fld.Pos(), good, "HostTable."+f+" must be installed only by updateRouteTable from conf."+strings.TrimPrefix(src, "p1.")+"; "+why)
	}
	for f, src := range map[string]struct {
		fn  string
		idx int
	}{"BasicRuleTree": {rrc + ".convertBasicRule", 1}, "AdvancedRuleMap": {rrc + ".convertAdvancedRule", 0}} {
		fld, ok := c.P.Obj(rrc, "RouteTableConf."+f).(*types.Var)
		if !ok {
			c.Missing(rrc + ".RouteTableConf." + f)
			continue
		}
		sts := core.FieldStores(all, fld)
		good, why := len(sts) >= 1, "no writer found"
		for _, st := range sts {
			if rtResultOf(st.Store.Val, src.idx, src.fn) == nil {
				good, why = false, core.FuncKey(st.Fn)+" stores "+core.Render(st.Store.Val)
			}
		}
		c.Check("table-writers", "RouteTableConf."+f, fld.Pos(), good, "RouteTableConf."+f+" must be the result of "+src.fn+"; "+why)
	}
	rtUpdateCalls(c, "table-writers", "updateRouteTable", 3)
	c.Min("table-writers", 5)
}

func rtRender(v ssa.Value) string {
	if v == nil {
		return "<nothing>"
	}
	return core.Render(v)
}

// rtGlobalInitNonNil: the package initialiser stores the result of
// errors.New / fmt.Errorf into the global.
func rtGlobalInitNonNil(c *core.Ctx, pkgRel, name string) bool {
	sp := c.P.SPkg[pkgRel]
	if sp == nil {
		return false
	}
	g, ok := sp.Members[name].(*ssa.Global)
	if !ok {
		return false
	}
	initFn := sp.Func("init")
	if initFn == nil {
		return false
	}
	found := false
	core.Instrs(initFn, func(in ssa.Instruction) {
		if st, ok := in.(*ssa.Store); ok && st.Addr == g {
			if call, ok := core.StripConv(st.Val).(*ssa.Call); ok && core.CallIs(&call.Call, "errors.New", "fmt.Errorf") {
				found = true
			} else {
				found = false
			}
		}
	})
	return found
}

// rtPropagation: the bfe_server wrapper returns the lookup's result unchanged.
func rtPropagation(c *core.Ctx, wrapper, callee, short string) {
	wf := c.P.Func("bfe_server", wrapper)
	if wf == nil {
		c.Missing("bfe_server." + wrapper)
		return
	}
	c.Analysed(core.FuncKey(wf))
	why := rtReturnsCallResult(wf, callee)
	c.Check("propagate", short+":returns-lookup-result", wf.Pos(), why == "", short+" must return the error of "+callee+" unchanged; "+why)
}

// rtNotForwarded: in ReverseProxy.ServeHTTP the branch taken when `finder`
// returned a non-nil error reaches none of the forbidden calls.
func rtNotForwarded(c *core.Ctx, finder, short string, forbidden []string) {
	sh := c.P.Func("bfe_server", "ReverseProxy.ServeHTTP")
	if sh == nil {
		c.Missing("bfe_server.ReverseProxy.ServeHTTP")
		return
	}
	c.Analysed(core.FuncKey(sh))
	calls := core.Calls(sh, finder)
	c.Check("not-forwarded", "ServeHTTP:"+short+"-sites", sh.Pos(), len(calls) == 1, fmt.Sprintf("expected one call of %s in ServeHTTP, found %d", short, len(calls)))
	for _, ci := range calls {
		call, ok := ci.(*ssa.Call)
		if !ok {
			c.Check("not-forwarded", "ServeHTTP:"+short+"-error-branch", ci.Pos(), false, short+" is deferred or run as a goroutine")
			continue
		}
		b := call.Block()
		ifi, ok := b.Instrs[len(b.Instrs)-1].(*ssa.If)
		var errBlock *ssa.BasicBlock
		if ok {
			if bo, ok := ifi.Cond.(*ssa.BinOp); ok && (bo.Op == token.NEQ || bo.Op == token.EQL) {
				x, y := bo.X, bo.Y
				if rtIsNil(x) {
					x, y = y, x
				}
				// x is the call result, directly or re-loaded from the variable it was stored to in this block
				isRes := x == ssa.Value(call)
				if a := rtLoadOf(x); a != nil && !isRes {
					for _, in := range b.Instrs {
						if st, ok := in.(*ssa.Store); ok && st.Addr == a {
							isRes = st.Val == ssa.Value(call)
						}
					}
				}
				if isRes && rtIsNil(y) {
					if bo.Op == token.NEQ {
						errBlock = b.Succs[0]
					} else {
						errBlock = b.Succs[1]
					}
				}
			}
		}
		if errBlock == nil {
			c.Check("not-forwarded", "ServeHTTP:"+short+"-error-branch", call.Pos(), false, "the error returned by "+short+" is not tested against nil right after the call")
			continue
		}
		isForbidden := func(in ssa.Instruction) bool {
			cc, ok := in.(ssa.CallInstruction)
			return ok && core.CallIs(cc.Common(), forbidden...)
		}
		var bad ssa.Instruction
		if isForbidden(errBlock.Instrs[0]) {
			bad = errBlock.Instrs[0]
		} else {
			bad = core.ReachAvoiding(sh, errBlock.Instrs[0], nil, isForbidden)
		}
		det := ""
		if bad != nil {
			det = "after " + short + " failed, " + core.CalleeKey(bad.(ssa.CallInstruction).Common()) + " is still reachable: the request would be routed/forwarded without a valid lookup result"
		}
		c.Check("not-forwarded", "ServeHTTP:"+short+"-error-branch", call.Pos(), bad == nil, det)
		// the forbidden calls exist at all (anti-vacuity of the reachability query)
		n := 0
		core.Instrs(sh, func(in ssa.Instruction) {
			if isForbidden(in) {
				n++
			}
		})
		c.Check("not-forwarded", "ServeHTTP:"+short+"-forward-sites", sh.Pos(), n >= 1, "no forwarding call ("+strings.Join(forbidden, ", ")+") found in ServeHTTP: the reachability rule has nothing to exclude")
	}
}
